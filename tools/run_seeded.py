#!/usr/bin/env python3
"""Runs the owning check (quick tier) against every seeded change in /verif/seeded/*,
each applied in a scratch worktree of /repo (VERIF_REPO), and writes seeded/RESULTS.md.
Usage: tools/run_seeded.py [name-prefix ...]      (scratch worktrees are removed afterwards)
       tools/run_seeded.py --control               (every check on an unpatched scratch worktree: all must pass)"""
import json, os, subprocess, sys, shutil, time
HERE = os.path.dirname(os.path.dirname(os.path.abspath(__file__)))
def sh(cmd, **kw):
    return subprocess.run(cmd, shell=True, capture_output=True, text=True, **kw)
def control():
    """Every check against an UNPATCHED scratch worktree: must exit 0.  A check that reports a
    violation here depends on where the tree lives (or on state outside it), and every 'caught'
    it reports for a seeded change is worthless - this happened once (C18, catalogue paths)."""
    wt = "/tmp/seed_control"
    sh("git -C /repo worktree remove --force %s" % wt)
    sh("git -C /repo worktree add -q --detach %s HEAD" % wt)
    out = {}
    for i in range(1, 21):
        p = "C%02d" % i
        c = sh("cd %s && VERIF_REPO=%s VERIF_SEED=%s timeout 1500 ./check %s --tier quick" % (HERE, wt, os.environ.get("VERIF_SEED", "0"), p))
        out[p] = c.returncode
        print(p, c.returncode, flush=True)
        for l in c.stdout.splitlines():
            if l.startswith("VIOLATION") and "replay=" in l:
                f = l.split("replay=")[1].strip()
                if os.path.exists(f) and len(os.path.basename(f)) == 17:
                    os.remove(f)
    sh("git -C /repo worktree remove --force %s" % wt)
    shutil.rmtree(wt, ignore_errors=True)
    json.dump(out, open(os.path.join(HERE, "seeded", "control.json"), "w"), indent=1)
    return 0 if all(v == 0 for v in out.values()) else 1
def main():
    if sys.argv[1:] == ["--control"]:
        sys.exit(control())
    want = sys.argv[1:]
    rows = []
    res_file = os.path.join(HERE, "seeded", "results.json")
    old = json.load(open(res_file)) if os.path.exists(res_file) else {}
    for name in sorted(os.listdir(os.path.join(HERE, "seeded"))):
        d = os.path.join(HERE, "seeded", name)
        if not os.path.isdir(d):
            continue
        if want and not any(name.startswith(w) for w in want):
            continue
        meta = json.load(open(os.path.join(d, "meta.json")))
        pid = meta["property"]
        wt = "/tmp/seed_%s" % name
        sh("git -C /repo worktree remove --force %s" % wt)
        r = sh("git -C /repo worktree add -q --detach %s HEAD" % wt)
        a = sh("git -C %s apply %s/patch.diff" % (wt, d))
        if a.returncode:
            old[name] = {"property": pid, "result": "patch does not apply: " + a.stderr.strip()[:200]}
            sh("git -C /repo worktree remove --force %s" % wt)
            continue
        also = meta.get("also_check", [])
        out = {}
        for p in [pid] + also:
            t0 = time.time()
            c = sh("cd %s && VERIF_REPO=%s VERIF_SEED=%s timeout 1500 ./check %s --tier quick" % (HERE, wt, os.environ.get("VERIF_SEED", "0"), p))
            lines = [l for l in c.stdout.splitlines() if l.startswith("VIOLATION") or l.startswith("  clause=")]
            clauses = sorted({l.split("clause=")[1].split(" ")[0] for l in lines if "clause=" in l})
            out[p] = {"exit": c.returncode, "violations": len([l for l in lines if l.startswith("VIOLATION")]),
                      "clauses": clauses, "wall_s": round(time.time() - t0, 1)}
            # replays written by the mutated run are not evidence about /repo: drop them
            for l in lines:
                if l.startswith("VIOLATION") and "replay=" in l:
                    f = l.split("replay=")[1].strip()
                    if os.path.exists(f) and os.path.basename(f)[:12].isalnum() and len(os.path.basename(f)) == 17:
                        os.remove(f)
        old[name] = {"property": pid, "change": meta["change"], "checks": out,
                     "caught": any(v["exit"] == 1 for v in out.values())}
        sh("git -C /repo worktree remove --force %s" % wt)
        shutil.rmtree(wt, ignore_errors=True)
        print(name, old[name]["caught"], out, flush=True)
    json.dump(old, open(res_file, "w"), indent=1)
    with open(os.path.join(HERE, "seeded", "RESULTS.md"), "w") as fh:
        fh.write("# Seeded changes (written by independent sub-agents) vs. the checks\n\n"
                 "Each change passes the repository's 929 tests and breaks the named property; `detection` in each meta.json tells the\n"
                 "history (caught at once / missed first, check strengthened, then caught). Last run of tools/run_seeded.py:\n\n"
                 "| seeded change | property | caught | failing clauses reported |\n|---|---|---|---|\n")
        for name, r in sorted(old.items()):
            if "checks" not in r:
                fh.write("| %s | %s | n/a | %s |\n" % (name, r["property"], r["result"]))
                continue
            cl = "; ".join("%s: %s" % (p, ", ".join(v["clauses"]) or "-") for p, v in r["checks"].items())
            fh.write("| %s | %s | %s | %s |\n" % (name, r["property"], "yes" if r["caught"] else "NO", cl))
    # restore evidence of the clean tree for the checks that were run (evidence is rewritten on every run)
if __name__ == "__main__":
    main()
