#!/bin/sh
# usage: confirm_seed.sh <worktree-prefix> <seed-name> <CNN> "<change>" "<needs>"
# confirms a sub-agent's seeded change in its scratch worktree (<prefix>_<CNN>) and stores it
# under /verif/seeded/<seed-name>/ {patch.diff, demo.py, meta.json}
pre=$1; name=$2; c=$3; change=$4; needs=$5
wt=${pre}_$c
cd $wt || exit 2
git diff -- optiland > /tmp/cur_$c.diff
[ -s /tmp/cur_$c.diff ] || { echo "empty diff"; exit 2; }
PYTHONPATH=$wt NUMBA_CACHE_DIR=$wt/.nbcache timeout 900 /venv/bin/python -W ignore demo_$c.py > /tmp/demo_$c.with 2>&1; a=$?
patch -R -p1 -s < /tmp/cur_$c.diff
PYTHONPATH=$wt NUMBA_CACHE_DIR=$wt/.nbcache timeout 900 /venv/bin/python -W ignore demo_$c.py > /tmp/demo_$c.without 2>&1; b=$?
patch -p1 -s < /tmp/cur_$c.diff
s=$(PYTHONPATH=$wt NUMBA_CACHE_DIR=$wt/.nbcache /venv/bin/python -m pytest -q -p no:cacheprovider -n 6 tests 2>&1 | tail -1)
echo "$c demo_with=$a demo_without=$b suite: $s"
case "$s" in *failed*|*error*) echo "SUITE FAILS"; exit 1;; esac
[ "$a" != 0 ] && [ "$b" = 0 ] || { echo "DEMO does not discriminate"; exit 1; }
d=/verif/seeded/$name
mkdir -p $d
cp /tmp/cur_$c.diff $d/patch.diff
cp demo_$c.py $d/demo.py
/venv/bin/python - "$d" "$c" "$change" "$needs" "$s" "$a" "$b" "${ROUND:-2}" <<'PY'
import json, sys
d, c, change, needs, s, a, b, rnd = sys.argv[1:]
json.dump({"property": c, "change": change, "needs_to_manifest": needs, "round": int(rnd),
           "written_by": "independent sub-agent given only the property text, the list of kinds already planted, and a scratch worktree",
           "confirmed": {"repository_test_suite_with_change": s, "demo_exit_with_change": int(a), "demo_exit_without_change": int(b),
                         "commands": ["cd <worktree> && PYTHONPATH=<worktree> /venv/bin/python -m pytest -q -p no:cacheprovider -n 6 tests",
                                      "PYTHONPATH=<worktree> /venv/bin/python demo.py (with the patch applied / reversed with patch -R)",
                                      "VERIF_REPO=<worktree> ./check %s --tier quick" % c]},
           "detection": "pending"}, open(d + "/meta.json", "w"), indent=1)
PY
echo stored $d
