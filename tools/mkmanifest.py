#!/usr/bin/env python3
"""Regenerates MANIFEST.json from the table below (keeps it schema-valid)."""
import json, os
HERE = os.path.dirname(os.path.dirname(os.path.abspath(__file__)))
TRUST = ("TLC 1.8.0 and CommunityModules Json/IOUtils; harness/dy.py (float<->dyadic, exact); the projection in "
         "harness/project.py (reads public attributes only); the behaviour replayer/recorder; libm for the logged "
         "transcendental certificates named in the evidence file")
CHECKS = {
 "C02": dict(
   text="Every (ray, surface) event of real traces (random lenses over plane/conic/even-asphere/polynomial/Chebyshev shapes, mirrors, "
        "tilts and decentres, ideal and catalogue media, skew and steep rays, all lens wavelengths; the 24 bundled samples) is judged by TLC "
        "evaluating the polynomial laws of spec/RayStep.tla on the implementation's own numbers in exact dyadic arithmetic: on_surface "
        "(implicit quadric + additive terms in the surface's decentred/tilted frame), collinear, opl, unit, vector Snell / reflection law, "
        "half_space, total-internal-reflection and sticky-invalid clauses; a per-ray machine binds each event's incoming data to the previous "
        "surface's record. Each run calibrates the spec: rational witnesses accepted, single-field corruptions rejected.",
   technique="TLA+ law module (RayStep) evaluated by TLC on recorded traces (trace validation, exact dyadic arithmetic) + calibration by corrupted traces",
   ref="6 (C02)"),
 "C01": dict(
   text="TLC model-checks the Lens abstract machine (spec/Lens.tla: append-only construction, set_* edits, pickups, wavelengths) "
        "exhaustively within small grids: invariants FirstAtZero/MediumChain/AtMostOneStop/OnePrimary and the frame conditions as "
        "action properties. TLC-generated behaviours (exhaustive dump to a depth bound + simulation) are replayed on the real Optic with "
        "exact state comparison after every call, and random float histories over every surface kind, variables of every type, pickups, "
        "solves and image_solve are validated call by call by spec/Trace_Lens.tla in exact dyadic arithmetic. update() is modelled as the "
        "multi-step process the code runs (spec/UpdateOrder.tla over exact rationals: one action per pickup and per solve application): "
        "SolvesHold, PickupsHold for compatible pickup/solve sets, Idempotent, frame conditions, termination; two negative controls per run "
        "(list-order solves, unconditional pickups) must be refuted; every idle state TLC reaches is replayed on a real Optic. Bounded, not a proof: "
        "histories beyond the explored depth/grids are sampled.",
   technique="TLA+ abstract machine + TLC exhaustive MC; spec->code behaviour replay; code->spec trace validation (dyadic arithmetic)",
   ref="6 (C01)"),
}
CHECKS["C16"] = dict(
   text="Every (ray, surface) event of real traces through random lenses with radial apertures (with/without obscuration), absorbing media, "
        "simple coatings and mirrors - through both Optic.trace and Optic.trace_generic, with and without a polarization state - is judged by "
        "TLC evaluating the intensity machine of spec/RayStep.tla (JudgeIntensity): range [0,1], never increases, dark stays dark, outside the "
        "aperture => 0, absorption certificate in (0,1] and = 1 iff k = 0, exact factor i = i0*a*tau inside the aperture, intensity returned by "
        "the call = image-surface record. Per-run calibration with corrupted events.",
   technique="TLA+ per-ray intensity machine evaluated by TLC on recorded traces (trace validation, exact dyadic arithmetic) + calibration",
   ref="6 (C16)")
CHECKS["C17"] = dict(
   text="spec/Polarization.tla states the Fresnel laws (cross-multiplied, cosines as certificates validated by Snell) and the algebra of the Jones "
        "elements; MC_Polarization checks exhaustively on an exact rational grid (4361 cases: Pythagorean incidence/refraction angles, index grids) that "
        "the laws imply R+T=1, Brewster and the normal-incidence value and that perturbed witnesses are rejected, and exports 943 cases with exact "
        "expectations that are replayed into JonesFresnel / retarder / diattenuator code. Trace_Polarization validates recorded executions in exact "
        "dyadic arithmetic: JonesFresnel matrices for random index pairs and angles, all ten Jones element classes (idempotence, unitarity, retardance, "
        "rotation covariance), polarized lens traces (intensity preserved without coatings, field transverse, unpolarized = mean of orthogonal states), "
        "single coated surfaces at oblique incidence, circular polarizers used as the coating of a lens surface (stated state passes, orthogonal one blocked, "
        "unpolarized halved, twice is once). Calibration with corrupted records every run.",
   technique="TLA+ law module + TLC exhaustive MC on an exact rational grid; spec->code case replay; code->spec trace validation (dyadic arithmetic)",
   ref="6 (C17)")
CHECKS["C18"] = dict(
   text="spec/Catalogue.tla states the nine refractiveindex.info dispersion formulas, table interpolation (segment law), Abbe number and model-glass "
        "identities as polynomial identities, and the exact-name lookup post-condition; MC_Catalogue model-checks the lookup post-condition on a toy "
        "catalogue with duplicate names, substrings and regex metacharacters (and negative configs showing that regex / tie-breaking variants violate it) "
        "and the law predicates on hand-computed instances. Trace_Catalogue validates recorded executions: thorough = all 2593 catalogue rows x wavelengths "
        "across each row's range (scalar and array) and every exact-name query derivable from the CSV; quick = 300 stratified rows + ~400 queries. "
        "Coefficients are read by the recorder from the YAML files directly, not through MaterialFile. Calibration with corrupted records every run.",
   technique="TLA+ law module + TLC MC of the lookup post-condition; exhaustive code->spec trace validation over the catalogue (dyadic arithmetic)",
   ref="6 (C18)")
CHECKS["C10"] = dict(
   text="spec/Zernike.tla states the published index rules (OSA/ANSI, Noll as closed formula and as ordering rule, Fringe), the radial polynomials "
        "as exact integer coefficient vectors and the normalisation; MC_Zernike checks exhaustively (21 783 states: 3 families x 7 260 index pairs up to "
        "120 terms) bijection and order, agreement of the two Noll definitions, R(1)=1 and orthonormality by exact rational integration, with published "
        "table prefixes as witnesses. TLC's tables are compared verbatim with the code's index lists, radial terms at dyadic radii and normalisation "
        "constants (spec->code). Trace_Zernike validates recorded executions in dyadic arithmetic: term values for every index, linearity of poly(), fit "
        "recovery for N in 1..37 on well-conditioned point sets, linearity of fitting, ZernikeOPD against its reported residual (normal equations). "
        "Calibration with corrupted records in every run.",
   technique="TLA+ exact integer/rational model + TLC exhaustive MC; spec->code table replay; code->spec trace validation (dyadic arithmetic)",
   ref="6 (C10)")
CHECKS["C04"] = dict(
   text="spec/Paraxial.tla states matrix optics on (y, n u) with mirrors as n' = -n and derives every accessor from the system matrix; MC_Paraxial "
        "enumerates a grid of lenses exhaustively in exact 32-bit rationals (quick 1 756 lenses of 1-2 surfaces, thorough 43 728 of 1-3 surfaces; radii, "
        "indices, mirrors, negative thickness behind mirrors, 8 aperture/field/object configurations) and checks det = n/n', the Lagrange invariant, "
        "linearity and that perturbed records are rejected; the exactly computed accessor and ray values are replayed into the code (45 296 values, "
        "1e-10 relative). Trace_Paraxial validates, for random float lenses and the bundled samples, the returned marginal/chief rays surface by "
        "surface (cross-multiplied refraction/transfer), launch conditions, chief ray through the stop and field point, invariant constancy, "
        "linearity and every accessor against auxiliary paraxial rays, in exact dyadic arithmetic, with calibration.",
   technique="TLA+ matrix-optics model + TLC exhaustive MC in exact rationals; spec->code replay of exact expectations; code->spec trace validation (dyadic)",
   ref="6 (C04), Appendix C")
CHECKS["C08"] = dict(
   text="spec/Seidel.tla states the classical surface contributions (S_I..S_V, C_I, C_II) and the library's documented transverse/longitudinal "
        "conventions; MC_Seidel checks on an exact-rational grid of 660 lenses the identities, stop-shift invariance of the spherical, Petzval and "
        "axial-colour sums and the stop-shift formulas for the others, and exports exact third_order() expectations that are replayed into the code "
        "(10 236 values). Trace_Seidel validates recorded executions for random conic-free lenses, catalogue glasses and the spherical samples: all "
        "per-surface terms, TCC = 3 CC, longitudinal = -transverse/u'_K, sums, accessor agreement, the AberrationOperand wrappers and the "
        "small-aperture real-ray clause; calibration every run. The exact grid is bounded by TLC's 32-bit integers (stated in evidence).",
   technique="TLA+ Seidel law module + TLC exhaustive MC in exact rationals; spec->code replay; code->spec trace validation (dyadic)",
   ref="6 (C08)")
CHECKS["C19"] = dict(
   text="TLC model-checks the Lens machine with SaveLoad (dictionary and file) and ScaleSystem interleaved with the edit calls; simulated "
        "behaviours containing save_load steps are replayed on the real Optic with exact state comparison after every call and re-validated by "
        "Trace_Lens. Feature-rich random lenses (every geometry kind; ideal, catalogue, model-glass and mirror media; simple and Fresnel coatings; "
        "BSDFs; apertures; vignetted fields; wavelength units; polarization settings; pickups; solves), before and after edit histories, are "
        "saved/reloaded both ways and Trace_Reload judges each reload: identical projection, bit-identical ray records and paraxial values for the "
        "same queries, dictionary round trip. Calibration with corrupted reload events.",
   technique="TLA+ abstract machine (Lens) + TLC MC; behaviour replay; trace validation of save/reload events (bit-exact dyadic comparison)",
   ref="6 (C19)")
CHECKS["C13"] = dict(
   text="spec/Session.tla models a session as a history of queries and edits over a library that is a function of (prescription, call); TLC checks "
        "that no history violates repeatable / frame / args_unchanged and that results stay functional, and that three hazard variants (query reading "
        "the stale per-surface record, query editing the lens, call mutating its arguments) do violate them (negative configs). Trace_Session validates "
        "recorded sessions on sample and random lenses (vignetting factors, coatings, polarization): random interleavings of trace, trace_generic with "
        "scalar and array arguments, paraxial and aberration queries, Wavefront/OPD, FFTPSF/FFTMTF/GeometricMTF and the analysis classes, with edits that "
        "leave and return to a prescription; results, prescriptions and caller arrays are compared as SHA-256 tokens (bit identity); one ray traced "
        "alone vs inside a batch is compared in dyadic arithmetic within the intersection tolerance. Calibration with corrupted sessions every run.",
   technique="TLA+ session machine + TLC MC with negative hazard configs; code->spec trace validation of recorded sessions (token memo machine)",
   ref="6 (C13)")
CHECKS["C07"] = dict(
   text="scale_system is an action of the Lens machine: TLC model-checks its frame condition interleaved with the edit calls, behaviours containing "
        "it are replayed on the real Optic with exact comparison and re-validated by Trace_Lens, also for float factors in [0.01, 100]. Metamorphic "
        "relations between two executions of the real code are judged by TLC in exact dyadic arithmetic (spec/Trace_Meta.tla): both meridional mirrors "
        "and their product, tilt of a spherical surface about its centre of curvature, dummy surface between equal media, another wavelength of a "
        "dispersion-free lens, and all lengths times s (ray heights, optical paths, f2, F2 and the five Seidel sums scale by s, direction cosines "
        "unchanged) both for a lens rebuilt from the scaled recipe and for the lens produced by scale_system. Calibration with corrupted pairs.",
   technique="TLA+ Lens machine (ScaleSystem action) + TLC MC and behaviour replay; metamorphic pair validation by TLC (dyadic arithmetic)",
   ref="6 (C07)")
CHECKS["C06"] = dict(
   text="spec/Stigmatic.tla states the closed-form aberration-free families (paraboloid, ellipsoid, hyperboloid/Cassegrain, plano-hyperbolic and elliptic "
        "refractors, sphere imaging its centre, aplanatic points) as relations between prescription and image point; MC_Stigmatic checks on exact "
        "integers (120 cases) that the focus distances and constant-path identities hold and that wrong foci/conics are rejected. Every configuration of a "
        "grid (quick 176, thorough all 2 670: radii of both signs, indices {4/3,3/2,2,3,4}, Pythagorean eccentricities, down to f/0.5) is built through the "
        "public API; TLC judges the prescription read back, every ray of a 127-ray bundle (image point, equal path), Wavefront data and Strehl ratio, and "
        "the per-surface events also go through Trace_RayStep. A traced k = -1.001 paraboloid must be rejected (calibration).",
   technique="TLA+ closed-form model + TLC MC on exact integers; exhaustive grid of configurations traced and judged by TLC (dyadic arithmetic)",
   ref="6 (C06)")
CHECKS["C09"] = dict(
   text="spec/Wavefront.tla states the OPD definition (chief-ray reference sphere through the paraxial exit pupil, optical path in image space, object-space "
        "wavefront term, RMS definition); MC_Wavefront (636 rational cases) accepts perfect/defocused witnesses and rejects sign, root, centre, tilt and "
        "index variants. Trace_Wavefront validates Wavefront.data, OPD.rms, OPD fans, RMS-vs-field and the OPD_difference operand against independently "
        "traced rays of the same samples for random lenses and samples (9 distributions, finite and infinite objects, exit pupils of both signs), and the "
        "OPD map at the grid nodes that coincide with its hexapolar samples against those samples (interpolation-free); the "
        "back-propagation distance is a certificate TLC verifies on the sphere equation. Calibration with 100+ corruptions per run.",
   technique="TLA+ law module + TLC MC on rational witnesses; code->spec trace validation (dyadic arithmetic) + calibration",
   ref="6 (C09)")
CHECKS["C12"] = dict(
   text="spec/Analyses.tla states (1) the sampling contract of each analysis class as an index machine - MC_Analyses checks 2 892 cases (8 classes, "
        "explicit and default field/wavelength lists, every primary position) incl. a negative config showing that choosing the reference by the lens's "
        "primary index violates it; the cases are replayed into the code (shapes, keys, no exception) - and (2) every reported quantity as a polynomial "
        "function of ray records: centroids, RMS and geometric radii, fans, encircled energy, distortion and grid distortion, pupil aberration, "
        "Coddington's equations for field curvature on spherical lenses, real-ray operands. Trace_Analyses validates .data of each analysis object "
        "against independently traced rays for random lenses and samples (on lenses with vignetting factors: the spot family, against the rays "
        "Optic.trace launches for the documented sample); calibration every run.",
   technique="TLA+ index machine + TLC MC (with negative config); spec->code replay of the contract; code->spec trace validation (dyadic arithmetic)",
   ref="6 (C12)")
CHECKS["C14"] = dict(
   text="spec/Optimizer.tla models the optimisation protocol with scipy as a nondeterministic environment (Start, Evaluate, EvaluateRemote, Return, "
        "Finish, Undo); MC_Optimizer checks LensAtReturned, MeritAtReturned, NotWorse, WithinBounds, PickupsHold and UndoRestores exhaustively (3 points, "
        "27 merit functions, both worker modes) and two negative configs (no Finish step; undo without update) that violate them. Trace_Optimizer "
        "validates real runs of all five front ends (generic, least squares, dual annealing, differential evolution in-process and multi-process, "
        "compensator) with variables of every type, logging every callback evaluation: merit identity, variable handle laws, bounds units, lens at the "
        "returned solution, not worse than start, within bounds, pickups/solves, undo. scipy's contract is an explicit environment assumption: runs scipy "
        "reports as failed are noted, not judged on it. Calibration with corrupted records.",
   technique="TLA+ protocol model with environment + TLC MC incl. negative configs; code->spec trace validation of real optimiser runs (dyadic)",
   ref="6 (C14)")
CHECKS["C15"] = dict(
   text="spec/Tolerancing.tla models the sensitivity and Monte-Carlo loops (Reset, Apply, Compensate, Evaluate with failure injection, Record, EndRun); "
        "MC_Tolerancing checks RowsTrue, RowsCompensated, NominalReproduced, Reproducible, EndStateNominal and ResetRestores exhaustively over sampler kinds, random "
        "streams and failure sets, with the variable handles (initv, HandlesNominal) and the user's what-if steps after a run (UserApply / "
        "UserCompensate / UserReset), and with negative configs (no final reset; no per-trial reset; a compensation that re-bases its handle - invisible "
        "to the run alone, exposed by a what-if history). Trace_Tolerancing validates real SensitivityAnalysis and "
        "MonteCarlo runs: each row is re-derived on a from_dict(to_dict()) copy of the nominal lens from the recorded perturbation values, nominal "
        "reproduction, reproducibility of seeded samplers between two sessions, end state and reset, what-if histories on the same object after the run "
        "and tolerances on the compensator's own parameter. Calibration with corrupted records.",
   technique="TLA+ loop protocol + TLC MC incl. negative configs; code->spec trace validation of real tolerancing runs (dyadic)",
   ref="6 (C15)")
CHECKS["C20"] = dict(
   text="spec/ZemaxReader.tla and spec/Zemax.tla state the reader as a line-dispatch machine (one action per keyword) and the prescription a well-formed "
        "file denotes; MC_Zemax enumerates well-formed files exhaustively on six grids (quick 97 117 states; thorough 1.4 million) plus simulated files up "
        "to 30 surfaces / 12 wavelengths and checks the laws (radius, vertex, conic, PARM, stop, medium, wavelengths, fields, aperture, NSC rejected). "
        "Each generated file is rendered in several number styles and line endings, written in UTF-8 and UTF-16, loaded with load_zemax_file and compared "
        "exactly with the prescription TLC computed (quick 3 400 files / 7 480 loads), paraxial values against a lens built from the same numbers. "
        "Trace_Zemax validates the repository's .zmx files and random decimal texts. Calibration every run.",
   technique="TLA+ line-dispatch machine + TLC exhaustive MC; spec->code replay of generated files in two encodings; code->spec trace validation",
   ref="6 (C20)")
CHECKS["C03"] = dict(
   text="spec/Launch.tla states (a) the accept/reject decision table over aperture type x field type x object distance x telecentric flag as a state "
        "machine - MC_Launch checks totality and determinism over all 24 cells and the table is replayed into the code (ValueError exactly where it says "
        "Reject) - (b) the launch relations cross-multiplied on dyadic numbers (origin on the object surface - plane or sphere -, field angle with a validated tan certificate, aim at "
        "(Px,Py) EPD/2 on the entrance pupil plane, telecentric chief/rim clauses, unit direction, intensity 1, zero path, wavelength, forward), and "
        "(c) the documented point counts of the named pupil samplings (integer formulas checked by TLC against exact counts), points inside the unit "
        "disk, vignetting only shrinks. Trace_Launch validates recorded launches of random lenses over every accepted cell, every sampling and several "
        "ray counts; calibration with 200+ corruptions per run.",
   technique="TLA+ decision-table machine + TLC MC; spec->code replay of the table; code->spec trace validation of launch records (dyadic)",
   ref="6 (C03)")
CHECKS["C05"] = dict(
   text="spec/Limit.tla states the quadratic-decay predicate on geometric eps-sequences (decay ratio <= 7/16 above an explicit rounding floor, end bound, "
        "at least four informative steps); MC_Limit (432 states) shows it accepts a eps^2 and a eps^2 + b eps^4 and rejects a eps, constant offset and "
        "stalled sequences. Trace_Limit evaluates it on recorded real-ray families (marginal-type and chief-type, eps = 2^-4 .. 2^-12) at every surface "
        "of random lenses and samples against the paraxial marginal/chief rays and Paraxial.trace, plus axial focus -> F2, image height per unit field, "
        "zero-pupil ray -> stop centre (height at the stop against 0 itself). The limit is observed over 2.4 decades, not proved. Calibration every run.",
   technique="TLA+ limit predicate + TLC MC on synthetic sequences; code->spec trace validation of recorded eps-families (dyadic)",
   ref="6 (C05)")
CHECKS["C11"] = dict(
   text="spec/Diffraction.tla states the PSF/Strehl/MTF laws from their definitions (squared modulus of the DFT of the sampled pupil scaled so that the "
        "unaberrated pupil peaks at 100; Parseval; Strehl <= 1; MTF = normalised pupil autocorrelation, bounds, diffraction limit, frequency axis with "
        "cut-off 1/(lambda F#_w); geometric MTF as the Fourier transform of the line spread). MC_Diffraction derives Parseval, psf <= 100, Strehl <= 1 and "
        "Wiener-Khinchin exactly on all 2x2 pupils over a small complex alphabet padded to 4x4 (w = -i) and on 8x8 float witnesses, and rejects 14 "
        "perturbations. Trace_Diffraction evaluates the laws on the code's own complex pupil and outputs for stigmatic and random aberrated lenses "
        "(sampling 16-256, grids 64-2048): exact-DFT pixel law on sampled pixels (every pixel of some 64x64 images in thorough), sums, normalisation, "
        "Strehl, FFTMTF curves and axis as drawn by view(), GeometricMTF from its histogram; roots of unity and trig certificates are validated "
        "polynomially. Pixel equality on large grids is sampled, not total. Calibration every run.",
   technique="TLA+ law module + TLC MC on exact small pupils; code->spec trace validation with exact complex dyadic DFT on sampled pixels",
   ref="6 (C11)")
NOT_YET = "check being built (see DESIGN.md section 6 for the plan)"
def main():
    props = [json.loads(l)["id"] for l in open(os.path.join(HERE, "properties.jsonl"))]
    checks = []
    for pid in props:
        if pid not in CHECKS:
            continue
        c = CHECKS[pid]
        checks.append({
          "property_id": pid,
          "quick_cmd": "./check %s --tier quick" % pid,
          "thorough_cmd": "./check %s --tier thorough" % pid,
          "evidence_file": "/verif/evidence/%s.json" % pid,
          "replay_cmd_template": "./check %s --replay {path}" % pid,
          "engine": "tlc",
          "level_claimed": {"category": "model_checking", "text": c["text"], "design_ref": "DESIGN.md section " + c["ref"]},
          "level_note": c.get("note", TRUST),
          "technique": c["technique"]})
    na = [{"property_id": p, "reason": CHECKS.get(p, {}).get("na", NOT_YET)} for p in props if p not in CHECKS]
    man = {
     "version": 1,
     "setup_cmd": "true",
     "hooks": {"guard": "OPTILAND_VERIF",
               "enable": "export OPTILAND_VERIF=1 (done by ./check); no source hooks are installed: the public API exposes the abstract state, recorders wrap objects from outside",
               "baseline_off_cmd": "cd /repo && env -u OPTILAND_VERIF /venv/bin/python -m pytest -ra -q -p no:cacheprovider --timeout=900 --continue-on-collection-errors",
               "source_commits": [], "add_only": True},
     "engines": [{"name": "tlc", "path": "/opt/veriftools/tla/tla2tools.jar", "serves_properties": [c["property_id"] for c in checks],
                  "kind_free_text": "TLC 1.8.0 explicit-state model checker: exhaustive MC of the TLA+ modules in /verif/spec, behaviour export (spec -> code replay) and trace validation (code -> spec) in exact dyadic arithmetic"}],
     "checks": checks,
     "notes": "Entry point ./check <id> [--tier quick|thorough] [--replay path]. Exit 0 held / 1 VIOLATION / 2 machinery failure. Known findings: known_findings.json. See DESIGN.md.",
     "not_applicable": na}
    with open(os.path.join(HERE, "MANIFEST.json"), "w") as fh:
        json.dump(man, fh, indent=1)
if __name__ == "__main__":
    main()
