"""Stand-alone reproduction (C03, clause `forward`).

When the paraxial entrance pupil is a real image of the stop lying in front of the
launch point (EPL < z of the ray origins: infinite object -> EPL < z_1 - EPD; finite
object -> EPL < z_object), RayGenerator.generate_rays normalises (pupil point - origin)
without regard to its sign: every ray gets N < 0, i.e. it travels away from the lens.
The rays still lie on the right lines (they are "aimed" at the pupil point), but the
trace returns inf / nan at every surface.

Run:  PYTHONPATH=/repo /venv/bin/python replays/C03/pupil_in_front_backward_rays.py
"""
import numpy as np
from optiland.optic import Optic
from optiland.materials import IdealMaterial


def lens(finite):
    o = Optic()
    o.add_surface(index=0, thickness=60.0 if finite else np.inf)
    o.add_surface(index=1, radius=50.0, thickness=5.0, material=IdealMaterial(n=1.5))
    o.add_surface(index=2, radius=-50.0, thickness=120.0)
    o.add_surface(index=3, thickness=30.0, is_stop=True)        # stop well behind the rear focal point
    o.add_surface(index=4)
    o.set_aperture("EPD", 5.0)
    o.set_field_type("angle")
    o.add_field(y=0.0)
    o.add_field(y=3.0)
    o.add_wavelength(0.55, is_primary=True)
    return o


for finite in (False, True):
    o = lens(finite)
    print("finite object" if finite else "infinite object", " EPL =", float(o.paraxial.EPL()), " EPD =", o.paraxial.EPD())
    with np.errstate(all="ignore"):
        o.trace_generic(0.0, 1.0, np.array([0.0, 0.0]), np.array([0.0, 1.0]), 0.55)
    sg = o.surface_group
    print("  launch z =", sg.z[0], " N =", sg.N[0], "  <- negative: rays leave away from the lens")
    print("  y at surfaces 1..4 =", sg.y[1:, 0])
    assert np.all(sg.N[0] < 0) and not np.any(np.isfinite(sg.y[1:]))
    yc, uc = o.paraxial.chief_ray()
    print("  paraxial chief ray heights (finite, the lens is perfectly traceable) =", np.ravel(yc))
print("reproduced: rays launched backwards, nothing traced")
