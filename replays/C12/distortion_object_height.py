"""C12 / clause dist_value: for object-height fields Distortion takes tan(H * radians(max_field)) with
max_field in millimetres as if it were degrees; the paraxial image height of an object point is
proportional to its height, so the reported distortion is off by about (h_max*pi/180)^2/3 relative.
Run: PYTHONPATH=/repo python replays/C12/distortion_object_height.py   (exit 1 = defect present)"""
import sys
import numpy as np
from _lens import singlet
from optiland.analysis import Distortion
o = singlet(finite_object=True, field_type="object_height", fields=(0.0, 7.0, 10.0))
n = 5
d = Distortion(o, num_points=n).data[1]
H = np.linspace(1e-10, 1, n)
o.trace_generic(np.zeros(n), H.copy(), np.zeros(n), np.zeros(n), o.primary_wavelength)
y = o.surface_group.y[-1, :]
yp = y[0] / H[0] * H                      # paraxial image height: linear in the object height
ref = 100 * (y - yp) / yp
print("reported   ", d)
print("100(y-yp)/yp with yp proportional to the object height", ref)
sys.exit(1 if np.max(np.abs(d - ref)) > 1e-6 else 0)
