"""C12 / clause grid_max: with an odd num_points the grid contains the axial field, where 100*delta/rp is
0/0, and np.max propagates the NaN: max_distortion is nan for every lens.
Run: PYTHONPATH=/repo python replays/C12/grid_odd_nan.py   (exit 1 = defect present)"""
import math
import sys
from _lens import singlet
from optiland.analysis import GridDistortion
o = singlet()
v = [GridDistortion(o, num_points=n).data["max_distortion"] for n in (4, 5)]
print("num_points=4: %r   num_points=5: %r" % (float(v[0]), float(v[1])))
sys.exit(1 if math.isnan(v[1]) else 0)
