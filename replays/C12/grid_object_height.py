"""C12 / clauses grid_parax_x, grid_parax_y, grid_max: GridDistortion flips the paraxial x grid
("optical system flips x") - right for angle fields, whose x launch convention is mirrored, wrong for
object-height fields - and also treats millimetres as degrees.  Max distortion of a nearly
distortion-free singlet comes out near 190 %.
Run: PYTHONPATH=/repo python replays/C12/grid_object_height.py   (exit 1 = defect present)"""
import sys
from _lens import singlet
from optiland.analysis import GridDistortion
o = singlet(finite_object=True, field_type="object_height", fields=(0.0, 3.0, 5.0))
g = GridDistortion(o, num_points=4)
print("max distortion (object_height fields): %.3f %%" % g.data["max_distortion"])
print("xr[0]", g.data["xr"][0], "\nxp[0]", g.data["xp"][0])
a = singlet(fields=(0.0, 3.0, 5.0))
print("same lens, angle fields: %.5f %%" % GridDistortion(a, num_points=4).data["max_distortion"])
sys.exit(1 if g.data["max_distortion"] > 50 else 0)
