"""C12 / clause raises: SpotDiagram.centroid() (hence rms_spot_radius, geometric_spot_radius, view, and the
constructor of RmsSpotSizeVsField) indexes the per-field data by the LENS's primary index.
With an explicit wavelength list shorter than that index it raises IndexError - even for [primary].
Run: PYTHONPATH=/repo python replays/C12/spot_centroid_indexerror.py   (exit 1 = defect present)"""
import sys
from _lens import singlet
from optiland.analysis import SpotDiagram, RmsSpotSizeVsField
o = singlet()                       # wavelengths 0.50, 0.55 (primary, index 1), 0.60
bad = 0
for wl in ([0.62], [0.55]):
    try:
        print(wl, SpotDiagram(o, wavelengths=wl, num_rings=2).centroid())
    except IndexError as ex:
        bad += 1
        print("SpotDiagram(wavelengths=%s).centroid() -> IndexError: %s" % (wl, ex))
try:
    RmsSpotSizeVsField(o, num_fields=3, wavelengths=[0.55], num_rings=2)
except IndexError as ex:
    bad += 1
    print("RmsSpotSizeVsField(wavelengths=[0.55]) -> IndexError:", ex)
sys.exit(1 if bad else 0)
