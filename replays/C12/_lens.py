"""Small lenses used by the stand-alone C12 reproductions (public API only)."""
import numpy as np
from optiland.optic import Optic
from optiland.materials import IdealMaterial


def singlet(wavelengths=(0.50, 0.55, 0.60), primary=1, finite_object=False, field_type="angle", fields=(0.0, 7.0, 10.0), glass=None):
    o = Optic()
    o.add_surface(index=0, thickness=200.0 if finite_object else np.inf)
    o.add_surface(index=1, radius=60.0, thickness=4.0, material=(glass or IdealMaterial(n=1.6)), is_stop=True)
    o.add_surface(index=2, radius=-80.0, thickness=70.0)
    o.add_surface(index=3)
    o.set_aperture("EPD", 8.0)
    o.set_field_type(field_type)
    for y in fields:
        o.add_field(y=y)
    for i, w in enumerate(wavelengths):
        o.add_wavelength(w, is_primary=(i == primary))
    return o
