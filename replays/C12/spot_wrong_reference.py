"""C12 / clause reference: with an explicit list that contains the lens's primary wavelength at another
position than the lens's primary index, SpotDiagram.centroid() returns the centroid of a different
wavelength, and all radii are taken about it.
Run: PYTHONPATH=/repo python replays/C12/spot_wrong_reference.py   (exit 1 = defect present)"""
import sys
import numpy as np
from _lens import singlet
from optiland.analysis import SpotDiagram
o = singlet(glass=("N-SF11", "schott"))         # dispersive glass; primary 0.55 at lens index 1
s = SpotDiagram(o, fields=[(0.0, 1.0)], wavelengths=[0.55, 0.62], num_rings=3)
cy = s.centroid()[0][1]
own = [float(np.mean(s.data[0][j][1])) for j in range(2)]
print("centroid y reported %.9f; mean y at 0.55 (primary): %.9f; at 0.62: %.9f" % (cy, own[0], own[1]))
wrong = abs(cy - own[1]) < 1e-12 and abs(cy - own[0]) > 1e-9
print("reference is the non-primary wavelength" if wrong else "reference is the primary wavelength")
sys.exit(1 if wrong else 0)
