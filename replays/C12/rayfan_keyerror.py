"""C12 / clause raises: RayFan refers every fan to the chief ray of optic.primary_wavelength and looks it
up in its own data; with an explicit wavelength list that does not contain it the constructor raises KeyError.
Run: PYTHONPATH=/repo python replays/C12/rayfan_keyerror.py   (exit 1 = defect present)"""
import sys
from _lens import singlet
from optiland.analysis import RayFan
o = singlet()
try:
    RayFan(o, wavelengths=[0.62], num_points=5)
except KeyError as ex:
    print("RayFan(wavelengths=[0.62]) -> KeyError:", ex)
    sys.exit(1)
print("no exception")
