"""C14 / undo_restores (also C15 / end state): an index variable on a catalogue glass.
Run:  PYTHONPATH=/repo:/verif/replays/C14 /venv/bin/python index_variable_drops_dispersion.py
"""
import numpy as np
from _lens import singlet
from optiland.optimization import optimization as O

lens = singlet(material=('N-BK7', 'schott'))
n_before = [float(np.ravel(lens.surface_group.surfaces[1].material_post.n(w))[0]) for w in (0.4861, 0.5876, 0.6563)]
p = O.OptimizationProblem()
p.add_variable(lens, 'index', surface_number=1, wavelength=0.5876, min_val=1.4, max_val=1.8)
p.add_operand('f2', 70.0, 1.0, {'optic': lens})
opt = O.OptimizerGeneric(p)
opt.optimize(maxiter=5, disp=False)
opt.undo()
n_after = [float(np.ravel(lens.surface_group.surfaces[1].material_post.n(w))[0]) for w in (0.4861, 0.5876, 0.6563)]
print("n(F, d, C) before:", n_before, "\n          after undo:", n_after)
assert n_after[1] == n_before[1] and n_after[0] != n_before[0]
print("reproduced: the glass has become a constant-index material")
