"""C14 / bounds_same_units (and its consequences within_bounds, not_worse, raises).
Variable.bounds applies scale() to min_val / max_val even when apply_scaling=False.
Run:  PYTHONPATH=/repo:/verif/replays/C14 /venv/bin/python bounds_scaled_when_unscaled.py
"""
import numpy as np
from _lens import singlet
from optiland.optimization import optimization as O
from optiland.optimization.variable import Variable

lens = singlet()
for vtype, kw, lo, hi in (("radius", {}, 20.0, 500.0), ("thickness", {}, 2.0, 9.0),
                          ("index", {"wavelength": 0.5876}, 1.4, 1.9)):
    v = Variable(lens, vtype, surface_number=1, min_val=lo, max_val=hi, apply_scaling=False, **kw)
    print("%-10s apply_scaling=False: value=%r  min_val=%r max_val=%r  ->  bounds=%r"
          % (vtype, float(np.ravel(v.value)[0]), lo, hi, tuple(float(b) for b in v.bounds)))
    assert tuple(v.bounds) != (lo, hi)

# consequence: the optimiser is handed bounds that exclude the start and the user's interval
lens = singlet()
p = O.OptimizationProblem()
p.add_variable(lens, 'radius', surface_number=1, min_val=20, max_val=500, apply_scaling=False)
p.add_operand('f2', 70.0, 1.0, {'optic': lens})
start = p.sum_squared()
res = O.OptimizerGeneric(p).optimize(maxiter=20, disp=False, tol=1e-9)
print("OptimizerGeneric: start merit %.4g -> result.fun %.4g, radius now %r (user bounds 20..500)"
      % (start, res.fun, float(np.ravel(lens.surface_group.radii)[1])))
assert not (20 <= float(np.ravel(lens.surface_group.radii)[1]) <= 500)
lens = singlet()
p = O.OptimizationProblem()
p.add_variable(lens, 'radius', surface_number=1, min_val=20, max_val=500, apply_scaling=False)
p.add_operand('f2', 70.0, 1.0, {'optic': lens})
try:
    O.LeastSquares(p).optimize(maxiter=20, disp=False)
    raise SystemExit("LeastSquares did not raise")
except ValueError as ex:
    print("LeastSquares:", ex)
print("reproduced")
