"""C14 / undo_restores, pickups_hold, solves_hold.
undo() re-installs the variables but does not update the optics: pickup / solve targets stay.
Run:  PYTHONPATH=/repo:/verif/replays/C14 /venv/bin/python undo_skips_update.py
"""
import numpy as np
from _lens import singlet
from optiland.optimization import optimization as O

lens = singlet()
lens.pickups.add(1, 'radius', 2, scale=-1, offset=0)          # R2 = -R1
lens.solves.add('marginal_ray_height', 3, 0.0)                 # image at the paraxial focus
before = (list(np.ravel(lens.surface_group.radii)), list(np.ravel(lens.surface_group.positions)))
p = O.OptimizationProblem()
p.add_variable(lens, 'radius', surface_number=1, min_val=20, max_val=500)
p.add_operand('f2', 70.0, 1.0, {'optic': lens})
opt = O.OptimizerGeneric(p)
opt.optimize(maxiter=20, disp=False, tol=1e-9)
opt.undo()
after = (list(np.ravel(lens.surface_group.radii)), list(np.ravel(lens.surface_group.positions)))
print("radii    before run:", before[0], "\n         after undo:", after[0])
print("vertices before run:", before[1], "\n         after undo:", after[1])
assert after[0][1] == before[0][1] and after[0][2] != before[0][2] and after[1][3] != before[1][3]
print("reproduced: R1 restored, R2 (pickup) and the image distance (solve) are not")
