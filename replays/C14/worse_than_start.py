"""C14 / not_worse: OptimizerGeneric.optimize(method='SLSQP') stopped at its iteration limit.
Run:  PYTHONPATH=/repo:/verif:/verif/replays/C14 /venv/bin/python worse_than_start.py
(uses the check's own case generator to rebuild the recorded lens)
"""
import json
import os
import sys
import warnings

from harness import lensgen as G
from harness import optrec as R
from optiland.optimization import optimization as O

case = json.load(open(os.path.join(os.path.dirname(os.path.abspath(__file__)), "worse_than_start.case.json")))
case = {k: v for k, v in case.items() if k not in ("vars", "ops", "made")}
lens, meta = G.quiet(R.build_lens, case)
R.choose_problem(case, lens, case["family"])
R.add_constraints(case, lens)
p = G.quiet(R.build_problem, case, lens)
start = p.sum_squared()
with warnings.catch_warnings():
    warnings.simplefilter("ignore")
    res = G.quiet(O.OptimizerGeneric(p).optimize, method="SLSQP", maxiter=case["params"]["maxiter"], disp=False, tol=1e-6)
print("variables:", [(v["type"], v["k"], v["min"], v["max"]) for v in case["vars"]])
print("start merit %.6g  ->  result.fun %.6g  (success=%s: %s); sum_squared() now %.6g"
      % (start, res.fun, res.success, res.message, p.sum_squared()))
assert res.fun > start
print("reproduced: the returned objective is worse than the start")
