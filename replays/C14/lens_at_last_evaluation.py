"""C14 / lens_at_returned, merit_at_returned.
After optimize() the lens is left at scipy's last objective evaluation, not at result.x.
Run:  PYTHONPATH=/repo:/verif/replays/C14 /venv/bin/python lens_at_last_evaluation.py
"""
import numpy as np
from _lens import singlet
from optiland.optimization import optimization as O

for name, cls, kw in (("OptimizerGeneric", O.OptimizerGeneric, dict(maxiter=20, disp=False, tol=1e-9)),
                      ("LeastSquares", O.LeastSquares, dict(maxiter=20, disp=False, tol=1e-9)),
                      ("DualAnnealing", O.DualAnnealing, dict(maxiter=3, disp=False)),
                      ("DifferentialEvolution workers=1", O.DifferentialEvolution, dict(maxiter=2, disp=False, workers=1))):
    lens = singlet()
    p = O.OptimizationProblem()
    p.add_variable(lens, 'radius', surface_number=1, min_val=20, max_val=500)
    p.add_operand('f2', 70.0, 1.0, {'optic': lens})
    opt = cls(p)
    seen = []
    inner = opt._fun
    opt._fun = lambda x: (seen.append(np.array(x, dtype=float).copy()), inner(x))[1]
    res = opt.optimize(**kw)
    value = float(np.ravel(p.variables[0].value)[0])
    print("%-34s result.x=%.12f  variable=%.12f  last evaluation=%.12f | result.fun=%.6e  sum_squared()=%.6e"
          % (name, res.x[0], value, seen[-1][0], float(np.ravel(res.fun)[0]), p.sum_squared()))
    assert abs(value - seen[-1][0]) < 1e-12 and abs(value - res.x[0]) > 1e-10, "deviation not reproduced"
print("reproduced: the lens sits at the last evaluation, not at result.x")
