"""C20 / C20-glass-name-resolves-to-other-entry: 'GLAS SF6' loads sulphur hexafluoride gas.

Run:  PYTHONPATH=/repo /venv/bin/python /verif/replays/C20/glass_name_other_entry.py
Expected: SCHOTT SF6 (glass/schott/SF6.yml, n_d = 1.80518 as written on the GLAS line).
Observed: main/SF6/Vukovic.yml, n(0.6563 um) = 1.0007.  Exit status 1 while present.
"""
import sys
from _common import HEADER, load

BODY = """SURF 0
  TYPE STANDARD
  CURV 0.0
  DISZ INFINITY
SURF 1
  STOP
  TYPE STANDARD
  CURV 0.03125
  DISZ 4
  GLAS SF6 0 0 1.80518 25.43
SURF 2
  TYPE STANDARD
  CURV -0.03125
  DISZ 50
SURF 3
  TYPE STANDARD
  CURV 0.0
  DISZ 0
"""
lens = load(HEADER % "GCAT SCHOTT" + BODY)
mat = lens.surface_group.surfaces[1].material_post
fn = getattr(mat, "material_data", {}).get("filename")
n = float(mat.n(0.6563))
print("GLAS SF6 1.80518 25.43 (GCAT SCHOTT) -> %s, n(0.6563) = %.6f" % (fn, n))
sys.exit(0 if fn == "glass/schott/SF6.yml" else 1)
