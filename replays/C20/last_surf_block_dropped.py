"""C20 / C20-last-surf-block-dropped: the last SURF block of a .zmx file is never stored.

Run:  PYTHONPATH=/repo /venv/bin/python /verif/replays/C20/last_surf_block_dropped.py
Expected (from the file): 4 surfaces, the last with radius 1/(-0.03125) = -32, conic -1, and
the stop on it in the second file.  Observed: the last surface is a default plane and the
second lens has no stop.  Exit status 1 while the defect is present.
"""
import sys
import numpy as np
from _common import HEADER, load

BODY = """SURF 0
  TYPE STANDARD
  CURV 0.0
  DISZ INFINITY
SURF 1
  %s
  TYPE STANDARD
  CURV 0.03125
  DISZ 4
  GLAS N-SF11 0 0 1.78472 25.68
SURF 2
  TYPE STANDARD
  CURV -0.03125
  DISZ 50
SURF 3
  %s
  TYPE STANDARD
  CURV -0.03125
  CONI -1
  DISZ 0
"""
bad = 0
for enc in ("utf-8", "utf-16"):
    lens = load(HEADER % "GCAT SCHOTT" + BODY % ("STOP", "COMM image"), enc)
    sg = lens.surface_group
    r, k = float(np.ravel(sg.radii)[3]), float(np.ravel(sg.conic)[3])
    print("%-6s curved image: radius %r (file: -32.0), conic %r (file: -1.0)" % (enc, r, k))
    bad += (r != -32.0) + (k != -1.0)
    lens = load(HEADER % "GCAT SCHOTT" + BODY % ("COMM front", "STOP"), enc)
    print("%-6s stop on the last surface: stop_index %r (file: 3)" % (enc, lens.surface_group.stop_index))
    bad += lens.surface_group.stop_index != 3
sys.exit(1 if bad else 0)
