"""C20 / C20-evenasph-missing-parm: an EVENASPH block with fewer than eight PARM lines.

Run:  PYTHONPATH=/repo /venv/bin/python /verif/replays/C20/evenasph_missing_parm.py
Expected: the lens loads, surface 1 has coefficients [0, 1e-4, -2e-6, 0] (r^2 .. r^8), the
terms not written are zero.  Observed: KeyError('param_4').  Exit status 1 while present.
"""
import sys
from _common import HEADER, load

BODY = """SURF 0
  TYPE STANDARD
  CURV 0.0
  DISZ INFINITY
SURF 1
  STOP
  TYPE EVENASPH
  CURV 0.03125
  PARM 1 0
  PARM 2 1e-4
  PARM 3 -2e-6
  PARM 4 0
  DISZ 4
  GLAS N-SF11 0 0 1.78472 25.68
SURF 2
  TYPE STANDARD
  CURV 0.0
  DISZ 40
SURF 3
  TYPE STANDARD
  CURV 0.0
  DISZ 0
"""
try:
    lens = load(HEADER % "GCAT SCHOTT" + BODY)
except Exception as ex:
    print("load_zemax_file raised %s: %s" % (type(ex).__name__, ex))
    sys.exit(1)
print("coefficients:", list(lens.surface_group.surfaces[1].geometry.c))
sys.exit(0)
