"""C20 / C20-gcat-not-consulted: GLAS names carried by several catalogues ignore GCAT.

Run:  PYTHONPATH=/repo /venv/bin/python /verif/replays/C20/gcat_not_consulted.py
Expected: with 'GCAT SCHOTT' the glass F2 is glass/schott/F2.yml, with 'GCAT CDGM' the glass
BAF4 is glass/cdgm/BAF4.yml.  Observed: another vendor's file.  Exit status 1 while present.
"""
import sys
from _common import HEADER, load

BODY = """SURF 0
  TYPE STANDARD
  CURV 0.0
  DISZ INFINITY
SURF 1
  STOP
  TYPE STANDARD
  CURV 0.03125
  DISZ 4
  GLAS %s 0 0 %s
SURF 2
  TYPE STANDARD
  CURV -0.03125
  DISZ 50
SURF 3
  TYPE STANDARD
  CURV 0.0
  DISZ 0
"""
bad = 0
for vendor, name, nv in (("SCHOTT", "F2", "1.62004 36.37"), ("CDGM", "BAF4", "1.60562 43.88")):
    lens = load(HEADER % ("GCAT " + vendor) + BODY % (name, nv))
    mat = lens.surface_group.surfaces[1].material_post
    fn = getattr(mat, "material_data", {}).get("filename")
    want = "glass/%s/%s.yml" % (vendor.lower(), name)
    print("GCAT %s, GLAS %-5s -> %s (the file names %s)" % (vendor, name, fn, want))
    bad += fn != want
sys.exit(1 if bad else 0)
