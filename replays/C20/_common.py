"""Shared by the C20 reproductions: write a .zmx text next to this file and load it."""
import contextlib
import io
import os
import tempfile

HEADER = """MODE SEQ
UNIT MM X W X CM MR CPMM
ENPD 8
%s
FTYP 0 0 2 2 0 0 0 0
XFLN 0 0
YFLN 0 5
WAVM 1 0.5 1
WAVM 2 0.625 1
PWAV 1
"""


def load(text, encoding="utf-8"):
    from optiland.fileio import load_zemax_file
    with tempfile.TemporaryDirectory(dir=os.path.dirname(os.path.abspath(__file__))) as d:
        path = os.path.join(d, "case.zmx")
        with open(path, "w", encoding=encoding, newline="") as fh:
            fh.write(text)
        with contextlib.redirect_stdout(io.StringIO()):
            return load_zemax_file(path)
