"""C15 / end_state_nominal: MonteCarlo.run leaves the lens perturbed.
Run:  PYTHONPATH=/repo:/verif/replays/C15 /venv/bin/python monte_carlo_no_final_reset.py
"""
import numpy as np
from _lens import singlet
from optiland.tolerancing import Tolerancing, ScalarSampler, RangeSampler, SensitivityAnalysis
from optiland.tolerancing.monte_carlo import MonteCarlo


def state(lens):
    return [float(v) for v in np.ravel(lens.surface_group.radii)], [float(v) for v in np.ravel(lens.surface_group.positions)]


for name in ("MonteCarlo", "SensitivityAnalysis"):
    lens = singlet()
    before = state(lens)
    tol = Tolerancing(lens)
    tol.add_operand('f2', {'optic': lens})
    tol.add_perturbation('radius', RangeSampler(60.0, 66.0, 3), surface_number=1)
    tol.add_perturbation('thickness', RangeSampler(5.0, 5.5, 3), surface_number=1)
    if name == "MonteCarlo":
        MonteCarlo(tol).run(3)
    else:
        SensitivityAnalysis(tol).run()
    after = state(lens)
    print("%-20s radii %r -> %r\n%20s vertices %r -> %r" % (name, before[0], after[0], "", before[1], after[1]))
    if name == "MonteCarlo":
        assert after != before, "deviation not reproduced"
        tol.reset()
        assert state(lens) == before
        print("%20s after an explicit tol.reset(): nominal again" % "")
    else:
        assert after == before
print("reproduced: MonteCarlo.run returns with the last trial's perturbations still applied")
