"""A plain singlet used by the stand-alone reproductions of C14 / C15 (public API only)."""
import math

from optiland.materials import IdealMaterial
from optiland.optic import Optic


def singlet(material=None):
    o = Optic()
    o.add_surface(index=0, thickness=math.inf)
    o.add_surface(index=1, radius=60.0, thickness=5.0,
                  material=material if material is not None else IdealMaterial(n=1.6, k=0), is_stop=True)
    o.add_surface(index=2, radius=-60.0, thickness=48.0)
    o.add_surface(index=3)
    o.set_aperture('EPD', 8.0)
    o.set_field_type('angle')
    o.add_field(y=0.0)
    o.add_field(y=3.0)
    o.add_wavelength(0.4861)
    o.add_wavelength(0.5876, is_primary=True)
    o.add_wavelength(0.6563)
    return o
