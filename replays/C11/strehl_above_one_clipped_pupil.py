"""C11 / norm, pixel, parseval, strehl_le_1: a perfect mirror whose aperture clips the beam has Strehl 2.34.

PYTHONPATH=/repo python strehl_above_one_clipped_pupil.py
FFTPSF builds the pupil amplitude as intensity / mean(intensity) with the mean taken over ALL pupil
points (clipped rays have intensity 0), so the surviving points have amplitude n_all / n_pass > 1, while
_get_normalization() takes the peak of a pupil with amplitude 1 on the surviving points.  The
unaberrated pupil therefore peaks at 100 (n_all / n_pass)^2 instead of 100.
"""
import numpy as np
from optiland.optic import Optic
from optiland.psf import FFTPSF
from optiland.physical_apertures import RadialAperture

o = Optic()
o.add_surface(index=0, thickness=np.inf)
o.add_surface(index=1, thickness=10.0, is_stop=True)
o.add_surface(index=2, radius=-200.0, conic=-1.0, thickness=-100.0, material="mirror",
              aperture=RadialAperture(r_max=8.0))
o.add_surface(index=3)
o.set_aperture("EPD", 20.0)
o.set_field_type("angle")
o.add_field(y=0.0)
o.add_wavelength(0.55, is_primary=True)
p = FFTPSF(o, (0, 0), 0.55, num_rays=32, grid_size=64)
P = p.pupils[0]
n_pass = int((P != 0).sum())
print("pupil points passing %d, sum |P| = %.1f, normalisation %.1f = %d^2, law (sum |P|)^2 = %.1f"
      % (n_pass, np.abs(P).sum(), p._get_normalization(), n_pass, np.abs(P).sum() ** 2))
print("Strehl ratio %.4f, PSF maximum %.2f" % (p.strehl_ratio(), p.psf.max()))
print("DEVIATION" if p.strehl_ratio() > 1 + 1e-9 else "ok")
