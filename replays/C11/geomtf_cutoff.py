"""C11 / geo_max_freq: GeometricMTF uses the infinite-conjugate F-number for an object at finite distance;
C11 / raises: GeometricMTF(max_freq=<number>) raises AttributeError.

PYTHONPATH=/repo python geomtf_cutoff.py
1:1 relay with a thin-ish singlet: working F-number = F (1 + |m|/p) = 2 F, so the cut-off of the curves
(and the diffraction-limited scaling applied to the geometric MTF) is twice what FFTMTF reports.
"""
import numpy as np
from optiland.optic import Optic
from optiland.materials import IdealMaterial
from optiland.mtf import FFTMTF, GeometricMTF

o = Optic()
o.add_surface(index=0, thickness=200.0)
o.add_surface(index=1, radius=60.0, thickness=5.0, material=IdealMaterial(n=1.5), is_stop=True)
o.add_surface(index=2, radius=-300.0, thickness=190.0)
o.add_surface(index=3)
o.set_aperture("EPD", 10.0)
o.set_field_type("object_height")
o.add_field(y=0.0)
o.add_wavelength(0.55, is_primary=True)
o.image_solve()
px = o.paraxial
fw = px.FNO() * (1 + abs(px.magnification()) / (px.XPD() / px.EPD()))
g = GeometricMTF(o, fields=[(0, 0)], wavelength=0.55, num_rays=16, num_points=16)
f = FFTMTF(o, fields=[(0, 0)], wavelength=0.55, num_rays=32, grid_size=64)
print("F-number %.3f, magnification %.3f, working F-number %.3f" % (px.FNO(), px.magnification(), fw))
print("cut-off 1/(lambda_mm Fw) = %.2f;  FFTMTF.max_freq = %.2f;  GeometricMTF.max_freq = %.2f"
      % (1 / (0.55e-3 * fw), f.max_freq, g.max_freq))
bad = abs(g.max_freq * 0.55e-3 * fw - 1) > 1e-6
try:
    GeometricMTF(o, fields=[(0, 0)], wavelength=0.55, num_rays=16, num_points=16, max_freq=100.0)
    print("numeric max_freq accepted")
except Exception as ex:
    print("GeometricMTF(max_freq=100.0): %s: %s" % (type(ex).__name__, ex))
    bad += 1
print("DEVIATION" if bad else "ok", int(bad))
