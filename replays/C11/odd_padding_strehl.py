"""C11 / shape, strehl, peak100: when grid_size - num_rays is odd the PSF has (grid_size-1)^2 pixels and
strehl_ratio() reads a pixel beside the peak;  C11 / raises: num_rays = 31 cannot be computed at all.

PYTHONPATH=/repo python odd_padding_strehl.py
_pad_pupils pads (grid_size - num_rays) // 2 on both sides; strehl_ratio() reads psf[grid_size // 2] although
the zero-frequency pixel of an array of odd length M sits at (M - 1) / 2.  For num_rays = 31 the masks
"x^2 + y^2 <= 1" (distribution) and "sqrt(x^2 + y^2) <= 1" (FFTPSF._generate_pupils) differ at the four
points (+-0.6, +-0.8) by rounding and the assignment raises ValueError.
"""
import numpy as np
from optiland.optic import Optic
from optiland.psf import FFTPSF

o = Optic()
o.add_surface(index=0, thickness=np.inf)
o.add_surface(index=1, radius=-200.0, conic=-1.0, thickness=-100.0, material="mirror", is_stop=True)
o.add_surface(index=2)
o.set_aperture("EPD", 20.0)
o.set_field_type("angle")
o.add_field(y=0.0)
o.add_wavelength(0.55, is_primary=True)
bad = 0
for N, G in ((32, 64), (33, 64), (17, 64), (31, 64)):
    try:
        p = FFTPSF(o, (0, 0), 0.55, num_rays=N, grid_size=G)
    except Exception as ex:
        print("num_rays %d grid %d: %s: %s" % (N, G, type(ex).__name__, ex))
        bad += 1
        continue
    pk = np.unravel_index(p.psf.argmax(), p.psf.shape)
    print("num_rays %d grid %d: psf shape %s, peak %.1f at %s, strehl_ratio() = %.4f (perfect mirror)"
          % (N, G, p.psf.shape, p.psf.max(), tuple(int(v) for v in pk), p.strehl_ratio()))
    bad += abs(p.strehl_ratio() - 1) > 1e-6
print("DEVIATION" if bad else "ok", bad)
