"""C11 / freq_axis: the frequency axis FFTMTF.view() draws ignores grid_size and the um -> mm factor.

PYTHONPATH=/repo MPLBACKEND=Agg python fftmtf_frequency_axis.py
A perfect paraboloid (F/5, 0.55 um): the cut-off 1/(lambda_mm F#) = 363.6 cycles/mm must be reached where
the support of the MTF ends (index num_rays-1 .. num_rays).  FFTMTF._get_mtf_units returns
Q/(lambda_um F#) with Q = grid_size/num_rays, i.e. grid_size/1000 times the right step.
"""
import numpy as np
import matplotlib
matplotlib.use("Agg")
import matplotlib.pyplot as plt
from optiland.optic import Optic
from optiland.mtf import FFTMTF

o = Optic()
o.add_surface(index=0, thickness=np.inf)
o.add_surface(index=1, radius=-200.0, conic=-1.0, thickness=-100.0, material="mirror", is_stop=True)
o.add_surface(index=2)
o.set_aperture("EPD", 20.0)
o.set_field_type("angle")
o.add_field(y=0.0)
o.add_wavelength(0.55, is_primary=True)
bad = 0
for N, G in ((32, 64), (32, 256), (64, 1024), (128, 1024), (128, 2048)):
    m = FFTMTF(o, fields=[(0, 0)], wavelength=0.55, num_rays=N, grid_size=G)
    m.view()
    x = np.asarray(plt.gcf().axes[0].lines[0].get_xdata())
    plt.close("all")
    t = np.asarray(m.mtf[0][0])
    last = int(np.nonzero(t > 1e-9)[0].max())          # end of the support of the curve
    print("num_rays %4d grid %5d: cut-off %.1f c/mm; axis at the end of the support (index %d): %.2f c/mm; "
          "axis step %.4f, law fc/num_rays = %.4f  (ratio %.4f = grid/1000)"
          % (N, G, m.max_freq, last, x[last], x[1], m.max_freq / N, x[1] / (m.max_freq / N)))
    if not (m.max_freq / N * (1 - 1e-9) <= x[1] <= m.max_freq / (N - 1) * (1 + 1e-9)):
        bad += 1
print("DEVIATION" if bad else "ok", bad)
