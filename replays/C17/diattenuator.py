"""C17 / JonesLinearDiattenuator: off-diagonal entries are t_max - t_min*cos*sin.
Run: PYTHONPATH=/repo /venv/bin/python diattenuator.py
A linear diattenuator with amplitude transmissions t_max (along theta) and t_min
(across) is Rot(theta) diag(t_max, t_min) Rot(-theta); its off-diagonal entries are
(t_max - t_min) cos(theta) sin(theta).  jones.py computes
    j0x = (self.t_max - self.t_min * np.cos(self.theta) * np.sin(self.theta))
"""
import numpy as np
from optiland.jones import JonesLinearDiattenuator
from optiland.rays import RealRays

rays = RealRays(0, 0, 0, 0, 0, 1, 1, 0.55)
tmin, tmax = 0.2, 1.0
M0 = JonesLinearDiattenuator(tmin, tmax, 0.0).calculate_matrix(rays)[0][:2, :2].real
print("theta = 0:\n", M0, "\nexpected diag(t_max, t_min) =", np.diag([tmax, tmin]).tolist())
th = 0.5
c, s = np.cos(th), np.sin(th)
Rm = np.array([[c, -s], [s, c]])
M = JonesLinearDiattenuator(tmin, tmax, th).calculate_matrix(rays)[0][:2, :2].real
print("theta = 0.5:\n", M, "\nRot diag(t_max, t_min) Rot^T =\n", Rm @ np.diag([tmax, tmin]) @ Rm.T)
print("Rot M(0) Rot^T with the code's own M(0) =\n", Rm @ M0 @ Rm.T)
assert not np.allclose(M0, np.diag([tmax, tmin])), "defect gone"
assert not np.allclose(M, Rm @ M0 @ Rm.T), "defect gone"
print("REPRODUCED: matrix at theta=0 is not diagonal; M(theta) != Rot M(0) Rot^T")
