"""C17 / Optic.trace_generic ignores the propagated field: i stays 1 with Fresnel coatings.
Run: PYTHONPATH=/repo /venv/bin/python trace_generic.py
Optic.trace calls rays.update_intensity(self.polarization_state) after the surface trace;
Optic.trace_generic does not.
"""
import numpy as np
from optiland.materials import IdealMaterial
from optiland.optic import Optic
from optiland.rays import create_polarization

o = Optic()
o.add_surface(index=0, thickness=np.inf)
o.add_surface(index=1, radius=50.0, thickness=5.0, material=IdealMaterial(n=1.5), is_stop=True, coating="fresnel")
o.add_surface(index=2, radius=-50.0, thickness=40.0, coating="fresnel")
o.add_surface(index=3)
o.set_aperture("EPD", 10.0)
o.set_field_type("angle")
o.add_field(y=0.0)
o.add_wavelength(0.55, is_primary=True)
st = create_polarization("H")
o.set_polarization(st)
a = o.trace(0.0, 0.0, 0.55, 1, "hexapolar")
b = o.trace_generic(0.0, 0.0, np.array([0.0, 0.5]), np.array([0.0, 0.5]), 0.55)
Eb = b.get_output_field(b._get_3d_electric_field(st))
print("trace          i =", a.i[:2])
print("trace_generic  i =", b.i, "  |P E0|^2 =", np.sum(np.abs(Eb) ** 2, axis=1))
assert np.all(b.i == 1.0) and np.all(a.i < 0.95), "defect gone"
print("REPRODUCED")
