"""C17 / polarized trace through a tilted surface: the propagated field is not transverse.
Run: PYTHONPATH=/repo /venv/bin/python tilted_frames.py
Surface._trace_real localizes the rays (rotating L, M, N into the surface frame), calls
PolarizedRays.update() there and globalizes the rays again; rays.p is multiplied by a matrix
expressed in the tilted local frame and is never rotated back.
"""
import numpy as np
from optiland.materials import IdealMaterial
from optiland.optic import Optic
from optiland.rays import create_polarization


def lens(rx):
    o = Optic()
    o.add_surface(index=0, thickness=np.inf)
    o.add_surface(index=1, radius=50.0, thickness=5.0, material=IdealMaterial(n=1.5), is_stop=True, rx=rx)
    o.add_surface(index=2, radius=-50.0, thickness=40.0)
    o.add_surface(index=3)
    o.set_aperture("EPD", 10.0)
    o.set_field_type("angle")
    o.add_field(y=0.0)
    o.add_wavelength(0.55, is_primary=True)
    return o


for rx in (0.0, 0.1):
    o = lens(rx)
    st = create_polarization("V")
    o.set_polarization(st)
    rays = o.trace(0.0, 0.0, 0.55, 2, "hexapolar")
    E1 = rays.get_output_field(rays._get_3d_electric_field(st))
    d = np.stack([rays.L, rays.M, rays.N], axis=1)
    print("rx = %.2f: max |E.d| = %.3e   intensity %.15f .. %.15f" % (
        rx, np.abs(np.sum(E1 * d, axis=1)).max(), rays.i.min(), rays.i.max()))
    if rx:
        assert np.abs(np.sum(E1 * d, axis=1)).max() > 1e-6, "defect gone"
print("REPRODUCED: E.d = 0 to rounding without tilt, 1e-5..1e-2 behind the tilted surface")
