"""Stand-alone reproduction (C05, clauses `decay` / `end` against Paraxial.trace).

Paraxial.trace(Hy, Py, w) - the paraxial trace by normalised coordinates - with a FINITE object
and ANGULAR fields launches the wrong ray: Paraxial._get_object_position puts the object point at
y0 = y1 - tan(theta) (y1 = Py EPD/2 is the pupil height), i.e. the tangent is not multiplied by the
distance EPL - z_object and the pupil height is added to the object height.  So
  Paraxial.trace(0, 1): a ray parallel to the axis at height EPD/2 instead of the marginal ray
                        from the axial object point (marginal_ray() is right),
  Paraxial.trace(1, 0): an object point at -tan(theta) instead of -tan(theta) (EPL - z_object)
                        (chief_ray() is right).
Real rays traced with the same normalised coordinates converge to marginal_ray() / chief_ray(),
not to Paraxial.trace.  Used by analysis/pupil_aberration.py (Paraxial.trace(0, Py)).

Run:  PYTHONPATH=/repo /venv/bin/python replays/C05/paraxial_trace_finite_object_angle.py
"""
import numpy as np
from optiland.optic import Optic
from optiland.materials import IdealMaterial

o = Optic()
o.add_surface(index=0, thickness=100.0)
o.add_surface(index=1, radius=50.0, thickness=5.0, material=IdealMaterial(n=1.5))
o.add_surface(index=2, radius=-50.0, thickness=10.0)
o.add_surface(index=3, thickness=85.0, is_stop=True)
o.add_surface(index=4)
o.set_aperture("EPD", 5.0)
o.set_field_type("angle")
o.add_field(y=0.0)
o.add_field(y=3.0)
o.add_wavelength(0.55, is_primary=True)

ym, um = [np.ravel(a) for a in o.paraxial.marginal_ray()]
yc, uc = [np.ravel(a) for a in o.paraxial.chief_ray()]
eps = 2.0 ** -10
for name, (hy, py), (yp, up) in (("marginal", (0.0, 1.0), (ym, um)), ("chief", (1.0, 0.0), (yc, uc))):
    o.paraxial.trace(hy, py, 0.55)
    yt, ut = np.ravel(o.surface_group.y).copy(), np.ravel(o.surface_group.u).copy()
    o.trace_generic(0.0, hy * eps, np.array([0.0]), np.array([py * eps]), 0.55)
    s = eps if name == "marginal" else np.tan(np.radians(eps * 3.0)) / np.tan(np.radians(3.0))
    real = np.ravel(o.surface_group.y) / s
    print(name)
    print("  real ray / scale factor      :", real)
    print("  %-28s :" % ("marginal_ray()" if name == "marginal" else "chief_ray()"), yp)
    print("  Paraxial.trace(%g, %g)         :" % (hy, py), yt, " u0 =", ut[0])
    assert np.allclose(real[1:], yp[1:], atol=1e-4)
    assert not np.allclose(real[1:], yt[1:], atol=1e-2)
print("reproduced: Paraxial.trace disagrees with the real rays and with marginal_ray()/chief_ray()")
