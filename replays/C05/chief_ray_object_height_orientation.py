"""Stand-alone reproduction (C05, clause `chief_orientation`).

With object_height fields the real ray of normalised field Hy starts at y = +Hy * max_field
(RayGenerator._get_ray_origins), but Paraxial.chief_ray() - and Paraxial.trace(Hy, Py) through
_get_object_position (y = -field_y) - describe the object point y = -max_field.  The real
chief-type ray (field eps, pupil 0) divided by eps therefore converges to MINUS chief_ray().
With angular fields the two agree.

Run:  PYTHONPATH=/repo /venv/bin/python replays/C05/chief_ray_object_height_orientation.py
"""
import numpy as np
from optiland.optic import Optic
from optiland.materials import IdealMaterial


def lens(field_type, field):
    o = Optic()
    o.add_surface(index=0, thickness=100.0)
    o.add_surface(index=1, radius=50.0, thickness=5.0, material=IdealMaterial(n=1.5), is_stop=True)
    o.add_surface(index=2, radius=-50.0, thickness=95.0)
    o.add_surface(index=3)
    o.set_aperture("EPD", 5.0)
    o.set_field_type(field_type)
    o.add_field(y=0.0)
    o.add_field(y=field)
    o.add_wavelength(0.55, is_primary=True)
    return o


for ft, fld in (("object_height", 5.0), ("angle", 3.0)):
    o = lens(ft, fld)
    yc, uc = [np.ravel(a) for a in o.paraxial.chief_ray()]
    eps = 1e-3
    o.trace_generic(0.0, eps, np.array([0.0]), np.array([0.0]), 0.55)
    s = eps if ft == "object_height" else np.tan(np.radians(eps * fld)) / np.tan(np.radians(fld))
    real = np.ravel(o.surface_group.y) / s
    print(ft)
    print("  paraxial chief_ray() heights :", yc)
    print("  real (field %g, pupil 0) / s  :" % eps, real)
    if ft == "object_height":
        assert np.allclose(real[1:], -yc[1:], atol=1e-4) and abs(yc[-1]) > 1
    else:
        assert np.allclose(real[1:], yc[1:], atol=1e-4)
print("reproduced: for object_height fields the real chief-type ray converges to -chief_ray()")
