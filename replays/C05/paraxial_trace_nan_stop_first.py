"""Stand-alone reproduction (C05, clause `not_finite` against Paraxial.trace).

Paraxial.trace(Hy, Py, w) with an object at infinity launches from the plane z0 = z_1 (vertex of
surface 1) and computes the slope as u0 = (y1 - y0) / (EPL - z0).  When the aperture stop is
surface 1 the entrance pupil is that very plane (EPL = z_1), so u0 = 0/0: every paraxial height
and slope is NaN, for any Hy and Py, although marginal_ray(), chief_ray() and the real rays of the
same lens are finite.  analysis/pupil_aberration.py uses Paraxial.trace.

Run:  PYTHONPATH=/repo /venv/bin/python replays/C05/paraxial_trace_nan_stop_first.py
"""
import numpy as np
from optiland.optic import Optic
from optiland.materials import IdealMaterial

o = Optic()
o.add_surface(index=0, thickness=np.inf)
o.add_surface(index=1, radius=50.0, thickness=5.0, material=IdealMaterial(n=1.5), is_stop=True)
o.add_surface(index=2, radius=-50.0, thickness=95.0)
o.add_surface(index=3)
o.set_aperture("EPD", 5.0)
o.set_field_type("angle")
o.add_field(y=0.0)
o.add_field(y=3.0)
o.add_wavelength(0.55, is_primary=True)

print("EPL =", o.paraxial.EPL(), " marginal_ray() heights:", np.ravel(o.paraxial.marginal_ray()[0]))
with np.errstate(all="ignore"):
    o.paraxial.trace(0.0, 1.0, 0.55)
y = np.ravel(o.surface_group.y).copy()
print("Paraxial.trace(0, 1) heights:", y)
o.trace_generic(0.0, 0.0, np.array([0.0]), np.array([1e-3]), 0.55)
print("real ray (pupil 1e-3) / 1e-3 :", np.ravel(o.surface_group.y) / 1e-3)
assert np.all(np.isnan(y[1:]))
print("reproduced: Paraxial.trace is NaN when the stop is surface 1 and the object is at infinity")
