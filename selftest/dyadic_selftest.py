import sys, random, math, time
sys.path.insert(0,'/verif')
from fractions import Fraction
from harness.dy import dy, dyfrac, undy
from harness import tlc
random.seed(1)
ev=[]
def rnd():
    c=random.random()
    if c<0.05: return 0.0
    if c<0.1: return float(random.randint(-5,5))
    return random.choice([-1,1])*math.exp(random.uniform(-30,15))*random.random()
for i in range(3000):
    a=rnd(); b=rnd() if random.random()>0.1 else random.choice([a,-a])
    fa,fb=Fraction(a),Fraction(b)
    ev.append({"id":i,"a":dy(a),"b":dy(b),"sum":dyfrac(fa+fb),"diff":dyfrac(fa-fb),"prod":dyfrac(fa*fb),"cmp":(fa>fb)-(fa<fb)})
    assert undy(dy(a))==fa
t=time.time()
v,st=tlc.validate_events("Trace_Dyadic",ev,"/verif/.work/selftest_dy",shards=4)
bad={k:x for k,x in v.items() if x}
print(len(v),"verdicts",len(bad),"bad",st,time.time()-t)
print(list(bad.items())[:5])
