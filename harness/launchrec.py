"""Recording of ray launches for spec/Launch.tla (C03).

Reads only the observation points of C03: the object-surface record
surface_group.x/y/z/L/M/N/opd/intensity[0] after optic.trace / optic.trace_generic,
the rays object those calls return (wavelength), distribution.x / distribution.y,
and - as recorded data whose correctness is C04's business - paraxial.EPL() / EPD().
Nothing here computes an expected launch; certificates (degrees -> radians -> tan)
are computed with libm and validated polynomially by the spec.
"""
import math

import numpy as np

from harness.dy import dy

ZERO = dy(0.0)
ONE = dy(1.0)
CELL_ORDER = [(ap, ft, inf, tel) for ap in ("EPD", "imageFNO", "objectNA") for ft in ("angle", "object_height")
              for inf in (False, True) for tel in (False, True)]
DIST_CLASS = {"gaussian_quadrature": False, "gaussian_quadrature_symmetric": True}


def _f(x):
    return float(np.asarray(x, dtype=float).ravel()[0])


def cell_of(optic):
    return {"ap": optic.aperture.ap_type, "ft": optic.field_type,
            "inf": bool(optic.object_surface.is_infinite), "tel": bool(optic.obj_space_telecentric)}


def cell_name(c):
    return "%s/%s/%s%s" % (c["ap"], c["ft"], "infinite" if c["inf"] else "finite", "/telecentric" if c["tel"] else "")


def lens_data(optic):
    """Per-lens recorded data (floats): EPL, EPD from the library's accessors, geometry of
    object space, maximum field, aperture value."""
    c = cell_of(optic)
    sg = optic.surface_group
    pos = [_f(p) for p in np.ravel(sg.positions)]
    out = {"cell": c, "F": float(optic.fields.max_field), "zmin": min(pos[1:-1]) if len(pos) > 2 else pos[-1],
           "z1": pos[1], "zobj": 0.0 if c["inf"] else _f(optic.object_surface.geometry.cs.z),
           "NA": float(optic.aperture.value), "vig": bool(np.any(optic.fields.vx != 0) or np.any(optic.fields.vy != 0)),
           "n0": _f(optic.object_surface.material_post.n(optic.primary_wavelength)),
           "EPL": 0.0, "EPD": 0.0}
    g0 = optic.object_surface.geometry
    r0 = float(getattr(g0, "radius", math.inf))
    out["Robj"] = r0 if (math.isfinite(r0) and not c["inf"]) else 0.0
    if not c["tel"]:
        # the paraxial entrance pupil of the lens as it is now: a fresh Paraxial object over the
        # current prescription, not whatever helper object the Optic happens to carry
        from optiland.paraxial import Paraxial
        px = Paraxial(optic)
        with np.errstate(all="ignore"):
            out["EPL"] = _f(px.EPL())
            out["EPD"] = _f(px.EPD())
    return out


def certs(F, H):
    th = F * H
    r = math.radians(th)
    return th, r, math.tan(r)


def ray_events(optic, ld, Hx, Hy, P, wreq, rays, entry, pick=None):
    """One event per launched ray (object-surface record of the trace just performed).
    Hx, Hy: requested floats; P: None or (Px, Py) arrays as requested (before any vignetting)."""
    sg = optic.surface_group
    n = sg.x.shape[1]
    idx = range(n) if pick is None else pick
    angle = ld["cell"]["ft"] == "angle"
    thx, rx, tx = certs(ld["F"], Hx) if angle else (0.0, 0.0, 0.0)
    thy, ry, ty = certs(ld["F"], Hy) if angle else (0.0, 0.0, 0.0)
    w = np.ravel(np.asarray(rays.w, dtype=float))
    common = {"kind": "ray", "cell": ld["cell"], "Hx": dy(Hx), "Hy": dy(Hy), "F": dy(ld["F"]),
              "thx": dy(thx), "thy": dy(thy), "rx": dy(rx), "ry": dy(ry), "tx": dy(tx), "ty": dy(ty),
              "EPL": dy(ld["EPL"]), "EPD": dy(ld["EPD"]), "zobj": dy(ld["zobj"]), "zmin": dy(ld["zmin"]),
              "NA": dy(ld["NA"]), "n0": dy(ld["n0"]), "vig": ld["vig"], "wreq": dy(float(wreq)),
              "hasP": P is not None, "entry": entry,
              "ocurved": bool(ld.get("Robj", 0.0) != 0.0), "Robj": dy(ld.get("Robj", 0.0))}
    out = []
    for r in idx:
        ev = dict(common)
        ev["Px"] = dy(float(P[0][r])) if P is not None else ZERO
        ev["Py"] = dy(float(P[1][r])) if P is not None else ZERO
        ev["o"] = [dy(float(sg.x[0, r])), dy(float(sg.y[0, r])), dy(float(sg.z[0, r]))]
        ev["d"] = [dy(float(sg.L[0, r])), dy(float(sg.M[0, r])), dy(float(sg.N[0, r]))]
        ev["i"] = dy(float(sg.intensity[0, r]))
        ev["opd"] = dy(float(sg.opd[0, r]))
        ev["w"] = dy(float(w[r] if w.size > 1 else w[0]))
        ev["_r"] = r
        out.append(ev)
    return out


def make_distribution(name, seed=None):
    from optiland import distribution as D
    if name in DIST_CLASS:
        return D.GaussianQuadrature(is_symmetric=DIST_CLASS[name])
    if name == "random" and seed is not None:
        return D.RandomDistribution(seed=seed)
    return D.create_distribution(name)


def dist_event(name, n, x, y, cnt=None, pts=True):
    return {"kind": "dist", "name": name, "n": int(n), "cnt": int(len(x) if cnt is None else cnt), "pts": bool(pts),
            "x": [dy(float(v)) for v in x] if pts else [], "y": [dy(float(v)) for v in y] if pts else []}


def vig_event(name, n, vx, vy, p0, p1):
    return {"kind": "vig", "name": name, "n": int(n), "vx": dy(vx), "vy": dy(vy),
            "x0": [dy(float(v)) for v in p0[0]], "y0": [dy(float(v)) for v in p0[1]],
            "x1": [dy(float(v)) for v in p1[0]], "y1": [dy(float(v)) for v in p1[1]]}


# ---- hand-built witnesses (every number exact or the float nearest to a rational) -------------
def witness_events():
    """Launch records constructed by hand from Pythagorean configurations; they must be
    accepted by Launch!JudgeRay (calibration, and MC_Launch carries the same records)."""
    base = {"kind": "ray", "hasP": True, "entry": "witness", "vig": False, "i": ONE, "opd": ZERO,
            "w": dy(0.55), "wreq": dy(0.55), "n0": ONE, "NA": dy(0.0), "zobj": ZERO, "zmin": ZERO,
            "thx": ZERO, "rx": ZERO, "tx": ZERO, "Hx": ZERO}
    wit = []
    # 1. infinite object, tan(theta_y) = 3/4: d = (0, 3/5, 4/5); EPL 8, EPD 4, P = (0, 1/2): A = (0, 1, 8);
    #    origin A - 15 d = (0, -8, -4)
    th = math.degrees(math.atan(0.75))
    e = dict(base, cell={"ap": "EPD", "ft": "angle", "inf": True, "tel": False}, Hy=ONE, F=dy(th), thy=dy(th),
             ry=dy(math.radians(th)), ty=dy(math.tan(math.radians(th))), Px=ZERO, Py=dy(0.5),
             EPL=dy(8.0), EPD=dy(4.0), o=[ZERO, dy(-8.0), dy(-4.0)], d=[ZERO, dy(0.6), dy(0.8)])
    wit.append(e)
    # 2. finite object at z = -12, height field F = 5, Hy = 1: origin (0, 5, -12); EPL 0, EPD 2,
    #    P = (0, -1): A = (0, -1, 0); A - o = (0, -6, 12) -> not Pythagorean; use P = (1, 0) with
    #    origin (0, 5, -12), Hx = 0: A = (1, 0, 0), A - o = (1, -5, 12) -> no.  Take F = 6, P = (0, 1):
    #    A = (0, 1, 0), A - o = (0, -5, 12): d = (0, -5/13, 12/13)
    e = dict(base, cell={"ap": "EPD", "ft": "object_height", "inf": False, "tel": False}, Hy=ONE, F=dy(6.0),
             thy=ZERO, ry=ZERO, ty=ZERO, Px=ZERO, Py=ONE, EPL=ZERO, EPD=dy(2.0), zobj=dy(-12.0),
             o=[ZERO, dy(6.0), dy(-12.0)], d=[ZERO, dy(-5.0 / 13.0), dy(12.0 / 13.0)])
    wit.append(e)
    # 3. finite object at z = -16, angle field tan = 3/4, EPL = 0: object point y = -12; P = 0:
    #    chief ray d = (0, 3/5, 4/5)
    e = dict(base, cell={"ap": "imageFNO", "ft": "angle", "inf": False, "tel": False}, Hy=ONE, F=dy(th), thy=dy(th),
             ry=dy(math.radians(th)), ty=dy(math.tan(math.radians(th))), Px=ZERO, Py=ZERO, EPL=ZERO, EPD=dy(3.0),
             zobj=dy(-16.0), o=[ZERO, dy(-12.0), dy(-16.0)], d=[ZERO, dy(0.6), dy(0.8)])
    wit.append(e)
    # 4. telecentric, NA = 3/5, rim ray P = (0, 1): d = (0, 3/5, 4/5); object height 2
    e = dict(base, cell={"ap": "objectNA", "ft": "object_height", "inf": False, "tel": True}, Hy=ONE, F=dy(2.0),
             thy=ZERO, ry=ZERO, ty=ZERO, Px=ZERO, Py=ONE, EPL=ZERO, EPD=ZERO, NA=dy(0.6), zobj=dy(-20.0),
             o=[ZERO, dy(2.0), dy(-20.0)], d=[ZERO, dy(0.6), dy(0.8)])
    wit.append(e)
    return wit


def witness_corruptions():
    """(witness index, field path, new value, clause that must fire)."""
    return [
        (0, ("d", 1), dy(-0.6), "field_angle_y"),            # wrong sign of the field angle
        (0, ("o", 1), dy(-8.001), "aim"),                    # misses the pupil point
        (0, ("ty",), dy(0.7501), "certificate"),             # tan certificate not the tangent
        (0, ("d", 2), dy(-0.8), "forward"),
        (0, ("i",), dy(0.5), "intensity"),
        (0, ("opd",), dy(1e-9), "opd"),
        (0, ("w",), dy(0.56), "wavelength"),
        (0, ("d", 2), dy(0.81), "unit"),
        (1, ("o", 1), dy(5.0), "origin_height"),
        (1, ("o", 2), dy(-12.5), "origin_on_object"),
        (1, ("Py",), dy(0.9), "aim"),
        (2, ("o", 1), dy(12.0), "origin_angle"),
        (3, ("NA",), dy(0.5), "tele_cone"),
        (3, ("NA",), dy(0.7), "tele_rim"),
        (3, ("Py",), dy(-1.0), "tele_azimuth"),
    ]


def apply_corruption(ev, path, val):
    import copy
    c = copy.deepcopy(ev)
    if len(path) == 1:
        c[path[0]] = val
    else:
        c[path[0]][path[1]] = val
    return c
