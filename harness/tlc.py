"""Thin runner around TLC: model checking, simulation, trace validation.

Every registered check decides its property by running TLC on a module of
/verif/spec; this file only starts the JVM, collects statistics and the
`PrintT` verdict lines, and turns TLC failures into MachineryError (exit 2).
"""
import json
import os
import re
import shutil
import subprocess
import time
from concurrent.futures import ThreadPoolExecutor

VERIF = os.path.dirname(os.path.dirname(os.path.abspath(__file__)))
SPEC = os.path.join(VERIF, "spec")
JAR = "/opt/veriftools/tla/tla2tools.jar:/opt/veriftools/tla/CommunityModules-deps.jar"


class MachineryError(Exception):
    pass


class TLCResult:
    def __init__(self, out, rc, wall):
        self.out = out
        self.rc = rc
        self.wall = wall
        m = re.findall(r"(\d+) states generated, (\d+) distinct states found", out)
        self.generated = int(m[-1][0]) if m else 0
        self.distinct = int(m[-1][1]) if m else 0
        if not m:
            ms = re.search(r"The number of states generated: (\d+)", out)
            if ms:
                self.generated = int(ms.group(1))
        m = re.search(r"depth of the complete state graph search is (\d+)", out)
        self.depth = int(m.group(1)) if m else 0
        self.violated = re.findall(r"Error: Invariant (\S+) is violated", out) + \
            re.findall(r"Error: Action property (\S+) is violated", out) + \
            re.findall(r"Error: Temporal properties were violated", out)
        self.ok = ("Model checking completed. No error has been found" in out) or \
                  (rc == 0 and "Error:" not in out)

    def prints(self, tag):
        """All PrintT'ed tuples <<"tag", ...>> as parsed Python values."""
        from harness.parse_tla import parse_value
        res = []
        lines = self.out.splitlines()
        k = 0
        while k < len(lines):
            line = lines[k].strip()
            k += 1
            if line.startswith('<<"%s"' % tag) or line.startswith('<< "%s"' % tag):
                # TLC wraps values longer than its line width: join the continuation lines
                # until the tuple is closed
                j = 0
                while line.count("<<") > line.count(">>") and k < len(lines) and j < 50 \
                        and not lines[k].lstrip().startswith(('<<"', '<< "')):
                    line += " " + lines[k].strip()
                    k += 1
                    j += 1
                try:
                    res.append(parse_value(line))
                except Exception:
                    pass
        return res


def java_cmd(heap="2g", gc_threads=2, extra_props=()):
    cmd = ["java", "-XX:+UseParallelGC", "-XX:ParallelGCThreads=%d" % gc_threads,
           "-Xmx" + heap, "-Xss16m"]
    cmd += list(extra_props)
    cmd += ["-cp", JAR, "tlc2.TLC"]
    return cmd


def run_tlc(module, cfg=None, workdir=None, workers=1, env=None, timeout=1800,
            args=(), heap="4g", gc_threads=None, specdir=SPEC, deadlock=False):
    """Run TLC on specdir/module.tla with specdir/cfg.  Returns TLCResult.

    Raises MachineryError on timeout / crash (not on invariant violations,
    which are verdicts the caller interprets)."""
    if workdir is None:
        raise ValueError("workdir required")
    os.makedirs(workdir, exist_ok=True)
    import uuid
    meta = os.path.join(workdir, "meta_%s_%s" % (module, uuid.uuid4().hex[:12]))
    if gc_threads is None:
        gc_threads = 2 if workers == 1 else 4
    cmd = java_cmd(heap, gc_threads)
    cmd += ["-workers", str(workers), "-metadir", meta, "-noGenerateSpecTE"]
    if not deadlock:
        cmd += ["-deadlock"]  # disable deadlock checking
    if cfg:
        cmd += ["-config", cfg if os.path.isabs(cfg) else os.path.join(specdir, cfg)]
    cmd += list(args)
    cmd += [os.path.join(specdir, module + ".tla")]
    e = dict(os.environ)
    if env:
        e.update({k: str(v) for k, v in env.items()})
    t0 = time.time()
    try:
        p = subprocess.run(cmd, cwd=specdir, env=e, stdout=subprocess.PIPE,
                           stderr=subprocess.STDOUT, timeout=timeout, text=True,
                           errors="replace")
    except subprocess.TimeoutExpired as ex:
        shutil.rmtree(meta, ignore_errors=True)
        raise MachineryError("TLC timeout after %ss on %s" % (timeout, module))
    finally:
        shutil.rmtree(meta, ignore_errors=True)
    res = TLCResult(p.stdout, p.returncode, time.time() - t0)
    return res


def require_ok(res, what):
    """A model-checking run that must pass (design-level MC of the spec)."""
    if not res.ok:
        tail = "\n".join(res.out.splitlines()[-40:])
        raise MachineryError("TLC did not complete cleanly on %s (rc=%s):\n%s"
                             % (what, res.rc, tail))
    return res


def validate_events(module, events, workdir, shards=16, timeout=1800, cfg=None,
                    env=None, tag="V", heap="2g", group=None):
    """Trace validation: feed `events` (list of JSON-able records, each with an
    integer field "id") to the trace spec `module`, sharded over JVMs.

    The trace spec consumes one event per step and PrintT's
    <<tag, id, {failing clause names}>> for every event it judges.
    Returns (verdicts: dict id -> list of failing clauses, stats dict)."""
    os.makedirs(workdir, exist_ok=True)
    if not events:
        return {}, {"states": 0, "generated": 0, "wall": 0.0, "jvms": 0}
    shards = max(1, min(shards, len(events)))
    if group is None:
        chunks = [events[i::shards] for i in range(shards)]
    else:
        # events with the same group key (a trace / a ray) stay together, in order
        order, groups = [], {}
        for e in events:
            k = e[group]
            if k not in groups:
                groups[k] = []
                order.append(k)
            groups[k].append(e)
        chunks = [[] for _ in range(shards)]
        for i, k in enumerate(order):
            chunks[i % shards] += groups[k]
        chunks = [c for c in chunks if c]
    files = []
    for i, ch in enumerate(chunks):
        f = os.path.join(workdir, "trace_%s_%d.json" % (module, i))
        with open(f, "w") as fh:
            json.dump(ch, fh)
        files.append((f, len(ch)))

    def one(arg):
        f, n = arg
        e = {"TRACE_FILE": f}
        if env:
            e.update(env)
        r = run_tlc(module, cfg or (module + ".cfg"), workdir, workers=1, env=e,
                    timeout=timeout, heap=heap)
        return r, n

    t0 = time.time()
    with ThreadPoolExecutor(max_workers=16) as ex:
        results = list(ex.map(one, files))
    verdicts = {}
    states = generated = 0
    for (r, n) in results:
        if not r.ok:
            tail = "\n".join(r.out.splitlines()[-40:])
            raise MachineryError("trace validation run failed (%s):\n%s" % (module, tail))
        got = r.prints(tag)
        for rec in got:
            verdicts[rec[1]] = sorted(rec[2]) if isinstance(rec[2], (set, frozenset, list, tuple)) else rec[2]
        done = [x for x in r.prints("DONE")]
        if not done or done[-1][1] != n:
            raise MachineryError("trace spec %s consumed %s of %d events" % (
                module, done[-1][1] if done else "?", n))
        states += r.distinct
        generated += r.generated
    for f, _ in files:
        os.remove(f)
    missing = [e["id"] for e in events if e["id"] not in verdicts]
    if missing:
        kinds = sorted({str(e.get("t", e.get("op", "?"))) for e in events if e["id"] in set(missing)})
        raise MachineryError("no verdict for events %s (kinds %s)" % (missing[:5], kinds))
    return verdicts, {"states": states, "generated": generated,
                      "wall": time.time() - t0, "jvms": len(files)}
