"""Random lens prescriptions built through the public API, and the bundled samples.

Generators keep lenses traceable (radii large against the beam, positive
thicknesses, alternating glass/air) but otherwise draw arbitrary floats.
"""
import contextlib
import inspect
import io
import math
import random

import numpy as np

GLASSES = [("N-BK7", "schott"), ("N-SF11", "schott"), ("F2", "schott"), ("N-LAK9", "schott")]


def quiet(fn, *a, **k):
    with contextlib.redirect_stdout(io.StringIO()):
        return fn(*a, **k)


def sample_classes():
    import optiland.samples as S
    from optiland.optic import Optic
    out = []
    for modname in ("simple", "objectives", "eyepieces", "infrared", "lithography", "microscopes", "telescopes"):
        mod = __import__("optiland.samples." + modname, fromlist=["x"])
        for name, cls in inspect.getmembers(mod, inspect.isclass):
            if issubclass(cls, Optic) and cls is not Optic and cls.__module__ == mod.__name__:
                out.append(cls)
    return out


def sample_lenses():
    for cls in sample_classes():
        try:
            yield cls.__name__, quiet(cls)
        except Exception as ex:      # a sample that cannot be built is reported by the caller
            yield cls.__name__, ex


def rnd_radius(rnd, lo, hi=800.0, p_plane=0.15):
    if rnd.random() < p_plane:
        return math.inf
    return rnd.choice([-1, 1]) * math.exp(rnd.uniform(math.log(lo), math.log(hi)))


def random_lens(rnd, nsurf=None, kinds=("standard",), mirrors=False, tilts=False, catalogue=False,
                finite_object=None, aperture="EPD", field_type=None, apertures=False, coatings=False,
                absorbing=False, max_field=None, wavelengths=None, conics=True, stop=None,
                poly_pow2=True, curved_image=False, optic=None, edits=None, object_radius=None):
    """Returns (optic, meta).  Everything goes through the public API."""
    from optiland.optic import Optic
    from optiland.materials import IdealMaterial
    from optiland.physical_apertures import RadialAperture
    from optiland.coatings import SimpleCoating
    o = optic if optic is not None else Optic()      # optic: a re-used (reset) Optic to build on
    n = nsurf if nsurf is not None else rnd.randint(1, 8)
    if finite_object is None:
        finite_object = rnd.random() < 0.35
    epd = rnd.uniform(1.0, 8.0)
    lo = 4.0 * epd
    obj_t = rnd.uniform(40.0, 400.0) if finite_object else math.inf
    # the order of the configuration calls is the user's (decided from a number already drawn, so
    # that the prescriptions of all seeds stay what they were): wavelengths and aperture may come
    # before the surfaces
    wl_first = int(epd * 1e6) % 3 == 0
    ap_first = int(epd * 1e6) % 4 == 1
    ap_value = {"EPD": epd, "imageFNO": None, "objectNA": None}[aperture]
    if wl_first:
        for i, w in enumerate(wavelengths or [0.4861, 0.5876, 0.6563]):
            o.add_wavelength(w, is_primary=(i == 1 or len(wavelengths or [1, 2, 3]) == 1))
    if ap_first and ap_value is not None:
        o.set_aperture(aperture, ap_value)
    if object_radius is not None and finite_object:
        o.add_surface(index=0, radius=object_radius, thickness=obj_t)      # a curved object surface
    else:
        o.add_surface(index=0, thickness=obj_t)
    stop_at = stop if stop is not None else rnd.randint(1, n)
    in_glass = False
    meta = {"nsurf": n, "finite_object": finite_object, "stop": stop_at, "kinds": [], "mirror": False,
            "tilted": False}
    sign = 1.0   # direction of propagation along z (flips at mirrors)
    for j in range(1, n + 1):
        kind = rnd.choice(list(kinds))
        R = rnd_radius(rnd, lo)
        conic = rnd.uniform(-1.5, 0.5) if (conics and rnd.random() < 0.4) else 0.0
        if conics and rnd.random() < 0.08:
            conic = -1.0        # exact paraboloid: the quadratic coefficient of the intersection vanishes for axial rays
        if kind == "standard" and math.isinf(R):
            conic = 0.0
        kw = dict(index=j, surface_type=kind, radius=R, conic=conic, is_stop=(j == stop_at))
        if kind == "even_asphere":
            # the r^2 term stays weak (the paraxial model ignores it: known C04 finding); the r^4 and r^6
            # terms reach a sag of up to 1e-3 lo at the rim of the largest beam (r = lo / 4), so that a
            # coefficient used with the wrong power moves the surface by far more than the solver tolerance
            kw["coefficients"] = [rnd.uniform(-1, 1) * (1e-4 / lo if q == 0 else 1e-3 * lo * (4.0 / lo) ** (2 * q + 2))
                                  for q in range(rnd.randint(1, 3))]
            # exact zeros are ordinary coefficients ("no r^2 term", padded lists): leading, interior, trailing
            zsel = rnd.random()
            if zsel < 0.25 and len(kw["coefficients"]) >= 2:
                kw["coefficients"][0] = 0.0
            elif zsel < 0.35 and len(kw["coefficients"]) == 3:
                kw["coefficients"][1] = 0.0
            elif zsel < 0.45:
                kw["coefficients"] = kw["coefficients"] + [0.0, 0.0]
        elif kind == "polynomial":
            # every shape of coefficient matrix: tall, wide, square, and a flat list (1 x n)
            lin, quad = (lambda: rnd.uniform(-2e-3, 2e-3)), (lambda: rnd.uniform(-1e-4, 1e-4))
            shape = rnd.choice(["tall", "wide", "square", "flat"])
            if shape == "tall":
                kw["coefficients"] = [[0.0, lin()], [lin(), quad()], [quad(), 0.0]]
            elif shape == "wide":
                kw["coefficients"] = [[0.0, lin(), quad()], [lin(), quad(), 0.0]]
            elif shape == "square":
                kw["coefficients"] = [[0.0, lin(), quad()], [lin(), quad(), 0.0], [quad(), 0.0, 0.0]]
            else:
                kw["coefficients"] = [0.0, lin(), quad(), quad() / lo]
        elif kind == "chebyshev":
            kw["coefficients"] = [[0.0, rnd.uniform(-1e-2, 1e-2)],
                                  [rnd.uniform(-1e-2, 1e-2), rnd.uniform(-1e-2, 1e-2)],
                                  [rnd.uniform(-1e-2, 1e-2), 0.0]]
            kw["norm_x"] = rnd.choice([64.0, 128.0])        # rectangular normalisation half the time
            kw["norm_y"] = rnd.choice([64.0, 128.0])
        m = rnd.random()
        if mirrors and m < 0.15 and j > 1:
            material = "mirror"
            meta["mirror"] = True
        elif in_glass and m < 0.75:
            material = "air"
        elif (not in_glass) and m > 0.94 and (coatings or apertures):
            # a dummy surface between equal media (a filter, foil or stop plane): it bends nothing, but
            # its coating and aperture act like anywhere else
            material = "air"
        elif catalogue and m > 0.8:
            material = rnd.choice(GLASSES)
        else:
            nval = rnd.uniform(1.3, 2.0)
            kval = rnd.choice([1e-7, 1e-6, 1e-5]) if (absorbing and rnd.random() < 0.5) else 0.0
            material = IdealMaterial(n=nval, k=kval)
        if material == "mirror":
            sign = -sign
        else:
            in_glass = material != "air"
        kw["material"] = material
        t = rnd.uniform(0.5, 12.0) if in_glass else rnd.uniform(0.5, 40.0)
        # (no zero gaps: two differently curved surfaces at zero separation cross inside
        # the beam, which is not a physical lens)
        kw["thickness"] = sign * t
        if tilts and rnd.random() < 0.35:
            meta["tilted"] = True
            kw["dx"] = rnd.uniform(-0.3, 0.3)
            kw["dy"] = rnd.uniform(-0.3, 0.3)
            kw["rx"] = rnd.uniform(-0.08, 0.08)
            kw["ry"] = rnd.uniform(-0.08, 0.08)
        if apertures and rnd.random() < 0.4:
            rmax = epd * rnd.uniform(0.3, 1.2)
            kw["aperture"] = RadialAperture(r_max=rmax, r_min=rmax * rnd.uniform(0.0, 0.4) if rnd.random() < 0.4 else 0.0)
            if int(rmax * 1e6) % 6 == 0:
                # an obscuration only (the secondary-mirror shadow of the bundled telescopes): no outer edge
                kw["aperture"] = RadialAperture(r_max=math.inf, r_min=rmax * 0.3)
        if coatings and rnd.random() < 0.4:
            T = rnd.choice([0.0, 1.0, rnd.uniform(0, 1)])
            kw["coating"] = SimpleCoating(transmittance=T, reflectance=rnd.uniform(0, 1 - T))
        quiet(o.add_surface, **kw)
        meta["kinds"].append(kind)
    if curved_image:
        # a curved image surface (radius large against the beam)
        o.add_surface(index=n + 1, radius=rnd.choice([-1, 1]) * rnd.uniform(6.0, 40.0) * epd)
        meta["curved_image"] = True
    else:
        o.add_surface(index=n + 1)
    ap_drawn = {"EPD": epd, "imageFNO": rnd.uniform(2.0, 10.0), "objectNA": rnd.uniform(0.01, 0.1)}[aperture]
    if not (ap_first and ap_value is not None):
        o.set_aperture(aperture, ap_drawn)
    if field_type is None:
        field_type = "object_height" if (finite_object and rnd.random() < 0.6) else "angle"
    mf = max_field if max_field is not None else (rnd.uniform(0.5, 6.0) if field_type == "angle" else rnd.uniform(0.5, 5.0))
    # the order of the configuration calls is the user's: in a fifth of the lenses the fields are
    # added before the field type is set (decided from a number already drawn, so that the
    # prescriptions of all seeds stay what they were)
    fields_first = int(epd * 1e6) % 5 == 0
    if not fields_first:
        o.set_field_type(field_type)
    o.add_field(y=0.0)
    o.add_field(y=0.7 * mf)
    o.add_field(y=mf)
    if fields_first:
        o.set_field_type(field_type)
        meta["fields_added_before_field_type"] = True
    if not wl_first:
        for i, w in enumerate(wavelengths or [0.4861, 0.5876, 0.6563]):
            o.add_wavelength(w, is_primary=(i == 1 or len(wavelengths or [1, 2, 3]) == 1))
    meta.update(epd=epd, field_type=field_type, max_field=mf, wavelengths_first=wl_first, aperture_first=ap_first)
    # A lens is a prescription, however it came about: in a quarter of the lenses one radius, one
    # index and one thickness are edited away and back through the public setters.  (Drawn from a
    # generator seeded at the very end, so that the prescriptions of all seeds stay what they were.)
    ernd = random.Random(rnd.getrandbits(48))
    if edits if edits is not None else ernd.random() < 0.25:
        sg = o.surface_group
        done = []
        cand = [j for j in range(1, n + 1) if type(sg.surfaces[j].geometry).__name__ == "StandardGeometry"
                and math.isfinite(float(sg.surfaces[j].geometry.radius))]
        if cand:
            j = ernd.choice(cand)
            R0 = float(sg.surfaces[j].geometry.radius)
            o.set_radius(R0 * 1.5 + 1.0, j)
            o.set_radius(R0, j)
            done.append("radius")
        cand = [j for j in range(1, n + 1) if type(sg.surfaces[j].material_post).__name__ == "IdealMaterial"
                and not sg.surfaces[j].is_reflective
                and float(np.ravel(sg.surfaces[j].material_post.k(0.55))[0]) == 0.0
                and type(sg.surfaces[j].material_post.index).__name__ in ("float", "float64", "int")]
        if cand:
            j = ernd.choice(cand)
            n0 = float(sg.surfaces[j].material_post.index)
            o.set_index(n0 + 0.125, j)
            o.set_index(n0, j)
            done.append("index")
        if n >= 2:
            j = ernd.randint(1, n)
            t0 = float(np.ravel(sg.positions)[j + 1] - np.ravel(sg.positions)[j])
            o.set_thickness(t0 + 1.0, j)
            o.set_thickness(t0, j)
            done.append("thickness")
        meta["edited_there_and_back"] = done
    return o, meta
