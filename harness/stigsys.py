"""Closed-form stigmatic configurations for C06, built through the public API.

A configuration is described for light that starts along +z as a list of
surfaces {R, k, mat, t, el} (`mat`: "mirror", "air" or an index; `t`: signed
thickness to the next surface; `el`: the element kind of spec/Stigmatic.tla and the
eccentricity p/q) plus the object distance (inf or > 0) and the aperture.
`fold` turns it into the mirrored system behind a plane fold mirror, which is how
radii of the opposite sign are reached (the light then travels along -z).

Nothing here decides anything: the numbers computed below (focus positions,
aperture limits) only choose WHERE to put surfaces; the prescription is read back
from the live lens and judged by TLC against the closed forms of the spec.
"""
import math
from fractions import Fraction

import numpy as np

INF = math.inf


def _f(x):
    return float(np.asarray(x, dtype=float).ravel()[0])


# ---- descriptions (light along +z) -------------------------------------------------
def paraboloid(R, fno):
    R = -abs(R)
    return {"fam": "paraboloid", "obj": INF, "stop": 1, "ap": ("EPD", abs(R) / 2 / fno),
            "surfs": [dict(R=R, k=-1.0, mat="mirror", t=R / 2, el=("conic_mirror", 1, 1))]}


def ellipsoid(R, p, q, near_object, na):
    """Mirror k = -(p/q)^2, p < q.  Object at the far (or near) focus, image at the other."""
    R = -abs(R)
    e = p / q
    fn, ff = R / (1 + e), R / (1 - e)               # z of the foci (negative)
    zo, zi = (fn, ff) if near_object else (ff, fn)
    if not near_object:                                 # keep the bundle on the vertex cap
        na = min(na, 0.9 * math.sin(math.atan2(math.sqrt(1 - e * e), e)))
    return {"fam": "ellipsoid", "obj": -zo, "stop": 1, "ap": ("objectNA", na),
            "surfs": [dict(R=R, k=-(e * e), mat="mirror", t=zi, el=("conic_mirror", p, q))]}


def sphere_mirror_centre(R, na):
    R = -abs(R)
    return {"fam": "sphere_centre_mirror", "obj": -R, "stop": 1, "ap": ("objectNA", na),
            "surfs": [dict(R=R, k=0.0, mat="mirror", t=R, el=("conic_mirror", 0, 1))]}


def cassegrain(R1, fno1, dfrac, p, q):
    """Paraboloid primary + convex hyperboloid secondary (k = -(p/q)^2, p > q): the secondary's
    near focus is the primary focus (virtual object), its far focus the real image."""
    R1 = -abs(R1)
    f1 = -R1 / 2
    e = p / q
    d = dfrac * f1
    R2 = -(1 + e) * (f1 - d)
    return {"fam": "hyperboloid", "obj": INF, "stop": 1, "ap": ("EPD", f1 / fno1),
            "surfs": [dict(R=R1, k=-1.0, mat="mirror", t=-d, el=("conic_mirror", 1, 1)),
                      dict(R=R2, k=-(e * e), mat="mirror", t=R2 / (1 - e), el=("conic_mirror", p, q))]}


def convex_paraboloid_relay(R1, fno1, dfrac, p, q):
    """Convex paraboloid (collimated light meets its convex side: virtual focus R/2 behind it)
    followed by a concave ellipsoid (k = -(p/q)^2, p < q) whose far focus is that virtual focus
    and whose near focus is the real image."""
    R1 = abs(R1)
    f1 = R1 / 2
    e = p / q
    d = dfrac * f1
    R2 = (1 - e) * (f1 + d)
    return {"fam": "convex_paraboloid", "obj": INF, "stop": 1, "ap": ("EPD", f1 / fno1),
            "surfs": [dict(R=R1, k=-1.0, mat="mirror", t=-d, el=("conic_mirror", 1, 1)),
                      dict(R=R2, k=-(e * e), mat="mirror", t=R2 / (1 + e), el=("conic_mirror", p, q))]}


def _sag(R, e, h):
    return h * h / (R * (1 + math.sqrt(1 - (1 - e * e) * h * h / (R * R))))


def _conic_height_for_angle(R, e, F, U):
    """Height h on the conic r^2 = 2 R z - (1 - e^2) z^2 (vertex at 0) from which the line to the
    axial point F makes the angle U with the axis (bisection; only used to choose an aperture)."""
    def sag(h):
        return _sag(R, e, h)
    lo, hi = 0.0, abs(R) * 50
    if e < 1:
        hi = 0.999 * abs(R) / math.sqrt(1 - e * e)
    for _ in range(200):
        mid = 0.5 * (lo + hi)
        ang = math.atan2(mid, abs(F - sag(mid)))
        if ang < U:
            lo = mid
        else:
            hi = mid
    return lo


def immersed_paraboloid(R, fno, n):
    """Paraboloid mirror in a medium of index n (object space, the space behind the mirror and the
    image surface all carry it): a conic mirror is stigmatic in any homogeneous medium, and the
    optical path behind it is n times the geometric one."""
    s = paraboloid(R, fno)
    s["fam"] = "immersed_paraboloid"
    s["medium"] = float(n)
    return s


def immersed_ellipsoid(R, p, q, near_object, na, n):
    s = ellipsoid(R, p, q, near_object, na)
    s["fam"] = "immersed_ellipsoid"
    s["medium"] = float(n)
    s["ap"] = ("objectNA", s["ap"][1] * float(n))        # NA = n sin(U): the same cone of rays
    return s


def window_paraboloid(R, fno, n):
    """A plane-parallel window (index n) in the collimated beam in front of a paraboloid mirror:
    still stigmatic.  After two refractions at normal incidence the direction cosine N of an
    axis-parallel ray is 1 only up to rounding (n = 1.3, 1.5, 1.7: one ulp off; n = 2: exact)."""
    R = -abs(R)
    tw = 0.1 * abs(R)
    return {"fam": "window_paraboloid", "obj": INF, "stop": 1, "ap": ("EPD", abs(R) / 2 / fno),
            "surfs": [dict(R=INF, k=0.0, mat=float(n), t=tw, el=("plane_refr", 0, 1)),
                      dict(R=INF, k=0.0, mat="air", t=0.2 * abs(R), el=("plane_refr", 0, 1)),
                      dict(R=R, k=-1.0, mat="mirror", t=R / 2, el=("conic_mirror", 1, 1))]}


def hyperbolic_lens(R, n_num, n_den, fno, thick=0.2):
    """Plano-hyperbolic singlet: plane, glass n, hyperboloid k = -n^2 (R < 0), focus at R/(1 - n)."""
    n = n_num / n_den
    R2 = -abs(R)
    f = R2 / (1 - n)
    umax = math.acos(1 / n)                           # asymptote of the hyperboloid
    U = min(math.asin(min(1.0, 1 / (2 * fno))), 0.9 * umax)
    h = _conic_height_for_angle(R2, n, f, U)
    # the hyperboloid falls back towards the plane face: the centre thickness must exceed its sag
    t = thick * abs(R) + 1.05 * abs(_sag(R2, n, h))
    return {"fam": "plano_hyperbolic", "obj": INF, "stop": 1, "ap": ("EPD", 2 * h), "f": f, "U": U,
            "surfs": [dict(R=INF, k=0.0, mat=n, t=t, el=("plane_refr", 0, 1)),
                      dict(R=R2, k=-(n * n), mat="air", t=f, el=("conic_refr", n_num, n_den))]}


def touching_stop_hyperbolic(R, n_num, n_den, fno):
    """The plano-hyperbolic singlet with a separate plane stop in air touching its flat face (zero
    gap): the rays arrive on the flat face already lying on it."""
    s = hyperbolic_lens(R, n_num, n_den, fno)
    s["fam"] = "touching_stop_hyperbolic"
    s["surfs"] = [dict(R=INF, k=0.0, mat="air", t=0.0, el=("plane_refr", 0, 1))] + s["surfs"]
    return s


def elliptic_front(R, n_num, n_den, fno):
    """Ellipsoidal front surface (k = -1/n^2, R > 0): collimated light focuses inside the glass."""
    n = n_num / n_den
    R = abs(R)
    e = 1 / n
    F = R / (1 - e)
    U = min(math.asin(min(1.0, 1 / (2 * fno))), 1.2)
    h = min(_conic_height_for_angle(R, e, F, U), 0.9 * R / math.sqrt(1 - e * e))
    return {"fam": "elliptic_refractor", "obj": INF, "stop": 1, "ap": ("EPD", 2 * h),
            "surfs": [dict(R=R, k=-(e * e), mat=n, t=F, el=("conic_refr", n_den, n_num))]}


def concentric(R, nc, n2, fno, gap, shell):
    """Converging beam from a plano-hyperbolic lens (index nc) meets a spherical surface centred on
    the beam's focus, entering index n2; with `shell` a second concentric surface leads back to air."""
    s = hyperbolic_lens(R, nc[0], nc[1], fno)
    f = s["f"]
    g = gap * f
    s["surfs"][1]["t"] = g
    R3 = f - g
    nn = n2[0] / n2[1]
    if shell:
        t2 = 0.4 * R3
        s["surfs"] += [dict(R=R3, k=0.0, mat=nn, t=t2, el=("concentric", 0, 1)),
                       dict(R=R3 - t2, k=0.0, mat="air", t=R3 - t2, el=("concentric", 0, 1))]
    else:
        s["surfs"] += [dict(R=R3, k=0.0, mat=nn, t=R3, el=("concentric", 0, 1))]
    s["fam"] = "sphere_centre"
    return s


def aplanatic(R, nc, n2, fno, frac, meniscus):
    """Converging beam aimed at the aplanatic point of a sphere: vertex distance R3 (1 + n'),
    image at R3 (1 + 1/n') inside n'; `meniscus`: a surface concentric with that image leads to air."""
    nn = n2[0] / n2[1]
    s = hyperbolic_lens(R, nc[0], nc[1], fno)
    # Geometric limit: a ray of the cone (half-angle U towards O) meets the sphere under the incidence
    # angle i, sin i = n' sin U, at the polar angle i + U seen from the centre.  The library describes a
    # surface by its sag, so only the hemisphere facing the light exists: keep i + U below 75 degrees.
    lim = math.radians(75.0)
    if nn * math.sin(s["U"]) >= 1 or math.asin(nn * math.sin(s["U"])) + s["U"] > lim:
        lo, hi = 0.0, min(s["U"], math.asin(1 / nn))
        for _ in range(100):
            mid = 0.5 * (lo + hi)
            if math.asin(min(1.0, nn * math.sin(mid))) + mid < lim:
                lo = mid
            else:
                hi = mid
        U = lo
        n = nc[0] / nc[1]
        h = _conic_height_for_angle(s["surfs"][1]["R"], n, s["f"], U)
        s["ap"] = ("EPD", 2 * h)
        s["U"] = U
    f = s["f"]
    R3 = frac * f / (1 + nn)
    g = f - R3 * (1 + nn)
    s["surfs"][1]["t"] = g
    si = R3 * (1 + 1 / nn)
    if meniscus:
        t2 = 0.5 * si
        s["surfs"] += [dict(R=R3, k=0.0, mat=nn, t=t2, el=("aplanatic", 0, 1)),
                       dict(R=si - t2, k=0.0, mat="air", t=si - t2, el=("concentric", 0, 1))]
    else:
        s["surfs"] += [dict(R=R3, k=0.0, mat=nn, t=si, el=("aplanatic", 0, 1))]
    s["fam"] = "aplanatic"
    return s


def fold(s, dfrac=None):
    """The mirror image of `s` behind a plane fold mirror: every radius and thickness changes sign."""
    first = s["surfs"][0]
    scale = next(abs(x["R"]) for x in s["surfs"] if math.isfinite(x["R"]))     # the first curved surface
    # the first surface must stay clear of the fold mirror: its deepest sag is below 0.7 of the object
    # distance in every finite-object family of the grid, and below R/8 for the collimated ones
    if dfrac is None:
        dfrac = 0.85 if math.isfinite(s["obj"]) else 0.5
    d0 = dfrac * (s["obj"] if math.isfinite(s["obj"]) else scale)
    out = dict(s)
    out["folded"] = True
    out["obj"] = s["obj"] - d0 if math.isfinite(s["obj"]) else INF
    out["stop"] = s["stop"] + 1
    out["surfs"] = [dict(R=INF, k=0.0, mat="mirror", t=-d0, el=("plane_mirror", 0, 1))] + \
                   [dict(x, R=-x["R"], t=-x["t"]) for x in s["surfs"]]
    return out


# ---- build + read back ------------------------------------------------------------------
def build(s, wavelength=0.55, retarget=False):
    """retarget: every glass surface is entered with another index, conic and thickness and then
    re-targeted to the configuration through set_index / set_conic / set_thickness - the same
    prescription, reached by edits instead of by construction."""
    from optiland.optic import Optic
    from optiland.materials import IdealMaterial
    o = Optic()
    med = s.get("medium")       # a homogeneous immersion medium for mirror systems
    if med:
        o.add_surface(index=0, thickness=s["obj"], material=IdealMaterial(n=med))
    else:
        o.add_surface(index=0, thickness=s["obj"])
    later = []
    for j, x in enumerate(s["surfs"], 1):
        glass = not isinstance(x["mat"], str)
        if retarget and glass:
            curved = math.isfinite(x["R"])
            o.add_surface(index=j, radius=x["R"], conic=(x["k"] - 0.25) if curved else x["k"], thickness=x["t"] + 1.0,
                          material=IdealMaterial(n=float(x["mat"]) + 0.125), is_stop=(j == s["stop"]))
            later.append((j, x, curved))
            continue
        mat = x["mat"] if isinstance(x["mat"], str) else IdealMaterial(n=float(x["mat"]))
        o.add_surface(index=j, radius=x["R"], conic=x["k"], thickness=x["t"], material=mat, is_stop=(j == s["stop"]))
    # an image inside glass: the image surface carries that medium (left at its default, air, the
    # image surface would be a glass/air interface and steep rays would be totally reflected there)
    last = s["surfs"][-1]["mat"]
    if med:
        o.add_surface(index=len(s["surfs"]) + 1, material=IdealMaterial(n=med))
    elif isinstance(last, str):
        o.add_surface(index=len(s["surfs"]) + 1)
    else:
        o.add_surface(index=len(s["surfs"]) + 1, material=IdealMaterial(n=float(last)))
    for j, x, curved in later:
        o.set_index(float(x["mat"]), j)
        if curved:
            o.set_conic(x["k"], j)
        o.set_thickness(x["t"], j)
    o.set_aperture(*s["ap"])
    if math.isfinite(s["obj"]):
        o.set_field_type("object_height")
    else:
        o.set_field_type("angle")
    o.add_field(y=0.0)
    o.add_wavelength(wavelength, is_primary=True)
    return o


def beam_chain(s, optic, w):
    """Element descriptors: prescription read back from the live lens + the claimed beam points
    (closed forms evaluated in floats; TLC verifies them against the read-back prescription)."""
    sg = optic.surface_group
    pos = [_f(z) for z in sg.positions]
    coll = not math.isfinite(s["obj"])
    a = 0.0 if coll else pos[0]
    els = []
    for j, x in enumerate(s["surfs"], 1):
        sf = sg.surfaces[j]
        g = sf.geometry
        zv, R, kk = pos[j], _f(g.radius), _f(getattr(g, "k", 0.0))
        n1, n2 = _f(sf.material_pre.n(w)), _f(sf.material_post.n(w))
        ty, p, q = x["el"]
        bin_ = (coll, a)
        if ty == "plane_mirror":
            a = a if coll else 2 * zv - a
        elif ty == "plane_refr":
            pass
        elif ty == "conic_mirror":
            e = p / q
            if p == q:
                coll, a = (False, zv + R / 2) if coll else (True, 0.0)
            else:
                fn, ff = zv + R / (1 + e), zv + R / (1 - e)
                a = ff if abs(a - fn) <= abs(a - ff) else fn
        elif ty == "conic_refr":
            coll, a = False, zv + R / (1 - p / q)
        elif ty == "concentric":
            pass
        elif ty == "aplanatic":
            a = zv + R + R * n1 / n2
        els.append({"ty": ty, "zv": zv, "R": R, "kk": kk, "n1": n1, "n2": n2, "p": p, "q": q,
                    "bin": bin_, "bout": (coll, a), "reflective": bool(sf.is_reflective)})
    return els, pos
