"""Recording of analysis objects for spec/Analyses.tla (C12).

For one lens and one analysis configuration: build the analysis object, read
its public results (.data, centroid(), rms_spot_radius(), geometric_spot_radius(),
RayOperand.*), trace the same samples independently through Optic.trace_generic,
and put both into events (all numbers exact dyadics).  Nothing is compared here:
spec/Trace_Analyses.tla decides.

The only non-public access is the encircled-energy curve, which the library
computes inside EncircledEnergy.view(): the recorder performs the calls view()
performs (_center_spots, geometric_spot_radius, _plot_field) with a recording
axis object instead of a matplotlib one.
"""
import math
from copy import deepcopy

import numpy as np

from harness import lensgen as G
from harness import rayrec as RR
from harness.dy import dy

DELTA = 1e-5     # documented parabasal pupil offset of FieldCurvature
HEPS = 1e-10     # documented smallest field of Distortion / GridDistortion


def dyl(a):
    return [dy(float(v)) for v in np.ravel(np.asarray(a, dtype=float))]


def _f(x):
    return float(np.ravel(np.asarray(x, dtype=float))[0])


# ---------------------------------------------------------------- contract side
def lens_info(optic):
    wl = [float(w) for w in optic.wavelengths.get_wavelengths()]
    pi = int(optic.wavelengths.primary_index)
    return {"lenswl": [dy(w) for w in wl], "prim": pi + 1,
            "lensfields": [[dy(float(a)), dy(float(b))] for a, b in optic.fields.get_field_coords()]}, wl, pi


def wl_arg(wlarg, default_mode):
    if wlarg is None:
        return {"mode": default_mode, "list": []}
    return {"mode": "list", "list": [dy(float(w)) for w in wlarg]}


def f_arg(farg):
    if farg is None:
        return {"mode": "all", "list": [], "n": 0}
    return {"mode": "list", "list": [[dy(float(a)), dy(float(b))] for a, b in farg], "n": 0}


def wl_in_use(wl, pi, wlarg, default_mode):
    if wlarg is not None:
        return list(wlarg)
    return list(wl) if default_mode == "all" else [wl[pi]]


def wl_class(wl, pi, wlarg):
    """Input-class attributes of an explicit wavelength list (for findings)."""
    if wlarg is None:
        return {"wl_explicit": False}
    pv = wl[pi]
    return {"wl_explicit": True, "primary_in_list": pv in wlarg,
            "lens_primary_index_in_range": pi < len(wlarg),
            "list_at_lens_index_is_primary": pi < len(wlarg) and wlarg[pi] == pv}


# ---------------------------------------------------------------- independent rays
def make_dist(name, n, seed=None):
    from optiland.distribution import create_distribution, RandomDistribution
    if name == "random_seeded":
        d = RandomDistribution(seed=seed)
    else:
        d = create_distribution(name)
    d.generate_points(n)
    return d


def trace_pts(optic, Hx, Hy, Px, Py, w):
    """Independent trace of explicit samples; returns the SurfaceGroup arrays."""
    n = max(np.size(Hx), np.size(Px))
    Hx = np.full(n, float(Hx)) if np.size(Hx) == 1 else np.array(Hx, dtype=float)
    Hy = np.full(n, float(Hy)) if np.size(Hy) == 1 else np.array(Hy, dtype=float)
    Px = np.full(n, float(Px)) if np.size(Px) == 1 else np.array(Px, dtype=float)
    Py = np.full(n, float(Py)) if np.size(Py) == 1 else np.array(Py, dtype=float)
    G.quiet(optic.trace_generic, Hx, Hy, Px, Py, float(w))
    sg = optic.surface_group
    return {k: np.array(getattr(sg, k), dtype=float) for k in ("x", "y", "z", "L", "M", "N", "intensity")}


# ---------------------------------------------------------------- spot family
def spot_events(optic, kind, obj, cfg, dist_pts, info, wl, pi):
    """cfg: fields (None|list), wls (None|list), dist (name), npar, hexfields n (RmsSpotSizeVsField).
    dist_pts: (Px, Py) the independent trace uses, or None (irreproducible 'random')."""
    default_mode = "primary" if kind == "EncircledEnergy" else "all"
    inuse = wl_in_use(wl, pi, cfg.get("wls"), default_mode)
    if kind == "RmsSpotSizeVsField":
        nfl = cfg["num_fields"]
        fields = [(0.0, float(h)) for h in np.linspace(0, 1, nfl)]
        farg = {"mode": "linspace", "list": [], "n": nfl}
    else:
        fields = cfg.get("fields") or list(optic.fields.get_field_coords())      # the library's own tuples (dict keys are their repr)
        farg = f_arg(cfg.get("fields"))
    data = obj.data
    out = []
    cen = rms = geo = None
    exc = None
    try:
        cen = obj.centroid()
        rms = obj.rms_spot_radius()
        geo = obj.geometric_spot_radius()
    except Exception as ex:       # reported by the caller (clause "raises")
        exc = ex
    for i, fld in enumerate(fields):
        cells = []
        for j, w in enumerate(inuse):
            if i < len(data) and j < len(data[i]):
                ax, ay, ai = data[i][j]
            else:
                ax, ay, ai = [], [], []
            c = {"h": [dy(fld[0]), dy(fld[1])], "w": dy(float(w)), "ax": dyl(ax), "ay": dyl(ay), "ai": dyl(ai)}
            vig = bool(np.any(np.asarray(optic.fields.vx) != 0) or np.any(np.asarray(optic.fields.vy) != 0))
            if dist_pts is not None and vig and cfg["dist"] != "random_seeded":
                # a lens with vignetting factors: the documented pupil sample of a field is the named
                # distribution compressed by that field's factors - the rays Optic.trace itself launches
                # for (field, wavelength, ray count, distribution name)
                G.quiet(optic.trace, float(fld[0]), float(fld[1]), float(w), cfg["npar"], cfg["dist"])
                sg = optic.surface_group
                r = {k: np.array(getattr(sg, k), dtype=float) for k in ("x", "y", "intensity")}
                c.update(rx=dyl(r["x"][-1]), ry=dyl(r["y"][-1]), ri=dyl(r["intensity"][-1]), indep=True)
            elif dist_pts is not None:
                r = trace_pts(optic, fld[0], fld[1], dist_pts[0], dist_pts[1], w)
                c.update(rx=dyl(r["x"][-1]), ry=dyl(r["y"][-1]), ri=dyl(r["intensity"][-1]), indep=True)
            else:
                c.update(rx=c["ax"], ry=c["ay"], ri=c["ai"], indep=False)
            cells.append(c)
        ncell = len(data[i]) if i < len(data) else 0
        if ncell != len(inuse):      # shape mismatch is visible to the spec through the cell count
            cells = cells[:ncell] if ncell < len(inuse) else cells + [cells[-1]] * (ncell - len(inuse))
        e = {"kind": "spot", "analysis": kind, "fi": i + 1, "nf": len(data), "hfield": [dy(fld[0]), dy(fld[1])],
             "wlarg": wl_arg(cfg.get("wls"), default_mode), "farg": farg, "cells": cells,
             "dist": "random" if cfg["dist"] == "random_seeded" else cfg["dist"], "npar": cfg["npar"],
             "hascen": exc is None}
        e.update(info)
        if exc is None:
            e["cen"] = [dy(float(cen[i][0])), dy(float(cen[i][1]))]
            e["rms"] = dyl(rms[i])
            e["geo"] = dyl(geo[i])
        else:
            e["cen"] = [dy(0.0), dy(0.0)]
            e["rms"] = []
            e["geo"] = []
        out.append(e)
    return out, exc


class _Axis:
    def __init__(self):
        self.curves = []

    def plot(self, x, y, *a, **k):
        self.curves.append((np.array(x, dtype=float), np.array(y, dtype=float)))


def ee_events(obj):
    """The encircled-energy curves, obtained by the calls view() makes."""
    ax = _Axis()
    data = obj._center_spots(deepcopy(obj.data))
    axis_lim = np.max(obj.geometric_spot_radius())
    for k, field_data in enumerate(data):
        obj._plot_field(ax, field_data, obj.fields[k], axis_lim, obj.num_points)
    out = []
    for k, (r, ee) in enumerate(ax.curves):
        x, y, i = obj.data[k][0]
        out.append({"kind": "ee", "analysis": "EncircledEnergy", "fi": k + 1,
                    "x": dyl(x), "y": dyl(y), "i": dyl(i), "r": dyl(r), "ee": dyl(ee)})
    return out


# ---------------------------------------------------------------- ray fan / pupil aberration
def fan_events(optic, obj, cfg, info, wl, pi):
    inuse = wl_in_use(wl, pi, cfg.get("wls"), "all")
    fields = cfg.get("fields") or list(optic.fields.get_field_coords())      # the library's own tuples (dict keys are their repr)
    npts = cfg["npts"]
    n = npts + 1 if npts % 2 == 0 else npts
    P = np.linspace(-1, 1, n)
    Z = np.zeros(n)
    data = obj.data
    out = []
    for i, fld in enumerate(fields):
        cells = []
        fkey = f'{fld}'
        for w in inuse:
            d = data.get(fkey, {}).get(f'{w}', None)
            rxs = trace_pts(optic, fld[0], fld[1], P, Z, w)
            rys = trace_pts(optic, fld[0], fld[1], Z, P, w)
            c = {"h": [dy(fld[0]), dy(fld[1])], "w": dy(float(w)),
                 "rx": dyl(rxs["x"][-1]), "rix": dyl(rxs["intensity"][-1]),
                 "ry": dyl(rys["y"][-1]), "riy": dyl(rys["intensity"][-1])}
            if d is None:
                c.update(vx=[], vy=[], ix=[], iy=[])
            else:
                c.update(vx=dyl(d["x"]), vy=dyl(d["y"]), ix=dyl(d["intensity_x"]), iy=dyl(d["intensity_y"]))
            cells.append(c)
        nf = len([k for k in data if k not in ("Px", "Py")])
        e = {"kind": "fan", "analysis": "RayFan", "fi": i + 1, "nf": nf, "hfield": [dy(fld[0]), dy(fld[1])],
             "wlarg": wl_arg(cfg.get("wls"), "all"), "farg": f_arg(cfg.get("fields")), "npts": npts,
             "px": dyl(data["Px"]), "py": dyl(data["Py"]), "cells": cells}
        e.update(info)
        out.append(e)
    return out


def pupil_events(optic, obj, cfg, info, wl, pi):
    inuse = wl_in_use(wl, pi, cfg.get("wls"), "all")
    fields = cfg.get("fields") or list(optic.fields.get_field_coords())      # the library's own tuples (dict keys are their repr)
    npts = cfg["npts"]
    n = npts + 1 if npts % 2 == 0 else npts
    P = np.linspace(-1, 1, n)
    Z = np.zeros(n)
    stop = optic.surface_group.stop_index
    data = obj.data
    # independent paraxial traces (their correctness is C04's business)
    G.quiet(optic.paraxial.trace, 0, 1, wl[pi])
    d = float(np.ravel(optic.surface_group.y[stop])[0])
    G.quiet(optic.paraxial.trace, 0, P.copy(), wl[pi])
    parax = np.array(optic.surface_group.y[stop], dtype=float).ravel()
    out = []
    for i, fld in enumerate(fields):
        cells = []
        fkey = f'{fld}'
        for w in inuse:
            dd = data.get(fkey, {}).get(f'{w}', None)
            rxs = trace_pts(optic, fld[0], fld[1], P, Z, w)
            rys = trace_pts(optic, fld[0], fld[1], Z, P, w)
            c = {"h": [dy(fld[0]), dy(fld[1])], "w": dy(float(w)),
                 "rx": dyl(rxs["x"][stop]), "ix": dyl(rxs["intensity"][stop]),
                 "ry": dyl(rys["y"][stop]), "iy": dyl(rys["intensity"][stop])}
            if dd is None:
                c.update(ex=[], ey=[])
            else:
                c.update(ex=dyl(dd["x"]), ey=dyl(dd["y"]))
            cells.append(c)
        nf = len([k for k in data if k not in ("Px", "Py")])
        e = {"kind": "pupil", "analysis": "PupilAberration", "fi": i + 1, "nf": nf,
             "hfield": [dy(fld[0]), dy(fld[1])], "wlarg": wl_arg(cfg.get("wls"), "all"),
             "farg": f_arg(cfg.get("fields")), "npts": npts, "px": dyl(data["Px"]), "py": dyl(data["Py"]),
             "d": dy(d), "parax": dyl(parax), "cells": cells}
        e.update(info)
        out.append(e)
    return out


# ---------------------------------------------------------------- distortion
def dist_events(optic, obj, cfg, info, wl, pi):
    inuse = wl_in_use(wl, pi, cfg.get("wls"), "all")
    n = cfg["npts"]
    H = np.linspace(HEPS, 1, n)
    maxf = float(optic.fields.max_field)
    theta = math.radians(maxf)
    out = []
    for j, w in enumerate(inuse):
        r = trace_pts(optic, np.zeros(n), H, 0.0, 0.0, w)
        d = obj.data[j] if j < len(obj.data) else []
        e = {"kind": "dist", "analysis": "Distortion", "wi": j + 1, "nw": len(obj.data), "w": dy(float(w)),
             "dtype": cfg["dtype"], "ftype": optic.field_type, "npts": n, "maxf": dy(maxf), "theta": dy(theta),
             "h": dyl(H), "t": [dy(math.tan(float(h) * theta)) for h in H], "yr": dyl(r["y"][-1]), "d": dyl(d),
             "wlarg": wl_arg(cfg.get("wls"), "all")}
        e.update(info)
        out.append(e)
    return out


def grid_events(optic, obj, cfg, info, wl, pi):
    w = cfg["wl"] if cfg.get("wl") is not None else wl[pi]
    n = cfg["npts"]
    ext = np.linspace(-math.sqrt(2) / 2, math.sqrt(2) / 2, n)
    Hx, Hy = np.meshgrid(ext, ext)
    maxf = float(optic.fields.max_field)
    theta = math.radians(maxf)
    small = trace_pts(optic, np.array([HEPS, 0.0]), np.array([0.0, HEPS]), 0.0, 0.0, w)
    r = trace_pts(optic, Hx.flatten(), Hy.flatten(), 0.0, 0.0, w)
    d = obj.data
    e = {"kind": "grid", "analysis": "GridDistortion", "w": dy(float(w)), "wi": 1, "nw": 1,
         "wlarg": wl_arg(None if cfg.get("wl") is None else [cfg["wl"]], "primary"), "dtype": cfg["dtype"],
         "ftype": optic.field_type, "n": n, "maxf": dy(maxf), "theta": dy(theta), "ext": dyl(ext),
         "t": [dy(math.tan(float(h) * theta)) for h in ext], "t0": dy(math.tan(HEPS * theta)), "heps": dy(HEPS),
         "xs": dy(float(small["x"][-1][0])), "ys": dy(float(small["y"][-1][1])),
         "rx": dyl(r["x"][-1]), "ry": dyl(r["y"][-1]),
         "xr": dyl(d["xr"]), "yr": dyl(d["yr"]), "xp": dyl(d["xp"]), "yp": dyl(d["yp"]),
         "md": dy(float(d["max_distortion"]))}
    e.update(info)
    return [e]


# ---------------------------------------------------------------- field curvature
def _surfaces(optic, w):
    out = [{"flat": True, "zv": dy(0.0), "R": dy(math.inf), "c": dy(0.0), "n1": dy(1.0), "n2": dy(1.0), "sph": True}]
    sg = optic.surface_group
    for k in range(1, len(sg.surfaces)):
        try:
            d = RR.surface_desc(sg.surfaces[k], w)
        except ValueError:
            out.append(dict(out[0], sph=False))
            continue
        R = d["R"]
        flat = d["shape"] == "plane" or R["k"] != "fin"
        untilted = all(float(np.ravel(getattr(sg.surfaces[k].geometry.cs, a))[0]) == 0.0 for a in ("x", "y", "rx", "ry"))
        sph = untilted and (d["shape"] == "plane" or (d["shape"] == "conic" and (flat or d["kk"]["s"] == 0)))
        Rf = _f(sg.surfaces[k].geometry.radius)
        c = 0.0 if flat else 1.0 / Rf
        n1 = d["n1"]
        n2 = n1 if d["refl"] else d["n2"]
        out.append({"flat": bool(flat), "zv": d["v"][2], "R": R, "c": dy(c), "n1": n1, "n2": n2, "sph": bool(sph)})
    return out


def fc_events(optic, obj, cfg, info, wl, pi, fields_per_wl=None):
    inuse = wl_in_use(wl, pi, cfg.get("wls"), "all")
    n = cfg["npts"]
    H = np.linspace(0, 1, n)
    out = []
    objinf = bool(optic.object_surface.is_infinite)
    for j, w in enumerate(inuse):
        surf = _surfaces(optic, w)
        # five rays per field: chief, tangential pair, sagittal pair
        Hy = np.repeat(H, 5)
        Px = np.tile(np.array([0.0, 0.0, 0.0, -DELTA, DELTA]), n)
        Py = np.tile(np.array([0.0, -DELTA, DELTA, 0.0, 0.0]), n)
        r = trace_pts(optic, np.zeros(5 * n), Hy, Px, Py, w)
        ks = range(n) if fields_per_wl is None else fields_per_wl
        for k in ks:
            b = 5 * k
            last = -1
            tp = [[dy(float(r[a][last][b + q])) for a in ("y", "z", "M", "N")] for q in (1, 2)]
            sp = [[dy(float(r[a][last][b + q])) for a in ("x", "z", "L", "N")] for q in (3, 4)]
            ns = r["x"].shape[0]
            P = [[dy(float(r[a][s][b])) for a in ("x", "y", "z")] for s in range(ns)]
            Dr = [[dy(float(r[a][s][b])) for a in ("L", "M", "N")] for s in range(ns)]
            have = j < len(obj.data)
            e = {"kind": "fc", "analysis": "FieldCurvature", "wi": j + 1, "nw": len(obj.data), "w": dy(float(w)),
                 "k": k, "npts": n, "h": dy(float(H[k])), "objinf": objinf, "surf": surf, "P": P, "Dr": Dr,
                 "tp": tp, "sp": sp,
                 "tv": dy(float(obj.data[j][0][k])) if have else dy(math.nan),
                 "sv": dy(float(obj.data[j][1][k])) if have else dy(math.nan),
                 "wlarg": wl_arg(cfg.get("wls"), "all")}
            e.update(info)
            out.append(e)
    return out


# ---------------------------------------------------------------- operands
def operand_events(optic, rnd, wl, pi, nops=4):
    from optiland.optimization.operand.ray import RayOperand as RO
    out = []
    ns = len(optic.surface_group.surfaces)
    names = {"x_intercept": "x", "y_intercept": "y", "z_intercept": "z", "L": "L", "M": "M", "N": "N"}
    for _ in range(nops):
        name = rnd.choice(sorted(names))
        k = rnd.randint(1, ns - 1)
        Hx, Hy = 0.0, rnd.uniform(-1, 1)
        rr, th = 0.9 * math.sqrt(rnd.random()), rnd.uniform(0, 2 * math.pi)
        Px, Py = rr * math.cos(th), rr * math.sin(th)
        w = rnd.choice(wl)
        val = G.quiet(getattr(RO, name), optic, k, Hx, Hy, Px, Py, w)
        r = trace_pts(optic, Hx, Hy, Px, Py, w)
        out.append({"kind": "op", "analysis": "RayOperand." + name, "surface": k,
                    "val": dy(float(val)), "rec": dy(float(r[names[name]][k][0]))})
    # rms spot size: one wavelength and 'all'
    for mode in ("one", "all"):
        k = ns - 1 if rnd.random() < 0.7 else rnd.randint(1, ns - 1)
        Hy = rnd.choice([0.0, 0.7, 1.0])
        nr = rnd.choice([1, 2])
        w = rnd.choice(wl)
        val = G.quiet(RO.rms_spot_size, optic, k, 0.0, Hy, nr, "all" if mode == "all" else w, "hexapolar")
        d = make_dist("hexapolar", nr)
        cells = []
        for ww in (wl if mode == "all" else [w]):
            r = trace_pts(optic, 0.0, Hy, d.x, d.y, ww)
            cells.append({"rx": dyl(r["x"][k]), "ry": dyl(r["y"][k])})
        out.append({"kind": "oprms", "analysis": "RayOperand.rms_spot_size", "surface": k, "all": mode == "all",
                    "prim": pi + 1, "val": dy(float(val)), "cells": cells})
    return out
