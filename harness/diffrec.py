"""Recorders for C11: FFTPSF / FFTMTF / GeometricMTF results as exact dyadic numbers.

Nothing here decides anything: the functions run the implementation, read its
public results (plus the complex pupil array it built) and log certificates
(root of unity, moduli, cos/sin of small angles, arccos) that
spec/Diffraction.tla validates polynomially before it uses them.
"""
import math

import numpy as np

from harness import lensgen as G
from harness.dy import dy


# ---------------------------------------------------------------- lenses ----
def paraboloid(epd=20.0, f=100.0, wavelengths=(0.55,), field=0.0):
    """Concave paraboloid, object at infinity: stigmatic on axis."""
    from optiland.optic import Optic
    o = Optic()
    o.add_surface(index=0, thickness=np.inf)
    o.add_surface(index=1, radius=-2.0 * f, conic=-1.0, thickness=-f, material="mirror", is_stop=True)
    o.add_surface(index=2)
    o.set_aperture("EPD", epd)
    o.set_field_type("angle")
    o.add_field(y=0.0)
    if field:
        o.add_field(y=field)
    for i, w in enumerate(wavelengths):
        o.add_wavelength(w, is_primary=(i == 0))
    return o


def plano_hyperbolic(epd=10.0, f=80.0, n=1.5, t=4.0, wavelengths=(0.55,)):
    """Plane front, hyperbolic back (k = -n^2, R = -(n-1) f), object at infinity:
    the collimated beam is undeviated by the plane and the hyperboloid is the
    Cartesian surface for a focus at distance f behind its vertex."""
    from optiland.optic import Optic
    from optiland.materials import IdealMaterial
    o = Optic()
    o.add_surface(index=0, thickness=np.inf)
    o.add_surface(index=1, radius=np.inf, thickness=t, material=IdealMaterial(n=n), is_stop=True)
    o.add_surface(index=2, radius=-(n - 1.0) * f, conic=-n * n, thickness=f)
    o.add_surface(index=3)
    o.set_aperture("EPD", epd)
    o.set_field_type("angle")
    o.add_field(y=0.0)
    for i, w in enumerate(wavelengths):
        o.add_wavelength(w, is_primary=(i == 0))
    return o


def ellipsoid(d1=150.0, d2=60.0, na=0.05, wavelengths=(0.55,)):
    """Concave ellipsoidal mirror, object at one focus (distance d1), image at the
    other (d2): stigmatic finite conjugates."""
    from optiland.optic import Optic
    a = 0.5 * (d1 + d2)
    c = 0.5 * abs(d1 - d2)
    ecc2 = (c / a) ** 2
    R = a * (1.0 - ecc2)
    o = Optic()
    o.add_surface(index=0, thickness=d1)
    o.add_surface(index=1, radius=-R, conic=-ecc2, thickness=-d2, material="mirror", is_stop=True)
    o.add_surface(index=2)
    o.set_aperture("EPD", 2.0 * d1 * math.tan(math.asin(na)))
    o.set_field_type("object_height")
    o.add_field(y=0.0)
    for i, w in enumerate(wavelengths):
        o.add_wavelength(w, is_primary=(i == 0))
    return o


def clipped_paraboloid(epd=20.0, rmax=8.0, wavelengths=(0.55,)):
    """Perfect mirror whose physical aperture clips the beam (zero-intensity rays)."""
    from optiland.optic import Optic
    from optiland.physical_apertures import RadialAperture
    o = Optic()
    o.add_surface(index=0, thickness=np.inf)
    o.add_surface(index=1, thickness=10.0, is_stop=True)
    o.add_surface(index=2, radius=-200.0, conic=-1.0, thickness=-100.0, material="mirror",
                  aperture=RadialAperture(r_max=rmax))
    o.add_surface(index=3)
    o.set_aperture("EPD", epd)
    o.set_field_type("angle")
    o.add_field(y=0.0)
    for i, w in enumerate(wavelengths):
        o.add_wavelength(w, is_primary=(i == 0))
    return o


def vignetted_singlet(wavelengths=(0.55,)):
    """Front-stop singlet with a clear aperture well behind it that passes the axial beam and
    clips part of the 6 degree beam: the fields of one lens transmit different pupil fractions."""
    from optiland.optic import Optic
    from optiland.materials import IdealMaterial
    from optiland.physical_apertures import RadialAperture
    o = Optic()
    o.add_surface(index=0, thickness=np.inf)
    o.add_surface(index=1, thickness=2.0, is_stop=True)
    o.add_surface(index=2, radius=50.0, thickness=4.0, material=IdealMaterial(n=1.5, k=0))
    o.add_surface(index=3, radius=-50.0, thickness=30.0)
    o.add_surface(index=4, thickness=19.0, aperture=RadialAperture(r_max=3.0))
    o.add_surface(index=5)
    o.set_aperture("EPD", 10.0)
    o.set_field_type("angle")
    o.add_field(y=0.0)
    o.add_field(y=6.0)
    for i, w in enumerate(wavelengths):
        o.add_wavelength(w, is_primary=(i == 0))
    return o


def uv_projection(wavelengths=None):
    """Bundled finite-conjugate sample whose exit pupil lies behind the image (negative signed
    pupil magnification): the working F-number there differs most from naive formulas."""
    from optiland.samples.lithography import UVProjectionLens
    return UVProjectionLens()


def pv_waves(optic, field, wl, n=24):
    from optiland.wavefront import Wavefront
    w = G.quiet(Wavefront, optic, [field], [wl], n, "uniform")
    W = np.asarray(w.data[0][0][0], float)
    if not np.all(np.isfinite(W)):
        return math.inf
    return float(W.max() - W.min())


def focusing_lens(rnd, finite=False, apertures=False, wavelengths=None):
    """1-3 glass elements with standard / conic surfaces and positive power, built through the
    public API in the style of lensgen.random_lens (which mostly yields weak or diverging
    systems: no real image, hence no PSF)."""
    from optiland.optic import Optic
    from optiland.materials import IdealMaterial
    from optiland.physical_apertures import RadialAperture
    wavelengths = wavelengths or [0.4861, 0.5876, 0.6563]
    o = Optic()
    nel = rnd.randint(1, 3)
    o.add_surface(index=0, thickness=(rnd.uniform(150.0, 600.0) if finite else math.inf))
    idx = 1
    stop_at = rnd.randint(1, 2 * nel)
    for el in range(nel):
        convex_first = rnd.random() < 0.8
        r1 = math.exp(rnd.uniform(math.log(25.0), math.log(160.0))) * (1 if convex_first else -1)
        r2 = math.exp(rnd.uniform(math.log(25.0), math.log(400.0))) * rnd.choice([-1, -1, 1])
        if rnd.random() < 0.15:
            r2 = math.inf
        k1 = rnd.uniform(-1.2, 0.4) if rnd.random() < 0.4 else 0.0
        k2 = rnd.uniform(-1.2, 0.4) if (rnd.random() < 0.3 and math.isfinite(r2)) else 0.0
        kw = {}
        if apertures and el == nel - 1:
            kw["aperture"] = RadialAperture(r_max=rnd.uniform(0.55, 0.9))    # scaled by the EPD below
        G.quiet(o.add_surface, index=idx, radius=r1, conic=k1, thickness=rnd.uniform(2.0, 7.0),
                material=IdealMaterial(n=rnd.uniform(1.45, 1.85)), is_stop=(idx == stop_at))
        G.quiet(o.add_surface, index=idx + 1, radius=r2, conic=k2, thickness=rnd.uniform(0.5, 12.0),
                is_stop=(idx + 1 == stop_at), **kw)
        idx += 2
    o.add_surface(index=idx)
    o.set_aperture("EPD", 1.0)
    ft = "object_height" if finite else "angle"
    mf = rnd.uniform(0.3, 2.0)
    if finite and int(mf * 1e6) % 2 == 0:
        ft = "angle"            # a finite object whose fields are given as angles: valid, and the working
                                # F-number is that of the finite conjugates all the same
    o.set_field_type(ft)
    o.add_field(y=0.0)
    o.add_field(y=mf)
    for i, w in enumerate(wavelengths):
        o.add_wavelength(w, is_primary=(i == len(wavelengths) // 2))
    meta = {"elements": nel, "finite_object": finite, "stop": stop_at, "max_field": mf, "apertures": apertures,
            "field_type": ft}
    return o, meta


def aberrated_lens(rnd, target_pv, finite=False, apertures=False, wavelengths=None, defocus=0.0):
    """focusing_lens with the image plane at the paraxial focus and the aperture stopped down
    until the on-axis peak-to-valley wavefront error is <= target_pv waves; `defocus` (waves)
    then shifts the image plane.  Returns (optic | None, meta, reason)."""
    o, meta = focusing_lens(rnd, finite, apertures, wavelengths)
    try:
        f2 = float(o.paraxial.f2())
    except Exception as ex:
        return None, meta, "paraxial: %s" % type(ex).__name__
    if not (20.0 <= f2 <= 400.0):
        return None, meta, "focal length outside 20..400 (weak or diverging draw)"
    o.image_solve()
    pos = np.ravel(o.surface_group.positions)
    if not (pos[-1] - pos[-2] > 3.0):
        return None, meta, "no real image behind the last surface"
    fno = math.exp(rnd.uniform(math.log(2.5), math.log(12.0)))
    epd = f2 / fno
    pw = o.primary_wavelength

    def set_epd(v):
        o.set_aperture("EPD", v)
        if apertures:
            for s in o.surface_group.surfaces:
                if s.aperture is not None:
                    s.aperture.r_max = meta["ap_frac"] * v / 2.0
    if apertures:
        for s in o.surface_group.surfaces:
            if s.aperture is not None:
                meta["ap_frac"] = float(s.aperture.r_max)
    set_epd(epd)
    pv = pv_waves(o, (0.0, 0.0), pw)
    tries = 0
    while not pv <= target_pv and tries < 14:
        epd *= 0.8
        set_epd(epd)
        pv = pv_waves(o, (0.0, 0.0), pw)
        tries += 1
    if not pv <= target_pv:
        return None, meta, "aberration could not be brought into range"
    if defocus:
        fw = abs(float(o.paraxial.FNO()))
        o.surface_group.surfaces[-1].geometry.cs.z += 8.0 * defocus * pw * 1e-3 * fw * fw
    meta.update(epd=epd, pv=pv, defocus_waves=defocus, f2=f2)
    return o, meta, None


# ---------------------------------------------------------- certificates ----
def angle_cert(th):
    th = float(th)
    h = 0
    while abs(th) / (1 << h) > 0.25:
        h += 1
    x = th / (1 << h)
    return {"th": dy(th), "h": h, "c": dy(math.cos(x)), "s": dy(math.sin(x))}


def arccos_cert(r):
    """<<r, s, a>> for phi = arccos r: s = sqrt(1 - r^2), a = cos/sin certificate of phi (3 halvings)."""
    r = min(max(float(r), 0.0), 1.0)
    phi = math.acos(r)
    x = phi / 8.0
    return [dy(r), dy(math.sqrt(max(0.0, 1.0 - r * r))),
            {"th": dy(phi), "h": 3, "c": dy(math.cos(x)), "s": dy(math.sin(x))}]


def root_cert(Gs):
    return [dy(math.cos(2.0 * math.pi / Gs)), dy(-math.sin(2.0 * math.pi / Gs))]


def cplx(arr):
    return [[[dy(z.real), dy(z.imag)] for z in row] for row in arr]


def reals(arr):
    return [[dy(v) for v in row] for row in arr]


def quantities(optic, wl):
    """What the working F-number is made of, recorded as data (C04's business): n' |u'| of the
    paraxial marginal ray in image space; the paraxial F-number only serves explanations."""
    px = optic.paraxial
    finite = not optic.object_surface.is_infinite
    ya, ua = px.marginal_ray()
    n_img = float(np.ravel(optic.image_surface.material_pre.n(optic.primary_wavelength))[0])
    u_img = abs(float(np.ravel(ua)[-2]))          # slope of the ray arriving at the image surface
    return {"lam": dy(float(wl)), "F": dy(float(px.FNO())), "finite": bool(finite), "nu": dy(n_img * u_img)}


# ------------------------------------------------------------- recorders ----
def record_psf(optic, field, wl, N, Gs, rnd, npix=2, full=True, judge_all=False):
    """FFTPSF(...) -> event (or None with a reason when the result is not finite)."""
    from optiland.psf import FFTPSF
    p = G.quiet(FFTPSF, optic, field, wl, N, Gs)
    psf = np.asarray(p.psf, float)
    P = np.asarray(p.pupils[0], complex)
    # a failed ray of the pupil grid makes the pupil, hence the PSF, non-finite: such a lens is not a
    # case; a finite pupil with a non-finite PSF is judged (clause finite)
    if not (np.all(np.isfinite(P.real)) and np.all(np.isfinite(P.imag))):
        return None, "non-finite pupil (a ray of the pupil grid failed)", p
    rows, cols = psf.shape
    c = Gs // 2
    pix = []
    if rows == Gs and cols == Gs and npix >= 0:
        pix.append((c, c))
        # seeded random pixels, biased towards the core where the PSF carries its energy
        for i in range(npix):
            if i % 2 == 0:
                a = c + rnd.randint(-3, 3)
                b = c + rnd.randint(-3, 3)
            else:
                a = rnd.randrange(Gs)
                b = rnd.randrange(Gs)
            pix.append((a, b))
    centre = psf[c, c] if (c < rows and c < cols) else float("nan")
    inten = np.asarray(p.data[0][0][1], float)
    ev = {"kind": "psf", "N": int(N), "G": int(Gs), "w": root_cert(Gs), "wa": angle_cert(2.0 * math.pi / Gs),
          "P": cplx(P), "M": reals(np.abs(P)),
          "rows": int(rows), "cols": int(cols),
          "img": reals(psf) if full else [], "all": bool(judge_all and full),
          "sum": dy(float(psf.sum())), "min": dy(float(psf.min())), "max": dy(float(psf.max())),
          "pix": [[int(a), int(b), dy(float(psf[a, b]))] for a, b in pix],
          "centre": dy(float(centre)), "strehl": dy(float(p.strehl_ratio())),
          "norm": dy(float(p._get_normalization()))}
    info = {"zero_amplitude_rays": int((inten == 0).sum()), "nonzero": int((P != 0).sum()),
            "strehl": float(p.strehl_ratio()), "pupil_points": int(inten.size)}
    return ev, info, p


def _dl_indices(N, H):
    ks = sorted(set(k for k in (1, N // 4, N // 2, (3 * N) // 4, N - 2, N + 1, H - 1) if 0 <= k < H))
    return ks


def record_fftmtf(optic, field, wl, N, Gs, pupil=True, ideal=False, view=True, others=()):
    """FFTMTF(...) for one field -> event; the x-data is read from the curves view() draws.
    others: further fields analysed by the same FFTMTF object (the judged curves are those of
    `field`: they must not depend on what else was asked for)."""
    from optiland.mtf import FFTMTF
    m = G.quiet(FFTMTF, optic, [field] + list(others), wl, N, Gs)
    tan = np.asarray(m.mtf[0][0], float)
    sag = np.asarray(m.mtf[0][1], float)
    H = Gs - Gs // 2          # samples at the non-negative frequencies (Gs may be odd)
    if not (np.all(np.isfinite(tan)) and np.all(np.isfinite(sag))):
        return None, "non-finite MTF (a ray of the pupil grid failed)"
    if view:
        import matplotlib
        matplotlib.use("Agg")
        import matplotlib.pyplot as plt
        plt.close("all")
        G.quiet(m.view)
        lines = plt.gcf().axes[0].lines
        xs = [np.asarray(l.get_xdata(), float) for l in lines[:2]]
        ys = [np.asarray(l.get_ydata(), float) for l in lines[:2]]
        plt.close("all")
    else:   # the same statements view() executes
        xs = [np.arange(Gs - Gs // 2) * m._get_mtf_units()] * 2
        ys = [tan, sag]
    ks = _dl_indices(N, min(H, len(tan)))
    axis_k = sorted(set([0, 1, 2, H // 2, H - 1]) & set(range(len(xs[0]))))
    ev = {"kind": "fftmtf", "N": int(N), "G": int(Gs), "q": quantities(optic, wl),
          "tan": [dy(v) for v in tan], "sag": [dy(v) for v in sag],
          "maxf": dy(float(m.max_freq)),
          "axis": [[int(k), dy(float(xs[0][k]))] for k in axis_k],
          "plot": [[c + 1, int(k), dy(float(ys[c][k]))] for c in (0, 1) for k in ks if k < len(ys[c])],
          "dl": [[int(k)] + arccos_cert(min(k, N - 1) / (N - 1.0)) for k in ks],
          "P": [], "M": [], "ks": [], "ideal": bool(ideal)}
    if pupil:
        from optiland.psf import FFTPSF
        p = G.quiet(FFTPSF, optic, field, wl, N, Gs)
        P = np.asarray(p.pupils[0], complex)
        ev["P"] = cplx(P)
        ev["M"] = reals(np.abs(P))
        ev["ks"] = [k for k in ((1, N // 3) if N <= 16 else (N // 3,)) if k < min(H, N)]
    info = {"fno_code": float(m.FNO), "max_freq": float(m.max_freq), "df": float(xs[0][1]),
            "df_law_N": float(m.max_freq) / N}
    return ev, info


def record_geomtf(optic, field, wl, num_rays=16, num_points=16, scale=True):
    """GeometricMTF(...) for one field -> two events (tangential from y, sagittal from x)."""
    from optiland.mtf import GeometricMTF
    g = G.quiet(GeometricMTF, optic, [field], wl, num_rays, "uniform", num_points, "cutoff", scale)
    out = []
    x, y = np.asarray(g.data[0][0][0], float), np.asarray(g.data[0][0][1], float)
    freq = np.asarray(g.freq, float)
    dlc = np.asarray(g.diff_limited_mtf, float) if scale else np.ones(num_points)
    for c, xi in ((0, y), (1, x)):
        mtf = np.asarray(g.mtf[0][c], float)
        if not (np.all(np.isfinite(xi)) and np.all(np.isfinite(mtf))):
            out.append((None, "non-finite spot or MTF"))
            continue
        if xi.max() - xi.min() <= 64 * np.finfo(float).eps * max(1.0, abs(xi).max()):
            out.append((None, "degenerate line spread (all spots within rounding of one point)"))
            continue
        A, edges = np.histogram(xi, bins=num_points + 1)      # the histogram the class documents;
        cen = (edges[1:] + edges[:-1]) / 2                     # HistOK re-derives it from the spots
        dx = float(cen[1] - cen[0])
        ks = sorted(set(k for k in (1, num_points // 4, num_points // 2, (3 * num_points) // 4, num_points - 2)
                        if 0 < k < num_points))
        smp = []
        for k in ks:
            r = float(freq[k] / g.max_freq)
            smp.append([int(k)] + arccos_cert(r) + [angle_cert(2.0 * math.pi * float(freq[k]) * dx)])
        ev = {"kind": "geomtf", "dir": "tangential" if c == 0 else "sagittal",
              "x": [dy(v) for v in xi], "np": int(num_points), "A": [int(a) for a in A],
              "edges": [dy(v) for v in edges], "dx": dy(dx),
              "freq": [dy(v) for v in freq], "mtf": [dy(v) for v in mtf], "dlc": [dy(v) for v in dlc],
              "scale": bool(scale), "q": quantities(optic, wl), "maxf": dy(float(g.max_freq)), "smp": smp}
        out.append((ev, {"max_freq": float(g.max_freq), "spots": int(xi.size)}))
    return out
