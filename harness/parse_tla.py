"""Parser for the value syntax TLC prints (PrintT, -dump, -simulate file=).

Tuples/sequences and sets both become Python lists, records and explicit
functions (a :> b @@ ...) become dicts, strings/ints/booleans the obvious.
"""
import re

_TOK = re.compile(r'\s*(<<|>>|\|->|:>|@@|[\[\]\{\}\(\),]|"(?:[^"\\]|\\.)*"|-?\d+|[A-Za-z_][A-Za-z0-9_!]*)')


def tokenize(s):
    pos = 0
    out = []
    n = len(s)
    while pos < n:
        m = _TOK.match(s, pos)
        if not m:
            if s[pos:].strip() == "":
                break
            raise ValueError("bad TLA value near %r" % s[pos:pos + 40])
        out.append(m.group(1))
        pos = m.end()
    return out


class _P:
    def __init__(self, toks):
        self.t = toks
        self.i = 0

    def peek(self):
        return self.t[self.i] if self.i < len(self.t) else None

    def next(self):
        tok = self.t[self.i]
        self.i += 1
        return tok

    def expect(self, tok):
        got = self.next()
        if got != tok:
            raise ValueError("expected %s got %s" % (tok, got))

    def value(self):
        tok = self.next()
        if tok == "<<":
            items = []
            if self.peek() == ">>":
                self.next()
                return items
            while True:
                items.append(self.value())
                if self.peek() == ",":
                    self.next()
                    continue
                self.expect(">>")
                return items
        if tok == "{":
            items = []
            if self.peek() == "}":
                self.next()
                return items
            while True:
                items.append(self.value())
                if self.peek() == ",":
                    self.next()
                    continue
                self.expect("}")
                return items
        if tok == "[":
            rec = {}
            if self.peek() == "]":
                self.next()
                return rec
            while True:
                key = self.next()
                self.expect("|->")
                rec[key] = self.value()
                if self.peek() == ",":
                    self.next()
                    continue
                self.expect("]")
                return rec
        if tok == "(":
            fn = {}
            while True:
                k = self.value()
                self.expect(":>")
                v = self.value()
                fn[k if not isinstance(k, list) else tuple(k)] = v
                if self.peek() == "@@":
                    self.next()
                    continue
                self.expect(")")
                return fn
        if tok.startswith('"'):
            return bytes(tok[1:-1], "utf-8").decode("unicode_escape") if "\\" in tok else tok[1:-1]
        if tok == "TRUE":
            return True
        if tok == "FALSE":
            return False
        if re.fullmatch(r"-?\d+", tok):
            return int(tok)
        return tok  # model value / identifier


def parse_value(s):
    p = _P(tokenize(s))
    v = p.value()
    return v


def parse_dump(text):
    """States of a `-dump` file: list of dicts var -> value."""
    states = []
    for block in re.split(r"^State \d+:\s*$", text, flags=re.M)[1:]:
        states.append(parse_conj(block))
    return states


def parse_conj(block):
    """A block of `/\\ var = value` lines (values may span lines)."""
    st = {}
    parts = re.split(r"^\s*/\\ ", block, flags=re.M)
    for part in parts:
        part = part.strip()
        if not part:
            continue
        m = re.match(r"([A-Za-z_][A-Za-z0-9_]*)\s*=\s*(.*)", part, flags=re.S)
        if not m:
            continue
        st[m.group(1)] = parse_value(m.group(2))
    if not st:  # single-variable spec: "var = value"
        m = re.match(r"\s*([A-Za-z_][A-Za-z0-9_]*)\s*=\s*(.*)", block, flags=re.S)
        if m:
            st[m.group(1)] = parse_value(m.group(2))
    return st


def parse_sim_file(text):
    """One behaviour written by `-simulate file=...`: list of (action, state)."""
    out = []
    parts = re.split(r"^STATE_\d+ ==\s*$", text, flags=re.M)
    # parts[0] ends with the comment naming the first action; each later part
    # is "<state conj>\n\n\\* <Action ...>" (the comment belongs to the next state)
    act = re.findall(r"\\\* <(\w+)", parts[0])
    action = act[-1] if act else "?"
    for part in parts[1:]:
        m = re.search(r"^\\\* <(\w+)[^\n]*$", part, flags=re.M)
        body = part[:m.start()] if m else part
        body = re.sub(r"^=+\s*$", "", body, flags=re.M)
        out.append((action, parse_conj(body)))
        action = m.group(1) if m else "?"
    return out
