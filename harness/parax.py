"""Paraxial helpers shared by the C04 / C08 drivers.

* grid lenses of spec/MC_Paraxial.tla built through the public API,
* the description of a live Optic as the lens record `L` of spec/Paraxial.tla
  (read from public attributes only: positions, radii, n(), is_reflective,
  stop_index, aperture, fields, object position),
* recording of what the implementation returns (accessors, marginal_ray(),
  chief_ray()) plus auxiliary rays from its generic paraxial trace, all as
  exact dyadic numbers.  Nothing here computes an expected value.
"""
import math

import numpy as np

from harness.dy import dy
from harness.lensgen import quiet

ACC = ["f1", "f2", "F1", "F2", "P1", "P2", "N1", "N2", "EPL", "EPD", "XPL", "XPD", "FNO", "mag", "inv"]
METHOD = {"mag": "magnification", "inv": "invariant"}

# ---- the grid of MC_Paraxial -------------------------------------------------
MED = {1: 1.0, 2: 1.5, 3: 2.0}
OBJ_T = 24.0
CFG = {1: (False, "EPD", "angle"), 2: (False, "imageFNO", "angle"), 3: (True, "EPD", "angle"),
       4: (True, "EPD", "object_height"), 5: (True, "imageFNO", "angle"), 6: (True, "imageFNO", "object_height"),
       7: (True, "objectNA", "angle"), 8: (True, "objectNA", "object_height")}
AP_VAL = {"EPD": 2.0, "imageFNO": 4.0, "objectNA": 0.6}
FIELD_ANGLE = math.degrees(math.atan(0.25))      # tan = 1/4 (to 1 ulp)
FIELD_H = 2.0
A2 = 1.0 / 64.0


class Unsupported(Exception):
    pass


def _f(x):
    return float(np.asarray(x, dtype=float).ravel()[0])


def rad_of(c):
    return 100 - c if c > 100 else c


def build_grid_lens(sf, s, cfg, field_angle=FIELD_ANGLE, field_h=FIELD_H, wavelengths=(0.5876,), materials=None):
    """sf: list of (radcode, medcode, thk, aspcode); s: stop index; cfg: 1..8."""
    from optiland.optic import Optic
    from optiland.materials import IdealMaterial
    fin, apt, fdt = CFG[cfg]
    o = Optic()
    o.add_surface(index=0, thickness=OBJ_T if fin else math.inf)
    sign = 1.0
    for j, (rc, mc, tc, ac) in enumerate(sf, 1):
        kw = dict(index=j, radius=(math.inf if rc == 0 else float(rad_of(rc))), is_stop=(j == s))
        if mc == 4:
            kw["material"] = "mirror"
            sign = -sign
        elif materials is not None:
            kw["material"] = materials[mc]
        else:
            kw["material"] = "air" if mc == 1 else IdealMaterial(n=MED[mc])
        kw["thickness"] = sign * float(tc)
        if ac == 1:
            kw["surface_type"] = "even_asphere"
            kw["conic"] = 0.0
            kw["coefficients"] = [A2]
        quiet(o.add_surface, **kw)
    # the image surface lies inside the last medium (a mirror keeps the medium in front of it)
    last = 1
    for (rc, mc, tc, ac) in sf:
        last = mc if mc != 4 else last
    if materials is not None and last != 1:
        o.add_surface(index=len(sf) + 1, material=materials[last])
    else:
        o.add_surface(index=len(sf) + 1, material="air" if last == 1 else IdealMaterial(n=MED[last]))
    o.set_aperture(apt, AP_VAL[apt])
    o.set_field_type(fdt)
    o.add_field(y=0.0)
    o.add_field(y=field_angle if fdt == "angle" else field_h)
    for i, w in enumerate(wavelengths):
        o.add_wavelength(w, is_primary=(i == len(wavelengths) // 2))
    return o


# ---- a live Optic as the record L of spec/Paraxial.tla --------------------------
def describe(optic):
    """Returns (L, info).  L carries dyadic numbers; info is plain Python for classification."""
    sg = optic.surface_group
    surfs = sg.surfaces
    K = len(surfs) - 1
    if K < 2:
        raise Unsupported("no powered surface")
    for sfc in surfs:
        if not sfc.is_rotationally_symmetric():
            raise Unsupported("not axially symmetric")
    wl = optic.primary_wavelength
    pos = [_f(p) for p in sg.positions]
    n = [_f(v) for v in optic.n(wl)]
    R, a2s, mir, shaped = [], [], [], []
    for k in range(1, K + 1):      # the image surface is a surface like any other
        g = surfs[k].geometry
        name = type(g).__name__
        r = _f(g.radius)
        a2 = 0.0
        if name == "EvenAsphere":
            c = list(np.asarray(g.c, dtype=float).ravel())
            a2 = float(c[0]) if c else 0.0
            if any(v != 0.0 for v in c):
                shaped.append(k)
        elif name not in ("Plane", "StandardGeometry"):
            raise Unsupported("geometry " + name)
        if _f(getattr(g, "k", 0.0)) != 0.0 and not math.isinf(r):
            shaped.append(k)
        if r == 0.0 or math.isnan(r):
            raise Unsupported("radius 0")
        R.append({"pl": math.isinf(r), "v": dy(0.0 if math.isinf(r) else r), "a2": dy(a2)})
        a2s.append(a2)
        mir.append(bool(surfs[k].is_reflective))
    s = sg.stop_index
    if s is None or s < 1 or s > K - 1:
        raise Unsupported("stop index %s" % s)
    obj_inf = bool(optic.object_surface.is_infinite)
    zo = 0.0 if obj_inf else _f(optic.object_surface.geometry.cs.z)
    apt = optic.aperture.ap_type
    apv = float(optic.aperture.value)
    tn = 0.0
    if apt == "objectNA":
        if obj_inf:
            raise Unsupported("objectNA with an infinite object")
        tn = math.tan(math.asin(apv / n[0]))
    ft = optic.field_type
    mf = float(optic.fields.max_y_field)
    if ft == "angle":
        fv = math.tan(math.radians(mf))
    else:
        if obj_inf:
            raise Unsupported("object_height with an infinite object")
        fv = mf
    L = {"K": K, "R": R, "na": [dy(v) for v in n[:K + 1]], "mir": mir, "z": [dy(p) for p in pos[1:]],
         "s": int(s), "obj": {"inf": obj_inf, "z": dy(zo)},
         "ap": {"t": apt, "v": dy(apv), "tn": dy(tn)}, "fld": {"t": ft, "v": dy(fv)}}
    info = {"K": K, "stop": int(s), "finite_object": not obj_inf, "aperture": apt, "field_type": ft,
            "mirrors": [k + 1 for k, m in enumerate(mir) if m], "odd_mirrors": sum(mir) % 2 == 1,
            "asphere_r2": [k + 1 for k, a in enumerate(a2s) if a != 0.0], "z1": pos[1], "zo": zo,
            "n": n, "pos": pos, "radii": [_f(surfs[k].geometry.radius) for k in range(1, K + 1)],
            "image_medium_differs": n[K] != n[K - 1] or mir[K - 1],
            "aspheric_or_conic": sorted(set(shaped)), "max_field": mf}
    return L, info


def _ray(y, u):
    return {"y": [dy(_f(v)) for v in y], "u": [dy(_f(v)) for v in u]}


def _flt(y, u):
    return [_f(v) for v in y], [_f(v) for v in u]


def record(optic, info):
    """What the implementation returns for this lens (floats), plus auxiliary rays from its
    generic paraxial trace.  Returns (X record with dyadic numbers, raw floats)."""
    p = optic.paraxial
    K = info["K"]
    z1 = info["z1"]
    wl = optic.primary_wavelength
    raw = {"acc": {}}
    with np.errstate(all="ignore"):
        for name in ACC:
            raw["acc"][name] = _f(getattr(p, METHOD.get(name, name))())
        ym, um = _flt(*p.marginal_ray())
        yc, uc = _flt(*p.chief_ray())
        # A: parallel in object space, unit height (launched one unit in front of surface 1)
        yA, uA = _flt(*p._trace_generic(1.0, 0.0, z1 - 1.0, wl))
        # B: parallel in image space, traced backwards through the inverted surface list;
        # re-indexed to the forward convention: height at surface k is y'[K-k], the slope dy/dz
        # in space k is -u'[K-1-k]  (pure re-indexing and a sign, no optics)
        yr, ur = _flt(*p._trace_generic(1.0, 0.0, -1.0, wl, reverse=True))
        yB = [yr[K - k] for k in range(0, K + 1)]
        uB = [-ur[K - 1 - k] for k in range(0, K)]
        uB.append(uB[-1])
        epl = raw["acc"]["EPL"]
        if math.isfinite(epl) and abs(epl) < 1e12:
            yP, uP = _flt(*p._trace_generic(-(epl - z1) * 0.1, 0.1, z1, wl))
        else:
            yP, uP = [0.0] * (K + 1), [0.0] * (K + 1)
        if all(math.isfinite(v) for v in ym + um + yc + uc):
            yL, uL = _flt(*p._trace_generic(ym[1] + 2.0 * yc[1], um[0] + 2.0 * uc[0], z1, wl))
        else:
            yL, uL = [math.nan] * (K + 1), [math.nan] * (K + 1)
    raw.update(ma=(ym, um), ch=(yc, uc), A=(yA, uA), B=(yB, uB), P=(yP, uP), Lc=(yL, uL))
    X = {"acc": {k: dy(v) for k, v in raw["acc"].items()}}
    for key in ("ma", "ch", "A", "B", "P", "Lc"):
        X[key] = _ray(*raw[key])
    return X, raw


def classify(name, k, info, raw):
    """Input-class attributes of a failing clause (kept narrow: see known_findings.d/C04.json)."""
    if name in ("f2", "P2", "N1"):
        yA, uA = raw["A"]
        neg = (uA[-1] != 0.0) and (-yA[1] / uA[-1] < 0.0)
        return {"f2_signed_negative": bool(neg)}
    if name.endswith("_refract"):
        return {"asphere_r2_term": k in info["asphere_r2"], "mirror": k in info["mirrors"]}
    if name.startswith("chief_") or name in ("lagrange", "linearity"):
        return {"field_type": info["field_type"], "stop_first": info["stop"] == 1}
    if name == "invariant":
        return {"field_type": info["field_type"], "first_surface_mirror": 1 in info["mirrors"]}
    if name == "magnification":
        return {"odd_mirrors": info["odd_mirrors"]}
    if name == "XPL":
        return {"stop_last": info["stop"] == info["K"] - 1, "image_medium_differs": info["image_medium_differs"]}
    return {"aperture": info["aperture"], "finite_object": info["finite_object"]}


# ---- random lenses for trace validation (arbitrary floats, everything via the public API) ----
def random_lens(rnd, catalogue=False, conic_free=False, last_air=0.9, p_catalogue=0.1, p_zero_field=0.0, force=None):
    """Axially symmetric random prescription: spheres, conics, planes, even aspheres (with and
    without an r^2 term), mirrors (negative separations behind them), any stop position, finite
    or infinite object, the three aperture types and both field types.  Returns (optic, meta)."""
    from optiland.optic import Optic
    from optiland.materials import IdealMaterial
    glasses = [("N-BK7", "schott"), ("N-SF11", "schott"), ("F2", "schott"), ("N-LAK9", "schott")]
    o = Optic()
    n = rnd.randint(1, 8)
    finite = rnd.random() < 0.45
    force = force or {}
    if "finite" in force:
        finite = force["finite"]
    epd = rnd.uniform(1.0, 8.0)
    lo = 4.0 * epd
    obj_t = rnd.uniform(40.0, 400.0) if finite else math.inf
    # the object may be immersed (object NA = n0 sin(theta) then differs from sin(theta))
    immersed = force.get("immersed", rnd.random() < 0.3)
    o.add_surface(index=0, thickness=obj_t,
                  material=IdealMaterial(n=round(rnd.uniform(1.2, 1.7), 3)) if immersed else "air")
    stop = rnd.choice([1, n, rnd.randint(1, n)])
    sign = 1.0
    in_glass = False
    meta = {"nsurf": n, "finite_object": finite, "stop": stop, "mirrors": 0, "aspheres": 0, "immersed_object": immersed}
    for j in range(1, n + 1):
        plane = rnd.random() < 0.15
        R = math.inf if plane else rnd.choice([-1, 1]) * math.exp(rnd.uniform(math.log(lo), math.log(800.0)))
        kw = dict(index=j, radius=R, is_stop=(j == stop))
        q = rnd.random()
        if conic_free:
            pass
        elif q < 0.25:
            kw["surface_type"] = "even_asphere"
            kw["conic"] = rnd.uniform(-1.5, 0.5) if rnd.random() < 0.5 else 0.0
            a2 = 0.0 if rnd.random() < 0.6 else rnd.uniform(-1, 1) * 2e-3 / lo
            kw["coefficients"] = [a2, rnd.uniform(-1, 1) * 1e-4 / lo ** 3]
            meta["aspheres"] += 1
        elif q < 0.5 and not plane:
            kw["conic"] = rnd.uniform(-1.5, 0.5)
        m = rnd.random()
        if m < 0.12:
            material = "mirror"
            sign = -sign
            meta["mirrors"] += 1
        elif in_glass and m < 0.8 or (j == n and m < 0.12 + 0.88 * last_air):
            material = "air"
            in_glass = False
        elif catalogue and m > 1.0 - p_catalogue:
            material = rnd.choice(glasses)
            in_glass = True
        else:
            material = IdealMaterial(n=rnd.uniform(1.3, 2.0))
            in_glass = True
        kw["material"] = material
        t = rnd.uniform(0.5, 12.0) if in_glass else rnd.uniform(0.5, 40.0)
        kw["thickness"] = sign * t
        quiet(o.add_surface, **kw)
    o.add_surface(index=n + 1)
    apt = rnd.choice(["EPD", "EPD", "imageFNO", "objectNA"] if finite else ["EPD", "EPD", "imageFNO"])
    apt = force.get("aperture", apt)
    o.set_aperture(apt, {"EPD": epd, "imageFNO": rnd.uniform(2.0, 10.0), "objectNA": rnd.uniform(0.01, 0.1)}[apt])
    ft = "object_height" if (finite and rnd.random() < 0.5) else "angle"
    o.set_field_type(ft)
    mf = 0.0 if rnd.random() < p_zero_field else rnd.uniform(0.5, 6.0)
    o.add_field(y=0.0)
    o.add_field(y=0.7 * mf)
    o.add_field(y=mf)
    for i, w in enumerate([0.4861, 0.5876, 0.6563]):
        o.add_wavelength(w, is_primary=(i == 1))
    meta.update(aperture=apt, field_type=ft)
    return o, meta
