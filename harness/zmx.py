"""C20 helpers: .zmx text <-> line records of spec/Zemax.tla, loading through the
public entry point, observation of the loaded Optic in the vocabulary of
harness/project.py, comparison with the prescription TLC computed.

Line record (spec/ZemaxReader.tla): [kw, s, a] = keyword, string arguments,
numeric arguments.  In TLC-generated files numbers are integers in units of
1/1024; here they become decimal literals whose binary value is exact.
Nothing in this file computes an expected value: `expected()` only converts
units of what TLC printed, `observe()` only reads the loaded lens.
"""
import math
import os
import random

import numpy as np

from harness import project as P
from harness.dy import dy
from harness.lensgen import quiet
from harness.parse_tla import parse_value

U = 1024
INF = 1 << 30
PROBE_WL = P.PROBE_WL
STYLES = ("repr", "e18", "short", "dot")
ENCODINGS = ("utf-8", "utf-16")      # what the reader supports: BOM-less UTF-8, UTF-16 with BOM


def glass_dir():
    import optiland
    return os.path.normpath(os.path.join(os.path.dirname(optiland.__file__), "..", "database", "data-nk", "glass"))


def catalogue_has(vendor, name):
    """Catalogue fact, read from the database directory (not through Material)."""
    return os.path.isfile(os.path.join(glass_dir(), vendor.lower(), name + ".yml"))


def vendors_of(name):
    g = glass_dir()
    return sorted(v.upper() for v in os.listdir(g) if os.path.isfile(os.path.join(g, v, name + ".yml")))


# ---------------------------------------------------------------- rendering ----
def lit(v, style):
    """Decimal literal of the grid value v/1024 (exact in binary and in decimal)."""
    if v == INF:
        return "INFINITY"
    x = v / U
    if style == "e18":
        t = "%.18E" % x
    elif style == "short" and float(x).is_integer():
        t = str(int(x))
    elif style == "dot" and float(x).is_integer():
        t = "%d." % int(x)
    else:
        t = repr(x)
    if float(t) != x or x * U != v:
        raise ValueError("literal %r does not denote %d/1024" % (t, v))
    return t


def render_line(l, style="repr", ftyp8=True):
    kw, s, a = l["kw"], l["s"], l["a"]
    n = lambda v: lit(v, style)
    if kw == "":
        return ""
    if kw == "MODE":
        return "MODE " + s[0]
    if kw == "ENPD":
        return "ENPD " + n(a[0])
    if kw in ("FNUM", "OBNA"):
        return "%s %s %d" % (kw, n(a[0]), a[1])
    if kw == "GCAT":
        return "GCAT " + " ".join(s)
    if kw == "FTYP":        # field type, telecentric, #fields, #wavelengths, ... (7 or 8 numbers, both occur)
        return "FTYP %d 0 %d %d 0 0 0" % (a[0], a[1], a[2]) + (" 0" if ftyp8 else "")
    if kw in ("XFLN", "YFLN"):
        return kw + " " + " ".join(n(v) for v in a)
    if kw == "WAVM":
        return "WAVM %d %s 1" % (a[0], n(a[1]))
    if kw == "PWAV":
        return "PWAV %d" % a[0]
    if kw == "SURF":
        return "SURF %d" % a[0]
    if kw == "TYPE":
        return "  TYPE " + s[0]
    if kw == "CURV":
        return "  CURV " + n(a[0]) + (" 0 0 0 0" if style == "e18" else "")
    if kw == "DISZ":
        return "  DISZ " + n(a[0])
    if kw == "CONI":
        return "  CONI " + n(a[0])
    if kw == "PARM":
        return "  PARM %d %s" % (a[0], n(a[1]))
    if kw == "GLAS":
        if not a:
            return "  GLAS " + s[0]
        return "  GLAS %s %d 0 %s %s" % (s[0], 1 if s[0].startswith("_") else 0, n(a[0]), n(a[1])) + \
               (" 0 0 0 0 0 0" if style == "e18" else "")
    if kw == "STOP":
        return "  STOP"
    # unknown keyword: arguments are irrelevant to the reader
    return ("%s %s %s" % (kw, " ".join(s), " ".join(repr(v / U) for v in a))).rstrip()


def render(lines, style="repr", ftyp8=True, eol="\n"):
    return eol.join(render_line(l, style, ftyp8) for l in lines) + eol


# positions of the numeric arguments that are grid numbers (the others are plain integers)
FLOATPOS = {"ENPD": (0,), "FNUM": (0,), "OBNA": (0,), "XFLN": "*", "YFLN": "*", "WAVM": (1,), "CURV": (0,),
            "DISZ": (0,), "CONI": (0,), "PARM": (1,), "GLAS": "*"}


def denoted(l):
    """Numeric arguments of a TLC-generated line as the numbers they denote."""
    fp = FLOATPOS.get(l["kw"], ())
    return [(math.inf if v == INF else v / U) if (fp == "*" or i in fp) else v for i, v in enumerate(l["a"])]


# number formats of the keywords ('i' int, 'f' float, 's' string, '-' ignored, '*' repeats)
def tokenize(text, num=float):
    """Text -> line records; numbers through `num` (float, or dy of float)."""
    out = []
    for raw in text.splitlines():
        d = raw.split()
        if not d:
            out.append({"kw": "", "s": [], "a": []})
            continue
        kw, r = d[0], d[1:]
        f = lambda t: num(float("inf") if t == "INFINITY" else float(t))
        try:
            if kw in ("MODE", "TYPE"):
                rec = {"kw": kw, "s": [r[0]], "a": []}
            elif kw in ("ENPD", "CURV", "DISZ", "CONI"):
                rec = {"kw": kw, "s": [], "a": [f(r[0])]}
            elif kw in ("FNUM", "OBNA"):
                rec = {"kw": kw, "s": [], "a": [f(r[0]), int(r[1])]}
            elif kw == "GCAT":
                rec = {"kw": kw, "s": list(r), "a": []}
            elif kw == "FTYP":
                rec = {"kw": kw, "s": [], "a": [int(r[0]), int(r[2]), int(r[3])]}
            elif kw in ("XFLN", "YFLN"):
                rec = {"kw": kw, "s": [], "a": [f(t) for t in r]}
            elif kw == "WAVM":
                rec = {"kw": kw, "s": [], "a": [int(r[0]), f(r[1])]}
            elif kw in ("PWAV", "SURF"):
                rec = {"kw": kw, "s": [], "a": [int(r[0])]}
            elif kw == "PARM":
                rec = {"kw": kw, "s": [], "a": [int(r[0]), f(r[1])]}
            elif kw == "GLAS":
                rec = {"kw": kw, "s": [r[0]], "a": [f(r[3]), f(r[4])] if len(r) >= 5 else []}
            elif kw == "STOP":
                rec = {"kw": kw, "s": [], "a": []}
            else:
                rec = {"kw": kw, "s": [], "a": []}
        except (IndexError, ValueError):
            rec = {"kw": "?" + kw, "s": [], "a": []}      # malformed: not a line of the format
        out.append(rec)
    return out


# ------------------------------------------------------------ TLC's output ----
def parse_file_print(line):
    """One `"FILE <<lines, out>>"` line printed by the End action."""
    body = line.strip()[1:-1].replace('\\"', '"')
    assert body.startswith("FILE ")
    v = parse_value(body[5:])
    lines = [{"kw": t[0], "s": t[1], "a": t[2]} for t in v[0]]
    return lines, v[1]


def fl(v):
    if v == "any":
        return None
    if v == INF:
        return math.inf
    if v == -INF:
        return -math.inf
    return v / U


def strip0(c):
    c = list(c)
    while c and c[-1] == 0:
        c.pop()
    return c


def expected(out):
    """Unit conversion of the prescription TLC computed (no arithmetic beyond /1024)."""
    if out["reject"]:
        return {"reject": True}
    surf = []
    for s in out["surf"]:
        m = s["med"]
        if m["kind"] == "model":
            med = {"kind": "model", "nd": m["nd"] / U, "vd": m["vd"] / U}
        elif m["kind"] == "cat":
            med = {"kind": "cat", "name": m["name"], "from": sorted(m["from"])}
        else:
            med = {"kind": "air"}
        surf.append({"z": fl(s["z"]), "R": fl(s["R"]), "k": s["k"] / U, "coef": strip0(v / U for v in s["coef"]),
                     "med": med, "stop": s["stop"]})
    ap = out["ap"]
    return {"reject": False, "surf": surf, "stop": out["stop"],
            "ap": [ap[0], ap[1] / U] if ap else [],
            "ftype": out["ftype"], "fields": sorted([x / U, y / U] for x, y in out["fields"]),
            "wl": [w / U for w in out["wl"]], "primary": out["primary"]}


# ------------------------------------------------------------- observation ----
def medium_token(mat):
    name = type(mat).__name__
    if name == "AbbeMaterial":
        return {"kind": "model", "nd": float(mat.index), "vd": float(mat.abbe)}
    if name == "Material":
        fn = str(mat.material_data["filename"])
        parts = fn.split("/")
        if parts[0] == "glass" and len(parts) == 3:
            return {"kind": "cat", "name": parts[2][:-4], "vendor": parts[1].upper(), "file": fn}
        return {"kind": "cat", "name": "", "vendor": "", "file": fn}
    if name == "IdealMaterial":
        if float(mat.index) == 1.0 and float(mat.absorp) == 0.0:
            return {"kind": "air"}
        return {"kind": "ideal", "n": float(mat.index)}
    return {"kind": name}


def n_values(mat):
    try:
        return [P.n_at(mat, w) for w in PROBE_WL]
    except Exception:
        return []          # outside the tabulated range of the entry that was loaded


def observe(optic):
    """The loaded lens in the vocabulary of harness/project.py (same attributes:
    surface_group.positions/radii/conic, geometry.c, material_pre/post, is_stop,
    wavelengths, fields, aperture) with the medium as a token."""
    sg = optic.surface_group
    surf = []
    for k, s in enumerate(sg.surfaces):
        R = P.f(sg.radii[k])
        kk = P.f(sg.conic[k])
        surf.append({"z": P.f(sg.positions[k]), "R": R, "k": 0.0 if math.isinf(R) else kk,
                     "kind": P.geom_kind(s.geometry), "coef": strip0(P.coef_list(s.geometry)),
                     "med": medium_token(s.material_post), "stop": bool(s.is_stop),
                     "npre": n_values(s.material_post if k == 0 else s.material_pre),
                     "npost": n_values(s.material_post)})
    si = sg.stop_index
    wl = optic.wavelengths.wavelengths
    prim = [i + 1 for i, w in enumerate(wl) if w.is_primary]
    ap = optic.aperture
    return {"surf": surf, "stop": 0 if si is None else si + 1,
            "ap": [ap.ap_type, float(ap.value)] if ap is not None else [],
            "ftype": optic.field_type,
            "fields": [[float(f.x), float(f.y)] for f in optic.fields.fields],
            "wl": [P.f(w.value) for w in wl],
            "primary": prim[0] if len(prim) == 1 else -len(prim)}


def load_text(text, enc, path, bom_be=False):
    """Write `text` in encoding enc and load it through the public entry point.
    Returns (optic, None) or (None, exception)."""
    from optiland.fileio import load_zemax_file
    if bom_be:
        data = b"\xfe\xff" + text.encode("utf-16-be")
    else:
        data = text.encode(enc)            # 'utf-16' writes the BOM (little endian here)
    with open(path, "wb") as fh:
        fh.write(data)
    try:
        return quiet(load_zemax_file, path), None
    except Exception as ex:            # noqa: BLE001 - every exception type is an observation
        return None, ex
    finally:
        try:
            os.remove(path)
        except OSError:
            pass


# -------------------------------------------------------------- comparison ----
def same(a, b):
    if a is None:                       # unobservable
        return True
    return a == b or (isinstance(a, float) and isinstance(b, float) and math.isnan(a) and math.isnan(b))


def medium_case(e, o):
    """None if the loaded medium is the one the file denotes, else the kind of difference."""
    if e["kind"] == "air":
        return None if o["kind"] == "air" else "glass_where_none_written"
    if e["kind"] == "model":
        if o["kind"] == "cat":
            return "unknown_name_resolved"
        if o["kind"] != "model":
            return "not_resolved"
        return None if (o["nd"], o["vd"]) == (e["nd"], e["vd"]) else "model_numbers"
    if o["kind"] != "cat":
        return "not_resolved"
    if o["name"] == e["name"]:
        return None if o["vendor"] in e["from"] else "same_name_other_catalogue"
    return "other_entry"


def is_default_plane(s):
    return math.isinf(s["R"]) and not s["coef"] and s["med"]["kind"] == "air" and not s["stop"]


def compare(exp, obs):
    """Differences between the prescription the file denotes (exp) and the loaded lens
    (obs): list of dicts clause / j (1-based surface, 0 = header) / msg (/ medium_case)."""
    out = []

    def bad(clause, j, msg, **kw):
        d = {"clause": clause, "j": j, "msg": msg}
        d.update(kw)
        out.append(d)
    if len(exp["surf"]) != len(obs["surf"]):
        bad("count", 0, "file has %d SURF blocks, lens has %d surfaces" % (len(exp["surf"]), len(obs["surf"])))
        return out
    for j, (e, o) in enumerate(zip(exp["surf"], obs["surf"]), 1):
        if not same(e["z"], o["z"]):
            bad("vertex", j, "vertex %r, file says %r" % (o["z"], e["z"]))
        if not same(e["R"], o["R"]):
            bad("radius", j, "radius %r, file says %r" % (o["R"], e["R"]))
        if not same(e["k"], o["k"]):
            bad("conic", j, "conic %r, file says %r" % (o["k"], e["k"]))
        if e["coef"] != o["coef"]:
            bad("coef", j, "coefficients %r, file says %r" % (o["coef"], e["coef"]))
        if e["stop"] != o["stop"]:
            bad("stop", j, "stop flag %r, file says %r" % (o["stop"], e["stop"]))
        mc = medium_case(e["med"], o["med"])
        if mc:
            bad("medium", j, "medium %r, file denotes %r" % (o["med"], e["med"]), medium_case=mc)
        if j > 1 and o["npre"] != obs["surf"][j - 2]["npost"]:
            bad("medium_chain", j, "medium in front differs from medium behind the previous surface")
    if exp["stop"] != obs["stop"]:
        bad("stop_index", exp["stop"], "stop surface %r, file says %r" % (obs["stop"], exp["stop"]))
    if exp["ap"] != obs["ap"]:
        bad("aperture", 0, "aperture %r, file says %r" % (obs["ap"], exp["ap"]))
    if exp["ftype"] != obs["ftype"]:
        bad("field_type", 0, "field type %r, file says %r" % (obs["ftype"], exp["ftype"]))
    if sorted(obs["fields"]) != exp["fields"]:
        bad("fields", 0, "fields %r, file says the set %r" % (obs["fields"], exp["fields"]))
    if exp["wl"] != obs["wl"]:
        bad("wavelengths", 0, "wavelengths %r, file says %r" % (obs["wl"], exp["wl"]))
    if exp["primary"] != obs["primary"]:
        bad("primary", 0, "primary %r, file says %r" % (obs["primary"], exp["primary"]))
    return out


def file_class(lines):
    """Input-class attributes read off the file itself."""
    blocks, cur = [], None
    for l in lines:
        if l["kw"] == "SURF":
            cur = []
            blocks.append(cur)
        elif cur is not None:
            cur.append(l)
    short = False
    for b in blocks:
        ty = [l["s"][0] for l in b if l["kw"] == "TYPE"]
        if ty and ty[-1] == "EVENASPH" and len({l["a"][0] for l in b if l["kw"] == "PARM"}) < 8:
            short = True
    return {"surfaces": len(blocks), "evenasph_with_fewer_than_8_parm_lines": short}


def where_of(j, n):
    return "header" if j == 0 else "object" if j == 1 else "image" if j == n else "interior"


# ---------------------------------------------------- reference via the API ----
def reference_material(med, obs_med=None):
    from optiland.materials import AbbeMaterial, MaterialFile
    if med["kind"] == "air":
        return "air"
    if med["kind"] == "model":
        return AbbeMaterial(med["nd"], med["vd"])
    v = obs_med["vendor"] if obs_med and obs_med.get("vendor") in med["from"] else med["from"][0]
    return MaterialFile(os.path.join(glass_dir(), v.lower(), med["name"] + ".yml"))


def build_reference(exp, obs=None):
    """The same numbers through the public API (Optic.add_surface ...)."""
    from optiland.optic import Optic
    o = Optic()
    sf = exp["surf"]
    for j, s in enumerate(sf):
        if j + 1 < len(sf):
            t = math.inf if (j == 0 and sf[0]["z"] == -math.inf) else \
                (-sf[0]["z"] if j == 0 else sf[j + 1]["z"] - s["z"])
        else:
            t = 0.0
        kw = dict(index=j, radius=s["R"], conic=s["k"], thickness=t, is_stop=s["stop"],
                  material=reference_material(s["med"], obs["surf"][j]["med"] if obs else None))
        if s["coef"]:
            kw["surface_type"] = "even_asphere"
            kw["coefficients"] = list(s["coef"])
        quiet(o.add_surface, **kw)
    o.set_aperture(exp["ap"][0], exp["ap"][1])
    o.set_field_type(exp["ftype"])
    for x, y in exp["fields"]:
        o.add_field(y=y, x=x)
    for i, w in enumerate(exp["wl"]):
        o.add_wavelength(w, is_primary=(i + 1 == exp["primary"]))
    return o


PARAX = ("f2", "FNO", "EPD", "EPL", "XPL")


def paraxial_values(optic):
    out = {}
    for name in PARAX:
        try:
            with np.errstate(all="ignore"):
                out[name] = P.f(getattr(optic.paraxial, name)())
        except Exception as ex:        # noqa: BLE001
            out[name] = "raises " + type(ex).__name__
    return out


# ------------------------------------------------ trace events (code -> spec) ----
def dyn(x):
    return dy(float(x))


def obs_to_dy(obs):
    def med(m):
        if m["kind"] == "model":
            return {"kind": "model", "nd": dyn(m["nd"]), "vd": dyn(m["vd"])}
        if m["kind"] == "cat":
            return {"kind": "cat", "name": m["name"], "vendor": m["vendor"]}
        return {"kind": m["kind"]}
    return {"surf": [{"z": dyn(s["z"]), "R": dyn(s["R"]), "k": dyn(s["k"]), "coef": [dyn(c) for c in s["coef"]],
                      "med": med(s["med"]), "stop": s["stop"],
                      "npre": [dyn(v) for v in s["npre"]], "npost": [dyn(v) for v in s["npost"]]}
                     for s in obs["surf"]],
            "stop": obs["stop"], "ap": [obs["ap"][0], dyn(obs["ap"][1])] if obs["ap"] else [],
            "ftype": obs["ftype"], "fields": [[dyn(x), dyn(y)] for x, y in obs["fields"]],
            "wl": [dyn(w) for w in obs["wl"]], "primary": obs["primary"]}


def reference_n(lines_float, obs):
    """Per surface: index values of the medium the file names, obtained from the
    material classes directly (MaterialFile on the catalogue file / AbbeMaterial with
    the written numbers) - a certificate next to the event; [] where not applicable."""
    from optiland.materials import AbbeMaterial, MaterialFile
    blocks, cur = [], None
    for l in lines_float:
        if l["kw"] == "SURF":
            cur = {}
            blocks.append(cur)
        elif cur is not None and l["kw"] == "GLAS":
            cur["glas"] = l
    ref = []
    for j, b in enumerate(blocks):
        r = []
        if j < len(obs["surf"]):
            o = obs["surf"][j]["med"]
            g = b.get("glas")
            try:
                if g is None:
                    r = [1.0, 1.0, 1.0]
                elif o["kind"] == "cat" and o.get("vendor") and catalogue_has(o["vendor"], g["s"][0]):
                    m = MaterialFile(os.path.join(glass_dir(), o["vendor"].lower(), g["s"][0] + ".yml"))
                    r = [P.n_at(m, w) for w in PROBE_WL]
                elif o["kind"] == "model" and g["a"]:
                    m = AbbeMaterial(g["a"][0], g["a"][1])
                    r = [P.n_at(m, w) for w in PROBE_WL]
            except Exception:          # noqa: BLE001
                r = []
        ref.append([dyn(v) for v in r])
    return ref


def make_event(eid, text, optic, exc):
    lines_f = tokenize(text, float)
    lines_d = tokenize(text, dyn)
    names = sorted({l["s"][0] for l in lines_f if l["kw"] == "GLAS"})
    cat = [[v, n] for n in names for v in vendors_of(n)]
    ev = {"id": eid, "lines": lines_d, "cat": cat, "exc": "" if exc is None else type(exc).__name__}
    if optic is not None:
        obs = observe(optic)
        ev["post"] = obs_to_dy(obs)
        ref = reference_n(lines_f, obs)
        ev["ref"] = ref + [[]] * (len(obs["surf"]) - len(ref))
        return ev, obs
    ev["post"] = {"surf": [], "stop": 0, "ap": [], "ftype": "", "fields": [], "wl": [], "primary": 0}
    ev["ref"] = []
    return ev, None


# ------------------------------------------------------ random texts (seeded) ----
GLASS_POOL = ["N-SF11", "N-SK16", "L-BAL35", "N-LAK9", "F2", "SF6", "QQGLASS1", "___BLANK", "XK7M"]
NOISE_POOL = ["UNIT MM X W X CM MR CPMM", "VERS 171115", "COMM STOP", "", "  DIAM 6.75 1 0 0 1 \"\"",
              "NOTE 0 Objectif \u00e0 4 \u00e9l\u00e9ments, \u03bb = 0.55 \u00b5m",
              "  MEMA 7.5 1 0 0 1 \"\"", "NAME MODE NSC", "ENVD 20 1 0", "  FIMP "]


def rnum(rnd, lo, hi):
    x = rnd.uniform(lo, hi)
    how = rnd.randrange(4)
    if how == 0:
        return repr(x)
    if how == 1:
        return "%.18E" % x
    if how == 2:
        return "%.*f" % (rnd.randrange(1, 9), x)
    return "%.*e" % (rnd.randrange(2, 12), x)


def random_text(rnd, plain_image=True):
    """A well-formed sequential file with arbitrary decimal literals."""
    n = rnd.choice([1, 2, 3, 3, 4, 5, 6, 8, 12, 20, 30])
    L = ["MODE SEQ"]

    def noise():
        if rnd.random() < 0.25:
            L.append(rnd.choice(NOISE_POOL))
    noise()
    ap = rnd.choice(["ENPD", "FNUM", "OBNA"])
    L.append("%s %s%s" % (ap, rnum(rnd, 0.05, 0.3) if ap == "OBNA" else rnum(rnd, 1, 30), "" if ap == "ENPD" else " 0"))
    noise()
    if rnd.random() < 0.7:
        L.append("GCAT " + " ".join(rnd.sample(["SCHOTT", "OHARA", "HIKARI", "CDGM", "HOYA"], rnd.randrange(1, 4))))
    nf, nw = rnd.randrange(1, 7), rnd.randrange(1, 13)
    L.append("FTYP %d 0 %d %d 0 0 0%s" % (rnd.randrange(2), nf, nw, rnd.choice(["", " 0"])))
    padf = rnd.choice([0, 0, 12 - nf])
    xs = [rnum(rnd, -5, 5) if rnd.random() < 0.3 else "0" for _ in range(nf)] + ["0"] * padf
    ys = [rnum(rnd, -20, 20) for _ in range(nf)] + ["0"] * padf
    if nf > 1 and rnd.random() < 0.3:          # a repeated field
        xs[1], ys[1] = xs[0], ys[0]
    L.append("XFLN " + " ".join(xs))
    L.append("YFLN " + " ".join(ys))
    noise()
    pw = "PWAV %d" % rnd.randrange(1, nw + 1)
    first = rnd.random() < 0.5
    if first:
        L.append(pw)
    for i in range(nw + rnd.choice([0, 0, 24 - nw])):
        L.append("WAVM %d %s 1" % (i + 1, rnum(rnd, 0.4, 0.7) if i < nw else "0.55"))
    if not first:
        L.append(pw)
    stop_at = rnd.randrange(1, n - 1) if n >= 3 else None
    for j in range(n):
        L.append("SURF %d" % j)
        last, obj = j == n - 1, j == 0
        bare = obj or (last and plain_image)
        if j == stop_at:
            L.append("  STOP")
        asph = (not bare) and rnd.random() < 0.3
        if asph or rnd.random() < 0.8:
            L.append("  TYPE " + ("EVENASPH" if asph else "STANDARD"))
        c = "0.0" if bare or rnd.random() < 0.2 else rnum(rnd, -0.2, 0.2)
        L.append("  CURV " + c + rnd.choice(["", " 0 0 0 0"]))
        if asph:
            for q in range(1, 9):
                L.append("  PARM %d %s" % (q, "0" if rnd.random() < 0.4 else rnum(rnd, -1e-3, 1e-3)))
        if obj:
            t = "INFINITY" if rnd.random() < 0.5 else rnum(rnd, 10, 1000)
        elif last and plain_image:
            t = "0"
        else:
            t = rnum(rnd, -2, 30)
        L.append("  DISZ " + t)
        if not bare and rnd.random() < 0.5:
            g = rnd.choice(GLASS_POOL)
            L.append("  GLAS %s %d 0 %s %s 0 0 0 0 0 0" % (g, 1 if g.startswith("_") else 0,
                                                            rnum(rnd, 1.45, 1.9), rnum(rnd, 20, 80)))
        if not bare and rnd.random() < 0.3:
            L.append("  CONI " + rnum(rnd, -3, 1))
        noise()
    return rnd.choice(["\n", "\r\n"]).join(L) + "\n"
