"""C02 - every traced ray obeys Snell/reflection law on the prescribed surface.

code -> spec: real traces (random lenses over every geometry kind, mirrors,
tilts/decentres, ideal and catalogue media; the 24 bundled samples; skew and
steep rays; every wavelength) are recorded as (ray, surface) events and judged
by spec/RayStep.tla through spec/Trace_RayStep.tla: on_surface, collinear,
opl, unit, snell/reflect, half_space, tir_reported_finite, sticky invalidity.
Calibration on every run: a hand-built rational witness must be accepted and
single-field corruptions of accepted events must be rejected with the expected
clause, otherwise the run is a machinery failure (exit 2), never a pass.
"""
import copy
import math
import os
import random
from concurrent.futures import ProcessPoolExecutor
from fractions import Fraction

import numpy as np

from harness import lensgen as G
from harness import rayrec as RR
from harness import tlc as T
from harness.dy import dy, undy

ALL_KINDS = ("standard", "standard", "even_asphere", "polynomial", "chebyshev")


def _rays(rnd, n, steep=False, stray=False):
    """n rays inside the pupil; with stray=True one more ray far outside it, which misses the
    first curved surface: the other rays of the bundle must be traced exactly as without it."""
    Hy = np.array([rnd.uniform(-1, 1) for _ in range(n)])
    rr = np.sqrt(np.array([rnd.random() for _ in range(n)])) * (1.0 if steep else 0.95)
    th = np.array([rnd.uniform(0, 2 * math.pi) for _ in range(n)])
    if stray:
        Hy = np.append(Hy, 0.0)
        rr = np.append(rr, rnd.choice([30.0, 300.0]))
        th = np.append(th, rnd.uniform(0, 2 * math.pi))
    return np.zeros(len(Hy)), Hy, rr * np.cos(th), rr * np.sin(th)


def trace_random_lens(args):
    """One random lens, a few rays per wavelength -> events + description."""
    seed, opts, nrays = args
    rnd = random.Random(seed)
    try:
        optic, meta = G.random_lens(rnd, **opts)
    except Exception as ex:
        return {"error": "build: %s: %s" % (type(ex).__name__, ex), "seed": seed, "events": []}
    events = []
    try:
        wls = list(optic.wavelengths.get_wavelengths())
        if seed % 3 == 2 and len(wls) > 1:
            # one bundle whose rays carry different wavelengths (RealRays.w is per ray): every ray is
            # refracted with the indices at its own wavelength
            n = nrays * len(wls)
            Hx, Hy, Px, Py = _rays(rnd, n)
            off = rnd.randrange(len(wls))
            warr = np.array([wls[(off + j) % len(wls)] for j in range(n)])
            G.quiet(optic.trace_generic, Hx, Hy, Px, Py, warr)
            for q, w in enumerate(wls):
                events += RR.record_events(optic, w, ray_base=len(events),
                                           pick=[j for j in range(n) if (off + j) % len(wls) == q])
            meta["polychromatic_bundle"] = True
            wls = []
        for w in wls:
            Hx, Hy, Px, Py = _rays(rnd, nrays, stray=(seed % 2 == 1))
            G.quiet(optic.trace_generic, Hx, Hy, Px, Py, w)
            # the stray ray is outside the pupil, hence outside the property's quantifier: it is the
            # environment of the other rays, not a judged ray
            events += RR.record_events(optic, w, ray_base=len(events), max_rays=nrays)
    except Exception as ex:
        return {"error": "trace: %s: %s" % (type(ex).__name__, ex), "seed": seed, "events": [], "meta": meta}
    return {"seed": seed, "meta": meta, "events": events, "dict": None}


def trace_tir_lens(args):
    """Directed family: a slab of dense glass whose exit face is tilted so far that part of the fan
    is beyond the critical angle there (no refracted direction: the ray must be reported as
    non-finite from that surface on), and a fast plano-convex lens at full aperture."""
    seed, nrays = args
    rnd = random.Random(seed)
    from optiland.optic import Optic
    from optiland.materials import IdealMaterial
    o = Optic()
    nn = rnd.choice([1.5, 1.8, 2.4])
    o.add_surface(index=0, thickness=math.inf)
    if seed % 2 == 0:
        crit = math.asin(1.0 / nn)
        o.add_surface(index=1, thickness=5.0, material=IdealMaterial(n=nn, k=0), is_stop=True)
        o.add_surface(index=2, thickness=20.0, rx=rnd.choice([-1, 1]) * rnd.uniform(0.8, 1.1) * crit)
        o.add_surface(index=3)
        epd, mf = 2.0, 25.0
        kinds = ["standard", "standard"]
    else:
        R = 10.0
        o.add_surface(index=1, thickness=R * 0.95, material=IdealMaterial(n=nn, k=0), is_stop=True)
        o.add_surface(index=2, radius=-R, thickness=15.0)
        o.add_surface(index=3)
        epd, mf = 2.0 * R * rnd.uniform(0.9, 0.99), 3.0
        kinds = ["standard", "standard"]
    o.set_aperture("EPD", epd)
    o.set_field_type("angle")
    o.add_field(y=0.0)
    o.add_field(y=mf)
    o.add_wavelength(0.55, is_primary=True)
    meta = {"nsurf": 2, "finite_object": False, "stop": 1, "kinds": kinds, "mirror": False, "tilted": seed % 2 == 0,
            "epd": epd, "field_type": "angle", "max_field": mf, "family": "total_internal_reflection"}
    events = []
    try:
        Hx, Hy, Px, Py = _rays(rnd, nrays, steep=True)
        G.quiet(o.trace_generic, Hx, Hy, Px, Py, 0.55)
        events += RR.record_events(o, 0.55, ray_base=0)
    except Exception as ex:
        return {"error": "trace: %s: %s" % (type(ex).__name__, ex), "seed": seed, "events": [], "meta": meta}
    return {"seed": seed, "meta": meta, "events": events, "dict": None}


def trace_sample(args):
    name, nrays, seed = args
    rnd = random.Random(seed)
    cls = {c.__name__: c for c in G.sample_classes()}[name]
    try:
        optic = G.quiet(cls)
    except Exception as ex:
        return {"error": "build sample %s: %s: %s" % (name, type(ex).__name__, ex), "events": [], "sample": name}
    events = []
    try:
        for w in optic.wavelengths.get_wavelengths():
            Hx, Hy, Px, Py = _rays(rnd, nrays)
            G.quiet(optic.trace_generic, Hx, Hy, Px, Py, w)
            events += RR.record_events(optic, w, ray_base=len(events))
    except Exception as ex:
        return {"error": "trace sample %s: %s: %s" % (name, type(ex).__name__, ex), "events": [], "sample": name}
    return {"sample": name, "events": events}


def witness_events():
    """3-4-5 ray refracted at a plane with n2/n1 = 39/25 -> (0, 5/13, 12/13):
    every number is the float nearest to the exact rational."""
    F = Fraction
    fl = lambda q: dy(float(q))
    base = {"ray": 0, "k": 1, "first": True,
            "p0": [fl(0), fl(0), fl(0)], "d0": [fl(0), fl(F(3, 5)), fl(F(4, 5))], "o0": fl(0), "i0": fl(1),
            "p": [fl(0), fl(6), fl(8)], "d": [fl(0), fl(F(5, 13)), fl(F(12, 13))], "o": fl(10), "i": fl(1),
            "v": [fl(0), fl(0), fl(8)], "rot": [fl(1), fl(0), fl(1), fl(0)], "R": dy(float("inf")), "kk": fl(0),
            "terms": [], "tol": fl(0), "shape": "plane", "n1": fl(1), "n2": fl(F(39, 25)), "refl": False,
            "ap": [False, fl(0), fl(0)], "exact": True, "tau": fl(1), "ab": fl(1), "kz": True}
    # sphere R = 5 met at (0, 4, 2) by an axis-parallel ray, mirror: d = (0, 24/25, 7/25)
    mir = copy.deepcopy(base)
    mir.update({"p0": [fl(0), fl(4), fl(-3)], "d0": [fl(0), fl(0), fl(1)], "p": [fl(0), fl(4), fl(2)],
                "d": [fl(0), fl(F(24, 25)), fl(F(7, 25))], "o": fl(5), "v": [fl(0), fl(0), fl(0)],
                "R": fl(5), "shape": "conic", "refl": True, "n2": fl(1)})
    return [base, mir]


def corrupt(e):
    """Single-field corruptions of an accepted event -> (event, clause that must fire)."""
    out = []

    def mod(path, fn, clause):
        c = copy.deepcopy(e)
        ref = c
        for k in path[:-1]:
            ref = ref[k]
        ref[path[-1]] = fn(ref[path[-1]])
        out.append((c, clause))
    scale = lambda f: (lambda d: dy(float(undy(d)) * f))
    add = lambda a: (lambda d: dy(float(undy(d)) + a))
    mod(["n1"], scale(1.01), ["snell", "opl"] if not e["refl"] else ["opl"])
    mod(["d", 1], lambda d: dy(-float(undy(d))), ["reflect" if e["refl"] else "snell"])
    mod(["p", 2], add(1e-4), ["on_surface", "collinear", "opl"])
    mod(["o"], scale(1.0001), ["opl"])
    mod(["d", 2], scale(1.001), ["unit"])
    mod(["p", 0], add(1e-3), ["collinear", "on_surface", "opl"])
    return out


def main(ctx):
    quick = ctx.tier == "quick"
    nlens = 60 if quick else 500
    nrays = 4 if quick else 6
    tasks = []
    for i in range(nlens):
        opts = dict(kinds=ALL_KINDS, mirrors=(i % 3 == 0), tilts=(i % 2 == 0), catalogue=(i % 4 == 1))
        tasks.append((ctx.seed * 7919 + i, opts, nrays))
    samples = [c.__name__ for c in G.sample_classes()]
    stasks = [(s, 3 if quick else 10, ctx.seed + j) for j, s in enumerate(samples)]
    results = []
    with ProcessPoolExecutor(max_workers=16) as ex:
        results += list(ex.map(trace_random_lens, tasks, chunksize=4))
        results += list(ex.map(trace_tir_lens, [(ctx.seed * 31 + 900000 + i, 8) for i in range(6 if quick else 40)]))
        sres = list(ex.map(trace_sample, stasks))
    events = []
    owner = {}
    nerr = 0
    for r in results + sres:
        if r.get("error") and "Chebyshev input coordinates must be normalized" in r["error"]:
            nerr += 1       # documented precondition of the Chebyshev shape, not a property violation
            ctx.skip("ray left the Chebyshev normalisation square (documented ValueError)")
            continue
        if r.get("error"):
            nerr += 1
            # a lens the generator built from valid arguments that cannot be built/traced
            ctx.report("raises", {"stage": r["error"].split(":")[0].split(" ")[0],
                                  "sample": r.get("sample", "")}, r["error"],
                       {"seed": r.get("seed"), "sample": r.get("sample")})
            continue
        base = len(events)
        for e in r["events"]:
            e["id"] = len(events)
            e["ray"] = e["ray"] + base * 1000
            owner[e["id"]] = r.get("sample") or ("seed %d %s" % (r["seed"], r["meta"]))
            events.append(e)
    ctx.extra["lenses"] = len(results) - nerr
    ctx.extra["samples_traced"] = len([r for r in sres if not r.get("error")])
    verdicts = ctx.validate("Trace_RayStep", events, shards=16, env={"RAYSTEP_MODE": "ray"},
                            count_traces=len(results) + len(sres) - nerr, group="ray")
    nvalid = 0
    kinds = {}
    for e in events:
        fin = all(c["k"] == "fin" for c in e["p"] + e["d"])
        nvalid += fin
        key = e["shape"] + ("/mirror" if e["refl"] else "") + ("/tilt" if e["rot"][1]["s"] != 0 or e["rot"][3]["s"] != 0 else "")
        kinds[key] = kinds.get(key, 0) + 1
        for clause in verdicts[e["id"]]:
            if clause.startswith("~"):      # a note of the spec, not a failing clause
                ctx.skip(clause[1:] + " (near-sheet intersection behind the ray; not a valid sequential step)")
                continue
            cheb = any(t["t"] == "ch" and (t["sx"] != 0 or t["sy"] != 0) for t in e["terms"])
            cls = {"shape": e["shape"], "refl": e["refl"], "chebyshev_normalised": cheb}
            if e["shape"] == "conic" and all(c["k"] == "fin" for c in e["d0"]):
                # quadratic coefficient of the closed-form intersection, a = L^2 + M^2 + (1+k) N^2:
                # when it is tiny (ray nearly parallel to the axis of a near-paraboloid) the library's
                # (-b +- sqrt(d)) / 2a loses about |b| / |a| ulps
                L0, M0, N0 = (float(undy(c)) for c in e["d0"])
                a = L0 * L0 + M0 * M0 + (1.0 + float(undy(e["kk"]))) * N0 * N0
                cls["quadratic_coefficient_below_2^-8"] = abs(a) < 2.0 ** -8
            ctx.report(clause, cls,
                       "surface %d of %s: clause %s fails" % (e["k"], owner[e["id"]], clause),
                       {"lens": owner[e["id"]], "event": {k: e[k] for k in ("k", "p0", "d0", "p", "d", "o0", "o", "n1", "n2", "R", "kk", "shape")}})
    ctx.extra["events"] = len(events)
    ctx.extra["events_all_finite"] = nvalid
    ctx.extra["events_by_surface_class"] = kinds
    if events:
        e = events[len(events) // 2]
        ctx.sample({"surface": e["k"], "shape": e["shape"], "p": [float(undy(x)) if x["k"] == "fin" else x["k"] for x in e["p"]],
                    "d": [float(undy(x)) if x["k"] == "fin" else x["k"] for x in e["d"]], "lens": owner[e["id"]]})
    # ---- calibration: witnesses accepted, corruptions rejected ----------
    wit = witness_events()
    good = [e for e in events if not verdicts[e["id"]] and all(c["k"] == "fin" for c in e["p"] + e["d"])
            and abs(float(undy(e["d0"][1]))) > 0.02 and e["n1"] != e["n2"] or e["refl"] and not verdicts[e["id"]]
            and all(c["k"] == "fin" for c in e["p"] + e["d"])]
    rnd = random.Random(ctx.seed)
    picked = rnd.sample(good, min(len(good), 12 if quick else 60))
    cal = []
    expect = {}
    for w in wit:
        w = copy.deepcopy(w)
        w["id"] = len(cal)
        w["first"] = True
        expect[w["id"]] = None
        cal.append(w)
    for e in picked + wit:
        for c, clauses in corrupt(e):
            c["id"] = len(cal)
            c["first"] = True
            expect[c["id"]] = clauses
            cal.append(c)
    cv = ctx.validate("Trace_RayStep", cal, shards=8, env={"RAYSTEP_MODE": "ray"}, count_traces=0)
    missed = []
    for cid, clauses in expect.items():
        got = cv[cid]
        if clauses is None:
            if got:
                raise T.MachineryError("rational witness rejected: %s" % got)
        elif not (set(got) & set(clauses)):
            missed.append((cid, clauses, got))
    ctx.extra["calibration"] = {"witnesses": len(wit), "corruptions": len(cal) - len(wit), "missed": len(missed)}
    if missed:
        raise T.MachineryError("corrupted events not rejected (spec too permissive): %s" % missed[:3])
    ctx.assumptions += [
        "cos/sin certificates of tilt angles are computed with libm and validated by c^2+s^2=1",
        "indices are read from the surfaces' media (their correctness is C18's business)",
        "tolerance 2^-26 relative to the term scale of each polynomial identity; iterative surfaces additionally within their own tol",
    ]
