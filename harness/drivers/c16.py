"""C16 - ray intensity is never created and is removed exactly as specified.

code -> spec: real traces through random lenses with radial apertures (with and
without central obscuration), absorbing ideal media, simple coatings (T, R in
[0,1]) and mirrors are recorded as (ray, surface) events; TLC evaluates the
intensity machine of spec/RayStep.tla (JudgeIntensity) on every event: range
[0,1], monotone, dark stays dark, outside the aperture => 0, the absorption
certificate, exact factor i = i0 * a * tau inside the aperture, and the
intensity returned by the trace call equals the image-surface record.
A per-ray machine (Trace_RayStep) chains the events of one ray.
"""
import copy
import math
import random
from concurrent.futures import ProcessPoolExecutor

import numpy as np

from harness import lensgen as G
from harness import rayrec as RR
from harness import tlc as T
from harness.dy import dy, undy


def trace_lens(args):
    seed, nrays, polarized = args
    rnd = random.Random(seed)
    try:
        optic, meta = G.random_lens(rnd, kinds=("standard", "standard", "even_asphere"), mirrors=True,
                                    tilts=rnd.random() < 0.3, apertures=True, coatings=True, absorbing=True)
    except Exception as ex:
        return {"error": "build: %s: %s" % (type(ex).__name__, ex), "seed": seed, "events": []}
    if polarized:
        from optiland.rays import PolarizationState
        from optiland.coatings import SimpleCoating
        # the coatings of a polarized lens all pass some light (the random lenses often carry an opaque
        # one somewhere): live rays then go through every coating of the polarized trace
        for s in optic.surface_group.surfaces[1:-1]:
            c = getattr(s, "coating", None)
            if isinstance(c, SimpleCoating):
                t = rnd.uniform(0.3, 0.95)
                s.coating = SimpleCoating(transmittance=t, reflectance=(1.0 - t) * rnd.choice([1.0, rnd.uniform(0.3, 1.0)]))
        if seed % 2:
            optic.set_polarization(PolarizationState(is_polarized=True, Ex=1.0, Ey=0.0, phase_x=0.0, phase_y=0.0))
        else:
            optic.set_polarization(PolarizationState(is_polarized=False))
    events = []
    try:
        wl2 = optic.wavelengths.get_wavelengths()[:2]
        if not polarized and seed % 3 == 1 and len(wl2) == 2:
            # one bundle whose rays carry two different wavelengths (RealRays.w is per ray): each
            # ray is attenuated with its own wavelength
            n = nrays + nrays % 2
            Hy = np.array([rnd.uniform(-1, 1) for _ in range(n)])
            rr = np.sqrt(np.array([rnd.random() for _ in range(n)]))
            th = np.array([rnd.uniform(0, 2 * math.pi) for _ in range(n)])
            first = rnd.randrange(2)
            warr = np.array([wl2[(first + j) % 2] for j in range(n)])
            rays = G.quiet(optic.trace_generic, np.zeros(n), Hy, rr * np.cos(th), rr * np.sin(th), warr)
            for q in (0, 1):
                events += RR.record_events(optic, wl2[(first + q) % 2], ray_base=len(events), returned=rays,
                                           pick=list(range(q, n, 2)))
            meta["polychromatic_bundle"] = True
            wl2 = []
        for w in wl2:
            n = nrays
            Hy = np.array([rnd.uniform(-1, 1) for _ in range(n)])
            rr = np.sqrt(np.array([rnd.random() for _ in range(n)]))
            th = np.array([rnd.uniform(0, 2 * math.pi) for _ in range(n)])
            if polarized or seed % 3 == 0:      # the distribution-based entry point
                rays = G.quiet(optic.trace, 0.0, float(Hy[0]), w, 2, "hexapolar")
            else:
                rays = G.quiet(optic.trace_generic, np.zeros(n), Hy, rr * np.cos(th), rr * np.sin(th), w)
            events += RR.record_events(optic, w, ray_base=len(events), polarized=polarized, returned=rays)
            if polarized:
                # a paraxial bundle of the axial field as well: rays that survive every aperture, so that
                # the coatings and media of a polarized trace are seen by live rays
                m = 4
                rr = 0.3 * np.sqrt(np.array([rnd.random() for _ in range(m)]))
                th = np.array([rnd.uniform(0, 2 * math.pi) for _ in range(m)])
                rays = G.quiet(optic.trace_generic, np.zeros(m), np.zeros(m), rr * np.cos(th), rr * np.sin(th), w)
                events += RR.record_events(optic, w, ray_base=len(events), polarized=polarized, returned=rays)
    except Exception as ex:
        return {"error": "trace: %s: %s" % (type(ex).__name__, ex), "seed": seed, "events": [], "meta": meta}
    meta["polarized"] = polarized
    return {"seed": seed, "meta": meta, "events": events}


def corrupt(e):
    out = []
    c = copy.deepcopy(e)
    i0 = float(undy(e["i0"]))
    c["i"] = dy(i0 * 1.5 + 0.1) if i0 <= 0.5 else dy(i0 * 0.37)
    out.append((c, ["increased", "factor", "range"]))
    if float(undy(e["i"])) > 0:
        c = copy.deepcopy(e)
        c["ap"] = [True, dy(1e9), dy(2e9)]           # ray now falls inside the obscuration of a huge annulus
        out.append((c, ["aperture_not_applied"]))
        c = copy.deepcopy(e)
        c["tau"] = dy(float(undy(e["tau"])) * 0.5 + 0.01)
        out.append((c, ["factor"]))
    c = copy.deepcopy(e)
    c["last"] = True
    c["ri"] = dy(float(undy(e["i"])) * 0.9 + 0.05)
    out.append((c, ["returned_intensity"]))
    return out


def main(ctx):
    quick = ctx.tier == "quick"
    nlens = 70 if quick else 1500
    tasks = [(ctx.seed * 104729 + i, 5 if quick else 10, i % 7 == 6 or i % 5 == 2) for i in range(nlens)]
    with ProcessPoolExecutor(max_workers=16) as ex:
        results = list(ex.map(trace_lens, tasks, chunksize=4))
    events, owner = [], {}
    nok = 0
    for r in results:
        if r.get("error"):
            ctx.report("raises", {"stage": r["error"].split(":")[0]}, r["error"], {"seed": r.get("seed")})
            continue
        nok += 1
        base = len(events)
        for e in r["events"]:
            e["id"] = len(events)
            e["ray"] = e["ray"] + base * 1000
            owner[e["id"]] = r
            events.append(e)
    verdicts = ctx.validate("Trace_RayStep", events, shards=16, env={"RAYSTEP_MODE": "intensity"},
                            count_traces=nok, group="ray")
    stats = {"clipped": 0, "attenuated": 0, "coated": 0, "dark_in": 0, "polarized": 0, "polarized_live_coated": 0}
    for e in events:
        i0, i = undy(e["i0"]), undy(e["i"])
        if e["ap"][0] and i == 0 and i0 != 0:
            stats["clipped"] += 1
        if not e["kz"]:
            stats["attenuated"] += 1
        if e["tau"] != RR.ONE:
            stats["coated"] += 1
        if i0 == 0:
            stats["dark_in"] += 1
        pol = owner[e["id"]]["meta"]["polarized"]
        stats["polarized"] += pol
        if pol and e["tau"] != RR.ONE and i == i and i > 0:
            stats["polarized_live_coated"] += 1
        for clause in verdicts[e["id"]]:
            ctx.report(clause, {"polarized": pol, "has_aperture": e["ap"][0], "absorbing": not e["kz"]},
                       "surface %d, lens seed %d (%s): clause %s fails (i0=%r, i=%r, returned=%r)"
                       % (e["k"], owner[e["id"]]["seed"], owner[e["id"]]["meta"], clause, float(i0) if i0 == i0 else None,
                          float(i) if i == i else None, float(undy(e["ri"]))),
                       {"seed": owner[e["id"]]["seed"], "surface": e["k"], "polarized": pol})
    ctx.extra["events"] = len(events)
    ctx.extra["event_classes"] = stats
    ctx.extra["lenses"] = nok
    if stats["polarized_live_coated"] == 0:
        raise T.MachineryError("no live ray of a polarized trace met a simple coating: the polarized entry point was not exercised")
    if events:
        e = events[len(events) // 3]
        ctx.sample({"surface": e["k"], "i0": float(undy(e["i0"])), "i": float(undy(e["i"])), "tau": float(undy(e["tau"])),
                    "absorb": float(undy(e["ab"])), "aperture": [e["ap"][0], float(undy(e["ap"][1])), float(undy(e["ap"][2]))]})
    # ---- calibration -------------------------------------------------------
    good = [e for e in events if not verdicts[e["id"]] and e["exact"] and float(undy(e["i"])) > 0
            and all(c["k"] == "fin" for c in e["p"] + e["d"])]
    rnd = random.Random(ctx.seed)
    cal, expect = [], {}
    for e in rnd.sample(good, min(len(good), 15 if quick else 80)):
        for c, clauses in corrupt(e):
            c["id"] = len(cal)
            c["first"] = True
            expect[c["id"]] = clauses
            cal.append(c)
    cv = ctx.validate("Trace_RayStep", cal, shards=8, env={"RAYSTEP_MODE": "intensity"}, count_traces=0)
    missed = [(cid, cl, cv[cid]) for cid, cl in expect.items() if not (set(cv[cid]) & set(cl))]
    ctx.extra["calibration"] = {"corruptions": len(cal), "missed": len(missed)}
    if missed or not cal:
        raise T.MachineryError("calibration failed: %s" % missed[:3])
    ctx.assumptions += [
        "absorption certificate exp(-4 pi k d / lambda) computed with libm from the recorded segment length; validated 0 < a <= 1 and a = 1 iff k = 0",
        "rays within 2^-30 (relative, in r^2) of an aperture edge are not judged on the aperture clause",
    ]
