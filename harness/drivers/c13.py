"""C13 - tracing and analysis are repeatable and free of side effects.

1. TLC model-checks spec/Session.tla: with a library that is a function of
   (prescription, call), no history of queries and edits violates `Clean`
   (repeatable / frame / args_unchanged) and results stay `Functional`; three
   hazard variants (a query reading the stale per-surface record, a query that
   edits the lens, a call that mutates its arguments) are shown to violate it -
   negative configs the driver expects to fail.
2. code -> spec: random interleavings of trace, trace_generic (scalar and array
   arguments), paraxial and aberration queries, wavefront / PSF / MTF and the
   analysis classes on sample and random lenses (with vignetting factors,
   coatings, polarization), with edits that leave and return to a
   prescription, are recorded as token events and validated by
   spec/Trace_Session.tla (memo machine).  Sub-batch events compare one ray
   traced alone and inside a batch, in exact dyadic arithmetic.
"""
import hashlib
import json
import math
import os
import random
from concurrent.futures import ProcessPoolExecutor

import numpy as np

from harness import lensgen as G
from harness import tlc as T
from harness.dy import dy

HAZARDS = ["stale_record", "query_edits", "arg_mutation"]


def _bytes(obj, out):
    if isinstance(obj, np.ndarray):
        out.append(("nd%s%s" % (obj.dtype.str, obj.shape)).encode())
        out.append(np.ascontiguousarray(obj).tobytes())
    elif isinstance(obj, (list, tuple)):
        out.append(b"[%d" % len(obj))
        for x in obj:
            _bytes(x, out)
    elif isinstance(obj, dict):
        for k in sorted(obj, key=str):
            out.append(str(k).encode())
            _bytes(obj[k], out)
    elif isinstance(obj, (float, np.floating)):
        out.append(np.float64(obj).tobytes())
    elif isinstance(obj, (int, np.integer, bool, str, type(None))):
        out.append(repr(obj).encode())
    elif isinstance(obj, complex):
        out.append(np.complex128(obj).tobytes())
    else:
        out.append(repr(type(obj)).encode())


def digest(obj):
    out = []
    _bytes(obj, out)
    return hashlib.sha256(b"|".join(out)).hexdigest()


class Interner:
    def __init__(self):
        self.ids = {}

    def __call__(self, h):
        if h not in self.ids:
            self.ids[h] = len(self.ids) + 1
        return self.ids[h]


def presc_digest(o):
    def default(x):
        if isinstance(x, np.ndarray):
            return x.tolist()
        if isinstance(x, (np.floating, np.integer)):
            return x.item()
        d = getattr(x, "__dict__", None)
        return {"__obj__": type(x).__name__, "state": {k: v for k, v in d.items()} if d else None}
    d = o.to_dict()
    return hashlib.sha256(json.dumps(d, sort_keys=True, default=default).encode()).hexdigest()


def ray_state(o, rays=None):
    sg = o.surface_group
    out = [sg.x, sg.y, sg.z, sg.L, sg.M, sg.N, sg.opd, sg.intensity]
    if rays is not None:
        out += [rays.x, rays.y, rays.z, rays.L, rays.M, rays.N, rays.opd, rays.i]
    return out


def make_queries(o, rnd, heavy):
    """List of (key, fn, args) - fn returns the object to digest; args = caller-owned arrays."""
    from optiland.analysis import SpotDiagram, RayFan, Distortion, FieldCurvature, GridDistortion
    from optiland.wavefront import Wavefront, OPD
    from optiland.psf import FFTPSF
    from optiland.mtf import FFTMTF, GeometricMTF
    ws = o.wavelengths.get_wavelengths()
    w = ws[rnd.randrange(len(ws))]
    Hy = rnd.choice([0.0, 0.7, 1.0, -1.0])
    q = []
    for dist, n in (("hexapolar", 3), ("uniform", 5), ("line_y", 7), ("cross", 5), ("ring", 6)):
        q.append(("trace(0,%r,%r,%d,%s)" % (Hy, w, n, dist),
                  (lambda Hy=Hy, w=w, n=n, dist=dist: ray_state(o, o.trace(0.0, Hy, w, n, dist))), []))
    q.append(("trace_generic(scalar %r,%r)" % (Hy, w),
              (lambda Hy=Hy, w=w: ray_state(o, o.trace_generic(0.0, Hy, 0.3, -0.4, w))), []))
    n = 5
    arrs = [np.zeros(n), np.full(n, Hy), np.linspace(-0.8, 0.8, n), np.linspace(0.6, -0.6, n)]
    q.append(("trace_generic(arrays %r,%r)" % (Hy, w),
              (lambda w=w, a=arrs: ray_state(o, o.trace_generic(a[0], a[1], a[2], a[3], w))), arrs))
    arrs2 = [np.zeros(3), np.array([1.0, 1.0, 1.0]), np.array([0.0, 0.5, -0.5]), np.array([1.0, 0.5, 0.0])]
    q.append(("trace_generic(arrays full field,%r)" % (w,),
              (lambda w=w, a=arrs2: ray_state(o, o.trace_generic(a[0], a[1], a[2], a[3], w))), arrs2))
    # a caller-owned Distribution object (the analyses reuse one object across fields): its point
    # arrays are arguments like any other
    from optiland.distribution import create_distribution
    dist = create_distribution("hexapolar")
    dist.generate_points(3)
    q.append(("trace(0,%r,%r,distribution object)" % (Hy, w),
              (lambda Hy=Hy, w=w, d=dist: ray_state(o, o.trace(0.0, Hy, w, 3, d))), [dist.x, dist.y]))
    for name in ("f1", "f2", "F1", "F2", "P1", "P2", "N1", "N2", "EPL", "EPD", "XPL", "XPD", "FNO", "magnification",
                 "invariant", "marginal_ray", "chief_ray"):
        q.append(("paraxial.%s" % name, (lambda name=name: getattr(o.paraxial, name)()), []))
    q.append(("aberrations.seidels", lambda: o.aberrations.seidels(), []))
    q.append(("aberrations.third_order", lambda: o.aberrations.third_order(), []))
    q.append(("Wavefront", lambda: Wavefront(o, num_rays=4).data, []))
    q.append(("OPD.rms", (lambda w=w: OPD(o, (0, Hy if abs(Hy) <= 1 else 1.0), w, num_rings=4).rms()), []))
    q.append(("SpotDiagram", lambda: [SpotDiagram(o, num_rings=3).data, SpotDiagram(o, num_rings=3).centroid(),
                                      SpotDiagram(o, num_rings=3).rms_spot_radius()], []))
    # analysis objects that live through the session: every accessor is a pure query of the object -
    # asking for one result must not change what the others (or the same one) return later
    sd = SpotDiagram(o, num_rings=3)
    q.append(("SpotDiagram object .centroid()", lambda: sd.centroid(), []))
    q.append(("SpotDiagram object .rms_spot_radius()", lambda: sd.rms_spot_radius(), []))
    q.append(("SpotDiagram object .geometric_spot_radius()", lambda: sd.geometric_spot_radius(), []))
    q.append(("SpotDiagram object .data", lambda: sd.data, []))
    wfo = Wavefront(o, num_rays=4)
    q.append(("Wavefront object .data", lambda: wfo.data, []))
    q.append(("RayFan", lambda: RayFan(o, num_points=16).data, []))
    q.append(("Distortion", lambda: Distortion(o, num_points=16).data, []))
    q.append(("FieldCurvature", lambda: FieldCurvature(o, num_points=8).data, []))
    if heavy:
        q.append(("GridDistortion", lambda: GridDistortion(o, num_points=5).data, []))
        q.append(("FFTPSF", (lambda w=w: [FFTPSF(o, (0, 0), w, num_rays=32, grid_size=64).psf,
                                          FFTPSF(o, (0, 0), w, num_rays=32, grid_size=64).strehl_ratio()]), []))
        q.append(("FFTMTF", lambda: FFTMTF(o, num_rays=32, grid_size=64).mtf, []))
        q.append(("GeometricMTF", lambda: GeometricMTF(o, num_rays=40, distribution="uniform", num_points=32).mtf, []))
    return q


def build_lens(rnd, which, unsorted=False):
    from optiland.coatings import SimpleCoating
    from optiland.rays import PolarizationState
    if which == 7 and rnd.random() < 0.5:
        # a strongly aspheric singlet with the stop on the asphere (coefficients of either sign): the
        # iterative intersection needs several steps for oblique rays, and the chief / axial ray
        # lands on the vertex, where it needs none
        from optiland.optic import Optic
        from optiland.materials import IdealMaterial
        sgn = rnd.choice([1.0, -1.0])
        o = Optic()
        o.add_surface(index=0, thickness=math.inf)
        o.add_surface(index=1, radius=rnd.choice([20.0, 30.0]), thickness=7.0, is_stop=True, surface_type="even_asphere",
                      conic=0.0, material=IdealMaterial(n=rnd.uniform(1.5, 1.7)),
                      coefficients=[sgn * rnd.uniform(1.5e-4, 3e-4), sgn * rnd.uniform(2e-6, 6e-6)])
        o.add_surface(index=2, thickness=rnd.uniform(18.0, 25.0))
        o.add_surface(index=3)
        o.set_aperture("EPD", 10.0)
        o.set_field_type("angle")
        o.add_field(y=0.0)
        o.add_field(y=10.0)
        o.add_wavelength(0.55, is_primary=True)
        meta = {"lens": "strong asphere on the stop (sign %+d)" % sgn, "iterative": True}
    elif which == 8:
        # Newtonian paraboloid (conic exactly -1): axial rays make the quadratic term of the
        # intersection equation vanish - a separate branch of the closed-form solver
        from optiland.optic import Optic
        o = Optic()
        o.add_surface(index=0, thickness=math.inf)
        o.add_surface(index=1, radius=-rnd.choice([500.0, 2000.0]), conic=-1.0, material="mirror", is_stop=True,
                      thickness=-rnd.choice([250.0, 1000.0]))
        o.add_surface(index=2)
        o.set_aperture("EPD", rnd.choice([50.0, 200.0]))
        o.set_field_type("angle")
        o.add_field(y=0.0)
        o.add_field(y=1.0)
        o.add_wavelength(0.55, is_primary=True)
        meta = {"lens": "paraboloid mirror", "iterative": False}
    elif which < 6:
        names = ["CookeTriplet", "DoubleGauss", "AsphericSinglet", "Edmund_49_847", "HubbleTelescope", "TessarLens"]
        cls = {c.__name__: c for c in G.sample_classes()}[names[which]]
        o = G.quiet(cls)
        meta = {"lens": names[which], "iterative": names[which] == "AsphericSinglet"}
    else:
        o, m = G.random_lens(rnd, kinds=("standard", "standard", "even_asphere"), mirrors=rnd.random() < 0.3,
                             coatings=rnd.random() < 0.5, apertures=rnd.random() < 0.5)
        meta = {"lens": "random %s" % m["kinds"], "iterative": "even_asphere" in m["kinds"]}
    if (rnd.random() < 0.5) or unsorted:      # vignetting factors on a new outer field
        mf = o.fields.max_y_field
        # half of them inside the existing fields: the field list is then not in ascending order
        # (`unsorted`: one session in five, whatever the draws)
        fy = rnd.choice([1.0, 1.0, 0.5, 0.85])
        if unsorted and fy == 1.0:
            fy = 0.5
        o.add_field(y=mf * fy if mf else fy, vx=rnd.uniform(0.05, 0.3), vy=rnd.uniform(0.05, 0.3))
        meta["vignetting"] = True
        meta["fields_unsorted"] = fy < 1.0
    pol = rnd.random()
    if pol < 0.2:
        o.set_polarization(PolarizationState(is_polarized=True, Ex=1.0, Ey=rnd.random(), phase_x=0.0, phase_y=rnd.uniform(0, 3)))
        meta["polarization"] = "polarized"
        if rnd.random() < 0.6:
            o.surface_group.set_fresnel_coatings()
            meta["fresnel"] = True
    elif pol < 0.3:
        o.set_polarization(PolarizationState(is_polarized=False))
        meta["polarization"] = "unpolarized"
        if rnd.random() < 0.6:
            o.surface_group.set_fresnel_coatings()
            meta["fresnel"] = True
    return o, meta


def session(args):
    return G.quiet(_session, args)


def _session(args):
    tid, seed, length, heavy = args
    rnd = random.Random(seed)
    try:
        o, meta = build_lens(rnd, tid % 9, unsorted=tid % 5 == 2)
    except Exception as ex:
        return {"tid": tid, "skip": "build: %s" % type(ex).__name__}
    events = [{"op": "new"}]
    # make_queries constructs the session-long analysis objects, which trace the lens: that
    # construction is itself a query (frame clause), not something that happens before observation starts
    p_before = presc_digest(o)
    queries = make_queries(o, rnd, heavy)
    events.append({"op": "query", "key": "construct session-long SpotDiagram and Wavefront objects", "exc": "",
                   "p0": p_before, "a0": digest([]), "res": digest("constructed"), "a1": digest([]),
                   "p1": presc_digest(o)})
    edits = []      # stack of (surface, old_radius)
    log = []
    for step in range(length):
        c = rnd.random()
        if c < 0.12 and o.surface_group.num_surfaces > 3:
            # an edit: change a radius, or undo the last change (returning to an earlier prescription)
            p0 = presc_digest(o)
            if edits and rnd.random() < 0.6:
                k, old = edits.pop()
                o.set_radius(old, k)
                log.append("set_radius(undo,%d)" % k)
            else:
                k = rnd.randint(1, o.surface_group.num_surfaces - 2)
                old = float(np.ravel(o.surface_group.radii[k])[0])
                if math.isinf(old):
                    continue
                edits.append((k, old))
                o.set_radius(old * rnd.choice([1.01, 0.97]), k)
                log.append("set_radius(%d)" % k)
            events.append({"op": "edit", "p0": p0, "p1": presc_digest(o)})
            continue
        key, fn, arrs = queries[rnd.randrange(len(queries))]
        # repeat a previous query often, so that memo hits are frequent
        if log and rnd.random() < 0.35:
            prev = [x for x in log if not x.startswith("set_radius")]
            if prev:
                key = rnd.choice(prev)
                key, fn, arrs = [qq for qq in queries if qq[0] == key][0]
        ev = {"op": "query", "key": key, "exc": ""}
        try:
            ev["p0"] = presc_digest(o)
            ev["a0"] = digest(arrs)
            res = fn()
            ev["res"] = digest(res)
            ev["a1"] = digest(arrs)
            ev["p1"] = presc_digest(o)
        except Exception as ex:
            # an exception is an outcome like any other: same call, same lens => same exception type;
            # the frame and argument clauses still apply
            ev["exc"] = "%s: %s" % (type(ex).__name__, str(ex)[:200])
            ev["res"] = digest("raises " + type(ex).__name__)
            ev.setdefault("p0", presc_digest(o))
            ev.setdefault("a0", digest(arrs))
            ev["a1"] = digest(arrs)
            ev["p1"] = presc_digest(o)
        events.append(ev)
        log.append(key)
    # sub-batch: rays traced alone vs in a batch
    sub = []
    try:
        w = o.wavelengths.get_wavelengths()[0]
        # (the batch contains the axial ray of the on-axis field - undeviated at every surface of a
        # centred lens - next to oblique rays of the same field; intensities are compared too)
        Hy = np.array([0.0, 0.5, 1.0, -0.7, 0.0, 0.0])
        Px = np.array([0.1, -0.4, 0.6, 0.2, 0.0, 0.3])
        Py = np.array([0.7, 0.3, -0.5, 0.0, 0.0, 0.8])
        rb = o.trace_generic(np.zeros(6), Hy.copy(), Px.copy(), Py.copy(), w)
        sg = o.surface_group
        # (the intensity is that of the returned rays: in a polarized trace the per-surface records do
        # not carry the Fresnel losses)
        batch = [np.array(a[-1]) for a in (sg.x, sg.y, sg.z, sg.L, sg.M, sg.N, sg.opd)] + [np.array(rb.i, dtype=float)]
        for r in range(6):
            ra = o.trace_generic(0.0, float(Hy[r]), float(Px[r]), float(Py[r]), w)
            alone = [float(a[-1][0]) for a in (sg.x, sg.y, sg.z, sg.L, sg.M, sg.N, sg.opd)] + [float(np.ravel(ra.i)[0])]
            sub.append({"op": "subbatch", "exc": "", "alone": [dy(v) for v in alone],
                        "inbatch": [dy(float(b[r])) for b in batch], "bits": 16 if meta["iterative"] else 40})
    except Exception as ex:
        sub.append({"op": "subbatch", "exc": "%s: %s" % (type(ex).__name__, str(ex)[:200]), "alone": [], "inbatch": [], "bits": 40})
    return {"tid": tid, "meta": meta, "events": events + sub, "log": log}


def main(ctx):
    quick = ctx.tier == "quick"
    # ---- 1. model checking ---------------------------------------------------
    ctx.model_check("MC_Session", "MC_Session_none.cfg", workers=4)
    for h in HAZARDS:
        r = ctx.model_check("MC_Session", "MC_Session_%s.cfg" % h, workers=4, must_pass=False)
        if "Clean" not in r.violated:
            raise T.MachineryError("hazard variant %s does not violate Clean: the invariant is vacuous" % h)
    ctx.extra["negative_configs_violating_as_expected"] = HAZARDS
    # ---- 2. sessions ------------------------------------------------------------
    ns = 64 if quick else 800
    tasks = [(i, ctx.seed * 99991 + i, 14 if quick else 30, (i % 4 == 0)) for i in range(ns)]
    with ProcessPoolExecutor(max_workers=16) as ex:
        res = list(ex.map(session, tasks, chunksize=1))
    intern = Interner()
    events, owner = [], {}
    nq = nhit = 0
    for r in res:
        if "skip" in r:
            ctx.skip(r["skip"])
            continue
        seen = set()
        for e in r["events"]:
            e["id"] = len(events)
            e["tid"] = r["tid"]
            for k in ("p0", "p1", "res", "a0", "a1"):
                e[k] = intern(e.get(k, "")) if e.get(k, "") != "" else 0
            e.setdefault("key", "")
            e.setdefault("exc", "")
            e.setdefault("alone", [])
            e.setdefault("inbatch", [])
            e.setdefault("bits", 40)
            if e["op"] == "query":
                nq += 1
                if (e["p0"], e["key"]) in seen:
                    nhit += 1
                seen.add((e["p0"], e["key"]))
            owner[e["id"]] = r
            events.append(e)
    verdicts = ctx.validate("Trace_Session", events, shards=16, group="tid",
                            count_traces=len([r for r in res if "skip" not in r]))
    for e in events:
        for clause in verdicts[e["id"]]:
            r = owner[e["id"]]
            call = e["key"].split("(")[0]
            ctx.report(clause, {"call": call, "vignetting": bool(r["meta"].get("vignetting")),
                                "array_args": "arrays" in e["key"]},
                       "%s on %s: clause %s fails %s" % (e["key"] or e["op"], r["meta"], clause, e["exc"]),
                       {"session_seed": [t for t in tasks if t[0] == r["tid"]][0][1], "calls": r["log"][:40]})
    ctx.extra["sessions"] = len([r for r in res if "skip" not in r])
    ctx.extra["queries"] = nq
    ctx.extra["queries_repeated_on_same_prescription"] = nhit
    ctx.extra["subbatch_events"] = len([e for e in events if e["op"] == "subbatch"])
    for r in res:
        if "skip" not in r:
            ctx.sample({"lens": r["meta"], "calls": r["log"][:12]})
            break
    # ---- calibration ------------------------------------------------------------
    import copy
    cal, expect = [], {}
    base = [e for e in events if e["tid"] == events[0]["tid"]]
    if len([e for e in base if e["op"] == "query"]) >= 2:
        qs = [i for i, e in enumerate(base) if e["op"] == "query" and e["exc"] == ""]
        for kind in ("repeatable", "frame", "args_unchanged", "batch_independent"):
            tr = copy.deepcopy(base)
            if kind == "repeatable":
                dup = copy.deepcopy(tr[qs[0]])
                dup["res"] = dup["res"] + 100000
                tr.insert(qs[0] + 1, dup)
                target = qs[0] + 1
            elif kind == "frame":
                tr[qs[-1]]["p1"] = tr[qs[-1]]["p0"] + 100000
                target = qs[-1]
            elif kind == "args_unchanged":
                tr[qs[-1]]["a1"] = tr[qs[-1]]["a0"] + 100000
                target = qs[-1]
            else:
                sb = [i for i, e in enumerate(tr) if e["op"] == "subbatch" and e["alone"]]
                if not sb:
                    continue
                tr[sb[0]]["inbatch"][1] = dy(1234.5)
                target = sb[0]
            for i, e in enumerate(tr):
                e["id"] = len(cal)
                e["tid"] = 100000 + len(expect)
                if i == target:
                    expect[e["id"]] = kind
                cal.append(e)
        cv = ctx.validate("Trace_Session", cal, shards=4, group="tid", count_traces=0)
        missed = [(i, k) for i, k in expect.items() if k not in cv[i]]
        if missed or len(expect) < 3:
            raise T.MachineryError("calibration: corrupted session events accepted: %s" % missed)
        ctx.extra["calibration"] = {"corruptions": len(expect), "missed": 0}
    else:
        raise T.MachineryError("no session to calibrate on")
    ctx.assumptions += ["results are compared as SHA-256 digests of the raw bytes of every returned array (bit identity)",
                        "unseeded random pupil sampling (distribution='random', EncircledEnergy default) is excluded, as the property says",
                        "sub-batch tolerance: 2^-40 (1+|v|) for closed-form surfaces, 2^-16 (1+|v|) when the lens has iteratively intersected surfaces (tol 1e-6)"]
