def run(ctx, jobs_sim):
    pass
