"""C01, code -> spec: record histories of real calls and validate them with
spec/Trace_Lens.tla (exact dyadic arithmetic on the implementation's floats).

Two sources: (a) the TLC-generated behaviours already replayed by c01.py
(cross-checks Lens.tla against Trace_Lens.tla through the implementation),
(b) random histories with arbitrary finite floats over every surface kind,
tilts/decentres, mirrors, variables of every type, pickups, solves.
"""
import math
import os
import random
from concurrent.futures import ProcessPoolExecutor

import numpy as np

from harness import lensops as L
from harness import project as P
from harness.dy import dy

UNIT = {"nm": (1, 1000), "um": (1, 1), "mm": (1000, 1)}   # value * num / den = microns


class Rec:
    """Wraps an Optic; every call appends one event (at return, also on error)."""

    def __init__(self, tid):
        self.tid = tid
        self.events = []
        self.optic = L.new_optic()
        self.calls = []     # plain-python reproduction
        self._emit("new", {}, "")

    def state(self):
        p = P.project(self.optic)
        if p["surf"]:
            p["surf"][0]["npre"] = p["surf"][0]["npost"]    # object: one medium
        d = P.to_dy(p)
        # spec indices are 1-based
        for q in d["pk"]:
            q["src"] += 1
            q["tgt"] += 1
        for q in d["sol"]:
            q["k"] += 1
        return d

    def _emit(self, op, args, exc, out=None, ya=None):
        try:
            post = self.state() if not exc else {"surf": [], "wl": [], "pk": [], "sol": []}
        except Exception as ex:     # the projection itself failed: report as a raise of this call
            post = {"surf": [], "wl": [], "pk": [], "sol": []}
            exc = exc or ("projection: %s: %s" % (type(ex).__name__, ex))
        ev = {"id": None, "tid": self.tid, "seq": len(self.events), "op": op, "args": args,
              "exc": exc, "post": post, "out": out if out is not None else dy(0.0),
              "ya": ya if ya is not None else []}
        self.events.append(ev)

    def _ya(self):
        try:
            ya, ua = self.optic.paraxial.marginal_ray()
            return [dy(float(v)) for v in np.ravel(ya)]
        except Exception:
            return []

    def do(self, op, fn, args, want_ya=False, out_fn=None):
        self.calls.append((op, args.get("_py", None)))
        a = {k: v for k, v in args.items() if k != "_py"}
        try:
            fn()
        except Exception as ex:
            self._emit(op, a, "%s: %s" % (type(ex).__name__, ex))
            return False
        out = None
        if out_fn is not None:
            try:
                out = dy(float(np.ravel(out_fn())[0]))
            except Exception as ex:
                self._emit(op, a, "reading back: %s: %s" % (type(ex).__name__, ex))
                return False
        self._emit(op, a, "", out=out, ya=self._ya() if want_ya else None)
        return True

    # ---- the calls -------------------------------------------------------
    def add_surface(self, kind="standard", radius=math.inf, conic=0.0, coefficients=None,
                    thickness=0.0, material="air", is_stop=False, dx=0.0, dy_=0.0, rx=0.0, ry=0.0,
                    extra=None):
        from optiland.materials import IdealMaterial
        o = self.optic
        idx = o.surface_group.num_surfaces
        kw = dict(index=idx, surface_type=kind, radius=radius, conic=conic, thickness=thickness,
                  is_stop=is_stop)
        if coefficients is not None:
            kw["coefficients"] = coefficients
        if isinstance(material, float):
            kw["material"] = IdealMaterial(n=material, k=0)
            npost = [material] * 3
        elif material == "air":
            kw["material"] = "air"
            npost = [1.0] * 3
        elif material == "mirror":
            kw["material"] = "mirror"
            npost = []
        else:
            kw["material"] = material
            from optiland.materials import Material
            m = Material(*material) if isinstance(material, tuple) else Material(material)
            npost = [float(np.ravel(m.n(w))[0]) for w in P.PROBE_WL]
        for key, val in (("dx", dx), ("dy", dy_), ("rx", rx), ("ry", ry)):
            if val:
                kw[key] = val
        if extra:
            kw.update(extra)
        cf = [] if coefficients is None else [float(v) for v in np.asarray(coefficients, dtype=float).ravel()]
        args = {"R": dy(radius), "k": dy(conic if not (kind == "standard" and math.isinf(radius)) else 0.0),
                "coef": [dy(c) for c in cf], "t": dy(thickness), "dx": dy(dx), "dy": dy(dy_),
                "rx": dy(rx), "ry": dy(ry), "stop": bool(is_stop), "refl": material == "mirror",
                "npost": [dy(v) for v in npost], "_py": repr(kw)}
        return self.do("add_surface", lambda: o.add_surface(**kw), args)

    def set_radius(self, v, k):
        return self.do("set_radius", lambda: self.optic.set_radius(v, k), {"k": k + 1, "v": dy(v), "_py": (v, k)})

    def set_conic(self, v, k):
        return self.do("set_conic", lambda: self.optic.set_conic(v, k), {"k": k + 1, "v": dy(v), "_py": (v, k)})

    def set_thickness(self, v, k):
        return self.do("set_thickness", lambda: self.optic.set_thickness(v, k),
                       {"k": k + 1, "v": dy(v), "_py": (v, k)})

    def set_index(self, v, k):
        return self.do("set_index", lambda: self.optic.set_index(v, k), {"k": k + 1, "v": dy(v), "_py": (v, k)})

    def set_asphere_coeff(self, v, k, idx):
        return self.do("set_asphere_coeff", lambda: self.optic.set_asphere_coeff(v, k, idx),
                       {"k": k + 1, "idx": idx + 1, "v": dy(v), "_py": (v, k, idx)})

    def var_update(self, vtype, k, x, scaled=True, **kw):
        from optiland.optimization.variable import Variable
        holder = {}

        def fn():
            holder["v"] = Variable(self.optic, vtype, surface_number=k, apply_scaling=scaled, **kw)
            holder["v"].update(x)
        args = {"type": vtype, "k": k + 1, "x": dy(x), "scaled": bool(scaled),
                "axis": kw.get("axis", ""), "idx": 0, "pow10": 1, "_py": (vtype, k, x, scaled, kw)}
        if vtype == "asphere_coeff":
            args["idx"] = kw["coeff_number"] + 1
            args["pow10"] = 10 ** (4 + 2 * kw["coeff_number"])
        if vtype in ("polynomial_coeff", "chebyshev_coeff"):
            g = self.optic.surface_group.surfaces[k].geometry
            i, j = kw["coeff_index"]
            args["idx"] = i * np.asarray(g.c).shape[1] + j + 1
        return self.do("var_update", fn, args, out_fn=lambda: holder["v"].value)

    def add_wavelength(self, v, is_primary=False, unit="um"):
        num, den = UNIT[unit]
        return self.do("add_wavelength", lambda: self.optic.add_wavelength(v, is_primary=is_primary, unit=unit),
                       {"v": dy(v), "p": bool(is_primary), "num": num, "den": den, "_py": (v, is_primary, unit)})

    def pickup_add(self, src, attr, tgt, scale, off):
        return self.do("pickup_add", lambda: self.optic.pickups.add(src, attr, tgt, scale=scale, offset=off),
                       {"src": src + 1, "attr": attr, "tgt": tgt + 1, "scale": dy(scale), "off": dy(off),
                        "_py": (src, attr, tgt, scale, off)}, want_ya=True)

    def solve_add(self, k, h):
        return self.do("solve_add", lambda: self.optic.solves.add("marginal_ray_height", k, h),
                       {"k": k + 1, "h": dy(h), "_py": (k, h)}, want_ya=True)

    def update(self):
        return self.do("update", lambda: self.optic.update(), {"_py": ()}, want_ya=True)

    def image_solve(self):
        return self.do("image_solve", lambda: self.optic.image_solve(), {"_py": ()}, want_ya=True)

    def scale_system(self, s):
        return self.do("scale_system", lambda: self.optic.scale_system(s), {"v": dy(s), "_py": (s,)})

    def save_load(self, how):
        from optiland.optic import Optic

        def fn():
            if how == "dict":
                self.optic = Optic.from_dict(self.optic.to_dict())
            else:
                import tempfile
                from optiland.fileio import save_optiland_file, load_optiland_file
                fd, path = tempfile.mkstemp(suffix=".json", dir=os.environ.get("VERIF_WORK") or None)
                os.close(fd)
                try:
                    save_optiland_file(self.optic, path)
                    self.optic = load_optiland_file(path)
                finally:
                    os.remove(path)
        return self.do("save_load", fn, {"how": how, "_py": (how,)})


# ------------------------------------------------------- grid behaviours ----
def record_grid_behaviour(args):
    """Replay one TLC-generated behaviour (spec units) through the recorder."""
    tid, base, hist = args
    r = Rec(tid)
    sf = base["surf"]
    for j, s in enumerate(sf):
        if j + 1 < len(sf):
            t = L.INF if s["z"] == -L.INF else sf[j + 1]["z"] - s["z"]
        else:
            t = 0
        _grid_add(r, {"kind": s["kind"], "R": s["R"], "k": s["k"], "c1": s["c1"], "t": t,
                      "med": "mirror" if s["refl"] else s["post"], "stop": s["stop"],
                      "dx": s["dx"], "rx": s["rx"]})
    for w in base["wl"]:
        r.add_wavelength(L.u(w["v"]), is_primary=w["primary"])
    for c in hist:
        op, a = c["op"], c["a"]
        if op == "add_surface":
            _grid_add(r, a)
        elif op == "set_radius":
            r.set_radius(L.u(a["v"]), a["k"] - 1)
        elif op == "set_conic":
            r.set_conic(L.u(a["v"]), a["k"] - 1)
        elif op == "set_thickness":
            r.set_thickness(L.u(a["v"]), a["k"] - 1)
        elif op == "set_index":
            r.set_index(L.MEDIA[a["v"]], a["k"] - 1)
        elif op == "set_asphere_coeff":
            r.set_asphere_coeff(L.u(a["v"]), a["k"] - 1, 0)
        elif op == "set_tilt":
            r.var_update("tilt", a["k"] - 1, L.u(a["v"]), axis="x")
        elif op == "set_decentre":
            r.var_update("decenter", a["k"] - 1, L.u(a["v"]), axis="x")
        elif op == "add_wavelength":
            r.add_wavelength(L.u(a["v"]), is_primary=bool(a["p"]))
        elif op == "pickup_add":
            r.pickup_add(a["src"] - 1, a["attr"], a["tgt"] - 1, a["scale"], L.u(a["off"]))
        elif op == "update":
            r.update()
        elif op == "scale_system":
            r.scale_system(a["v"])
        elif op == "save_load":
            r.save_load(a["how"])
    return r.events, r.calls


def _grid_add(r, a):
    med = a["med"]
    r.add_surface(kind="standard" if a["kind"] == "std" else "even_asphere", radius=L.u(a["R"]),
                  conic=L.u(a["k"]), coefficients=[L.u(a["c1"])] if a["kind"] == "asph" else None,
                  thickness=L.u(a["t"]), material=med if med in ("air", "mirror") else L.MEDIA[med],
                  is_stop=bool(a["stop"]), dx=L.u(a.get("dx", 0)), rx=L.u(a.get("rx", 0)))


# ------------------------------------------------------- random histories ---
GLASSES = [("N-BK7", "schott"), ("N-SF11", "schott"), ("F2", "schott")]


def rnd_radius(rnd):
    c = rnd.random()
    if c < 0.15:
        return math.inf
    return rnd.choice([-1, 1]) * math.exp(rnd.uniform(math.log(8.0), math.log(800.0)))


def random_history(args):
    import contextlib
    import io
    with contextlib.redirect_stdout(io.StringIO()):     # the material lookup prints warnings
        return _random_history(args)


def _random_history(args):
    tid, seed, nedits, features = args
    rnd = random.Random(seed)
    r = Rec(tid)
    nsurf = rnd.randint(1, 12)
    finite_obj = rnd.random() < 0.4
    # paraxial solves are only meaningful for axially symmetric lenses: a history
    # either has tilts/decentres or solves, not both
    axial = rnd.random() < 0.5
    r.add_wavelength(rnd.uniform(0.45, 0.65), is_primary=True)
    r.add_surface(thickness=rnd.uniform(20, 500) if finite_obj else math.inf)
    stop_at = rnd.randint(1, nsurf)
    kinds = []
    in_glass = False
    for j in range(1, nsurf + 1):
        kind = rnd.choices(["standard", "even_asphere", "polynomial", "chebyshev"], [0.6, 0.2, 0.1, 0.1])[0]
        R = rnd_radius(rnd)
        conic = 0.0 if rnd.random() < 0.5 else rnd.uniform(-2.0, 0.8)
        if kind == "standard" and math.isinf(R):
            conic = 0.0
        coefs = None
        extra = None
        if kind == "even_asphere":
            coefs = [rnd.uniform(-1e-5, 1e-5) * 10 ** (-2 * q) for q in range(rnd.randint(1, 3))]
        elif kind == "polynomial":
            coefs = [[0.0, rnd.uniform(-1e-3, 1e-3)], [rnd.uniform(-1e-3, 1e-3), rnd.uniform(-1e-4, 1e-4)]]
        elif kind == "chebyshev":
            coefs = [[0.0, rnd.uniform(-1e-3, 1e-3)], [rnd.uniform(-1e-3, 1e-3), rnd.uniform(-1e-4, 1e-4)]]
            extra = {"norm_x": 50.0, "norm_y": 50.0}
        m = rnd.random()
        if m < 0.12 and j > 1:
            material = "mirror"
        elif in_glass and m < 0.7:
            material = "air"
        elif m < 0.85 or "catalogue" not in features:
            material = round(rnd.uniform(1.3, 2.0), 4) if rnd.random() < 0.8 else rnd.uniform(1.0, 4.0)
        else:
            material = rnd.choice(GLASSES)
        if material != "mirror":
            in_glass = material != "air"
        tilt = (not axial) and rnd.random() < 0.3
        r.add_surface(kind=kind, radius=R, conic=conic, coefficients=coefs,
                      thickness=rnd.uniform(0.0, 40.0) if rnd.random() < 0.9 else 0.0,
                      material=material, is_stop=(j == stop_at) or rnd.random() < 0.05,
                      dx=rnd.uniform(-1, 1) if tilt else 0.0, dy_=rnd.uniform(-1, 1) if tilt and rnd.random() < 0.5 else 0.0,
                      rx=rnd.uniform(-0.2, 0.2) if tilt else 0.0, ry=rnd.uniform(-0.2, 0.2) if tilt and rnd.random() < 0.5 else 0.0,
                      extra=extra)
        kinds.append(kind)
    r.add_surface()     # image surface
    n = nsurf + 2       # code surfaces 0..n-1
    have_solve = None
    pk_used = {"radius": set(), "conic": set(), "thickness": set()}
    for _ in range(nedits):
        if any(e["exc"] for e in r.events):
            break
        o = r.optic
        op = rnd.choices(["set_radius", "set_conic", "set_thickness", "set_index", "coef", "var",
                          "add_wavelength", "pickup", "solve", "update", "image_solve"],
                         [3, 2, 3, 2, 2, 4, 1, 2, 1, 2, 0.5])[0]
        k = rnd.randint(1, n - 1)
        g = o.surface_group.surfaces[k].geometry
        gk = type(g).__name__
        if op == "set_radius":
            R = rnd_radius(rnd)
            # (a plane cannot be the source of a radius pickup: scale * infinity + offset is not a
            # radius - the same guard as SetRadius in spec/Lens.tla)
            if math.isinf(R) and any(p.attr_type == "radius" and p.source_surface_idx == k for p in o.pickups.pickups):
                R = 55.5
            r.set_radius(R, k)
        elif op == "set_conic":
            if gk != "Plane":
                r.set_conic(rnd.uniform(-3, 2), k)
        elif op == "set_thickness":
            kk = rnd.randint(0 if finite_obj else 1, n - 2)
            r.set_thickness(rnd.uniform(0.0, 60.0) if kk else rnd.uniform(10, 600), kk)
        elif op == "set_index":
            r.set_index(rnd.uniform(1.0, 2.5), rnd.randint(0, n - 2))
        elif op == "coef":
            if gk == "EvenAsphere" and len(g.c):
                r.set_asphere_coeff(rnd.uniform(-1e-6, 1e-6), k, rnd.randrange(len(g.c)))
        elif op == "var":
            vt = rnd.choice(["radius", "conic", "thickness", "index", "asphere_coeff", "tilt", "decenter",
                             "polynomial_coeff", "chebyshev_coeff"])
            scaled = rnd.random() < 0.6
            if vt == "radius":
                x = rnd.uniform(-3, 3) if scaled else rnd_radius(rnd)
                if math.isinf(x):
                    x = 55.5
                r.var_update("radius", k, x, scaled)
            elif vt == "conic" and gk != "Plane":
                r.var_update("conic", k, rnd.uniform(-2, 1), scaled)
            elif vt == "thickness":
                kk = rnd.randint(1, n - 2)
                r.var_update("thickness", kk, rnd.uniform(-0.9, 3) if scaled else rnd.uniform(0, 40), scaled)
            elif vt == "index":
                kk = rnd.randint(1, n - 2)
                r.var_update("index", kk, rnd.uniform(-0.4, 0.5) if scaled else rnd.uniform(1.1, 2.0), scaled,
                             wavelength=0.55)
            elif vt == "asphere_coeff" and gk == "EvenAsphere" and len(g.c):
                q = rnd.randrange(len(g.c))
                r.var_update("asphere_coeff", k, rnd.uniform(-1, 1) if scaled else rnd.uniform(-1e-6, 1e-6),
                             scaled, coeff_number=q)
            elif vt in ("tilt", "decenter") and not axial:
                r.var_update(vt, k, rnd.uniform(-0.3, 0.3), scaled, axis=rnd.choice("xy"))
            elif vt == "polynomial_coeff" and gk == "PolynomialGeometry":
                r.var_update(vt, k, rnd.uniform(-1e-3, 1e-3), scaled, coeff_index=(rnd.randint(0, 1), rnd.randint(0, 1)))
            elif vt == "chebyshev_coeff" and gk == "ChebyshevPolynomialGeometry":
                r.var_update(vt, k, rnd.uniform(-1e-3, 1e-3), scaled, coeff_index=(rnd.randint(0, 1), rnd.randint(0, 1)))
        elif op == "add_wavelength":
            unit = rnd.choice(["um", "nm", "mm"])
            v = rnd.uniform(0.4, 0.8)
            r.add_wavelength({"um": v, "nm": v * 1000, "mm": v / 1000}[unit], rnd.random() < 0.4, unit)
        elif op == "pickup" and len(o.pickups) < 3 and "pickups" in features:
            attr = rnd.choice(["radius", "conic", "thickness"])
            if attr == "thickness":
                cands = [j for j in range(1, n - 1) if j not in pk_used[attr]
                         and (have_solve is None or j != have_solve - 1)]
            else:
                cands = [j for j in range(1, n) if j not in pk_used[attr]
                         and type(o.surface_group.surfaces[j].geometry).__name__ != "Plane"
                         and (attr != "radius" or math.isfinite(P.f(o.surface_group.radii[j])))]
            if len(cands) >= 2:
                src, tgt = rnd.sample(cands, 2)
                scale = rnd.choice([1.0, -1.0, rnd.uniform(-2, 2)])
                off = rnd.choice([0.0, rnd.uniform(0, 5)])
                if attr == "radius" and abs(scale * P.f(o.surface_group.radii[src]) + off) < 1.0:
                    continue
                if attr == "thickness" and scale * P.f(o.surface_group.get_thickness(src)) + off < 0:
                    scale, off = abs(scale), abs(off)
                pk_used[attr].update([src, tgt])
                r.pickup_add(src, attr, tgt, scale, off)
        elif op == "solve" and axial and have_solve is None and "solves" in features and n >= 3:
            ks = rnd.randint(2, n - 1)
            try:
                ya, ua = o.paraxial.marginal_ray()
                u_in = float(np.ravel(ua)[ks - 1])
                ok = np.all(np.isfinite(ya)) and abs(u_in) > 1e-3 and abs(float(np.ravel(ua)[ks])) > 1e-3
            except Exception:
                ok = False
            if ok and (ks - 1) not in pk_used["thickness"]:
                have_solve = ks
                pk_used["thickness"].add(ks - 1)
                r.solve_add(ks, rnd.choice([0.0, rnd.uniform(-2, 2)]))
        elif op == "update" and (len(o.pickups) or len(o.solves)):
            # a solve is satisfiable only while the marginal ray arrives with a slope: an edit since
            # the solve was added (a radius set to infinity, ...) may have made it parallel to the
            # axis, and then no vertex position places it at the requested height
            if have_solve is not None:
                try:
                    ya, ua = o.paraxial.marginal_ray()
                    ok = bool(np.all(np.isfinite(ya))) and abs(float(np.ravel(ua)[have_solve - 1])) > 1e-6
                except Exception:
                    ok = False
                if not ok:
                    continue
            r.update()
            if have_solve is not None:
                # the pickups applied inside update() may themselves have made the solve unsatisfiable
                # (ray parallel to the axis): then the lens holds non-finite vertices, the event says
                # nothing about the property and the history ends here
                try:
                    ya, ua = o.paraxial.marginal_ray()
                    sat = abs(float(np.ravel(ua)[have_solve - 1])) > 0.0
                except Exception:
                    sat = True
                pos = np.ravel(o.surface_group.positions)[1:]
                if not sat and not np.all(np.isfinite(pos)):
                    r.events.pop()
                    break
        elif op == "image_solve" and axial and "solves" in features and have_solve is None:
            try:
                ya, ua = o.paraxial.marginal_ray()
                # (the slope of the ray arriving at the image surface: image_solve divides by it)
                ok = np.all(np.isfinite(ya)) and abs(float(np.ravel(ua)[-2])) > 1e-3
            except Exception:
                ok = False
            if ok:
                r.image_solve()
    return r.events, r.calls


def pickup_solve_history(args):
    """update() after editing a pickup source, with a solve downstream: pickups are applied
    first, then solves, so both must hold afterwards."""
    import contextlib
    import io
    with contextlib.redirect_stdout(io.StringIO()):
        return _pickup_solve_history(args)


def _pickup_solve_history(args):
    tid, seed = args
    rnd = random.Random(seed)
    r = Rec(tid)
    r.add_wavelength(rnd.uniform(0.45, 0.65), is_primary=True)
    r.add_surface(thickness=math.inf)               # infinite object: the marginal ray does not depend on the pupil position
    n_el = rnd.randint(2, 4)
    for j in range(1, n_el + 1):
        R = rnd.choice([-1, 1]) * rnd.uniform(30.0, 200.0)
        r.add_surface(radius=R, thickness=rnd.uniform(2.0, 15.0),
                      material=round(rnd.uniform(1.4, 1.8), 3) if j % 2 == 1 else "air", is_stop=(j == 1))
    r.add_surface(thickness=rnd.uniform(20.0, 80.0))    # a dummy plane, then the image
    r.add_surface()
    n = n_el + 3
    attr = rnd.choice(["radius", "radius", "thickness"])
    if n_el < 3:
        attr = "radius"
    if attr == "radius":
        src, tgt = rnd.sample(range(1, n_el + 1), 2)
        r.pickup_add(src, "radius", tgt, rnd.choice([-1.0, 1.0, 0.5]), rnd.choice([0.0, 3.0]))
    else:
        src, tgt = rnd.sample(range(1, n_el), 2)
        r.pickup_add(src, "thickness", tgt, rnd.choice([1.0, 0.5]), rnd.choice([0.0, 1.0]))
    ks = rnd.choice([n - 1, n - 2])
    try:
        ya, ua = r.optic.paraxial.marginal_ray()
        if abs(float(np.ravel(ua)[ks - 1])) < 1e-3 or not np.all(np.isfinite(ya)):
            return r.events, r.calls
    except Exception:
        return r.events, r.calls
    r.solve_add(ks, rnd.choice([0.0, rnd.uniform(-1, 1)]))
    if rnd.random() < 0.5:
        # a second solve on the other plane: half of the time it is added in descending surface
        # order (update() must still establish both: spec/UpdateOrder.tla, SolvesHold)
        k2 = (n - 1) if ks == n - 2 else (n - 2)
        try:
            ya, ua = r.optic.paraxial.marginal_ray()
            ok = abs(float(np.ravel(ua)[k2 - 1])) >= 1e-3 and bool(np.all(np.isfinite(ya)))
        except Exception:
            ok = False
        if ok:
            r.solve_add(k2, rnd.choice([0.0, rnd.uniform(-1, 1)]))
    for _ in range(rnd.randint(2, 4)):
        if attr == "radius":
            r.set_radius(rnd.choice([-1, 1]) * rnd.uniform(30.0, 200.0), src)
        else:
            r.set_thickness(rnd.uniform(2.0, 15.0), src)
        r.update()
    return r.events, r.calls


# ---------------------------------------------------------------- driver ----
def classify(ev, clause, events):
    """Input-class attributes for known-finding matching."""
    cls = {"op": ev["op"]}
    if clause == "solves_hold":
        post = ev["post"]
        stops = [j + 1 for j, sf in enumerate(post["surf"]) if sf["stop"]]
        cls["finite_object"] = bool(post["surf"]) and post["surf"][0]["z"]["k"] == "fin"
        cls["stop_at_or_after_solve"] = bool(stops) and any(stops[0] >= q["k"] for q in post["sol"])
    if ev["op"] == "var_update":
        cls["type"] = ev["args"]["type"]
    return cls


def run(ctx, jobs_sim, features=("pickups", "solves", "catalogue")):
    quick = ctx.tier == "quick"
    os.environ["VERIF_WORK"] = ctx.work
    ngrid = min(len(jobs_sim), 150 if quick else 1500)
    nrand = 250 if quick else 4000
    tasks_g = [(i, j[0], j[1]) for i, j in enumerate(jobs_sim[:ngrid])]
    tasks_r = [(10000 + i, ctx.seed * 1000003 + i, 12 if quick else 25, features) for i in range(nrand)]
    events, traces = [], {}
    with ProcessPoolExecutor(max_workers=16) as ex:
        for evs, calls in ex.map(record_grid_behaviour, tasks_g, chunksize=8):
            events += evs
            traces[evs[0]["tid"]] = calls
        for evs, calls in ex.map(random_history, tasks_r, chunksize=8):
            events += evs
            traces[evs[0]["tid"]] = calls
        tasks_p = [(50000 + i, ctx.seed * 7907 + i) for i in range(40 if quick else 600)]
        for evs, calls in ex.map(pickup_solve_history, tasks_p, chunksize=4):
            events += evs
            traces[evs[0]["tid"]] = calls
    # keep traces contiguous within a shard: shard by trace id
    for i, e in enumerate(events):
        e["id"] = i
    verdicts = validate_by_trace(ctx, "Trace_Lens", events)
    bad = 0
    opcount = {}
    for e in events:
        opcount[e["op"]] = opcount.get(e["op"], 0) + 1
        for clause in verdicts[e["id"]]:
            bad += 1
            what = "%s (trace %d, call %d): clause %s fails%s" % (
                e["op"], e["tid"], e["seq"], clause, (" - " + e["exc"]) if e["exc"] else "")
            ctx.report(clause, classify(e, clause, events), what,
                       {"calls": traces[e["tid"]][:e["seq"]], "event_args": e["args"]})
    ctx.extra["trace_events_by_op"] = opcount
    ctx.extra["trace_histories"] = len(traces)
    ctx.sample({"random_history_calls": traces[10000][:10]})


def validate_by_trace(ctx, module, events, shards=16):
    """Shard so that every trace stays in one shard, in order."""
    tids = sorted({e["tid"] for e in events})
    shard_of = {t: i % shards for i, t in enumerate(tids)}
    groups = [[] for _ in range(shards)]
    for e in events:
        groups[shard_of[e["tid"]]].append(e)
    groups = [g for g in groups if g]
    verdicts = {}
    from harness import tlc as T
    import json
    from concurrent.futures import ThreadPoolExecutor

    def one(ig):
        i, g = ig
        f = os.path.join(ctx.work, "trace_%s_%d.json" % (module, i))
        with open(f, "w") as fh:
            json.dump(g, fh)
        r = T.run_tlc(module, module + ".cfg", ctx.work, workers=1, env={"TRACE_FILE": f}, timeout=1500)
        os.remove(f)
        return r, len(g)
    with ThreadPoolExecutor(max_workers=16) as ex:
        results = list(ex.map(one, enumerate(groups)))
    states = gen = 0
    for r, n in results:
        if not r.ok:
            raise T.MachineryError("trace validation failed (%s):\n%s" % (module, "\n".join(r.out.splitlines()[-30:])))
        for rec in r.prints("V"):
            verdicts[rec[1]] = sorted(rec[2])
        done = r.prints("DONE")
        if not done or done[-1][1] != n:
            raise T.MachineryError("trace spec consumed %r of %d events" % (done, n))
        states += r.distinct
        gen += r.generated
    ctx.states += states
    ctx.transitions += gen
    ctx.traces += len(tids)
    ctx.models.append({"module": module, "events": len(events), "distinct": states, "generated": gen,
                       "jvms": len(groups), "ok": True})
    miss = [e["id"] for e in events if e["id"] not in verdicts]
    if miss:
        raise T.MachineryError("no verdict for %d events" % len(miss))
    return verdicts
