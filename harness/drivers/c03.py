"""C03 - rays start at the requested field point and aim at the requested pupil point.

Three uses of spec/Launch.tla:

1. MC_Launch (TLC on the model): the 24-cell decision table as a two-action machine (total,
   deterministic, equal to the property's list of rejected combinations); documented sampling
   counts against constructive counts for n = 1..N, vignetting on a rational grid; hand-built
   launch records accepted and their single-field corruptions rejected.
2. spec -> code: the cells and decisions TLC enumerated (-dump) are replayed into the real code:
   every cell x several lenses x both entry points (trace_generic, trace) must raise ValueError
   exactly where the table says Reject and must return rays where it says Accept.
3. code -> spec: random lenses in every accepted cell, random Hy in [-1, 1] (some Hx), pupil points
   in the unit disk including the rim, every named sampling and several ray counts, with and without
   vignetting factors: the object-surface record of every launched ray together with EPL / EPD as the
   library reports them is judged by Trace_Launch in exact dyadic arithmetic (origin, field angle,
   aim, unit direction, intensity, path, wavelength, forward); samplings are judged for count and
   unit disk, vignetted samplings for shrinking.
Calibration every run: witnesses accepted, corrupted records rejected, otherwise MachineryError.
"""
import copy
import math
import os
import random
from concurrent.futures import ProcessPoolExecutor

import numpy as np

from harness import launchrec as LR
from harness import lensgen as G
from harness import tlc as T
from harness.dy import dy, undy
from harness.parse_tla import parse_dump

NAMED = ["line_x", "line_y", "positive_line_x", "positive_line_y", "random", "uniform", "hexapolar", "cross", "ring"]
GQ = ["gaussian_quadrature", "gaussian_quadrature_symmetric"]
ACCEPTED = [("EPD", "angle", True, False), ("EPD", "angle", False, False), ("EPD", "object_height", False, False),
            ("imageFNO", "angle", True, False), ("imageFNO", "angle", False, False),
            ("imageFNO", "object_height", False, False), ("objectNA", "angle", False, False),
            ("objectNA", "object_height", False, False), ("objectNA", "object_height", False, True)]
SPECIAL_P = [(0.0, 0.0), (1.0, 0.0), (0.0, -1.0), (0.6, 0.8), (-1.0, 0.0), (0.0, 1.0)]


def build_rear_stop(rnd, cell):
    """Directed family: a positive singlet with the stop well behind its rear focal point, so that the
    entrance pupil is a real image of the stop in front of the lens (and of a near object)."""
    from optiland.optic import Optic
    from optiland.materials import IdealMaterial
    ap, ft, inf, tel = cell
    o = Optic()
    r = rnd.uniform(40.0, 80.0)
    nn = rnd.uniform(1.45, 1.7)
    f = r / (2 * (nn - 1))
    o.add_surface(index=0, thickness=math.inf if inf else rnd.uniform(0.5, 0.9) * f)
    o.add_surface(index=1, radius=r, thickness=rnd.uniform(3.0, 6.0), material=IdealMaterial(n=nn))
    o.add_surface(index=2, radius=-r, thickness=rnd.uniform(1.8, 3.0) * f)
    o.add_surface(index=3, thickness=rnd.uniform(10.0, 40.0), is_stop=True)
    o.add_surface(index=4)
    epd = rnd.uniform(2.0, 6.0)
    o.set_aperture(ap, {"EPD": epd, "imageFNO": rnd.uniform(6.0, 12.0), "objectNA": rnd.uniform(0.02, 0.06)}[ap])
    o.set_field_type(ft)
    mf = rnd.uniform(0.5, 4.0)
    for y in (0.0, 0.7 * mf, mf):
        o.add_field(y=y)
    for i, w in enumerate([0.4861, 0.5876, 0.6563]):
        o.add_wavelength(w, is_primary=(i == 1))
    return o, {"nsurf": 3, "stop": 3, "max_field": mf, "epd": epd, "rear_stop": True}


def build(seed, cell, vig=False, wide=False, rear=False):
    ap, ft, inf, tel = cell
    rnd = random.Random(seed)
    if rear:
        o, meta = build_rear_stop(rnd, cell)
        return o, meta, rnd
    mf = None
    if wide and ft == "angle":
        mf = rnd.uniform(8.0, 25.0)
    reused = None
    if seed % 6 == 2:
        # the lens is entered on an Optic that held another lens before and was reset()
        reused, _ = build_rear_stop(random.Random(seed + 1), ("EPD", "angle", True, False))
        reused.reset()
    robj = None
    if (not inf) and ft == "object_height" and seed % 4 == 1:
        # a curved object surface (a sphere through the object vertex): the rays start on it
        mf = random.Random(seed + 7).uniform(0.5, 5.0)
        robj = random.Random(seed + 8).choice([-1.0, 1.0]) * random.Random(seed + 9).uniform(3.0, 12.0) * mf
    o, meta = G.random_lens(rnd, aperture=ap, field_type=ft, finite_object=not inf, max_field=mf,
                            kinds=("standard", "standard", "even_asphere"), mirrors=(seed % 5 == 0), optic=reused,
                            object_radius=robj)
    meta["object_radius"] = robj
    meta["optic_reused_after_reset"] = reused is not None
    if seed % 7 == 3 and not meta["mirror"]:
        # the stop is moved: a ready-made plane Surface carrying the stop flag is put into an air gap
        # (the other public way of adding a surface); it is the stop from then on
        from optiland.coordinate_system import CoordinateSystem
        from optiland.geometries import Plane
        from optiland.materials import IdealMaterial
        from optiland.surfaces.standard_surface import Surface
        sg = o.surface_group
        pos = [float(z) for z in np.ravel(sg.positions)]
        w0 = o.primary_wavelength
        gaps = [k for k in range(2, sg.num_surfaces)
                if float(np.ravel(sg.surfaces[k - 1].material_post.n(w0))[0]) == 1.0 and pos[k] - pos[k - 1] > 0.2
                and math.isfinite(pos[k - 1])]
        if gaps:
            k = gaps[0]         # the first air gap: in front of the old stop whenever there is one there
            air = IdealMaterial(n=1.0, k=0.0)
            z = pos[k - 1] + rnd.uniform(0.3, 0.7) * (pos[k] - pos[k - 1])
            o.add_surface(new_surface=Surface(Plane(CoordinateSystem(z=z)), air, air, is_stop=True), index=k)
            meta["stop_moved_by_new_surface"] = True
            meta["stop"] = k
            meta["nsurf"] += 1
    if tel:
        o.obj_space_telecentric = True
    if seed % 4 == 1:
        # a field list whose largest-magnitude field is negative: "maximum field" is the largest
        # magnitude (the normalisation of H), not the largest signed value
        fl = o.fields.fields
        big = max(fl, key=lambda f: abs(f.y))
        big.y = -abs(big.y)
        meta["largest_field_negative"] = True
    if vig:
        for f in o.fields.fields:
            if f.y != 0 or rnd.random() < 0.5:
                f.vx = rnd.choice([0.0, rnd.uniform(0.0, 0.6)])
                f.vy = rnd.uniform(0.0, 0.6)
        if not any(f.vx or f.vy for f in o.fields.fields):
            o.fields.fields[-1].vy = 0.25
    return o, meta, rnd


def _pupil(rnd, n):
    pts = list(rnd.sample(SPECIAL_P, 3))
    while len(pts) < n:
        r = math.sqrt(rnd.random())
        t = rnd.uniform(0, 2 * math.pi)
        pts.append((r * math.cos(t), r * math.sin(t)))
    return np.array([p[0] for p in pts]), np.array([p[1] for p in pts])


def _strip(ev):
    return {k: v for k, v in ev.items() if not k.startswith("_")}


def record_lens(task):
    """One random lens in an accepted cell: two trace_generic calls and one trace call."""
    seed, cell, vig, wide, nper, rear = task
    out = {"seed": seed, "cell": cell, "vig": vig, "wide": wide, "rear": rear, "events": [], "calls": [], "skip": None,
           "error": None}
    try:
        o, meta, rnd = build(seed, cell, vig, wide, rear)
    except Exception as ex:
        out["error"] = "build: %s: %s" % (type(ex).__name__, ex)
        return out
    out["meta"] = {k: meta[k] for k in ("nsurf", "stop", "max_field", "epd")}
    nstop = sum(1 for sf in o.surface_group.surfaces if sf.is_stop)
    if nstop != 1:
        # the property speaks of *the* entrance pupil: a lens the public API left with no stop or
        # with several has none
        out["error"] = "stop: %d surfaces carry the stop flag after building through the public API" % nstop
        return out
    try:
        ld = LR.lens_data(o)
    except Exception as ex:
        out["error"] = "paraxial: %s: %s" % (type(ex).__name__, ex)
        return out
    if not (math.isfinite(ld["EPL"]) and math.isfinite(ld["EPD"])) or abs(ld["EPL"]) > 1e7 or abs(ld["EPD"]) > 1e7:
        out["skip"] = "entrance pupil at (or numerically near) infinity"
        return out
    out["ld"] = {k: ld[k] for k in ("EPL", "EPD", "zobj", "zmin", "F", "NA", "vig", "Robj")}
    wls = list(o.wavelengths.get_wavelengths())
    for c in range(2):
        Hy = rnd.choice([rnd.uniform(-1, 1), rnd.uniform(-1, 1), 1.0, -1.0, 0.0])
        Hx = 0.0
        if c == 1 and rnd.random() < 0.5 and not vig:
            Hx = rnd.uniform(-1, 1) * math.sqrt(max(0.0, 1 - Hy * Hy))
        w = rnd.choice(wls + [rnd.uniform(0.45, 0.7)])
        Px, Py = _pupil(rnd, nper)
        call = {"entry": "trace_generic", "Hx": Hx, "Hy": Hy, "w": w, "Px": list(map(float, Px)), "Py": list(map(float, Py))}
        try:
            with np.errstate(all="ignore"):
                # (a coordinate that is exactly 0 is also passed as a Python int or an integer array in
                # a third of the lenses: the same request)
                hx = Hx
                if Hx == 0.0 and seed % 3 == 1:
                    hx = 0
                if c == 0:
                    rays = G.quiet(o.trace_generic, hx, Hy, Px.copy(), Py.copy(), w)
                else:       # all-array form
                    hxa = np.zeros(len(Px), dtype=int) if (Hx == 0.0 and seed % 3 == 2) else np.full(len(Px), Hx)
                    rays = G.quiet(o.trace_generic, hxa, np.full(len(Px), Hy), Px.copy(), Py.copy(), w)
        except Exception as ex:
            out["error"] = "trace_generic: %s: %s" % (type(ex).__name__, ex)
            out["call"] = call
            return out
        evs = LR.ray_events(o, ld, Hx, Hy, (Px, Py), w, rays, "trace_generic")
        for e in evs:
            e["_call"] = len(out["calls"])
        out["calls"].append(call)
        out["events"] += evs
    # optic.trace with a named sampling
    name = rnd.choice(NAMED + GQ)
    n = rnd.choice([1, 2, 3, 4, 5, 6]) if name in GQ else rnd.choice([1, 2, 3, 4, 5, 6, 7, 9, 11, 12])
    if name == "uniform" and n < 3:
        n = 3
    Hy = rnd.choice([rnd.uniform(-1, 1), 1.0, 0.0])
    w = rnd.choice(wls)
    call = {"entry": "trace", "Hx": 0.0, "Hy": Hy, "w": w, "distribution": name, "num_rays": n}
    try:
        with np.errstate(all="ignore"):
            if name in GQ:
                dist = LR.make_distribution(name)
                dist.generate_points(n)
                rays = G.quiet(o.trace, 0.0, Hy, w, n, dist)
                P = (np.array(dist.x, dtype=float), np.array(dist.y, dtype=float))
            else:
                rays = G.quiet(o.trace, 0.0, Hy, w, n, name)
                if name == "random":
                    # the named distribution draws from an unseeded generator: its call settles the
                    # number of points (read below before the second trace); the rays that are judged
                    # come from the same class with a seed, so that a run can be reproduced
                    named_count = o.surface_group.x.shape[1]
                    dist = LR.make_distribution(name, seed=rnd.randrange(1 << 30))
                    dist.generate_points(n)
                    rays = G.quiet(o.trace, 0.0, Hy, w, n, dist)
                    P = (np.array(dist.x, dtype=float), np.array(dist.y, dtype=float))
                else:
                    ref = LR.make_distribution(name)
                    ref.generate_points(n)
                    P = (np.array(ref.x, dtype=float), np.array(ref.y, dtype=float))
    except Exception as ex:
        out["error"] = "trace: %s: %s" % (type(ex).__name__, ex)
        out["call"] = call
        return out
    nr = o.surface_group.x.shape[1]
    if name == "random" and named_count != nr:
        nr = named_count          # (reported by the count clause)
        P = None
    if P is not None and len(P[0]) != nr:
        P = None          # the count clause below reports it; pupil points cannot be paired
    pick = sorted(rnd.sample(range(nr), min(nr, nper)))
    evs = LR.ray_events(o, ld, 0.0, Hy, P, w, rays, "trace", pick=pick)
    for e in evs:
        e["_call"] = len(out["calls"])
    out["calls"].append(call)
    out["events"] += evs
    de = LR.dist_event(name, n, [], [], cnt=nr, pts=False)
    de["_call"] = len(out["calls"]) - 1
    de["entry"] = "trace"
    out["events"].append(de)
    return out


def record_calls(task):
    """Outcome of both entry points for one lens in one of the 24 cells."""
    seed, cell = task
    ap, ft, inf, tel = cell
    res = []
    try:
        o, meta, rnd = build(seed, cell)
    except Exception as ex:
        return [{"cell": cell, "seed": seed, "entry": "build", "outcome": type(ex).__name__, "msg": str(ex)}]
    w = o.primary_wavelength
    for entry in ("trace_generic", "trace"):
        try:
            with np.errstate(all="ignore"):
                if entry == "trace_generic":
                    G.quiet(o.trace_generic, 0.0, 0.5, np.array([0.0, 0.3]), np.array([0.0, -0.4]), w)
                else:
                    G.quiet(o.trace, 0.0, 1.0, w, 2, "hexapolar")
            outcome, msg = "rays", ""
        except Exception as ex:
            outcome, msg = type(ex).__name__, str(ex)
        res.append({"cell": cell, "seed": seed, "entry": entry, "outcome": outcome, "msg": msg})
    return res


def sampling_events(rnd, quick):
    evs = []
    ns = [1, 2, 3, 4, 5, 6, 7, 8, 11, 16, 21, 26] if quick else list(range(1, 41)) + [51, 64]
    for name in NAMED:
        for n in ns:
            if name == "uniform" and n < 2:
                continue      # one grid point at (-1, -1): an empty sampling (not judged, see assumptions)
            d = LR.make_distribution(name, seed=n)       # ('random': seeded, so that the record is reproducible)
            d.generate_points(n)
            evs.append(LR.dist_event(name, n, d.x, d.y))
    # every ray count up to a few hundred, number of points only (a count that depends on floating-point
    # rounding goes wrong for a few per cent of the counts, none of them small)
    for name in NAMED:
        if name == "uniform":
            continue          # (its documented count is an enumeration of the grid: judged for the small n above)
        for n in range(27 if quick else 65, 301 if quick else 1001):
            d = LR.make_distribution(name, seed=n)
            d.generate_points(n if name != "hexapolar" else min(n, 60))
            evs.append(LR.dist_event(name, n if name != "hexapolar" else min(n, 60), [], [], cnt=len(d.x), pts=False))
    for name in GQ:
        for n in range(1, 7):
            d = LR.make_distribution(name)
            d.generate_points(n)
            evs.append(LR.dist_event(name, n, d.x, d.y))
    nv = 0
    for name in NAMED + GQ:
        for n in ([3, 6] if quick else [2, 3, 5, 6]):
            for rep in range(1 if quick else 3):
                vx = rnd.choice([0.0, 1.0, rnd.random(), rnd.random()])
                vy = rnd.choice([0.0, 1.0, rnd.random(), rnd.random()])
                a = LR.make_distribution(name, seed=1000 + nv)
                b = LR.make_distribution(name, seed=1000 + nv)
                a.generate_points(n)
                b.generate_points(n, vx, vy)
                evs.append(LR.vig_event(name, n, vx, vy, (a.x, a.y), (b.x, b.y)))
                nv += 1
    return evs


def fl(d):
    return float(undy(d))


def real_corruptions(ev, rnd):
    """Single-field corruptions of an accepted real ray event -> (event, admissible clauses)."""
    out = []
    c = ev["cell"]

    def put(path, val, clauses):
        out.append((LR.apply_corruption(ev, path, val), clauses))
    M = fl(ev["d"][1])
    if abs(M) > 1e-3 and ev["hasP"] and not ev["vig"]:
        put(("d", 1), dy(-M), ["aim", "field_angle_y", "tele_azimuth", "aim_shrinks", "aim_in_pupil", "tele_cone"])
    if not ev["vig"] and ev["hasP"]:
        y = fl(ev["o"][1])
        put(("o", 1), dy(y + 1e-6 * (1 + abs(y))), ["aim", "origin_height", "origin_angle"])
        if not c["tel"] and ev["hasP"] and (abs(fl(ev["Px"])) > 0.05 or abs(fl(ev["Py"])) > 0.05):
            put(("EPD",), dy(fl(ev["EPD"]) * 1.0001), ["aim"])
            if abs(M) > 1e-3:     # (a ray parallel to the axis does not depend on EPL)
                put(("EPL",), dy(fl(ev["EPL"]) + 1e-3 * (1 + abs(fl(ev["EPL"])))), ["aim", "origin_angle"])
    put(("i",), dy(1.0 - 1e-12), ["intensity"])
    put(("opd",), dy(1e-12), ["opd"])
    put(("d", 2), dy(fl(ev["d"][2]) * (1 + 1e-9)), ["unit"])
    if c["ft"] == "angle" and abs(fl(ev["ty"])) > 1e-3:
        put(("ty",), dy(fl(ev["ty"]) * (1 + 1e-5)), ["certificate"])
        put(("Hy",), dy(fl(ev["Hy"]) * 0.999), ["certificate"])
    if c["ft"] == "object_height" and abs(fl(ev["Hy"])) > 0.01:
        put(("Hy",), dy(fl(ev["Hy"]) * (1 - 1e-9)), ["origin_height"])
    return out


def main(ctx):
    quick = ctx.tier == "quick"
    rnd = random.Random(ctx.seed)
    pool = ProcessPoolExecutor(max_workers=12)
    # ---- recording runs next to the model checking ---------------------------------------------
    nper = 9 if quick else 12
    per_cell = 8 if quick else 200
    ltasks = []
    for ci, cell in enumerate(ACCEPTED):
        for j in range(per_cell):
            ltasks.append((ctx.seed * 100003 + 1000 * ci + j, cell, j % 3 == 2, j % 4 == 1, nper, False))
        if not cell[3]:      # directed: stop behind the rear focal point (real entrance pupil in front of the lens)
            for j in range(1 if quick else 5):
                ltasks.append((ctx.seed * 100003 + 1000 * ci + 900 + j, cell, False, False, nper, True))
    fut_l = [pool.submit(record_lens, t) for t in ltasks]
    ncall = 3 if quick else 12
    ctasks = [(ctx.seed * 7717 + 100 * ci + j, cell) for ci, cell in enumerate(LR.CELL_ORDER) for j in range(ncall)]
    fut_c = [pool.submit(record_calls, t) for t in ctasks]

    # ---- 1. TLC on the model --------------------------------------------------------------------
    dump = os.path.join(ctx.work, "cells")
    ctx.model_check("MC_Launch", "MC_Launch.cfg", workers=2, timeout=300, args=["-dump", dump])
    ctx.model_check("MC_Launch", "MC_Launch_dist.cfg" if quick else "MC_Launch_dist_thorough.cfg", workers=8, timeout=600)
    ctx.model_check("MC_Launch", "MC_Launch_law.cfg", workers=4, timeout=300)
    with open(dump + ".dump") as fh:
        states = parse_dump(fh.read())
    table = {}
    for s in states:
        if s["pc"] == "called":
            continue
        c = s["cell"]
        key = (c["ap"], c["ft"], bool(c["inf"]), bool(c["tel"]))
        table.setdefault(key, set()).add({"launched": "rays", "error": "ValueError"}[s["pc"]])
    if len(table) != 24:
        raise T.MachineryError("decision table export has %d cells" % len(table))
    ctx.extra["decision_table"] = {"reject": sum(1 for v in table.values() if v == {"ValueError"}),
                                   "accept": sum(1 for v in table.values() if v == {"rays"}),
                                   "unspecified": sum(1 for v in table.values() if len(v) == 2)}

    # ---- 2. spec -> code: the table replayed into the implementation ------------------------------
    events = []
    info = {}

    def add(ev, **meta):
        ev = dict(ev)
        ev["id"] = len(events)
        info[ev["id"]] = meta
        events.append(ev)
        return ev["id"]
    ncalls = 0
    for f in fut_c:
        for r in f.result():
            cell = tuple(r["cell"])
            cname = LR.cell_name(dict(zip(("ap", "ft", "inf", "tel"), cell)))
            if r["entry"] == "build":
                ctx.report("raises", {"stage": "build", "cell": cname}, "cannot build a lens: %s %s" % (r["outcome"], r["msg"]),
                           {"seed": r["seed"], "cell": cell})
                continue
            ncalls += 1
            allowed = table[cell]
            if r["outcome"] not in allowed:
                clause = "not_rejected" if allowed == {"ValueError"} else "raises"
                ctx.report(clause, {"cell": cname, "entry": r["entry"], "outcome": r["outcome"]},
                           "%s on a lens with %s: TLC's table allows %s, the call gave %s %s"
                           % (r["entry"], cname, sorted(allowed), r["outcome"], r["msg"]),
                           {"seed": r["seed"], "cell": cell, "entry": r["entry"], "how": "harness.drivers.c03.build(seed, cell)"})
            if len(allowed) == 2:
                ctx.skip("objectNA with an infinite object: the property requires neither an error nor a value "
                         "(the library returns NaN rays)")
            # the same outcome also goes through Trace_Launch (JudgeCall)
            add({"kind": "call", "cell": dict(zip(("ap", "ft", "inf", "tel"), cell)), "outcome": r["outcome"]},
                what="call", seed=r["seed"], cell=cell, entry=r["entry"])
    ctx.extra["table_replay"] = {"cells": 24, "lenses_per_cell": ncall, "calls": ncalls}
    ctx.traces += ncalls
    ctx.exhaustive = True
    ctx.sample({"cell": "objectNA/object_height/finite/telecentric", "TLC_decision": "Accept", "calls": "returned rays"}, cap=1)

    # ---- 3. code -> spec -------------------------------------------------------------------------
    nl = 0
    bycell = {}
    for f in fut_l:
        r = f.result()
        cname = LR.cell_name(dict(zip(("ap", "ft", "inf", "tel"), r["cell"])))
        if r["error"]:
            ctx.report("one_stop" if r["error"].startswith("stop:") else "raises",
                       {"stage": r["error"].split(":")[0], "cell": cname}, "%s (seed %d)" % (r["error"], r["seed"]),
                       {"seed": r["seed"], "cell": r["cell"], "vig": r["vig"], "wide": r["wide"], "call": r.get("call")})
            continue
        if r["skip"]:
            ctx.skip(r["skip"])
            continue
        nl += 1
        for e in r["events"]:
            add(_strip(e), what=e["kind"], seed=r["seed"], cell=r["cell"], vig=r["vig"], wide=r["wide"], rear=r["rear"],
                call=r["calls"][e["_call"]], ray=e.get("_r"), ld=r["ld"], cname=cname)
            bycell[cname] = bycell.get(cname, 0) + (e["kind"] == "ray")
    pool.shutdown()
    for e in sampling_events(rnd, quick):
        add(e, what=e["kind"], name=e["name"], n=e["n"])
    ctx.extra["lenses_recorded"] = nl
    ctx.extra["ray_events_by_cell"] = bycell
    kinds = {}
    for e in events:
        kinds[e["kind"]] = kinds.get(e["kind"], 0) + 1
    ctx.extra["events_by_kind"] = kinds
    verdicts = ctx.validate("Trace_Launch", events, shards=16, count_traces=nl * 3 + kinds.get("dist", 0) + kinds.get("vig", 0),
                            timeout=900)
    accepted = []
    xsigns = {"same_as_Hx": 0, "opposite_to_Hx": 0}
    for e in events:
        m = info[e["id"]]
        fails = verdicts[e["id"]]
        if e["kind"] == "ray":
            hx, L = fl(e["Hx"]), fl(e["d"][0]) if e["d"][0]["k"] == "fin" else 0.0
            if hx != 0 and L != 0 and e["cell"]["ft"] == "angle" and e["cell"]["inf"]:
                xsigns["same_as_Hx" if (hx > 0) == (L > 0) else "opposite_to_Hx"] += 1
            if not fails:
                accepted.append(e)
        for clause in fails:
            if e["kind"] == "ray":
                oz = fl(e["o"][2]) if e["o"][2]["k"] == "fin" else float("nan")
                cls = {"cell": m["cname"], "entry": e["entry"], "vignetted": bool(e["vig"]),
                       "entrance_pupil_in_front_of_launch_point": bool(fl(e["EPL"]) < oz)}
                ctx.report(clause, cls, "lens seed %d (%s): ray %s of %s: clause %s fails"
                           % (m["seed"], m["cname"], m["ray"], m["call"], clause),
                           {"seed": m["seed"], "cell": m["cell"], "vig": m["vig"], "wide": m["wide"], "rear": m["rear"],
                            "call": m["call"], "ray": m["ray"], "lens_data": m["ld"],
                            "record": {"o": [fl(v) if v["k"] == "fin" else v["k"] for v in e["o"]],
                                       "d": [fl(v) if v["k"] == "fin" else v["k"] for v in e["d"]]},
                            "how": "harness.drivers.c03.build(seed, cell, vig, wide, rear)"})
            elif e["kind"] == "call":
                pass      # already reported from TLC's table above (same decision function)
            elif e.get("entry") == "trace":
                ctx.report(clause, {"sampling": e["name"], "entry": "trace"},
                           "optic.trace(%s): %d rays launched for %s(%d)" % (m["call"], e["cnt"], e["name"], e["n"]),
                           {"seed": m["seed"], "cell": m["cell"], "vig": m["vig"], "wide": m["wide"], "rear": m["rear"],
                            "call": m["call"]})
            else:
                ctx.report(clause, {"sampling": e["name"], "kind": e["kind"]},
                           "%s(%d): clause %s fails" % (e["name"], e["n"], clause), {"name": e["name"], "n": e["n"]})
    ctx.extra["ray_events_accepted"] = len(accepted)
    ctx.extra["observed_sign_of_dx_dz_for_Hx"] = xsigns
    if accepted:
        a = accepted[len(accepted) // 2]
        m = info[a["id"]]
        ctx.sample({"lens_seed": m["seed"], "cell": m["cname"], "call": {k: v for k, v in m["call"].items() if k not in ("Px", "Py")},
                    "ray": m["ray"], "origin": [fl(v) for v in a["o"]], "direction": [fl(v) for v in a["d"]],
                    "EPL": m["ld"]["EPL"], "EPD": m["ld"]["EPD"], "verdict": "accepted"})
    # the table decisions as judged by Trace_Launch must agree with the dump (one decision function)
    for e in events:
        if e["kind"] == "call":
            c = e["cell"]
            allowed = table[(c["ap"], c["ft"], c["inf"], c["tel"])]
            if (e["outcome"] in allowed) != (not verdicts[e["id"]]):
                raise T.MachineryError("JudgeCall and the dumped table disagree on %s" % (c,))

    # ---- calibration ---------------------------------------------------------------------------------
    cal, expect = [], {}
    wit = LR.witness_events()
    for w in wit:
        w = dict(w)
        w["id"] = len(cal)
        expect[w["id"]] = None
        cal.append(w)
    for wi, path, val, clause in LR.witness_corruptions():
        c = LR.apply_corruption(wit[wi], path, val)
        c["id"] = len(cal)
        expect[c["id"]] = [clause]
        cal.append(c)
    by = {}
    for e in accepted:
        by.setdefault(LR.cell_name(e["cell"]) + ("/vig" if e["vig"] else ""), []).append(e)
    ncorr_real = 0
    for key in sorted(by):
        for e in rnd.sample(by[key], min(len(by[key]), 2 if quick else 6)):
            for c, clauses in real_corruptions(e, rnd):
                c["id"] = len(cal)
                expect[c["id"]] = clauses
                cal.append(c)
                ncorr_real += 1
    # samplings and calls
    d = LR.make_distribution("hexapolar")
    d.generate_points(2)
    good = LR.dist_event("hexapolar", 2, d.x, d.y)
    for mod, clause in ((lambda e: e["x"].__setitem__(3, dy(1.0 + 1e-9)), "inside_unit_pupil"),
                        (lambda e: e.__setitem__("cnt", 18), "count"),
                        (lambda e: e["x"].pop(), "count_arrays")):
        c = copy.deepcopy(good)
        mod(c)
        c["id"] = len(cal)
        expect[c["id"]] = [clause]
        cal.append(c)
    gv = LR.vig_event("ring", 4, 0.25, 0.5, ([1.0, 0.0, -1.0, 0.0], [0.0, 1.0, 0.0, -1.0]), ([0.75, 0.0, -0.75, 0.0], [0.0, 0.5, 0.0, -0.5]))
    c = copy.deepcopy(gv)
    c["id"] = len(cal)
    expect[c["id"]] = None
    cal.append(c)
    c = copy.deepcopy(gv)
    c["x1"][0] = dy(1.0000001)
    c["id"] = len(cal)
    expect[c["id"]] = ["vignetting_shrinks"]
    cal.append(c)
    for cell, outcome, clause in ((("EPD", "angle", True, False), "ValueError", "raises"),
                                  (("EPD", "object_height", True, False), "rays", "not_rejected"),
                                  (("objectNA", "object_height", False, True), "TypeError", "raises")):
        cal.append({"id": len(cal), "kind": "call", "cell": dict(zip(("ap", "ft", "inf", "tel"), cell)), "outcome": outcome})
        expect[cal[-1]["id"]] = [clause]
    if ncorr_real < 20 and not ctx.violations:
        # (with violations to show, e.g. a clause failing on every ray, the verdict stands on its own;
        # the hand-built witnesses and their corruptions below still calibrate the spec)
        raise T.MachineryError("calibration: too few accepted ray events to corrupt (%d corruptions)" % ncorr_real)
    cv = ctx.validate("Trace_Launch", cal, shards=8, count_traces=0, timeout=600)
    missed = []
    for cid, clauses in expect.items():
        got = cv[cid]
        if clauses is None:
            if got:
                raise T.MachineryError("hand-built witness rejected: %s" % got)
        elif not (set(got) & set(clauses)):
            missed.append((cid, clauses, got, cal[cid].get("cell")))
    ctx.extra["calibration"] = {"witnesses": len(wit) + 1, "corrupted_records": len(cal) - len(wit) - 1,
                                "of_which_real_events": ncorr_real, "missed": len(missed)}
    if missed:
        raise T.MachineryError("corrupted records not rejected (spec too permissive): %s" % missed[:3])
    ctx.assumptions += [
        "EPL() and EPD() are recorded data (their correctness is C04's business); EPL is measured from the vertex of "
        "surface 1 at z = 0",
        "tan(field angle) is a logged certificate (libm) validated in the spec: degrees -> radians by a bracket of pi, "
        "tan by its degree-11 Taylor polynomial with a rigorous remainder bound (|angle| <= 1 rad)",
        "sign conventions fixed in spec/Launch.tla: positive field angle = rays travel towards +y (object point below the "
        "axis); positive object height = object point at +y; for Hx only the magnitude of the x slope is judged "
        "(the observed sign is in coverage.observed_sign_of_dx_dz_for_Hx)",
        "objectNA with an infinite object is excluded: the property requires neither an error nor a value (NaN rays)",
        "the uniform sampling is judged for n >= 2 (one grid point per axis lies at (-1, -1): an empty sampling); grid "
        "points exactly on the unit circle are decided by float rounding, so the count may lie between the open- and "
        "closed-disk counts",
        "pupil points of optic.trace are paired with a separately generated sampling of the same name and size "
        "(not possible for 'random': only count, aim inside the pupil and the field relations are judged)",
        "object surface is a plane in air (n0 = 1) in every generated lens",
    ]


def replay(ctx, rep):
    """./check C03 --replay <file>: rebuilds the seeded lens, repeats the recorded call, judges it again."""
    r = rep.get("repro", {})
    if "seed" not in r or "cell" not in r:
        raise T.MachineryError("replay file has no reproducible case")
    res = record_lens((r["seed"], tuple(r["cell"]), r.get("vig", False), r.get("wide", False), 9, r.get("rear", False)))
    if res["error"] or res["skip"]:
        raise T.MachineryError("replay: %s" % (res["error"] or res["skip"]))
    events = []
    for e in res["events"]:
        e = _strip(e)
        e["id"] = len(events)
        events.append(e)
    v = ctx.validate("Trace_Launch", events, shards=4)
    cname = LR.cell_name(dict(zip(("ap", "ft", "inf", "tel"), res["cell"])))
    for e in events:
        for clause in v[e["id"]]:
            if e["kind"] != "ray":
                ctx.report(clause, {"sampling": e["name"], "entry": "trace"}, "replay", r)
                continue
            oz = fl(e["o"][2]) if e["o"][2]["k"] == "fin" else float("nan")
            ctx.report(clause, {"cell": cname, "entry": e["entry"], "vignetted": bool(e["vig"]),
                                "entrance_pupil_in_front_of_launch_point": bool(fl(e["EPL"]) < oz)},
                       "replay of seed %s: clause %s fails" % (r["seed"], clause), r)
    ctx.sample({"replayed_seed": r["seed"], "cell": cname, "events": len(events)})
