"""C17 - Fresnel coefficients conserve energy; polarization elements obey their algebra.

One specification (spec/Polarization.tla, written against an arithmetic
interface) is used three ways:

1. MC_Polarization: TLC checks the law module itself on an exact rational grid
   (Pythagorean incidence / refraction / element angles): the textbook Fresnel
   relations imply R + T = 1, Brewster and the normal-incidence value; ideal
   element matrices satisfy the algebra; perturbed / wrong witnesses are
   rejected; |J e|^2 + |J e_perp|^2 does not depend on e.
2. spec -> code: the same run exports every Fresnel / retarder / diattenuator
   case with exactly computed rational expectations; the real classes are fed
   the inputs and their matrices compared with what TLC computed.
3. code -> spec: JonesFresnel on random index pairs / angles (transmit and
   reflect), every Jones element class at random angles / retardances, and
   polarized lens traces (six named states, arbitrary (Ex, Ey, phase) states,
   unpolarized against two orthogonal states; single Fresnel-coated plane
   surfaces at oblique incidence) are recorded as exact dyadic numbers and
   judged by TLC (Trace_Polarization).
Calibration on every run: single-field corruptions of recorded events must be
rejected, otherwise the run is a machinery failure.
"""
import copy
import math
import random
from concurrent.futures import ProcessPoolExecutor
from fractions import Fraction

import numpy as np

from harness import lensgen as G
from harness import polrec as R
from harness import tlc as T
from harness.dy import dy, undy
from harness.parse_tla import parse_value


# ------------------------------------------------------------------ spec -> code
def parse_cases(out):
    """Multi-line PrintT values << "CASE", ... >> from TLC's output."""
    cases, buf, depth = [], None, 0
    for line in out.splitlines():
        if buf is None:
            if line.startswith('<< "CASE"') or line.startswith('<<"CASE"'):
                buf, depth = [], 0
            else:
                continue
        buf.append(line)
        depth += line.count("<<") - line.count(">>")
        if depth == 0:
            cases.append(parse_value(" ".join(buf)))
            buf = None
    return cases


def q(rec):
    return Fraction(undy(rec["n"])) / Fraction(undy(rec["d"]))


def qc(pair):
    return complex(float(q(pair[0])), float(q(pair[1])))


def replay_cases(ctx, cases):
    """Feed TLC's cases to the real classes; compare with TLC's expectations."""
    from optiland import jones as J
    from optiland.materials import IdealMaterial
    tol = 1e-12
    n = {"fresnel": 0, "retarder": 0, "diattenuator": 0}
    for c in cases:
        fam = c[1]
        n[fam] += 1
        if fam == "fresnel":
            n1, n2, si, ci, rs, rp, ts, tp = [q(x) for x in c[2:10]]
            aoi = np.array([math.atan2(float(si), float(ci))])
            jf = J.JonesFresnel(IdealMaterial(n=float(n1)), IdealMaterial(n=float(n2)))
            Mt = jf.calculate_matrix(R._rays(1), reflect=False, aoi=aoi)[0]
            Mr = jf.calculate_matrix(R._rays(1), reflect=True, aoi=aoi)[0]
            got = [Mr[0, 0], abs(Mr[1, 1]), Mt[0, 0], Mt[1, 1]]
            want = [float(rs), abs(float(rp)), float(ts), float(tp)]
            bad = [nm for nm, g, w in zip(("r_s", "r_p", "t_s", "t_p"), got, want) if not abs(g - w) <= tol]
            for nm in bad:
                ctx.report("matrix_vs_model", {"element": "JonesFresnel", "entry": nm},
                           "JonesFresnel n1=%s n2=%s sin(aoi)=%s: %s differs from the exact value" % (n1, n2, si, nm),
                           {"n1": str(n1), "n2": str(n2), "sin_aoi": str(si), "got": [str(g) for g in got],
                            "want": [str(w) for w in want]})
        else:
            st, ct = float(q(c[2])), float(q(c[3]))
            theta = math.atan2(st, ct)
            want = np.array([[qc(z) for z in row] for row in c[6]])
            if fam == "retarder":
                d = 2.0 * math.atan2(float(q(c[4])), float(q(c[5])))
                el = J.JonesLinearRetarder(d, theta)
                cls = {"element": "JonesLinearRetarder"}
                alt = want.conj()                  # the phase sign convention is not part of the property
                rep = {"retardance": d, "theta": theta}
            else:
                tmax, tmin = float(q(c[4])), float(q(c[5]))
                el = J.JonesLinearDiattenuator(tmin, tmax, theta)
                cls = {"element": "JonesLinearDiattenuator", "t_max_nonzero": tmax != 0.0}
                alt = want
                rep = {"t_max": tmax, "t_min": tmin, "theta": theta}
            got = el.calculate_matrix(R._rays(1))[0][:2, :2]
            if not (np.abs(got - want).max() <= tol or np.abs(got - alt).max() <= tol):
                rep.update(got=str(got.tolist()), want=str(want.tolist()))
                ctx.report("matrix_vs_model", cls,
                           "%s differs from the textbook matrix R(theta) diag(u, v) R(-theta)" % cls["element"], rep)
    return n


# ------------------------------------------------------------------ calibration
def _pert(d, delta=None, factor=None):
    x = float(undy(d))
    return dy(x + delta if delta is not None else x * factor)


def corruptions(e):
    """Single-field corruptions of an accepted event -> [(event, admissible clauses or None=any)]."""
    out = []

    def mk(fn, clauses):
        c = copy.deepcopy(e)
        fn(c)
        out.append((c, clauses))
    t = e["t"]
    if t == "fresnel":
        n1, n2 = float(undy(e["n1"])), float(undy(e["n2"]))
        rs = float(undy(e["Mr"][0][0][0]))
        ci = float(undy(e["ci"]))
        if abs(n1 - n2) > 1e-3:
            def swap(c):
                c["n1"], c["n2"] = c["n2"], c["n1"]
            mk(swap, None)
        if abs(rs) > 1e-4:
            mk(lambda c: c["Mr"][0][0].__setitem__(0, dy(-rs)), ["r_s"])
        mk(lambda c: c["Mt"][0][0].__setitem__(0, _pert(c["Mt"][0][0][0], delta=1e-6)), ["t_s", "energy_s"])
        mk(lambda c: c["Mt"][1][1].__setitem__(0, _pert(c["Mt"][1][1][0], delta=-1e-6)), ["t_p", "energy_p"])
        mk(lambda c: c["Mr"][1][1].__setitem__(0, _pert(c["Mr"][1][1][0], delta=1e-6)), ["r_p", "energy_p"])
        if ci < 0.999:
            mk(lambda c: c.__setitem__("ct", _pert(c["ct"], factor=1 + 1e-6)), ["certificate", "domain"])
        mk(lambda c: c["Mt"][0][1].__setitem__(0, dy(1e-6)), ["fresnel_shape"])
    elif t == "element":
        mk(lambda c: c["M"][0][1].__setitem__(0, _pert(c["M"][0][1][0], delta=1e-6)), None)
        mk(lambda c: c["M"][1][1].__setitem__(1, _pert(c["M"][1][1][1], delta=1e-6)), None)
        mk(lambda c: c["M"][2][2].__setitem__(0, dy(0.0)), ["padding"])
        if e["kind"] in ("retarder", "quarter", "half"):
            hd = [float(undy(x)) for x in e["hd"]]
            th = [float(undy(x)) for x in e["cs"]]
            if e["kind"] == "retarder" and abs(hd[0]) > 0.01 and abs(hd[1]) > 0.01 and abs(abs(hd[0]) - abs(hd[1])) > 0.01:
                mk(lambda c: c.__setitem__("hd", [c["hd"][1], c["hd"][0]]), ["retardance"])
            if abs(hd[1]) > 0.01 and abs(th[0] * th[1]) > 0.01:
                mk(lambda c: c["cs"].__setitem__(1, dy(-th[1])), ["rotation_covariance"])
            mk(lambda c: c["hd"].__setitem__(0, _pert(c["hd"][0], delta=1e-6)), ["certificate", "retardance"])
    elif t == "trace":
        mk(lambda c: c.__setitem__("i", _pert(c["i"], factor=1 + 1e-6)), ["intensity_from_field", "intensity_preserved"])
        def scale_p(c):          # P -> (1 + 1e-6) P
            for row in c["P"]:
                for z in row:
                    z[0], z[1] = _pert(z[0], factor=1 + 1e-6), _pert(z[1], factor=1 + 1e-6)
        mk(scale_p, ["intensity_from_field"])

        def leak(c):             # P -> P + 1e-6 d E0^dagger: a longitudinal component of 1e-6
            f = lambda d: float(undy(d))
            st = c["st"]
            a1 = f(st["Ex"]) * complex(f(st["px"][0]), f(st["px"][1]))
            a2 = f(st["Ey"]) * complex(f(st["py"][0]), f(st["py"][1]))
            e0 = [a1 * f(c["sv"][k]) + a2 * f(c["pv"][k]) for k in range(3)]
            for i in range(3):
                for j in range(3):
                    z = complex(f(c["P"][i][j][0]), f(c["P"][i][j][1])) + 1e-6 * f(c["d"][i]) * e0[j].conjugate()
                    c["P"][i][j] = [dy(z.real), dy(z.imag)]
        mk(leak, ["transverse"])
        def swapb(c):
            c["sv"], c["pv"] = c["pv"], c["sv"]
        mk(swapb, ["certificate"])
        mk(lambda c: c["st"].__setitem__("Ex", _pert(c["st"]["Ex"], delta=1e-6)), ["certificate"])
        def tip(c):
            c["d"][0] = _pert(c["d"][0], delta=1e-3)
            c["d"][1] = _pert(c["d"][1], delta=2e-3)
        mk(tip, ["transverse"])
        mk(lambda c: c.__setitem__("i", dy(float("nan"))), ["field_finite"])      # arrived, intensity NaN
        mk(lambda c: c["P"][1].__setitem__(2, [dy(float("nan")), dy(0.0)]), ["field_finite"])
    elif t == "surface":
        def swap(c):
            c["n1"], c["n2"] = c["n2"], c["n1"]
        if abs(float(undy(e["n1"])) - float(undy(e["n2"]))) > 1e-2 and float(undy(e["d0"][1])) > 1e-2:
            mk(swap, ["certificate"])
        mk(lambda c: c.__setitem__("ih", _pert(c["ih"], factor=1 + 1e-6)), ["surface_t_s"])
        mk(lambda c: c.__setitem__("iv", _pert(c["iv"], factor=1 - 1e-6)), ["surface_t_p"])
        if float(undy(e["d0"][1])) > 0.2:
            mk(lambda c: c.__setitem__("ih", c["iv"]), ["surface_t_s"])       # s and p interchanged
    elif t == "inlens":
        mk(lambda c: c.__setitem__("ipass", c["iblock"]), ["element_passes_stated_state"])     # handedness interchanged
        mk(lambda c: c.__setitem__("iblock", _pert(c["iblock"], delta=1e-6)), ["element_blocks_orthogonal_state"])
        mk(lambda c: c.__setitem__("iunpol", _pert(c["iunpol"], factor=1 + 1e-6)), ["unpolarized_mean"])
        mk(lambda c: c.__setitem__("itwice", _pert(c["itwice"], factor=1 - 1e-6)), ["element_idempotent_in_trace"])
    elif t == "unpol":
        mk(lambda c: c.__setitem__("iu", _pert(c["iu"], factor=1 + 1e-6)), ["unpolarized_mean"])
        mk(lambda c: c.__setitem__("sb", copy.deepcopy(c["sa"])), ["certificate"])
    return out


# ------------------------------------------------------------------ main
def main(ctx):
    quick = ctx.tier == "quick"
    rnd = random.Random(ctx.seed * 1000003 + 17)

    # ---- 1. the model, and export of the cases -------------------------------
    r = ctx.model_check("MC_Polarization", "MC_Polarization.cfg", workers=16,
                        timeout=300 if quick else 600)
    counts = r.prints("COUNTS")
    cases = parse_cases(r.out)
    seen, uniq = set(), []
    for c in cases:
        key = repr(c)
        if key not in seen:
            seen.add(key)
            uniq.append(c)
    if not counts or len(uniq) != sum(counts[0][1:4]):
        raise T.MachineryError("exported %d cases, model announces %s" % (len(uniq), counts))
    ctx.exhaustive = True      # the rational grid is enumerated completely
    ctx.extra["model_cases"] = {"fresnel": counts[0][1], "retarder": counts[0][2],
                                "diattenuator": counts[0][3], "all_states": counts[0][4]}
    replayed = replay_cases(ctx, uniq)
    ctx.extra["cases_replayed_into_code"] = replayed
    ctx.traces += len(uniq)
    c0 = uniq[0]
    ctx.sample({"model_case": c0[1], "values": [str(q(x)) for x in c0[2:10] if isinstance(x, dict)]})

    # ---- 2. record the implementation -----------------------------------------
    nf = 140 if quick else 4000
    fev, fskip = R.fresnel_events(R.fresnel_inputs(rnd, nf))
    if fskip:
        ctx.skip("within the shell around the critical angle / grazing incidence (ct < %g or ci < %g)"
                 % (R.CT_MIN, R.CI_MIN), fskip)
    eev = R.element_events(rnd, 240 if quick else 4500)
    nl = 36 if quick else 800
    jobs = []
    for i in range(nl):
        mode = "bare" if i % 2 == 0 else ("mixed" if i % 6 == 3 else "fresnel")
        tilts = (i % 6) in (4, 5)
        mirrors = (i % 8) in (0, 6)
        jobs.append((ctx.seed * 7919 + i, mode, tilts, mirrors, 3 if quick else 4, 4 if quick else 5,
                     mode == "fresnel" and (i % 4 == 1)))
    sjobs = [(ctx.seed * 104729 + i,) for i in range(40 if quick else 1000)]
    with ProcessPoolExecutor(max_workers=16) as ex:
        lres = list(ex.map(R.lens_job, jobs, chunksize=2))
        lres += list(ex.map(R.surface_job, sjobs, chunksize=4))
        lres += list(ex.map(R.inlens_job, [(ctx.seed * 1299709 + i,) for i in range(24 if quick else 600)], chunksize=4))
        lres += list(ex.map(R.monocentric_job, [(ctx.seed * 15485863 + i,) for i in range(12 if quick else 300)], chunksize=4))
    lev, ntraces, nlens = [], 0, 0
    for res in lres:
        if res.get("error"):
            ctx.report("raises", {"stage": res["error"].split(":")[0]}, res["error"],
                       {"seed": res["seed"], "lens": res.get("desc")})
            continue
        nlens += 1
        ntraces += res["traces"]
        if res["skipped"]:
            ctx.skip("ray not traced to the image (non-finite record)", res["skipped"])
        lev += res["events"]
    events = fev + eev + lev
    for i, e in enumerate(events):
        e["id"] = i

    # ---- 3. calibration events (judged in the same TLC batch) -------------------
    by_t = {}
    for e in events:
        by_t.setdefault(e["t"], []).append(e)
    cal, expect = [], {}
    per = 6 if quick else 25
    for t, evs in sorted(by_t.items()):
        for e in rnd.sample(evs, min(per, len(evs))):
            for c, clauses in corruptions(e):
                c["id"] = len(events) + len(cal)
                expect[c["id"]] = (e["id"], clauses)
                cal.append(c)

    def clean(e):
        return {k: v for k, v in e.items() if not k.startswith("_")}
    verdicts = ctx.validate("Trace_Polarization", [clean(e) for e in events + cal], shards=16,
                            timeout=600 if quick else 1500,
                            count_traces=len(fev) + len(eev) + ntraces)

    # ---- 4. verdicts on the implementation -------------------------------------
    kinds, failing = {}, {}
    for e in events:
        key = e["t"] + ":" + (e.get("kind") or e["_cls"].get("coating", "") or "")
        kinds[key] = kinds.get(key, 0) + 1
        for clause in verdicts[e["id"]]:
            if clause == "certificate":
                raise T.MachineryError("recorder wrote an invalid certificate: %s %s" % (e["t"], e["_in"]))
            cls = dict(e["_cls"])
            cls.pop("state", None)
            cls.pop("regime", None)
            failing[clause] = failing.get(clause, 0) + 1
            ctx.report(clause, cls, "%s event: clause %s fails (%s)" % (e["t"], clause, e["_cls"]),
                       {"inputs": e["_in"], "class": e["_cls"],
                        "event": {k: v for k, v in clean(e).items() if k not in ("id",)}})
    ctx.extra["events"] = len(events)
    ctx.extra["events_by_kind"] = kinds
    ctx.extra["lenses"] = nlens - len([x for x in lres[len(jobs):] if not x.get("error")])
    ctx.extra["single_surface_systems"] = len([x for x in lres[len(jobs):len(jobs) + len(sjobs)] if not x.get("error")])
    ninl = 24 if quick else 600
    ctx.extra["polarizers_inside_a_lens"] = len([x for x in lres[len(jobs) + len(sjobs):len(jobs) + len(sjobs) + ninl] if not x.get("error")])
    ctx.extra["monocentric_oblique_field_lenses"] = len([x for x in lres[len(jobs) + len(sjobs) + ninl:] if not x.get("error")])
    ctx.extra["observations_outside_the_property"] = [
        "a Jones element handed to PolarizedRays.update acts in the local s/p frame of each ray at each surface: for an "
        "undeviated ray s = k x x^ (the y axis on axis), for a deviated one the normal of its plane of incidence - a "
        "JonesPolarizerH used as the coating of a plane window at normal incidence blocks the H state (Ex) and passes V; "
        "only frame-independent elements (circular polarizers) are judged inside a lens",
        "reflection: JonesFresnel returns diag(r_s, -r_p, -1) in the (s, k x s) bases of PolarizedRays.update, i.e. at "
        "normal incidence x- and y-polarized light are reflected with opposite signs (P = diag(0.2, -0.2, 1) for "
        "n = 1 -> 1.5); |r|^2 is right, the relative phase of s and p is off by pi (pinned by tests/test_jones.py)",
        "intensities reported with Fresnel coatings are |E|^2 without the (n2 cos t)/(n1 cos i) flux factor: a single "
        "glass -> air surface reports i = 1.76 / 1.95 (s / p at 30 deg)",
    ]
    ctx.extra["lens_traces"] = ntraces
    ctx.extra["fresnel_regimes"] = {k: sum(1 for e in fev if e["_cls"]["regime"] == k)
                                    for k in ("normal", "brewster", "near_limit", "oblique")}
    ctx.extra["failing_clauses_on_code"] = failing
    for e in (fev[:1] + eev[6:7] + lev[:1]):
        ctx.sample({"event": e["t"], "class": e["_cls"], "inputs": e["_in"], "verdict": verdicts[e["id"]]})

    # ---- calibration verdict -----------------------------------------------------
    missed, used = [], 0
    for cid, (orig, clauses) in expect.items():
        if verdicts[orig]:
            continue                      # only corruptions of accepted events count
        used += 1
        got = verdicts[cid]
        if not got or (clauses is not None and not (set(got) & set(clauses))):
            missed.append((cid, clauses, got))
    ctx.extra["calibration"] = {"corruptions_of_accepted_events": used, "missed": len(missed)}
    if used < 20:
        raise T.MachineryError("calibration too thin: %d corruptions of accepted events" % used)
    if missed:
        bad = [(next(c for c in cal if c["id"] == m[0])["t"], m[1], m[2]) for m in missed[:4]]
        raise T.MachineryError("corrupted events not rejected (spec too permissive): %s" % bad)
    ctx.assumptions += [
        "cos(aoi), cos/sin of element angles, of half retardances and of state phases are libm certificates; "
        "validated polynomially (Snell relation between ci and ct, c^2+s^2=1) but their link to the angle passed to the code is trusted",
        "indices are real (IdealMaterial, k = 0) in [1, 4]; Fresnel cases keep ct >= 0.02 and ci >= 0.01 "
        "(the implementation's sqrt(n^2 - sin^2) loses bits at the critical angle); tolerance 2^-34 of the term scale",
        "the sign convention of r_p (Fresnel/Verdet) and of the retarder phase (e^{-+i d/2}) is not part of the property: both accepted",
        "lens traces: standard surfaces without apertures, absorbing media or SimpleCoating, so that the scalar intensity "
        "factor applied by update_intensity is 1; FresnelCoating only on refracting surfaces",
        "the launch basis (s = projection of the local x axis, p = d0 x s) is the library's documented convention "
        "for Ex / Ey; the basis vectors are certificates validated in the spec",
    ]
