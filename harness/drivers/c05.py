"""C05 - real rays converge to the paraxial prediction as aperture and field vanish.

1. MC_Limit (TLC on the model): the Limit predicate of spec/Limit.tla accepts exact a eps^2 and
   a eps^2 + b eps^4 error sequences (also with noise below the carried rounding floor) and rejects
   a eps, constant-offset, stalled and slowly decaying sequences; the quantity-level judge (height,
   tangent, axial focus, orientation, stop x) and the scale-record validation on synthetic records.
2. code -> spec: for random lenses (spheres, conics, even aspheres without an r^2 term, mirrors, no
   tilts; finite and infinite objects; three aperture types; both field types) and bundled samples
   the marginal-type family (Hy = 0, pupil eps_j) and the chief-type family (field eps_j, pupil 0),
   eps_j = 2^-(4+j), j = 0..8, are traced with optic.trace_generic; per-surface y, M, N are recorded
   next to the library's paraxial marginal_ray() / chief_ray() - and next to Paraxial.trace(0, 1) /
   Paraxial.trace(1, 0), the paraxial trace by normalised coordinates - and judged by Trace_Limit in exact
   dyadic arithmetic: decay and end clauses for heights and tangents at every surface, axial focus
   against the paraxial image position (and F2() for an object at infinity), image height per unit
   field (chief height at the image surface), zero-pupil ray through the centre of the stop.
Calibration every run: corrupted records must be rejected, otherwise MachineryError.
"""
import copy
import math
import random
from concurrent.futures import ProcessPoolExecutor

import numpy as np

from harness import lensgen as G
from harness import limitrec as LM
from harness import tlc as T
from harness.dy import dy, undy


SRC = {"rays": "marginal_ray/chief_ray", "trace": "Paraxial.trace"}


def fl(d):
    return float(undy(d))


def rec_random(args):
    seed, lens_id = args
    rnd = random.Random(seed)
    try:
        o, meta = LM.random_lens(rnd)
    except Exception as ex:
        return {"error": "build: %s: %s" % (type(ex).__name__, ex), "seed": seed, "label": "seed %d" % seed}
    r = LM.record(o, "seed %d %s" % (seed, meta), lens_id)
    r["seed"] = seed
    return r


def rec_sample(args):
    name, lens_id = args
    cls = {c.__name__: c for c in G.sample_classes()}.get(name)
    if cls is None:
        return {"skip": "no such sample", "label": name, "events": [], "sample": name}
    try:
        o = G.quiet(cls)
    except Exception as ex:
        return {"skip": "sample cannot be built: %s" % type(ex).__name__, "label": name, "events": [], "sample": name}
    r = LM.record(o, name, lens_id)
    r["sample"] = name
    return r


def corruptions(scale, ev, rnd):
    """Corrupted copies of an accepted quantity event (one that has information above the floor)
    -> (scale, event, admissible clauses)."""
    out = []
    kind = ev["kind"]
    S = fl(ev["S"])
    if kind == "height":
        c = copy.deepcopy(ev)          # paraxial value off by 1e-4 of the family scale: wrong limit
        c["yp"] = dy(fl(ev["yp"]) + 1e-4 * S)
        out.append((scale, c, ["decay", "end"]))
        c = copy.deepcopy(ev)          # linear instead of quadratic convergence: Y_j += 1e-2 S s_j^2
        for j in range(LM.NJ):
            s = fl(scale["sn"][j]) / fl(scale["sd"])
            c["Y"][j] = dy(fl(ev["Y"][j]) + 1e-2 * S * s * s)
        out.append((scale, c, ["decay", "end"]))
        c = copy.deepcopy(ev)          # one traced value off
        s = fl(scale["sn"][2]) / fl(scale["sd"])
        c["Y"][2] = dy(fl(ev["Y"][2]) + 1e-3 * S * s)
        out.append((scale, c, ["decay", "end"]))
    elif kind == "tangent":
        c = copy.deepcopy(ev)
        c["up"] = dy(fl(ev["up"]) + 1e-4 * S)
        out.append((scale, c, ["decay", "end"]))
        c = copy.deepcopy(ev)
        for j in range(LM.NJ):
            s = fl(scale["sn"][j]) / fl(scale["sd"])
            c["M"][j] = dy(fl(ev["M"][j]) + 1e-2 * S * s * s)
        out.append((scale, c, ["decay", "end"]))
    elif kind == "focus":
        c = copy.deepcopy(ev)
        c["yp"] = dy(fl(ev["yp"]) * (1 + 1e-4) + 1e-4 * S)
        out.append((scale, c, ["decay", "end"]))
    sc = copy.deepcopy(scale)          # scale factor not the requested geometric sequence
    sc["sn"][3] = dy(fl(scale["sn"][3]) * 1.001)
    out.append((sc, copy.deepcopy(ev), ["~bad_scale"]))
    return out


def main(ctx):
    quick = ctx.tier == "quick"
    rnd = random.Random(ctx.seed)
    pool = ProcessPoolExecutor(max_workers=12)
    nrand = 50 if quick else 1500
    futs = [pool.submit(rec_random, (ctx.seed * 15485863 + i, i)) for i in range(nrand)]
    names = LM.SAMPLES[:6] if quick else [c.__name__ for c in G.sample_classes()]
    futs += [pool.submit(rec_sample, (nm, nrand + i)) for i, nm in enumerate(names)]

    # ---- 1. TLC on the model: the predicate itself ---------------------------------------------------
    ctx.model_check("MC_Limit", "MC_Limit.cfg", workers=8, timeout=600)

    # ---- 2. code -> spec ---------------------------------------------------------------------------------
    events, meta, lenses = [], {}, {}
    for f in futs:
        r = f.result()
        if r.get("error"):
            ctx.report("raises", {"stage": r["error"].split(":")[0]}, r["error"], {"seed": r.get("seed")})
            continue
        if r.get("skip"):
            ctx.skip(r["skip"])
            continue
        for note in r.get("notes", []):
            ctx.skip(note)
        lid = None
        for e in r["events"]:
            e["id"] = len(events)
            lid = e["lens"]
            meta[e["id"]] = r
            events.append(e)
        if lid is not None:
            lenses[lid] = r
    pool.shutdown()
    ctx.extra["lenses_recorded"] = len(lenses)
    ctx.extra["samples_recorded"] = sorted(r["sample"] for r in lenses.values() if r.get("sample"))
    bycls = {}
    for r in lenses.values():
        i = r["info"]
        key = "%s/%s/%s%s" % ("finite" if i["finite_object"] else "infinite", i["aperture"], i["field_type"],
                              "/mirror" if i["mirror"] else "")
        bycls[key] = bycls.get(key, 0) + 1
    ctx.extra["lenses_by_class"] = bycls
    verdicts = ctx.validate("Trace_Limit", events, shards=16, group="lens", count_traces=2 * len(lenses), timeout=1500)
    kinds, informative, below = {}, {}, {}
    scale_of = {}
    good = []
    for e in events:
        r = meta[e["id"]]
        v = verdicts[e["id"]]
        if e["kind"] == "scale":
            scale_of[(e["lens"], e["fam"], e["src"])] = e
            if v:
                raise T.MachineryError("scale record of %s rejected: %s" % (r["label"], v))
            continue
        key = "%s/%s/%s" % (e["fam"], e["kind"], SRC[e["src"]])
        kinds[key] = kinds.get(key, 0) + 1
        if e["kind"] != "stopx":
            if "~below_floor" in v:
                below[e["lens"]] = below.get(e["lens"], 0) + 1
            else:
                informative[e["lens"]] = informative.get(e["lens"], 0) + 1
                if not v:
                    good.append(e)
        i = r["info"]
        for clause in v:
            if clause.startswith("~"):
                continue
            cls = {"family": e["fam"], "quantity": e["kind"], "field_type": i["field_type"],
                   "finite_object": i["finite_object"], "mirror": i["mirror"], "paraxial_source": SRC[e["src"]]}
            if clause == "not_finite":
                cls = {"paraxial_source": SRC[e["src"]], "finite_object": i["finite_object"], "stop_first": i["stop"] == 1}
            what = "%s: %s-type family against %s, %s at surface %d: clause %s fails" % (
                r["label"], e["fam"], SRC[e["src"]], e["kind"], e["k"], clause)
            seq = {}
            for key2 in ("Y", "M", "N", "X"):
                if key2 in e:
                    seq[key2] = [fl(x) for x in e[key2]]
            ctx.report(clause, cls, what,
                       {"lens": r["label"], "seed": r.get("seed"), "sample": r.get("sample"), "family": e["fam"],
                        "paraxial_source": SRC[e["src"]],
                        "quantity": e["kind"], "surface": e["k"], "eps": LM.EPS, "recorded": seq,
                        "paraxial": {"yp": fl(e["yp"]) if "yp" in e else None, "up": fl(e["up"]) if "up" in e else None},
                        "info": {k: v2 for k, v2 in i.items() if k != "paraxial"}})
    nskip = 0
    for lid in lenses:
        if not informative.get(lid):
            nskip += 1
            ctx.skip("lens skipped: no quantity has four consecutive eps above the rounding floor")
    ctx.extra["quantity_events_by_kind"] = kinds
    ctx.extra["quantities_with_information"] = sum(informative.values())
    ctx.extra["quantities_below_floor_throughout"] = sum(below.values())
    ctx.extra["lenses_judged"] = len(lenses) - nskip
    gh = [e for e in good if e["kind"] == "height"]
    for e in (gh[len(gh) // 3], gh[2 * len(gh) // 3]) if gh else ():
        r = meta[e["id"]]
        sc = scale_of[(e["lens"], e["fam"], e["src"])]
        if e["kind"] == "height":
            err = [abs(fl(e["Y"][j]) * fl(sc["sd"]) / fl(sc["sn"][j]) - fl(e["yp"])) for j in range(LM.NJ)]
            ctx.sample({"lens": r["label"], "family": e["fam"], "quantity": "height at surface %d" % e["k"],
                        "paraxial": fl(e["yp"]), "|Y/s - y_p| for eps = 2^-4..2^-12": ["%.3e" % x for x in err],
                        "verdict": "accepted"})
    # ---- calibration -----------------------------------------------------------------------------------
    pick = rnd.sample(good, min(len(good), 10 if quick else 40))
    cal, expect = [], {}
    lens_no = 0
    for e in pick:
        sc = scale_of[(e["lens"], e["fam"], e["src"])]
        for sc2, c, clauses in corruptions(sc, e, rnd):
            lens_no += 1
            s2 = dict(sc2, id=len(cal), lens=lens_no)
            cal.append(s2)
            expect[s2["id"]] = ["certificate"] if clauses == ["~bad_scale"] else None
            c = dict(c, id=len(cal), lens=lens_no)
            cal.append(c)
            expect[c["id"]] = clauses
    if pick:       # an event presented under another lens's scale record
        e = pick[0]
        lens_no += 1
        cal.append(dict(scale_of[(e["lens"], e["fam"], e["src"])], id=len(cal), lens=lens_no))
        expect[cal[-1]["id"]] = None
        cal.append(dict(e, id=len(cal), lens=lens_no + 1000))
        expect[cal[-1]["id"]] = ["chain"]
    if len(cal) < 20:
        raise T.MachineryError("calibration: too few accepted quantities to corrupt (%d records)" % len(cal))
    cv = ctx.validate("Trace_Limit", cal, shards=8, group="lens", count_traces=0, timeout=900)
    missed = []
    for cid, clauses in expect.items():
        got = cv[cid]
        if clauses is None:
            if got:
                raise T.MachineryError("uncorrupted scale record rejected in calibration: %s" % got)
        elif not (set(got) & set(clauses)):
            missed.append((cid, clauses, got, cal[cid]["kind"]))
    ctx.extra["calibration"] = {"corrupted_records": sum(1 for v in expect.values() if v), "missed": len(missed)}
    if missed:
        raise T.MachineryError("corrupted records not rejected (spec too permissive): %s" % missed[:3])
    ctx.assumptions += [
        "marginal_ray(), chief_ray() and F2() are recorded data (their correctness is C04's business); the paraxial "
        "marginal ray corresponds to pupil 1, the chief ray to field 1",
        "scale factor of the chief-type family with angular fields: s = tan(eps F) / tan(F) (the paraxial chief ray is "
        "launched with slope tan F); tangents are libm certificates validated by the Taylor bracket of spec/Launch.tla",
        "rounding floor 2^-40 x (largest paraxial height / slope of the family), carried in the spec; a quantity with "
        "fewer than four consecutive eps above it is noted, not judged; a lens with no informative quantity is skipped",
        "the limit eps -> 0 is observed on eps = 2^-4 .. 2^-12 (2.4 decades), not proved",
        "lenses with an even-asphere r^2 coefficient are excluded (ignored by the paraxial trace: known C04 finding); "
        "lenses whose rays are launched backwards (known C03 finding) cannot be traced and are counted as skipped",
        "heights are compared at surfaces 1..K (the object-surface record of the paraxial arrays is a launch record, "
        "not a height on the object), direction tangents at surfaces 0..K",
    ]


def replay(ctx, rep):
    r = rep.get("repro", {})
    if r.get("sample"):
        rec = rec_sample((r["sample"], 0))
    elif r.get("seed") is not None:
        rec = rec_random((r["seed"], 0))
    else:
        raise T.MachineryError("replay file has no reproducible case")
    if rec.get("error") or rec.get("skip"):
        raise T.MachineryError("replay: %s" % (rec.get("error") or rec.get("skip")))
    events = rec["events"]
    for i, e in enumerate(events):
        e["id"] = i
    v = ctx.validate("Trace_Limit", events, shards=1, group="lens")
    i = rec["info"]
    for e in events:
        for clause in v[e["id"]]:
            if clause.startswith("~") or e["kind"] == "scale":
                continue
            ctx.report(clause, {"paraxial_source": SRC[e["src"]], "finite_object": i["finite_object"],
                                "stop_first": i["stop"] == 1} if clause == "not_finite" else
                               {"family": e["fam"], "quantity": e["kind"], "field_type": i["field_type"],
                                "finite_object": i["finite_object"], "mirror": i["mirror"],
                                "paraxial_source": SRC[e["src"]]},
                       "replay %s: %s %s at surface %d: %s" % (rec["label"], e["fam"], e["kind"], e["k"], clause), r)
    ctx.sample({"replayed": rec["label"], "events": len(events)})
