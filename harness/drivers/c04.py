"""C04 - paraxial properties equal matrix optics.

Three uses of spec/Paraxial.tla:

1. MC_Paraxial (exact small rationals, exhaustive grids): TLC computes every accessor and the
   marginal / chief rays from the system matrix and checks the theorems (det = 1 on (y, nu) and
   n_0/n_K on (y, u); matrix = surface-by-surface trace; Lagrange invariant constant; linearity;
   the matrix model satisfies the relational laws; perturbed records are rejected).
2. spec -> code: every grid lens of the dump is built through the public API and
   optic.paraxial.* is compared with the rationals TLC computed (1e-10 relative).
3. code -> spec: random float lenses and the bundled samples; what the implementation returns
   (accessors, marginal_ray(), chief_ray(), auxiliary rays from its own generic trace) is judged
   relationally by Trace_Paraxial in exact dyadic arithmetic.
Calibration every run: single-field corruptions of accepted records must be rejected.
"""
import copy
import math
import os
import random
import re
from concurrent.futures import ProcessPoolExecutor, ThreadPoolExecutor
from fractions import Fraction

import numpy as np

from harness import lensgen as G
from harness import parax as PX
from harness import tlc as T
from harness.dy import dy, undy

INVS = ("DetThm MatrixForms MatrixIsTrace ReverseRay LagrangeThm ModelSatisfiesLaws LawsNotVacuous")


def cfg_text(counts, rad, med, thk, asp, cfgs):
    st = lambda xs: "{" + ", ".join(str(x) for x in xs) + "}"
    return ("SPECIFICATION Spec\nCONSTANTS\n  Counts = %s\n  RadCodes = %s\n  MedCodes = %s\n  ThkCodes = %s\n"
            "  AspCodes = %s\n  Cfgs = %s\nINVARIANTS %s\nCHECK_DEADLOCK FALSE\n"
            % (st(counts), st(rad), st(med), st(thk), st(asp), st(cfgs), INVS))


ALLCFG = [1, 2, 3, 4, 5, 6, 7, 8]
# (name, counts, radius codes, medium codes, thicknesses, asphere codes, configs)
STRATA_QUICK = [
    ("one_surface", [1], [0, 8, 108, 16, 116, 32, 132], [1, 2, 3, 4], [1, 4], [0], ALLCFG),
    ("two_surfaces", [2], [0, 8, 116], [1, 2, 4], [2], [0], ALLCFG),
    ("asphere", [1], [0, 8, 116], [2, 4], [2], [1], [1, 3]),
]
STRATA_THOROUGH = [
    ("one_surface", [1], [0, 8, 108, 16, 116, 32, 132], [1, 2, 3, 4], [1, 4], [0], ALLCFG),
    ("two_surfaces", [2], [0, 8, 108, 16, 116], [1, 2, 3, 4], [1, 4], [0], ALLCFG),
    ("three_surfaces", [3], [0, 8, 116], [1, 2, 4], [2], [0], ALLCFG),
    ("asphere", [1, 2], [0, 8, 116], [2, 4], [2], [1], [1, 3]),
]


def parse_dump(path):
    """States of the MC_Paraxial dump that carry a result: (sf, s, cfg, out ints)."""
    with open(path) as fh:
        text = fh.read()
    cases = []
    for block in re.split(r"^State \d+:\s*$", text, flags=re.M)[1:]:
        m = re.search(r"out = <<(.*?)>>\s*/\\ thm", block, flags=re.S)
        if not m or not m.group(1).strip():
            continue
        out = [int(x) for x in re.findall(r"-?\d+", m.group(1))]
        lm = re.search(r"lens = \[(.*?)\]\s*/\\ out", block, flags=re.S)
        lens = lm.group(1)
        s = int(re.search(r"\bs \|-> (\d+)", lens).group(1))
        c = int(re.search(r"cfg \|-> (\d+)", lens).group(1))
        sf = [tuple(int(v) for v in q) for q in re.findall(r"<<(\d+),\s*(\d+),\s*(\d+),\s*(\d+)>>", lens)]
        cases.append((sf, s, c, out))
    return cases


def _q(out, i):
    n, d = out[2 * i], out[2 * i + 1]
    return None if d == 0 else Fraction(n, d)


def _close(got, exp, scale=1.0):
    if not math.isfinite(got):
        return False
    return abs(Fraction(got) - exp) <= Fraction(1, 10 ** 10) * abs(exp) + Fraction(1, 10 ** 12) * Fraction(scale)


def replay_cases(cases):
    """Build each grid lens with the public API, compare with TLC's rationals."""
    res = {"n": 0, "values": 0, "undefined": 0, "viol": [], "sample": None}
    for sf, s, cfg, out in cases:
        K = len(sf) + 1
        fin, apt, fdt = PX.CFG[cfg]
        info = {"sf": sf, "stop": s, "cfg": cfg}
        asph = any(q[3] == 1 for q in sf)
        mirrors = [j + 1 for j, q in enumerate(sf) if q[1] == 4]
        nacc = len(PX.ACC)
        exp = {name: _q(out, i) for i, name in enumerate(PX.ACC)}
        pos = nacc
        rays = {}
        for key in ("ma_y", "ma_u", "ch_y", "ch_u"):
            rays[key] = [_q(out, pos + j) for j in range(K + 1)]
            pos += K + 1
        assert 2 * pos == len(out), (len(out), pos)
        res["n"] += 1
        bad = []
        try:
            o = PX.build_grid_lens(sf, s, cfg)
            p = o.paraxial
            got = {}
            with np.errstate(all="ignore"):
                for name in PX.ACC:
                    got[name] = PX._f(getattr(p, PX.METHOD.get(name, name))())
                ym, um = PX._flt(*p.marginal_ray())
                yc, uc = PX._flt(*p.chief_ray())
        except Exception as ex:
            res["viol"].append(("raises", {"stage": "replay"}, "%s: %s" % (type(ex).__name__, ex), info))
            continue
        for name in PX.ACC:
            if exp[name] is None:
                res["undefined"] += 1
                continue
            res["values"] += 1
            if not _close(got[name], exp[name]):
                bad.append((name, "%s() = %r, matrix optics gives %s = %.12g" % (
                    PX.METHOD.get(name, name), got[name], exp[name], float(exp[name]))))
        for nm, gy, gu, ey, eu in (("marginal_ray", ym, um, rays["ma_y"], rays["ma_u"]),
                                   ("chief_ray", yc, uc, rays["ch_y"], rays["ch_u"])):
            if any(v is None for v in ey + eu):
                res["undefined"] += 1
                continue
            res["values"] += 2 * (K + 1)
            sc = max([abs(v) for v in ey] + [1])
            for j in range(K + 1):
                if nm == "chief_ray" and j == 0 and False:
                    continue
                if not (_close(gy[j], ey[j], sc) and _close(gu[j], eu[j])):
                    bad.append((nm, "%s()[%d] = (y %r, u %r), matrix optics gives (%.12g, %.12g)" % (
                        nm, j, gy[j], gu[j], float(ey[j]), float(eu[j]))))
                    break
        if res["sample"] is None and not bad and exp["f2"] is not None and exp["EPL"] is not None and len(sf) > 1:
            res["sample"] = {"grid_lens": info, "f2_TLC": str(exp["f2"]), "f2_code": got["f2"],
                             "EPL_TLC": str(exp["EPL"]), "EPL_code": got["EPL"]}
        if bad and asph:
            # the whole lens differs when the vertex curvature is not what the code uses
            res["viol"].append(("vertex_curvature", {"asphere_r2_term": True},
                                "even asphere with an r^2 coefficient: " + bad[0][1], info))
            continue
        for name, what in bad:
            if name in ("f2", "P2", "N1"):
                cls = {"f2_signed_negative": exp["f2"] is not None and exp["f2"] < 0}
            elif name == "chief_ray":
                cls = {"field_type": fdt, "stop_first": s == 1}
            elif name == "inv":
                name = "invariant"
                cls = {"field_type": fdt, "first_surface_mirror": 1 in mirrors}
            elif name == "mag":
                name = "magnification"
                cls = {"odd_mirrors": len(mirrors) % 2 == 1}
            else:
                cls = {"aperture": apt, "finite_object": fin}
            res["viol"].append((name, cls, "grid lens %s: %s" % (info, what), info))
    return res


def record_random(args):
    seed, catalogue = args[:2]
    force = args[2] if len(args) > 2 else None
    rnd = random.Random(seed)
    try:
        o, meta = PX.random_lens(rnd, catalogue=catalogue, force=force)
    except Exception as ex:
        return {"error": "build: %s: %s" % (type(ex).__name__, ex), "seed": seed}
    return _record(o, "seed %d %s" % (seed, meta), seed=seed)


def record_sample(name):
    cls = {c.__name__: c for c in G.sample_classes()}[name]
    try:
        o = G.quiet(cls)
    except Exception as ex:
        return {"error": "build sample: %s: %s" % (type(ex).__name__, ex), "sample": name}
    return _record(o, name, sample=name)


def _record(o, label, **kw):
    try:
        L, info = PX.describe(o)
    except PX.Unsupported as ex:
        return dict(kw, skip=str(ex), label=label)
    try:
        X, raw = G.quiet(PX.record, o, info)
    except Exception as ex:
        return dict(kw, error="record: %s: %s" % (type(ex).__name__, ex), label=label)
    keep = {k: info[k] for k in ("K", "stop", "finite_object", "aperture", "field_type", "mirrors", "odd_mirrors",
                                 "asphere_r2", "image_medium_differs")}
    return dict(kw, label=label, L=L, X=X, info=keep, raw={"A": raw["A"], "acc": raw["acc"]},
                presc={"n": info["n"], "z": info["pos"], "radii": info["radii"]})


def validate_events(module, events, workdir, shards):
    """T.validate_events; retried once if the scratch directory was removed under it (other
    checks running concurrently clean /verif/.work)."""
    for attempt in (0, 1):
        try:
            return T.validate_events(module, events, workdir, shards=shards)
        except FileNotFoundError:
            if attempt:
                raise T.MachineryError("scratch files of the trace validation disappeared twice")


def clauses_of(verdicts, eid):
    out = []
    for j in range(1, verdicts[eid] + 1):
        name, k = verdicts[-(128 * eid + j)].rsplit("@", 1)
        out.append((name, int(k)))
    return out


def corruptions(ev, rnd):
    """Single-field corruptions of an accepted event -> (event, clauses one of which must fire)."""
    out = []
    K = ev["L"]["K"]
    skips = ev["skips"]

    def fl(d):
        return float(undy(d))

    def acc(name, rel, expect):
        c = copy.deepcopy(ev)
        v = fl(c["X"]["acc"][name])
        c["X"]["acc"][name] = dy(v * (1 + rel) + rel * 1e-3 * (1 if v >= 0 else -1))
        out.append((c, expect))
    if "skip_afocal" not in skips:
        acc("f2", 1e-6, ["f2"])
        acc("F2", 1e-6, ["F2"])
        acc("P2", 1e-6, ["P2"])
        acc("f1", 1e-6, ["f1"])
        acc("F1", 1e-6, ["F1"])
        acc("N2", 1e-6, ["N2"])
    if "skip_EPL_infinite" not in skips:
        acc("EPL", 1e-6, ["EPL"])
        if "skip_XPL_infinite" not in skips and "skip_XPL_no_ray" not in skips:
            acc("XPL", 1e-6, ["XPL"])
            if "skip_marginal_undefined" not in skips and "skip_XPD_XPL_infinite" not in skips:
                acc("XPD", 1e-6, ["XPD"])
        if "skip_marginal_undefined" not in skips:
            if "skip_magnification_collimated" not in skips and ev["L"]["obj"]["inf"] is False:
                acc("mag", 1e-6, ["magnification"])
            if "skip_chief_undefined" not in skips:
                acc("inv", 1e-6, ["invariant"])
                k = rnd.randint(1, K)
                c = copy.deepcopy(ev)
                v = fl(c["X"]["ma"]["y"][k])
                c["X"]["ma"]["y"][k] = dy(v + 1e-6 * (1 + abs(v)))
                out.append((c, ["marginal_transfer", "marginal_launch", "XPD", "lagrange", "linearity"]))
                k = rnd.randint(0, K)
                c = copy.deepcopy(ev)
                v = fl(c["X"]["ch"]["u"][k])
                c["X"]["ch"]["u"][k] = dy(v * (1 + 1e-6) + 1e-9)
                out.append((c, ["chief_refract", "chief_transfer", "chief_field", "lagrange", "linearity"]))
                curved = [k for k in range(1, K) if not ev["L"]["R"][k - 1]["pl"]
                          and abs(fl(ev["X"]["ma"]["y"][k])) > 1e-3
                          and fl(ev["L"]["na"][k]) != fl(ev["L"]["na"][k - 1]) or ev["L"]["mir"][k - 1]
                          and not ev["L"]["R"][k - 1]["pl"] and abs(fl(ev["X"]["ma"]["y"][k])) > 1e-3]
                if curved:
                    k = rnd.choice(curved)
                    c = copy.deepcopy(ev)
                    c["L"]["R"][k - 1]["v"] = dy(fl(c["L"]["R"][k - 1]["v"]) * 1.0001)
                    out.append((c, ["marginal_refract"]))
                if K >= 3:
                    k = rnd.randint(2, K - 1)
                    if abs(fl(ev["X"]["ma"]["u"][k - 1])) > 1e-6:
                        c = copy.deepcopy(ev)
                        c["L"]["z"][k - 1] = dy(fl(c["L"]["z"][k - 1]) + 1e-3)
                        out.append((c, ["marginal_transfer"]))
    return out


def trace_phase(work, seed, quick, fut_rand, fut_samp):
    """code -> spec: judge the recorded lenses with Trace_Paraxial, then calibrate.  Runs in a
    thread next to the model-checking phase; returns everything for the main thread to register."""
    rnd = random.Random(seed)
    res = {"reports": [], "skips": [], "extra": {}, "runs": [], "samples": []}
    events, meta = [], {}
    for f in fut_rand + fut_samp:
        r = f.result()
        if r.get("error"):
            res["reports"].append(("raises", {"stage": r["error"].split(":")[0], "sample": r.get("sample", "")},
                                   r["error"], {"seed": r.get("seed"), "sample": r.get("sample")}))
            continue
        if r.get("skip"):
            res["skips"].append("lens outside the property's quantifier: " + r["skip"])
            continue
        eid = len(events)
        events.append({"id": eid, "L": r["L"], "X": r["X"]})
        meta[eid] = r
    verdicts, st = validate_events("Trace_Paraxial", events, os.path.join(work, "tv"), 10 if quick else 16)
    res["runs"].append(("Trace_Paraxial", st, len(events), len(events)))
    nclauses = {}
    accepted = []
    for e in events:
        r = meta[e["id"]]
        fails = clauses_of(verdicts, e["id"])
        skips = sorted({n for n, _ in fails if n.startswith("skip_")})
        res["skips"] += ["degenerate input: " + sname[5:] for sname in skips]
        real = [(n, k) for n, k in fails if not n.startswith("skip_")]
        if not real:
            accepted.append(dict(e, skips=skips))
        for name, k in real:
            nclauses[name] = nclauses.get(name, 0) + 1
            cls = PX.classify(name, k, r["info"], r["raw"])
            res["reports"].append((name, cls, "%s: clause %s fails%s" % (r["label"], name, " at surface %d" % k if k else ""),
                                   {"lens": r["label"], "prescription": r["presc"], "info": r["info"],
                                    "returned": r["raw"]["acc"], "clause": name, "surface": k}))
    res["extra"]["trace_events"] = len(events)
    res["extra"]["trace_events_fully_accepted"] = len(accepted)
    res["extra"]["failing_clauses_by_name"] = nclauses
    bycls = {}
    for e in events:
        i = meta[e["id"]]["info"]
        key = "%s/%s/%s%s" % ("finite" if i["finite_object"] else "infinite", i["aperture"], i["field_type"],
                              "/mirror" if i["mirrors"] else "")
        bycls[key] = bycls.get(key, 0) + 1
    res["extra"]["trace_events_by_class"] = bycls
    if accepted:
        a = accepted[0]
        res["samples"].append({"lens": meta[a["id"]]["label"], "returned": meta[a["id"]]["raw"]["acc"],
                               "verdict": "accepted"})
    # ---- calibration: corrupted records must be rejected ----
    picked = rnd.sample(accepted, min(len(accepted), 3 if quick else 15))
    cal, expect = [], {}
    for ev in picked:
        for c, clauses in corruptions(ev, rnd):
            c = {"id": len(cal), "L": c["L"], "X": c["X"]}
            expect[c["id"]] = clauses
            cal.append(c)
    if len(cal) < 8:
        # nothing clean enough to corrupt: a machinery failure unless the run already has violations to show
        res["cal_error"] = "calibration: too few accepted events to corrupt (%d)" % len(cal)
        return res
    cv, st = validate_events("Trace_Paraxial", cal, os.path.join(work, "cal"), 8 if quick else 16)
    res["runs"].append(("Trace_Paraxial", st, len(cal), 0))
    missed = []
    for cid, clauses in expect.items():
        got = {n for n, _ in clauses_of(cv, cid)}
        if not (got & set(clauses)):
            missed.append((cid, clauses, sorted(got)))
    res["extra"]["calibration"] = {"corrupted_records": len(cal), "missed": len(missed)}
    if missed:
        raise T.MachineryError("corrupted records not rejected (spec too permissive): %s" % missed[:3])
    return res


def main(ctx):
    quick = ctx.tier == "quick"
    pool = ProcessPoolExecutor(max_workers=12)
    # ---- code -> spec recording and judging run next to the model-checking phase ----------------
    nrand = 60 if quick else 800
    rtasks = [(ctx.seed * 104729 + i, i % 6 == 5) for i in range(nrand)]
    # directed corner of the quantifier: object NA with an immersed finite object (n0 sin(theta))
    rtasks += [(ctx.seed * 104729 + 100000 + i, False, {"finite": True, "aperture": "objectNA", "immersed": True})
               for i in range(8 if quick else 80)]
    fut_rand = [pool.submit(record_random, t) for t in rtasks]
    fut_samp = [pool.submit(record_sample, c.__name__) for c in G.sample_classes()]
    tpool = ThreadPoolExecutor(max_workers=1)
    fut_trace = tpool.submit(trace_phase, ctx.work, ctx.seed, quick, fut_rand, fut_samp)

    # ---- 0: the fast dyadic operators used by the trace spec agree with Dyadic on a grid ----------
    ctx.model_check("MC_DyadicFast", "MC_DyadicFast_quick.cfg" if quick else "MC_DyadicFast.cfg", workers=4,
                    timeout=600)
    # ---- 1 + 2: exhaustive grid model, replayed into the implementation ---------------------
    strata = STRATA_QUICK if quick else STRATA_THOROUGH
    totals = {"lenses": 0, "values_compared": 0, "values_undefined_skipped": 0}
    replays = []
    for name, counts, rad, med, thk, asp, cfgs in strata:
        cfgp = os.path.join(ctx.work, "MC_Paraxial_%s.cfg" % name)
        with open(cfgp, "w") as fh:
            fh.write(cfg_text(counts, rad, med, thk, asp, cfgs))
        dump = os.path.join(ctx.work, "dump_%s" % name)
        ctx.model_check("MC_Paraxial", cfgp, workers=8 if quick else 12, timeout=300 if quick else 800,
                        args=["-dump", dump])
        cases = parse_dump(dump + ".dump")
        os.remove(dump + ".dump")
        if not cases:
            raise T.MachineryError("no cases exported for stratum " + name)
        ctx.extra.setdefault("grid_strata", {})[name] = len(cases)
        size = max(1, len(cases) // 48)
        replays += [pool.submit(replay_cases, cases[i:i + size]) for i in range(0, len(cases), size)]
    for f in replays:
        r = f.result()
        totals["lenses"] += r["n"]
        totals["values_compared"] += r["values"]
        totals["values_undefined_skipped"] += r["undefined"]
        if r["sample"]:
            ctx.sample(r["sample"], cap=2)
        for clause, cls, what, repro in r["viol"]:
            ctx.report(clause, cls, what, {"grid_lens": repro, "how": "harness.parax.build_grid_lens(sf, s, cfg)"})
    ctx.log("grid replay done: %s" % totals)
    ctx.extra["grid_replay"] = totals
    ctx.traces += totals["lenses"]
    ctx.exhaustive = True
    if totals["values_undefined_skipped"]:
        ctx.skip("grid: accessor undefined (afocal / pupil at infinity)", totals["values_undefined_skipped"])

    # ---- 3: register what the trace phase found --------------------------------------------------
    res = fut_trace.result()
    pool.shutdown()
    tpool.shutdown()
    ctx.log("trace phase done")
    for module, st, nev, ntr in res["runs"]:
        ctx.states += st["states"]
        ctx.transitions += st["generated"]
        ctx.traces += ntr
        ctx.models.append({"module": module, "cfg": module + ".cfg", "distinct": st["states"],
                           "generated": st["generated"], "events": nev, "wall_s": round(st["wall"], 2),
                           "jvms": st["jvms"], "ok": True})
    for sk in res["skips"]:
        ctx.skip(sk)
    for rep in res["reports"]:
        ctx.report(*rep)
    for sm in res["samples"]:
        ctx.sample(sm)
    ctx.extra.update(res["extra"])
    if res.get("cal_error") and not ctx.violations:
        raise T.MachineryError(res["cal_error"])
    ctx.assumptions += [
        "tan(max field angle) and tan(arcsin(NA/n0)) are logged certificates computed with libm; the latter is "
        "validated polynomially (tan^2 (n0^2 - NA^2) = NA^2), the former is trusted",
        "indices are read from the surfaces' media at the primary wavelength (their correctness is C18's business)",
        "the image surface is treated as a surface like any other (the library builds it as one): image space is "
        "the medium behind it",
        "the F-number is a magnitude: FNO = |f2| / EPD, and EPD = |f2| / FNO for an image-space F/# aperture",
        "auxiliary rays come from Paraxial._trace_generic and are used only after they pass the per-surface "
        "refraction / transfer relations themselves",
        "tolerance 2^-36 relative to the term scale of each cross-multiplied relation (trace validation); "
        "1e-10 relative for the grid replay against TLC's exact rationals",
    ]


def replay(ctx, rep):
    """./check C04 --replay <file>: re-executes one recorded case (grid lens, seeded random lens or
    bundled sample) against the current tree and judges it again with Trace_Paraxial."""
    r = rep.get("repro", {})
    if "grid_lens" in r:
        g = r["grid_lens"]
        o = PX.build_grid_lens([tuple(q) for q in g["sf"]], g["stop"], g["cfg"])
        rec = _record(o, "grid lens %s" % g)
    elif r.get("sample"):
        rec = record_sample(r["sample"])
    elif r.get("seed") is not None:
        rec = record_random((r["seed"], r.get("catalogue", False)))
    elif isinstance(r.get("lens"), str) and r["lens"].startswith("seed "):
        seed = int(r["lens"].split()[1])
        rec = record_random((seed, (seed - ctx.seed * 104729) % 6 == 5))
    elif isinstance(r.get("lens"), str):
        rec = record_sample(r["lens"])
    else:
        raise T.MachineryError("replay file has no reproducible case")
    if rec.get("error") or rec.get("skip"):
        raise T.MachineryError("replay: %s" % (rec.get("error") or rec.get("skip")))
    ev = [{"id": 0, "L": rec["L"], "X": rec["X"]}]
    v = ctx.validate("Trace_Paraxial", ev, shards=1)
    for name, k in clauses_of(v, 0):
        if name.startswith("skip_"):
            ctx.skip("degenerate input: " + name[5:])
            continue
        ctx.report(name, PX.classify(name, k, rec["info"], rec["raw"]),
                   "%s: clause %s fails%s" % (rec["label"], name, " at surface %d" % k if k else ""),
                   {"lens": rec["label"], "returned": rec["raw"]["acc"], "clause": name, "surface": k})
    ctx.sample({"lens": rec["label"], "returned": rec["raw"]["acc"]})
