"""C12 - geometric analyses are faithful functions of the traced rays.

model:       spec/MC_Analyses.tla - the sampling contract as an index machine over every
             (analysis class, lens wavelength list, primary, wavelength argument, field
             argument) case; invariants on data indexing and the reference wavelength;
             witness tables of every law accepted and perturbed ones rejected; the
             documented negative (reference = the LENS's primary index) must be refuted.
spec->code:  every case TLC prints is replayed into the real classes (shapes / keys of
             .data, no exception for valid explicit lists).
code->spec:  analysis objects built on random lenses and bundled samples; their results
             and the independently traced rays of the same samples go into one event and
             spec/Analyses.tla (through Trace_Analyses) evaluates contract and laws.
Calibration on every run: single-field corruptions of accepted events must be rejected.
"""
import copy
import math
import os
import random
from concurrent.futures import ProcessPoolExecutor
from fractions import Fraction

import numpy as np

from harness import anarec as AR
from harness import lensgen as G
from harness import tlc as T
from harness.dy import dy, undy

KINDS = ("standard", "standard", "even_asphere")
SAMPLES_QUICK = ["CookeTriplet", "ReverseTelephoto", "DoubleGauss"]
TOK = {1: 0.50, 2: 0.55, 3: 0.60, 9: 0.62}


# ------------------------------------------------------------------ building objects
def _build(cls, optic, **kw):
    return G.quiet(cls, optic, **kw)


def explicit_lists(wl, pi):
    """Explicit wavelength lists that differ from the lens's own."""
    pv = wl[pi]
    f1 = (wl[0] + wl[1]) / 2 if len(wl) > 1 else wl[0] * 1.02
    f2 = (wl[-1] + wl[-2]) / 2 + 1e-3 if len(wl) > 1 else wl[0] * 0.98
    return [[f1], [pv], [pv, f1], [f1, pv], list(reversed(wl)), [f1, f2], [f1, f2, pv]]


def lens_plan(rnd, wl, pi, quick, idx):
    """The analysis configurations exercised on one lens."""
    ex = explicit_lists(wl, pi)
    pick = lambda: ex[rnd.randrange(len(ex))]
    if quick:
        dists = [("hexapolar", 1), ("hexapolar", 2), ("uniform", 3), ("cross", 3), ("ring", 5), ("line_y", 4),
                 ("random_seeded", 6), ("uniform", 4), ("line_x", 3)]
    else:
        dists = [("hexapolar", 2), ("hexapolar", 3), ("uniform", 4), ("cross", 5), ("ring", 6), ("line_y", 5),
                 ("random_seeded", 9), ("uniform", 5), ("line_x", 4)]
    fsets = [[(0.0, 0.35)], [(0.0, -0.6), (0.0, 0.9)], [(0.3, 0.4)]]
    plan = []
    d1, d2, d3 = (dists[(idx + s) % len(dists)] for s in (0, 3, 6))
    plan.append(("SpotDiagram", dict(dist=d1[0], npar=d1[1])))
    plan.append(("SpotDiagram", dict(dist=d2[0], npar=d2[1], wls=pick())))
    plan.append(("SpotDiagram", dict(dist=d3[0], npar=d3[1], fields=fsets[idx % 3])))
    plan.append(("SpotDiagram", dict(dist="hexapolar", npar=1 if quick else 2, wls=ex[idx % len(ex)], fields=fsets[(idx + 1) % 3])))
    plan.append(("EncircledEnergy", dict(dist="random", npar=12 if quick else 24, npoints=6 if quick else 8)))
    plan.append(("EncircledEnergy", dict(dist=d2[0], npar=d2[1], npoints=6, wl=pick()[0], fields=fsets[(idx + 2) % 3])))
    plan.append(("RayFan", dict(npts=5)))
    plan.append(("RayFan", dict(npts=4, wls=pick(), fields=fsets[idx % 3])))
    plan.append(("Distortion", dict(npts=5, dtype="f-tan")))
    plan.append(("Distortion", dict(npts=4, dtype="f-theta", wls=pick())))
    plan.append(("GridDistortion", dict(npts=4, dtype="f-tan")))
    plan.append(("GridDistortion", dict(npts=(5 if idx % 4 == 0 else 6), dtype="f-theta" if idx % 2 else "f-tan", wl=pick()[0])))
    # quick tier: two of the sampled fields per wavelength are judged (the edge and an inner one)
    plan.append(("FieldCurvature", dict(npts=4, fc_fields=[3, 1 + idx % 2] if quick else None)))
    plan.append(("FieldCurvature", dict(npts=3, wls=pick(), fc_fields=[2, idx % 2] if quick else None)))
    plan.append(("RmsSpotSizeVsField", dict(num_fields=3, dist="hexapolar", npar=1 if quick else 2)))
    plan.append(("RmsSpotSizeVsField", dict(num_fields=2, dist=d3[0] if d3[0] != "random_seeded" else "cross", npar=d3[1], wls=pick())))
    plan.append(("PupilAberration", dict(npts=5)))
    plan.append(("PupilAberration", dict(npts=4, wls=pick(), fields=fsets[(idx + 1) % 3])))
    if not quick:
        plan.append(("SpotDiagram", dict(dist=d3[0], npar=d3[1], wls=pick())))
        plan.append(("RayFan", dict(npts=7, wls=pick())))
        plan.append(("Distortion", dict(npts=6, dtype="f-theta")))
        plan.append(("Distortion", dict(npts=5, dtype="f-tan", wls=pick())))
        plan.append(("GridDistortion", dict(npts=4, dtype="f-theta")))
    return plan


def run_config(optic, kind, cfg, info, wl, pi, seed):
    """-> (events, reports).  A report is (clause, cls-extension, text)."""
    import optiland.analysis as A
    events, reports = [], []
    wls = cfg.get("wls")
    if kind in ("EncircledEnergy", "GridDistortion"):
        wls = None if cfg.get("wl") is None else [cfg["wl"]]
    cls = {"analysis": kind, "field_type": optic.field_type, "fields_explicit": cfg.get("fields") is not None}
    cls.update(AR.wl_class(wl, pi, wls))
    try:
        if kind in ("SpotDiagram", "RmsSpotSizeVsField", "EncircledEnergy"):
            if cfg["dist"] == "random":
                dobj, pts, darg = None, None, "random"
            else:
                dobj = AR.make_dist(cfg["dist"], cfg["npar"], seed=seed)
                pts = (np.array(dobj.x), np.array(dobj.y))
                darg = dobj if cfg["dist"] == "random_seeded" else cfg["dist"]
            kw = {}
            if kind == "SpotDiagram":
                kw = dict(num_rings=cfg["npar"], distribution=darg)
                if cfg.get("fields"):
                    kw["fields"] = list(cfg["fields"])
                if wls:
                    kw["wavelengths"] = list(wls)
            elif kind == "RmsSpotSizeVsField":
                kw = dict(num_fields=cfg["num_fields"], num_rings=cfg["npar"], distribution=darg)
                if wls:
                    kw["wavelengths"] = list(wls)
            else:
                kw = dict(num_rays=cfg["npar"], distribution=darg, num_points=cfg["npoints"])
                if cfg.get("fields"):
                    kw["fields"] = list(cfg["fields"])
                if wls:
                    kw["wavelength"] = wls[0]
            obj = _build(getattr(A, kind), optic, **kw)
            c2 = dict(cfg, wls=wls)
            ev, exc = AR.spot_events(optic, kind, obj, c2, pts, info, wl, pi)
            events += ev
            if exc is not None:
                reports.append(("raises", {"call": "centroid", "exception": type(exc).__name__},
                                "%s.centroid()/rms_spot_radius() raises %s: %s" % (kind, type(exc).__name__, exc)))
            elif kind == "EncircledEnergy":
                events += AR.ee_events(obj)
        elif kind == "RayFan":
            kw = dict(num_points=cfg["npts"])
            if cfg.get("fields"):
                kw["fields"] = list(cfg["fields"])
            if wls:
                kw["wavelengths"] = list(wls)
            obj = _build(A.RayFan, optic, **kw)
            events += AR.fan_events(optic, obj, cfg, info, wl, pi)
        elif kind == "PupilAberration":
            kw = dict(num_points=cfg["npts"])
            if cfg.get("fields"):
                kw["fields"] = list(cfg["fields"])
            if wls:
                kw["wavelengths"] = list(wls)
            obj = _build(A.PupilAberration, optic, **kw)
            events += AR.pupil_events(optic, obj, cfg, info, wl, pi)
        elif kind == "Distortion":
            kw = dict(num_points=cfg["npts"], distortion_type=cfg["dtype"])
            if wls:
                kw["wavelengths"] = list(wls)
            obj = _build(A.Distortion, optic, **kw)
            events += AR.dist_events(optic, obj, cfg, info, wl, pi)
            cls["dtype"] = cfg["dtype"]
        elif kind == "GridDistortion":
            kw = dict(num_points=cfg["npts"], distortion_type=cfg["dtype"])
            if wls:
                kw["wavelength"] = wls[0]
            obj = _build(A.GridDistortion, optic, **kw)
            events += AR.grid_events(optic, obj, cfg, info, wl, pi)
            cls["dtype"] = cfg["dtype"]
            cls["num_points_odd"] = cfg["npts"] % 2 == 1
        elif kind == "FieldCurvature":
            kw = dict(num_points=cfg["npts"])
            if wls:
                kw["wavelengths"] = list(wls)
            obj = _build(A.FieldCurvature, optic, **kw)
            n = cfg["npts"]
            events += AR.fc_events(optic, obj, cfg, info, wl, pi,
                                   fields_per_wl=cfg.get("fc_fields"))
    except Exception as ex:
        reports.append(("raises", {"call": "constructor", "exception": type(ex).__name__},
                        "%s(%s) raises %s: %s" % (kind, _cfg_text(cfg), type(ex).__name__, ex)))
    for e in events:
        e["cls"] = cls
    return events, [(c, dict(cls, **x), t) for c, x, t in reports]


def _cfg_text(cfg):
    return ", ".join("%s=%r" % kv for kv in sorted(cfg.items()))


def lens_task(task):
    """One lens (random or sample) -> events, reports (runs in a worker process)."""
    tag, arg, idx, quick = task
    rnd = random.Random(arg if tag == "seed" else idx)
    try:
        if tag == "seed":
            asph = idx % 3 == 2       # two lenses in three are purely spherical (Coddington's clause applies)
            opts = dict(kinds=KINDS if asph else ("standard",), mirrors=(idx % 4 == 0), apertures=(idx % 2 == 0),
                        tilts=False, catalogue=(idx % 5 == 1), conics=asph, coatings=(idx % 4 == 2),
                        curved_image=(idx % 3 == 1))
            optic, meta = G.random_lens(rnd, **opts)
            if idx % 5 == 3:
                # vignetting factors on a new outer field (and, by interpolation, on every field in between)
                mfy = optic.fields.max_y_field
                optic.add_field(y=mfy if mfy else 1.0, vx=rnd.uniform(0.05, 0.3), vy=rnd.uniform(0.05, 0.4))
                meta["vignetting"] = True
            name = "seed %d %s" % (arg, {k: meta[k] for k in ("nsurf", "finite_object", "field_type", "mirror")})
            if meta.get("vignetting"):
                name += " +vignetting factors"
        else:
            optic = G.quiet({c.__name__: c for c in G.sample_classes()}[arg])
            name = arg
    except Exception as ex:
        return {"name": str(arg), "error": "build: %s: %s" % (type(ex).__name__, ex), "events": [], "reports": []}
    info, wl, pi = AR.lens_info(optic)
    # lenses the generator produced that cannot image at all (chief ray does not reach the image) are not judged
    try:
        r = AR.trace_pts(optic, 0.0, np.array([0.0, 1.0]), 0.0, np.array([0.0, 0.0]), wl[pi])
        if not (np.all(np.isfinite(r["y"])) and np.all(np.isfinite(r["M"]))):
            return {"name": name, "skip": "chief ray not traceable", "events": [], "reports": []}
    except Exception as ex:
        return {"name": name, "error": "trace: %s: %s" % (type(ex).__name__, ex), "events": [], "reports": []}
    events, reports = [], []
    nobj = 0
    plan = lens_plan(rnd, wl, pi, quick, idx)
    if tag == "sample" and quick:
        plan = plan[1::2]         # the explicit-list half: one configuration of every class
    if tag == "seed" and meta.get("vignetting"):
        # with vignetting factors only the spot family is judged (its documented sample is the one
        # Optic.trace launches; the references of the other families are explicit pupil points)
        plan = [(k, c) for k, c in plan if k in ("SpotDiagram", "RmsSpotSizeVsField", "EncircledEnergy")]
    for kind, cfg in plan:
        ev, rep = run_config(optic, kind, cfg, info, wl, pi, seed=idx)
        nobj += 1
        for e in ev:
            e["lens"] = name
            e["cfg"] = _cfg_text(cfg)
        events += ev
        reports += [(c, cl, "%s: %s" % (name, t), {"lens": name, "analysis": kind, "cfg": _cfg_text(cfg)}) for c, cl, t in rep]
    try:
        ev = [] if (tag == "seed" and meta.get("vignetting")) else AR.operand_events(optic, rnd, wl, pi, nops=3 if quick else 6)
        for e in ev:
            e["lens"] = name
            e["cfg"] = ""
            e["cls"] = {"analysis": e["analysis"]}
        events += ev
        nobj += len(ev)
    except Exception as ex:
        reports.append(("raises", {"analysis": "RayOperand", "exception": type(ex).__name__},
                        "%s: RayOperand raises %s: %s" % (name, type(ex).__name__, ex), {"lens": name}))
    return {"name": name, "events": events, "reports": reports, "objects": nobj}


# ------------------------------------------------------------------ spec -> code replay
def replay_lens(nw, prim, nf):
    from optiland.optic import Optic
    from optiland.materials import AbbeMaterial
    o = Optic()
    o.add_surface(index=0, thickness=math.inf)
    # a dispersive glass: the centroids of different wavelengths differ, so the reference is observable
    o.add_surface(index=1, radius=60.0, thickness=4.0, material=AbbeMaterial(1.62, 36.0), is_stop=True)
    o.add_surface(index=2, radius=-80.0, thickness=70.0)
    o.add_surface(index=3)
    o.set_aperture("EPD", 8.0)
    o.set_field_type("angle")
    for y in [0.0, 6.0][:nf] if nf > 1 else [4.0]:
        o.add_field(y=y)
    for i in range(1, nw + 1):
        o.add_wavelength(TOK[i], is_primary=(i == prim))
    return o


def replay_task(case):
    """One TLC case -> events, reports, observed shape (worker process)."""
    kind = case["kind"]
    optic = replay_lens(case["nw"], case["prim"], case["nf"])
    info, wl, pi = AR.lens_info(optic)
    wls = None if case["wlarg"]["mode"] != "list" else [TOK[t] for t in case["wlarg"]["list"]]
    fmap = {"g1": (0.0, 0.35), "g2": (0.0, -0.6), "f1": tuple(optic.fields.get_field_coords()[0])}
    fields = None
    if case["farg"]["mode"] == "list":
        fields = [fmap[t] for t in case["farg"]["list"]]
    cfg = {"SpotDiagram": dict(dist="hexapolar", npar=1),
           "EncircledEnergy": dict(dist="hexapolar", npar=1, npoints=4),
           "RmsSpotSizeVsField": dict(dist="hexapolar", npar=1, num_fields=case["farg"].get("n", 2)),
           "RayFan": dict(npts=3), "PupilAberration": dict(npts=3),
           "Distortion": dict(npts=3, dtype="f-tan"), "FieldCurvature": dict(npts=2),
           "GridDistortion": dict(npts=2, dtype="f-tan")}[kind]
    if kind in ("EncircledEnergy", "GridDistortion"):
        cfg["wl"] = wls[0] if wls else None
    else:
        cfg["wls"] = wls
    if fields:
        cfg["fields"] = fields
    events, reports = run_config(optic, kind, cfg, info, wl, pi, seed=0)
    # observed structure against what TLC computed
    nwu, nfu = case["nwu"], case["nfu"]
    obs = None
    if events:
        e = events[0]
        if e["kind"] in ("spot", "fan", "pupil"):
            obs = (e["nf"], len(e["cells"]))
        elif e["kind"] in ("dist", "fc"):
            obs = (1, e["nw"])
        elif e["kind"] == "grid":
            obs = (1, 1)
    name = "replay %s nw=%d prim=%d nf=%d wl=%s fields=%s" % (kind, case["nw"], case["prim"], case["nf"],
                                                             case["wlarg"], case["farg"])
    if obs is not None and obs != (nfu, nwu):
        cl = dict(events[0]["cls"])
        reports.append(("shape", cl, "data has %s (fields, wavelengths), the contract says %s" % (obs, (nfu, nwu))))
    keep = [e for e in events if e["kind"] in ("spot", "fan")]
    for e in keep:
        e["lens"] = name
        e["cfg"] = ""
    return {"name": name, "events": keep, "built": bool(events),
            "reports": [(c, cl, "%s: %s" % (name, t), {"case": case}) for c, cl, t in reports]}


def parse_cases(res):
    from harness.parse_tla import parse_value
    cases = {}
    for line in res.out.splitlines():
        line = line.strip()
        if not line.startswith('"CASE <<'):
            continue
        rec = parse_value(line[6:-1].replace('\\"', '"'))
        c = rec[0]
        cases[line] = {"kind": c["kind"], "nw": c["nw"], "prim": c["prim"], "nf": c["nf"],
                       "wlarg": {"mode": c["wlarg"]["mode"], "list": list(c["wlarg"]["list"])},
                       "farg": {"mode": c["farg"]["mode"], "list": list(c["farg"]["list"]), "n": c["farg"]["n"]},
                       "nwu": rec[1], "nfu": rec[2], "adm": [i + 1 for i, b in enumerate(rec[3]) if b]}
    return list(cases.values())


# ------------------------------------------------------------------ calibration
def _bump(d, rel=0.0, ab=0.0):
    v = float(undy(d))
    return dy(v * (1.0 + rel) + ab)


def corruptions(e):
    """Single-field corruptions of an accepted event -> [(event, admissible clauses)]."""
    out = []

    def mod(fn, clauses):
        c = copy.deepcopy(e)
        if fn(c) is not False:
            out.append((c, clauses))
    k = e["kind"]
    if k == "spot" and e["hascen"]:
        big = [j for j, r in enumerate(e["rms"]) if r["k"] == "fin" and float(undy(r)) > 1e-4]
        mod(lambda c: c["cen"].__setitem__(0, _bump(c["cen"][0], ab=1e-6)), ["centroid", "reference"])
        mod(lambda c: c["cen"].__setitem__(1, _bump(c["cen"][1], ab=-1e-6)), ["centroid", "reference"])
        if big:
            j = big[0]
            mod(lambda c: c["rms"].__setitem__(j, _bump(c["rms"][j], rel=1e-6)), ["rms"])
            mod(lambda c: c["geo"].__setitem__(j, _bump(c["geo"][j], rel=-1e-6)), ["geo"])
            mod(lambda c: c["geo"].__setitem__(j, _bump(c["geo"][j], rel=1e-6)), ["geo"])
        if e["cells"][0]["indep"] and e["cells"][0]["ax"]:
            mod(lambda c: c["cells"][0]["ay"].__setitem__(0, _bump(c["cells"][0]["ay"][0], ab=1e-9)), ["data_rays"])
    elif k == "ee":
        vals = [float(undy(v)) for v in e["ee"]]
        inc = [m for m in range(len(vals) - 1) if vals[m + 1] > vals[m] + 0.5]
        if inc:
            m = inc[0]

            def swap(c):
                c["ee"][m], c["ee"][m + 1] = c["ee"][m + 1], c["ee"][m]
            mod(swap, ["ee_monotone"])
        if vals and vals[-1] > 0:
            mod(lambda c: c["ee"].__setitem__(len(vals) - 1, _bump(c["ee"][-1], rel=1e-6)), ["ee_total"])
            mod(lambda c: c["ee"].__setitem__(0, _bump(c["ee"][0], ab=vals[-1])), ["ee_value", "ee_monotone"])
    elif k == "fan":
        mod(lambda c: c["cells"][-1]["vy"].__setitem__(0, _bump(c["cells"][-1]["vy"][0], ab=1e-8)), ["fan_value", "reference"])
        mod(lambda c: c["cells"][0]["vx"].__setitem__(1, _bump(c["cells"][0]["vx"][1], ab=-1e-8)), ["fan_value", "reference"])
    elif k == "dist":
        mod(lambda c: c["d"].__setitem__(len(c["d"]) - 1, _bump(c["d"][-1], ab=1e-6)), ["dist_value"])
        if e["ftype"] == "angle" and e["dtype"] == "f-tan":
            mod(lambda c: c["t"].__setitem__(len(c["t"]) - 1, _bump(c["t"][-1], rel=1e-9)), ["dist_cert"])
    elif k == "grid":
        mod(lambda c: c.__setitem__("md", _bump(c["md"], rel=1e-4)), ["grid_max"])
        mod(lambda c: c["xp"].__setitem__(1, _bump(c["xp"][1], rel=1e-9)), ["grid_parax_x"])
        mod(lambda c: c["yr"].__setitem__(2, _bump(c["yr"][2], ab=1e-9)), ["grid_real"])
    elif k == "pupil":
        def f(c):
            v = c["cells"][0]["ey"][0]
            if v["k"] != "fin":
                return False
            c["cells"][0]["ey"][0] = _bump(v, ab=1e-6)
        mod(f, ["pupil_value"])
    elif k == "fc":
        if e["tv"]["k"] == "fin" and e["sv"]["k"] == "fin":
            mod(lambda c: c.__setitem__("tv", _bump(c["tv"], rel=1e-4, ab=1e-5)), ["fc_parabasal_t"])
            mod(lambda c: c.__setitem__("sv", _bump(c["sv"], rel=1e-4, ab=1e-5)), ["fc_parabasal_s"])
            if all(s["sph"] for s in e["surf"]):
                # a wrong index / curvature certificate in front of the image must break Coddington only
                ks = [i for i, s in enumerate(e["surf"]) if i >= 1 and not s["flat"]]
                if ks:
                    i = ks[0]
                    mod(lambda c: c["surf"][i].__setitem__("n2", _bump(c["surf"][i]["n2"], rel=1e-3)),
                        ["coddington_t", "coddington_s"])
                    mod(lambda c: c["surf"][i].__setitem__("c", _bump(c["surf"][i]["c"], rel=1e-3)), ["fc_cert"])
    elif k == "op":
        mod(lambda c: c.__setitem__("val", _bump(c["val"], ab=1e-9)), ["operand"])
    elif k == "oprms":
        if float(undy(e["val"])) > 1e-4:
            mod(lambda c: c.__setitem__("val", _bump(c["val"], rel=1e-6)), ["operand_rms"])
    return out


# ------------------------------------------------------------------ main
def main(ctx):
    quick = ctx.tier == "quick"
    # ---- 1. the model ---------------------------------------------------
    r = ctx.model_check("MC_Analyses", "MC_Analyses.cfg", workers=8, timeout=600)
    cases = parse_cases(r)
    if len(cases) < 1000:
        raise T.MachineryError("MC_Analyses printed only %d cases" % len(cases))
    neg = ctx.model_check("MC_Analyses", "MC_Analyses_lensindex.cfg", workers=4, timeout=600, must_pass=False)
    if "InvRef" not in neg.violated:
        raise T.MachineryError("the documented negative (reference = lens primary index) was not refuted by TLC: %s"
                               % neg.out[-600:])
    ctx.extra["contract_cases"] = len(cases)
    ctx.extra["negative_model_refuted"] = "reference wavelength chosen by the lens's primary index violates InvRef"
    # ---- 2. executions of the real code -----------------------------------
    nlens = 10 if quick else 80
    samples = SAMPLES_QUICK if quick else [c.__name__ for c in G.sample_classes()
                                           if c.__name__ != "TelescopeObjective48Inch"]
    tasks = [("seed", ctx.seed * 7907 + i, i, quick) for i in range(nlens)]
    tasks += [("sample", s, j, quick) for j, s in enumerate(samples)]
    rnd = random.Random(ctx.seed)
    rcases = list(cases)
    rnd.shuffle(rcases)
    if quick:
        # every class, explicit lists first
        rcases.sort(key=lambda c: (c["wlarg"]["mode"] != "list"))
        rcases = rcases[:160]
    with ProcessPoolExecutor(max_workers=16) as ex:
        results = list(ex.map(lens_task, tasks, chunksize=1))
        replays = list(ex.map(replay_task, rcases, chunksize=8))
    events, nobj, nlens_ok = [], 0, 0
    for res in results + replays:
        if res.get("error"):
            ctx.report("raises", {"stage": res["error"].split(":")[0]}, "%s: %s" % (res["name"], res["error"]),
                       {"lens": res["name"]})
            continue
        if res.get("skip"):
            ctx.skip(res["skip"])
            continue
        nlens_ok += res in results
        nobj += res.get("objects", 1 if res.get("built") else 0)
        for clause, cls, text, repro in res["reports"]:
            ctx.report(clause, cls, text, repro)
        for e in res["events"]:
            e["id"] = len(events)
            events.append(e)
    ctx.extra["lenses"] = nlens_ok
    ctx.extra["contract_cases_replayed"] = len(replays)
    ctx.extra["analysis_objects"] = nobj
    ctx.extra["contract_cases_all_replayed"] = len(replays) == len(cases)
    verdicts = ctx.validate("Trace_Analyses", events, shards=12 if quick else 16, count_traces=nobj)
    bykind, notes = {}, {}
    for e in events:
        bykind[e["analysis"]] = bykind.get(e["analysis"], 0) + 1
        for clause in verdicts[e["id"]]:
            if clause.startswith("~"):
                key = "%s: %s" % (e["analysis"].split(".")[0], clause[1:])
                notes[key] = notes.get(key, 0) + 1
                continue
            ctx.report(clause, e["cls"], "%s, %s(%s): clause %s fails" % (e["lens"], e["analysis"], e["cfg"], clause),
                       {"lens": e["lens"], "analysis": e["analysis"], "cfg": e["cfg"], "clause": clause,
                        "event": _brief(e)})
    for k, v in notes.items():
        ctx.skip(k, v)
    ctx.extra["events"] = len(events)
    ctx.extra["events_by_analysis"] = bykind
    for e in events:
        if e["kind"] == "fc" and not verdicts[e["id"]]:
            ctx.sample({"lens": e["lens"], "analysis": "FieldCurvature", "field": float(undy(e["h"])),
                        "tangential": float(undy(e["tv"])), "sagittal": float(undy(e["sv"])),
                        "verdict": "Coddington's equations along the recorded chief ray agree"})
            break
    for e in events:
        if e["kind"] == "spot" and e["hascen"] and not verdicts[e["id"]]:
            ctx.sample({"lens": e["lens"], "analysis": e["analysis"], "cfg": e["cfg"],
                        "centroid": [float(undy(v)) for v in e["cen"]], "rms": [float(undy(v)) for v in e["rms"]]})
            break
    # ---- 3. calibration ------------------------------------------------------
    good = [e for e in events if not [c for c in verdicts[e["id"]] if c != "~coddington_not_spherical"]]
    rnd.shuffle(good)
    per_kind = 2 if quick else 8
    taken, cal, expect = {}, [], {}
    def ckind(e):      # field-curvature events on all-spherical systems also calibrate Coddington's clause
        if e["kind"] == "fc" and all(s_["sph"] for s_ in e["surf"]) and any(not s_["flat"] for s_ in e["surf"]):
            return "fc_sph"
        return e["kind"]
    for e in good:
        if taken.get(ckind(e), 0) >= per_kind:
            continue
        cs = corruptions(e)
        if not cs:
            continue
        taken[ckind(e)] = taken.get(ckind(e), 0) + 1
        for c, clauses in cs:
            c["id"] = len(cal)
            expect[c["id"]] = clauses
            cal.append(c)
    need = {"spot", "ee", "fan", "dist", "grid", "pupil", "fc", "fc_sph", "op", "oprms"}
    present = {ckind(e) for e in events} | {e["kind"] for e in events}
    rejected = {ckind(e) for e in events if [c for c in verdicts[e["id"]] if not c.startswith("~")]}
    if need - present:
        raise T.MachineryError("no event of kind %s was produced" % sorted(need - present))
    # a kind none of whose events was accepted has already been reported as violated; its clauses
    # are calibrated by the witness tables of MC_Analyses only
    uncal = sorted(need - set(taken))
    if set(uncal) - rejected:
        raise T.MachineryError("calibration: no accepted event of kind %s" % sorted(set(uncal) - rejected))
    cv = ctx.validate("Trace_Analyses", cal, shards=4 if quick else 12, count_traces=0) if cal else {}
    missed = [(cid, expect[cid], cv[cid]) for cid in expect if not (set(cv[cid]) & set(expect[cid]))]
    fired = sorted({c for cid in expect for c in cv[cid] if c in expect[cid]})
    ctx.extra["calibration"] = {"corruptions": len(cal), "missed": len(missed), "clauses_fired": fired,
                                "kinds_without_accepted_event": uncal}
    if missed:
        raise T.MachineryError("corrupted analysis outputs not rejected (spec too permissive): %s" % missed[:3])
    must = {"spot": ("rms", "geo"), "ee": ("ee_monotone", "ee_total"), "fan": ("fan_value",), "dist": ("dist_value",),
            "grid": ("grid_max",), "pupil": ("pupil_value",), "fc": ("fc_parabasal_t",), "fc_sph": ("coddington_t", "fc_cert"),
            "op": ("operand",), "oprms": ("operand_rms",)}
    for kd, clauses in must.items():
        for c in clauses:
            if kd in taken and c not in fired:
                raise T.MachineryError("calibration never exercised clause %s" % c)
    if "spot" in taken and not ({"centroid", "reference"} & set(fired)):
        raise T.MachineryError("calibration never exercised clause centroid")
    ctx.assumptions += [
        "the independently traced rays (Optic.trace_generic at the contract's fields, wavelengths and pupil samples) are data; their own correctness is C02/C03's business",
        "pupil sample positions come from optiland.distribution (only their number and the fan grids are stated by the contract); on lenses with vignetting factors (one random lens in five) the spot family's reference rays are those Optic.trace launches for (field, wavelength, ray count, distribution name)",
        "tan certificates are validated against the degree-19 Taylor polynomials for |angle| <= 1 rad and trusted (libm) beyond; radians() by 180 theta = pi deg; 1/R by c R = 1",
        "the encircled-energy curve exists only inside EncircledEnergy.view(); it is obtained by performing view()'s calls with a recording axis object",
        "tolerances: 2^-44..2^-50 on sums and differences, 2^-30 on squared radii plus the float64 noise of centred coordinates, 2^-20 of (|offset| + last ray segment) between the parabasal focus and Coddington's (measured agreement 1e-8)",
        "Coddington's clause is decided for systems of untilted spherical and plane surfaces (refracting or reflecting); events with conic/aspheric surfaces are judged by the parabasal-pair clause only",
    ]


def _brief(e):
    out = {}
    for k, v in e.items():
        if k in ("cells", "surf", "P", "Dr", "lensfields"):
            continue
        if isinstance(v, dict) and "k" in v:
            out[k] = float(undy(v)) if v["k"] == "fin" else v["k"]
        elif isinstance(v, list) and v and isinstance(v[0], dict) and "k" in v[0]:
            out[k] = [float(undy(x)) if x["k"] == "fin" else x["k"] for x in v][:12]
        elif isinstance(v, (str, int, bool)):
            out[k] = v
    return out
