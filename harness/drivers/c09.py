"""C09 - the reported OPD is the path difference to the chief-ray reference sphere.

MC_Wavefront: TLC checks spec/Wavefront.tla on exact rational witnesses (perfect
focus, oblique plane wave, defocused spherical wave; sign-flipped / wrong-root /
wrong-centre / index-dropping variants rejected).

code -> spec: random lenses (lensgen.random_lens) and bundled samples; Wavefront(...)
.data, OPD(...).rms(), OPDFan, RmsWavefrontErrorVsField and RayOperand.OPD_difference
are recorded, and *separately* the same pupil samples are traced with
optic.trace_generic; TLC (Trace_Wavefront) evaluates the definition on the
recorded numbers.  The back-propagation distances to the sphere are logged
certificates which the spec verifies.  Calibration on every run.
"""
import copy
import json
import os
import math
import random
from concurrent.futures import ProcessPoolExecutor

import numpy as np

from harness import lensgen as G
from harness import tlc as T
from harness import wfrec as W
from harness.dy import dy, undy

DISTS = ("hexapolar", "uniform", "random", "cross", "line_y", "line_x", "ring", "gq", "hexapolar")
SAMPLES = ("CookeTriplet", "DoubleGauss", "ReverseTelephoto", "TessarLens", "TelescopeDoublet",
           "CementedAchromat", "EdmundSinglet", "SingletStopSurf2", "HubbleTelescope", "PetzvalLens",
           "UVReflectingMicroscope", "LensWithFieldCorrector")


def _f(x):
    return float(np.asarray(x, dtype=float).ravel()[0])


def make_distribution(kind, n, seed=0):
    from optiland.distribution import GaussianQuadrature, RandomDistribution
    if kind == "gq":
        d = GaussianQuadrature(is_symmetric=False)
        d.generate_points(num_rings=n)
        return d
    if kind == "random":
        # the named 'random' distribution draws from an unseeded generator: the same class, seeded, keeps
        # a run reproducible (a recorded violation can be replayed)
        d = RandomDistribution(seed=seed)
        d.generate_points(n)
        return d
    return kind


def dist_size(rnd, kind, quick):
    if kind == "hexapolar":
        return rnd.randint(1, 4 if quick else 8)
    if kind == "uniform":
        return rnd.randint(3, 9 if quick else 24)      # (2 gives no point inside the unit disk)
    if kind == "gq":
        return rnd.randint(1, 6)
    return rnd.randint(2, 13 if quick else 64)


def build_lens(seed, i):
    """A random lens inside C09's quantifier (infinite object + angle fields or finite
    object + height fields; fields along y).  Returns (optic, meta) or raises."""
    finite = (i % 3 == 0)
    for attempt in range(8):
        # most lenses should image into air: redraw (a few times) when the last medium is glass
        rnd = random.Random(seed + 7919 * attempt)
        # even i: closed-form surfaces only (spheres, conics, planes) - judged to float precision;
        # odd i: even aspheres mixed in - judged within their documented intersection tolerance
        kinds = ("standard",) if (i % 2 == 0 or i % 8 == 3) else ("standard", "standard", "even_asphere")
        # (one lens in four images onto a curved surface: the chief ray then meets the image off its vertex plane)
        optic, meta = G.random_lens(rnd, kinds=kinds, mirrors=(i % 5 == 0), curved_image=(i % 4 == 2),
                                    finite_object=finite, field_type="object_height" if finite else "angle")
        w0 = optic.primary_wavelength
        if i % 4 == 3 or _f(optic.image_surface.material_pre.n(w0)) == 1.0:
            break
    sg = optic.surface_group
    n = len(sg.surfaces)
    nrefl = sum(1 for s in sg.surfaces if s.is_reflective)
    meta["variant"] = []
    if i % 4 in (0, 1):                                      # image surface at the paraxial focus, if real
        t_old = _f(sg.positions[-1]) - _f(sg.positions[-2])
        try:
            optic.image_solve()
            t_new = _f(sg.positions[-1]) - _f(sg.positions[-2])
            fwd = t_new * (-1) ** nrefl
            if not (1.0 < fwd < 5000.0):
                raise ValueError("virtual image")
            meta["variant"].append("focused")
        except Exception:
            optic.set_thickness(t_old, n - 2)
    if i % 8 == 3 and nrefl == 0 and (i % 16 == 3 or _f(optic.image_surface.material_pre.n(w0)) != 1.0):
        # true immersion: the image surface carries the last medium on both sides (no refraction there)
        med = optic.image_surface.material_pre
        if i % 16 == 3:
            # a dispersive immersion medium (vitreous body, immersion liquid): the index of the last
            # leg is the one at the traced wavelength, which differs from that at the primary
            from optiland.materials import AbbeMaterial
            med = AbbeMaterial(n=round(rnd.uniform(1.33, 1.7), 3), abbe=round(rnd.uniform(25.0, 65.0), 1))
            sg.surfaces[-2].material_post = med
            meta["variant"].append("image_medium_dispersive")
        optic = rebuild(optic, med)
        sg = optic.surface_group
        meta["variant"].append("image_immersed")
    if not finite and i % 8 == 5:
        optic.set_index(rnd.choice([1.33, 1.5]), 0)     # immersed object space
        meta["variant"].append("object_immersed")
    if i % 8 == 6:
        optic.add_field(y=0.5 * meta["max_field"], vx=rnd.uniform(0.05, 0.3), vy=rnd.uniform(0.05, 0.3))
        meta["variant"].append("vignetted")
    meta["vignetted"] = "vignetted" in meta["variant"]
    return optic, meta


def rebuild(optic, image_material):
    """The same prescription (standard surfaces only) built again through add_surface, with a
    medium given to the image surface."""
    from optiland.optic import Optic
    sg = optic.surface_group
    pos = [_f(z) for z in sg.positions]
    o = Optic()
    last = len(sg.surfaces) - 1
    for k, sf in enumerate(sg.surfaces):
        if k == 0:
            o.add_surface(index=0, thickness=(math.inf if sf.is_infinite else pos[1] - pos[0]), material=sf.material_post)
        elif k == last:
            o.add_surface(index=k, material=image_material)
        else:
            if type(sf.geometry).__name__ not in ("Plane", "StandardGeometry"):
                raise ValueError("rebuild: standard surfaces only")
            o.add_surface(index=k, radius=_f(sf.geometry.radius), conic=_f(getattr(sf.geometry, "k", 0.0)),
                          thickness=pos[k + 1] - pos[k], material=sf.material_post, is_stop=bool(sf.is_stop))
    o.set_aperture(optic.aperture.ap_type, optic.aperture.value)
    o.set_field_type(optic.field_type)
    for f in optic.fields.fields:
        o.add_field(y=_f(f.y), x=_f(f.x), vx=_f(f.vx), vy=_f(f.vy))
    pw = optic.primary_wavelength
    for w in optic.wavelengths.get_wavelengths():
        o.add_wavelength(w, is_primary=(w == pw))
    return o


def pick(rnd, n, k, must):
    idx = set(must)
    pool = [j for j in range(n) if j not in idx]
    rnd.shuffle(pool)
    idx.update(pool[:max(0, k - len(idx))])
    return sorted(idx)


def block_events(optic, field, w, xs, ys, opds, inten, sel, full, tag, fan_n=0):
    """Events for the selected samples of one (field, wavelength) block."""
    const = W.lens_constants(optic, w)
    chief = W.chief_record(optic, field[0], field[1], w)
    recs = W.trace_records(optic, field[0], field[1], [xs[k] for k in sel], [ys[k] for k in sel], w)
    sg_int = np.array(optic.surface_group.intensity)[-1, :]
    out = []
    for m, k in enumerate(sel):
        is_chief = (xs[k] == 0.0 and ys[k] == 0.0)
        fan = [fan_n, int(k), dy(float(xs[k])), dy(float(ys[k]))] if fan_n else None
        e = W.sample_event(const, w, chief, recs[m], opds[k], is_chief, full=full, fan=fan)
        e["irep"] = dy(float(inten[k]))
        e["iown"] = dy(float(sg_int[m]))
        e["_tag"] = dict(tag, field=[float(field[0]), float(field[1])], w=float(w), px=float(xs[k]),
                         py=float(ys[k]), nimg=const["nimg"], nimg_pre=const["nimg_pre"], nobj=const["nobj"], xpl=const["xpl"],
                         inf=const["inf"])
        out.append(e)
    return out


def lens_events(optic, meta, rnd, quick, label):
    """Everything recorded from one lens."""
    from optiland.wavefront import Wavefront, OPD, OPDFan
    from optiland.analysis.rms_vs_field import RmsWavefrontErrorVsField
    from optiland.optimization.operand.ray import RayOperand
    from optiland.distribution import GaussianQuadrature
    ev = []
    full = not meta.get("vignetted", False)
    per = 3 if quick else 6
    kind = meta["dist"]
    nr = meta["num_rays"]
    base = {"lens": label, "view": "Wavefront", "dist": kind, "num_rays": nr}
    wf = G.quiet(Wavefront, optic, "all", "all", nr, make_distribution(kind, nr, seed=rnd.randrange(1 << 30)))
    xs, ys = np.array(wf.distribution.x, dtype=float), np.array(wf.distribution.y, dtype=float)
    fields = optic.fields.get_field_coords()
    wls = optic.wavelengths.get_wavelengths()
    for i, f in enumerate(fields):
        for j, w in enumerate(wls):
            opds, inten = np.array(wf.data[i][j][0], dtype=float), np.array(wf.data[i][j][1], dtype=float)
            centre = [k for k in range(len(xs)) if xs[k] == 0.0 and ys[k] == 0.0][:1]
            sel = pick(rnd, len(xs), per, centre) if full else centre
            if sel:
                ev += block_events(optic, f, w, xs, ys, opds, inten, sel, full, base)
    if not full:
        return ev
    # ---- the other views of the same quantity, one field / wavelength each ----
    f = fields[rnd.randrange(len(fields))]
    w = wls[rnd.randrange(len(wls))]
    rings = rnd.randint(1, 3 if quick else 8)
    # (whole-number field coordinates are passed as Python ints half of the time: the same field)
    fa = tuple(int(v) if (float(v).is_integer() and rnd.random() < 0.5) else v for v in f)
    o = G.quiet(OPD, optic, fa, w, rings)
    opds = np.array(o.data[0][0][0], dtype=float)
    ev.append(dict(W.rms_event(opds, o.rms()), _tag=dict(base, view="OPD.rms", num_rays=rings)))
    xs, ys = np.array(o.distribution.x, dtype=float), np.array(o.distribution.y, dtype=float)
    ev += block_events(optic, f, w, xs, ys, opds, np.array(o.data[0][0][1], dtype=float),
                       pick(rnd, len(xs), 3, [0]), True, dict(base, view="OPD", dist="hexapolar", num_rays=rings))
    # the OPD map (what OPD.view draws) on a grid whose nodes contain the hexapolar samples of the
    # x and y axes: at those nodes the map is the sampled quantity itself, no interpolation involved
    try:
        m = G.quiet(o._generate_opd_map, 2 * rings + 1)
        inten0 = np.array(o.data[0][0][1], dtype=float)
        zs, os_, at = [], [], []
        # (judged when every sample of the bundle has a finite OPD: one lost ray makes the
        # interpolant's global gradient estimate, and with it the whole map, non-finite)
        for k in (range(len(xs)) if np.all(np.isfinite(opds * inten0)) else []):
            gx, gy = (xs[k] + 1.0) * rings, (ys[k] + 1.0) * rings
            # (nodes strictly inside the outermost ring: on the convex hull of the samples the
            # interpolator may legitimately report "outside")
            if abs(gx - round(gx)) < 1e-9 and abs(gy - round(gy)) < 1e-9 and math.isfinite(opds[k]) \
                    and xs[k] ** 2 + ys[k] ** 2 < 1.0 - 1e-6:
                i, j = int(round(gy)), int(round(gx))
                if float(m["x"][i][j]) == float(np.linspace(-1, 1, 2 * rings + 1)[j]) and abs(float(m["x"][i][j]) - xs[k]) < 1e-9 \
                        and abs(float(m["y"][i][j]) - ys[k]) < 1e-9:
                    zs.append(float(m["z"][i][j]))
                    os_.append(float(opds[k] * inten0[k]))
                    at.append([float(xs[k]), float(ys[k])])
        if zs:
            ev.append({"kind": "map", "zs": [dy(v) for v in zs], "os": [dy(v) for v in os_],
                       "_tag": dict(base, view="OPD map", num_rays=rings, nodes=at)})
    except Exception as ex:
        ev.append({"kind": "map", "zs": [dy(float("nan"))], "os": [dy(0.0)],
                   "_tag": dict(base, view="OPD map", num_rays=rings, exc="%s: %s" % (type(ex).__name__, ex))})
    nf = rnd.randint(2, 9 if quick else 40)
    fan = G.quiet(OPDFan, optic, [fa], [w], nf)
    opds = np.array(fan.data[0][0][0], dtype=float)
    xs, ys = np.array(fan.distribution.x, dtype=float), np.array(fan.distribution.y, dtype=float)
    ev += block_events(optic, f, w, xs, ys, opds, np.array(fan.data[0][0][1], dtype=float),
                       pick(rnd, len(xs), 4, []), True, dict(base, view="OPDFan", dist="cross", num_rays=nf), fan_n=nf)
    # RMS wavefront error versus field: fields (0, k/(m-1)), k = 0..m-1
    m = rnd.randint(2, 4 if quick else 12)
    dk = rnd.choice(["hexapolar", "uniform", "random"])
    nn = rnd.randint(3, 5)
    # (two wavelengths whenever the lens has them: every column of the table is its own wavelength's curve)
    wl2 = [w] + [x for x in wls if x != w][:1]
    rv = G.quiet(RmsWavefrontErrorVsField, optic, m, wl2, nn, make_distribution(dk, nn, seed=rnd.randrange(1 << 30)))
    xs, ys = np.array(rv.distribution.x, dtype=float), np.array(rv.distribution.y, dtype=float)
    # the curve must be evaluated on the documented samples of (distribution, num_rays)
    ev.append(dict({"kind": "count", "dist": dk, "n": int(nn), "npts": int(len(np.array(rv.data[0][0][0])))},
                   _tag=dict(base, view="RmsWavefrontErrorVsField.samples", dist=dk, num_rays=nn)))
    for k in sorted(set([0, m - 1, rnd.randrange(m)])):
        for jw in range(1, len(wl2)):
            ev.append(dict(W.rms_event(np.array(rv.data[k][jw][0], dtype=float), rv._wavefront_error[k, jw]),
                           _tag=dict(base, view="RmsWavefrontErrorVsField.rms", dist=dk, num_rays=nn)))
            if k == m - 1:
                ev += block_events(optic, (0.0, 1.0), wl2[jw], xs, ys, np.array(rv.data[k][jw][0], dtype=float),
                                   np.array(rv.data[k][jw][1], dtype=float), pick(rnd, len(xs), 2, []), True,
                                   dict(base, view="RmsWavefrontErrorVsField", dist=dk, num_rays=nn))
        opds = np.array(rv.data[k][0][0], dtype=float)
        ev.append(dict(W.rms_event(opds, rv._wavefront_error[k, 0]),
                       _tag=dict(base, view="RmsWavefrontErrorVsField.rms", dist=dk, num_rays=nn)))
        ev += block_events(optic, (0.0, k / (m - 1)), w, xs, ys, opds, np.array(rv.data[k][0][1], dtype=float),
                           pick(rnd, len(xs), 2, []), True,
                           dict(base, view="RmsWavefrontErrorVsField", dist=dk, num_rays=nn))
    # OPD_difference operand: documented samples = Gaussian quadrature rings (symmetric on axis)
    nq = rnd.randint(1, 6)
    for fo in ([(0.0, 0.0), f] if tuple(f) != (0.0, 0.0) else [f]):
        val = G.quiet(RayOperand.OPD_difference, optic, fo[0], fo[1], nq, w)
        sym = (fo[0] == 0 and fo[1] == 0)
        gq = GaussianQuadrature(is_symmetric=sym)
        gq.generate_points(num_rings=nq)
        ws = np.array(gq.get_weights(nq), dtype=float)
        ws = ws if sym else np.repeat(ws, 3)
        wq = G.quiet(Wavefront, optic, [fo], [w], nq, gq)
        opds = np.array(wq.data[0][0][0], dtype=float)
        ev.append(dict(W.opdiff_event(opds, ws, val), _tag=dict(base, view="OPD_difference", dist="gaussian_quad", num_rays=nq)))
        xs, ys = np.array(gq.x, dtype=float), np.array(gq.y, dtype=float)
        ev += block_events(optic, fo, w, xs, ys, opds, np.array(wq.data[0][0][1], dtype=float),
                           pick(rnd, len(xs), 2, []), True,
                           dict(base, view="OPD_difference.samples", dist="gaussian_quad", num_rays=nq))
    if rnd.random() < 0.5:
        dk = rnd.choice(["hexapolar", "uniform"])
        nh = rnd.randint(3, 5)
        val = G.quiet(RayOperand.OPD_difference, optic, f[0], f[1], nh, w, dk)
        wq = G.quiet(Wavefront, optic, [f], [w], nh, dk)
        opds = np.array(wq.data[0][0][0], dtype=float)
        ev.append(dict(W.opdiff_event(opds, np.ones(len(opds)), val),
                       _tag=dict(base, view="OPD_difference", dist=dk, num_rays=nh)))
    return ev


def chief_ok(optic):
    """The chief ray of every field / wavelength reaches the image surface."""
    for f in optic.fields.get_field_coords():
        for w in optic.wavelengths.get_wavelengths():
            c = W.chief_record(optic, f[0], f[1], w)
            if not all(math.isfinite(v) for v in c["P"] + c["d"] + [c["o"]]):
                return False
    return True


def random_lens_task(args):
    seed, i, quick = args
    rnd = random.Random(seed ^ 0x5bd1e995)
    try:
        optic, meta = G.quiet(build_lens, seed, i)
    except Exception as ex:
        return {"skip": "lens could not be built (%s)" % type(ex).__name__, "seed": seed}
    kind = DISTS[i % len(DISTS)]
    meta["dist"] = kind
    meta["num_rays"] = dist_size(rnd, kind, quick)
    try:
        if not G.quiet(chief_ok, optic):
            return {"skip": "a chief ray does not reach the image surface (non-finite record)", "seed": seed}
        ev = lens_events(optic, meta, rnd, quick, "seed %d/%d" % (seed, i))
    except Exception as ex:
        import traceback
        return {"error": "%s: %s" % (type(ex).__name__, ex), "tb": traceback.format_exc()[-1500:], "seed": seed, "i": i,
                "meta": meta}
    return {"seed": seed, "i": i, "meta": meta, "events": ev}


def sample_task(args):
    name, seed, quick = args
    rnd = random.Random(seed)
    cls = {c.__name__: c for c in G.sample_classes()}[name]
    try:
        optic = G.quiet(cls)
    except Exception as ex:
        return {"skip": "sample %s cannot be built (%s)" % (name, type(ex).__name__), "sample": name}
    ft = optic.field_type
    inf = bool(optic.object_surface.is_infinite)
    if (inf and ft != "angle") or (not inf and ft != "object_height"):
        return {"skip": "sample outside the quantifier (finite object with angle fields)", "sample": name}
    if any(_f(fl.x) != 0.0 for fl in optic.fields.fields):
        return {"skip": "sample has x fields", "sample": name}
    vig = any(_f(fl.vx) != 0.0 or _f(fl.vy) != 0.0 for fl in optic.fields.fields)
    kind = rnd.choice(["hexapolar", "uniform", "cross", "random"])
    meta = {"dist": kind, "num_rays": dist_size(rnd, kind, quick), "vignetted": vig, "sample": name,
            "finite_object": not inf, "variant": ["sample"]}
    try:
        ev = lens_events(optic, meta, rnd, quick, name)
    except Exception as ex:
        import traceback
        return {"error": "%s: %s" % (type(ex).__name__, ex), "tb": traceback.format_exc()[-1500:], "sample": name, "meta": meta}
    return {"sample": name, "meta": meta, "events": ev}


# --------------------------------------------------------------------------
def fl(d):
    return float(undy(d)) if d["k"] == "fin" else float("nan")


def corruptions(e, rnd):
    """Single-aspect corruptions of an accepted event -> [(event, admissible clauses)]."""
    out = []
    if e["kind"] == "rms":
        c = copy.deepcopy(e)
        c["val"] = dy(fl(e["val"]) * 1.001 + 1e-9)
        out.append((c, ["rms"]))
        xs = [fl(x) for x in e["opds"]]
        mean = sum(xs) / len(xs)
        if abs(mean) > 1e-3 * (1e-12 + max(abs(x) for x in xs)):
            c = copy.deepcopy(e)                 # RMS about the mean is NOT the documented quantity
            c["val"] = dy(math.sqrt(sum((x - mean) ** 2 for x in xs) / len(xs)))
            out.append((c, ["rms"]))
        return out
    if e["kind"] == "opdiff":
        c = copy.deepcopy(e)
        c["val"] = dy(fl(e["val"]) * 1.01 + 1e-9)
        out.append((c, ["opd_difference"]))
        return out
    opd = fl(e["opd"])
    zt = fl(e["ztol"])
    step = max(1e-3, 3 * 2000.0 * zt / fl(e["lam"]))       # 0.001 waves for closed-form lenses
    c = copy.deepcopy(e)
    c["opd"] = dy(opd + step)
    out.append((c, ["opd_value", "chief_zero"]))
    if abs(opd) > step:
        c = copy.deepcopy(e)
        c["opd"] = dy(-opd)
        out.append((c, ["opd_value"]))
    # the other intersection with the sphere
    P, d, C = [fl(x) for x in e["P"]], [fl(x) for x in e["d"]], [fl(x) for x in e["C"]]
    pb = sum((P[i] - C[i]) * d[i] for i in range(3))
    c = copy.deepcopy(e)
    c["t"] = dy(2 * pb / sum(v * v for v in d) - fl(e["t"]))
    out.append((c, ["root_certificate"]))
    # sphere centred elsewhere (certificates recomputed for that sphere, so only the value can object)
    X = [0.0, 0.0, fl(e["zi"]) + fl(e["xpl"])]
    r = math.sqrt(sum((C[i] - X[i]) ** 2 for i in range(3)))
    px = math.hypot(fl(e["fan"][2]), fl(e["fan"][3])) if e["fan"][0] else 1.0
    ang = math.sqrt(max(0.0, 1 - sum(d[i] * fl(e["dc"][i]) for i in range(3)) ** 2))
    shift = 0.02 * r
    # first-order change of the path difference when the centre moves by shift * (0.6, -0.8, 0): the
    # projection of (d - dc) on that direction - a shift perpendicular to the ray's transverse
    # direction changes nothing, however oblique the ray is
    dcv = [fl(x) for x in e["dc"]]
    proj = abs((d[0] - dcv[0]) * 0.6 - (d[1] - dcv[1]) * 0.8) * shift
    if min(ang * shift, proj) > 1e-3 + 200 * zt and not e["chief"]:
        C2 = [C[0] + shift * 0.6, C[1] - shift * 0.8, C[2]]
        c = copy.deepcopy(e)
        c["C"] = [dy(v) for v in C2]
        c["tc"] = dy(W.back_distance(C2, [fl(x) for x in e["dc"]], C2, X))
        c["t"] = dy(W.back_distance(P, d, C2, X))
        out.append((c, ["opd_value", "~image_point_near_sphere"]))
    if e["chief"]:
        c = copy.deepcopy(e)           # exact zero for closed-form lenses, else within the iteration tolerance
        c["opd"] = dy(1e-18 if zt == 0.0 else 50.0 * 1000.0 * zt / fl(e["lam"]))
        out.append((c, ["chief_zero"]))
    if e["inf"]:
        tau = sum((fl(e["p0"][i]) - fl(e["pc0"][i])) * fl(e["d0"][i]) for i in range(3))
        if abs(tau) > 1e-5 + 20 * zt:
            c = copy.deepcopy(e)                 # tilt of the incoming wave with the wrong sign
            for key in ("d0", "d0c"):
                c[key][0] = dy(-fl(e[key][0]))
                c[key][1] = dy(-fl(e[key][1]))
            out.append((c, ["opd_value"]))
    if e["fan"][0]:
        c = copy.deepcopy(e)
        j = 3 if e["fan"][1] < e["fan"][0] else 2
        c["fan"][j] = dy(fl(e["fan"][j]) + 1e-6)
        out.append((c, ["fan_sample"]))
    c = copy.deepcopy(e)
    c["iown"] = dy(fl(e["iown"]) * 0.5 + 0.25)
    out.append((c, ["intensity"]))
    return out


def main(ctx):
    quick = ctx.tier == "quick"
    # ---- 1. the model -------------------------------------------------------
    r = ctx.model_check("MC_Wavefront", "MC_Wavefront_quick.cfg" if quick else "MC_Wavefront.cfg", workers=12,
                        timeout=300 if quick else 900)
    counts = r.prints("COUNTS")
    ctx.extra["model_cases"] = counts[-1][1:] if counts else []
    # ---- 2. code -> spec ------------------------------------------------------
    nlens = 36 if quick else 450
    tasks = [(ctx.seed * 104729 + 31 * i, i, quick) for i in range(nlens)]
    names = [c.__name__ for c in G.sample_classes()]
    snames = [s for s in SAMPLES if s in names][: (5 if quick else len(SAMPLES))]
    if not quick:
        snames = [s for s in names if s != "TelescopeObjective48Inch"]
    stasks = [(s, ctx.seed + 17 * j, quick) for j, s in enumerate(snames)]
    with ProcessPoolExecutor(max_workers=12) as ex:
        results = list(ex.map(random_lens_task, tasks, chunksize=2)) + list(ex.map(sample_task, stasks))
    events, tags = [], {}
    nl = 0
    by = {"infinite/angle": 0, "finite/height": 0, "xp_real(xpl<0)": 0, "xp_beyond_image(xpl>0)": 0,
          "image_not_air": 0, "refracting_image_surface": 0, "object_not_air": 0, "vignetted(chief only)": 0}
    views, dists = {}, {}
    for res in results:
        if res.get("skip"):
            ctx.skip(res["skip"])
            continue
        if res.get("error"):
            ctx.report("raises", {"stage": "wavefront", "error": res["error"].split(":")[0]},
                       "%s on %s" % (res["error"], res.get("sample") or "seed %s" % res.get("seed")),
                       {"seed": res.get("seed"), "i": res.get("i"), "sample": res.get("sample"),
                        "meta": res.get("meta"), "traceback": res.get("tb")})
            continue
        nl += 1
        if os.environ.get("VERIF_VERBOSE"):
            import hashlib
            ctx.log("lens %s %s: %d events, digest %s" % (res.get("sample") or res.get("seed"), res.get("i"), len(res["events"]),
                    hashlib.sha256(json.dumps([{k: v for k, v in e.items() if not k.startswith("_")} for e in res["events"]],
                                              sort_keys=True).encode()).hexdigest()[:12]))
        for e in res["events"]:
            e["id"] = len(events)
            tags[e["id"]] = e.pop("_tag")
            tags[e["id"]]["variant"] = res["meta"].get("variant", [])
            events.append(e)
            tg = tags[e["id"]]
            views[tg["view"]] = views.get(tg["view"], 0) + 1
            if e["kind"] == "ray":
                dists[tg["dist"]] = dists.get(tg["dist"], 0) + 1
                by["infinite/angle" if tg["inf"] else "finite/height"] += 1
                by["xp_real(xpl<0)" if tg["xpl"] < 0 else "xp_beyond_image(xpl>0)"] += 1
                by["image_not_air"] += tg["nimg"] != 1.0
                by["refracting_image_surface"] += tg["nimg"] != tg["nimg_pre"]
                by["object_not_air"] += tg["nobj"] != 1.0
                by["vignetted(chief only)"] += not e["full"]
    ctx.extra["lenses_recorded"] = nl
    ctx.extra["events"] = len(events)
    ctx.extra["ray_events_by_class"] = by
    ctx.extra["events_by_view"] = views
    ctx.extra["ray_events_by_distribution"] = dists
    verdicts = ctx.validate("Trace_Wavefront", events, shards=16, timeout=600 if quick else 1500,
                            count_traces=nl)
    njudged = 0
    for e in events:
        v = verdicts[e["id"]]
        tg = tags[e["id"]]
        notes = [c for c in v if c.startswith("~")]
        explained = [c.split(":", 1)[1] for c in notes if c.startswith("~explained:")]
        for c in notes:
            if not c.startswith("~explained:"):
                ctx.skip(c[1:] + " (not judged)")
        clauses = [c for c in v if not c.startswith("~")]
        if not [c for c in notes if not c.startswith("~explained:")]:
            njudged += 1
        for clause in clauses:
            cls = {"view": tg["view"].split(".")[0]}
            if clause == "opd_value":
                cls = {"explained": explained[0] if explained else "none"}
                if not explained:
                    cls.update(infinite_object=tg["inf"], image_in_air=tg["nimg"] == 1.0,
                               object_in_air=tg["nobj"] == 1.0)
            what = ("%s, field %s, w %s, pupil (%.4g, %.4g), %s/%s: clause %s fails (reported OPD %r waves; "
                    "n_image %.6g, n_object %.6g)" % (tg["lens"], tg.get("field"), tg.get("w"), tg.get("px", 0), tg.get("py", 0),
                                                       tg["view"], tg["dist"], clause,
                                                       fl(e["opd"]) if e["kind"] == "ray" else (fl(e["val"]) if "val" in e else e.get("npts")),
                                                       tg.get("nimg", 1), tg.get("nobj", 1)))
            keys = ("C", "dc", "oc", "tc", "pc0", "P", "d", "o", "t", "p0", "d0", "zi", "xpl", "nimg", "nobj", "lam", "opd")
            ctx.report(clause, cls, what,
                       {"tag": tg, "event": {k: ([fl(x) for x in e[k]] if isinstance(e[k], list) else fl(e[k]))
                                             for k in keys if k in e}})
    ctx.extra["events_judged_in_full"] = njudged
    good = [e for e in events if not verdicts[e["id"]] and (e["kind"] != "ray" or e["full"])]
    for e in good[:: max(1, len(good) // 4)][:4]:
        tg = tags[e["id"]]
        ctx.sample({"lens": tg["lens"], "view": tg["view"], "dist": tg["dist"], "field": tg.get("field"),
                    "w": tg.get("w"), "pupil": [tg.get("px"), tg.get("py")],
                    "reported": fl(e["opd"]) if e["kind"] == "ray" else (fl(e["val"]) if "val" in e else e.get("npts")), "verdict": "accepted"})
    # ---- 3. calibration --------------------------------------------------------
    rnd = random.Random(ctx.seed + 99)
    rays = [e for e in good if e["kind"] == "ray"]
    picked = rnd.sample(rays, min(len(rays), 14 if quick else 60))
    picked += [e for e in rays if e["chief"] and e["ztol"]["s"] == 0][:3] + [e for e in rays if e["chief"] and e["ztol"]["s"] != 0][:2]
    picked += [e for e in rays if e["fan"][0]][:3]
    picked += [e for e in good if e["kind"] == "rms"][:4] + [e for e in good if e["kind"] == "opdiff"][:4]
    cal, expect = [], {}
    for e in picked:
        for c, clauses in corruptions(e, rnd):
            c["id"] = len(cal)
            expect[c["id"]] = clauses
            cal.append(c)
    cv = ctx.validate("Trace_Wavefront", cal, shards=16, timeout=600, count_traces=0)
    missed = [(cid, cl, cv[cid]) for cid, cl in expect.items() if not (set(cv[cid]) & set(cl))]
    kinds = {}
    for cid, cl in expect.items():
        kinds[cl[0]] = kinds.get(cl[0], 0) + 1
    ctx.extra["calibration"] = {"corruptions": len(cal), "by_expected_clause": kinds, "missed": len(missed)}
    import hashlib
    ctx.log("digest of the recorded events: %s" % hashlib.sha256(json.dumps(
        [{k: v for k, v in e.items() if k != "id"} for e in events], sort_keys=True).encode()).hexdigest()[:16])
    if len(cal) < 20 and not ctx.violations:
        # (with violations on record, few accepted events are the code's doing, not the machinery's)
        raise T.MachineryError("calibration set too small (%d): too few accepted events" % len(cal))
    if missed:
        if os.environ.get("VERIF_VERBOSE"):
            for cid, cl, got in missed[:2]:
                ctx.log("missed corruption %d: %s" % (cid, json.dumps(cal[cid])[:3000]))
        raise T.MachineryError("corrupted events not rejected (spec too permissive): %s" % missed[:3])
    ctx.assumptions += [
        "the back-propagation distance t to the reference sphere is a logged certificate (float quadratic + one exact Newton step); "
        "the spec verifies |P - t d - C|^2 = |C - X|^2 to 2^-44 of the length scale and the root choice, it does not trust t",
        "root choice stated by the spec: first intersection going backwards from the image surface (t > 0 when the image point is "
        "inside the sphere); the property text does not fix the cap, and for an exit pupil beyond the image (XPL > 0) this is the "
        "cap opposite the pupil - the two choices differ at second order in the aberration",
        "XPL is read from optic.paraxial.XPL() (its correctness is C04's business); indices from the media objects (C18)",
        "image space = the medium behind the image surface (material_post): the image surface is an ordinary surface, its record "
        "holds the direction after it (refracted into air when the last medium is glass and the image surface was added without a "
        "medium); the law is judged in that medium",
        "samples whose image point is farther than R/2 from the chief image point are not judged (ill-conditioned sphere intersection)",
        "fields with non-zero vignetting factors: only OPD(chief) = 0 is judged (the property is silent on vignetting)",
        "RMS is the documented root-mean-square of the OPD values (not relative to their mean)",
    ]
