"""C01, flag structure for lenses of every size: spec/LensStructure.tla.

Apalache proves IndInv (AtMostOneStop, OnePrimary, index ranges) inductive with no bound on
the number of surfaces or wavelengths: Init => IndInv (length 0) and IndInv /\\ Next => IndInv'
(length 1 from an arbitrary IndInv state).  Two negative controls (an append that does not
clear the other stop flags; an add_wavelength that does not make the first wavelength primary)
must be refuted.  TLC checks on the bounded Lens models that Lens refines LensStructure
(PROPERTY StructureRefined in the C01 configurations), and the behaviour replay binds Lens to
the code - so the unbounded result is about the abstract machine, and the chain to the code is
the bounded refinement plus the replay.
"""
import os
import re
import subprocess
import time

from harness import tlc as T

SPEC = os.path.join(os.path.dirname(os.path.dirname(os.path.dirname(os.path.abspath(__file__)))), "spec")


def apalache(ctx, name, args, timeout=600):
    out = os.path.join(ctx.work, "apalache_" + name)
    cmd = ["apalache-mc", "check", "--out-dir=" + out] + args + ["MC_LensStructure.tla"]
    t0 = time.time()
    try:
        p = subprocess.run(cmd, cwd=SPEC, capture_output=True, text=True, timeout=timeout)
    except subprocess.TimeoutExpired:
        raise T.MachineryError("apalache %s: timeout after %ds" % (name, timeout))
    m = re.search(r"The outcome is: (\w+)", p.stdout)
    outcome = m.group(1) if m else "none"
    ctx.models.append({"module": "MC_LensStructure", "cfg": "apalache " + " ".join(args), "distinct": 0, "generated": 0,
                       "wall_s": round(time.time() - t0, 2), "ok": outcome == "NoError", "tool": "apalache-mc 0.58",
                       "outcome": outcome})
    ctx.log("apalache %s: %s (%.1fs)" % (name, outcome, time.time() - t0))
    if outcome not in ("NoError", "Error"):
        raise T.MachineryError("apalache %s: no outcome\n%s" % (name, (p.stdout + p.stderr)[-1500:]))
    return outcome


def run(ctx):
    base = apalache(ctx, "base", ["--init=Init", "--inv=IndInv", "--length=0"])
    step = apalache(ctx, "step", ["--init=IndInit", "--inv=IndInv", "--length=1"])
    if base != "NoError" or step != "NoError":
        # the abstract machine is ours: a failure here is a defect of the specification, not of the code
        raise T.MachineryError("LensStructure.IndInv is not inductive (base %s, step %s)" % (base, step))
    for nx in ("NextBad", "NextBad2"):
        if apalache(ctx, "neg_" + nx, ["--init=IndInit", "--next=" + nx, "--inv=IndInv", "--length=1"]) != "Error":
            raise T.MachineryError("apalache negative control %s was not refuted" % nx)
    ctx.extra["unbounded_flag_structure"] = {
        "tool": "apalache-mc 0.58", "module": "spec/LensStructure.tla",
        "proved": "IndInv inductive (AtMostOneStop, OnePrimary) for any number of surfaces and wavelengths",
        "negative_controls_refuted": ["append without clearing", "first wavelength not forced primary"],
        "bound_to_code_by": "TLC PROPERTY StructureRefined on the bounded Lens models + behaviour replay"}
