"""C20 - Zemax import reproduces the prescription written in the file.

model:      spec/Zemax.tla: a .zmx file as a sequence of keyword lines, the reader as a
            line-dispatch state machine (spec/ZemaxReader.tla, one operator per keyword,
            unknown keywords stutter), `Finish` = the prescription the file denotes in the
            vocabulary of Lens.tla / harness/project.py.  A generator (the grammar of
            well-formed files) writes one line per step; TLC enumerates every file of the
            grids in spec/MC_Zemax.tla and checks, on each complete file, the laws re-read
            declaratively from the text (RadiusLaw R*c = 1, VertexLaw, ParmLaw, StopLaw,
            MediumLaw, WaveLaw, FieldLaw, ApertureLaw, SurfaceCount, RejectsNSC) and the
            action properties UnknownStutters / BlockFrame / SurfPushes.
spec->code: every complete file is printed by TLC together with the prescription it
            denotes; the driver renders it to text (exact decimal literals, several number
            styles, LF / CRLF), writes it in UTF-8 and UTF-16 (BOM; little and big endian),
            loads it with optiland.fileio.load_zemax_file, observes the lens and compares
            with what TLC computed, exactly.  When everything agrees a few paraxial values
            are compared with a lens built through the public API from the same numbers.
            -simulate supplies long files (30 surfaces, 12 wavelengths, noise lines).
code->spec: random well-formed texts with arbitrary decimal literals and the repository's
            own two .zmx files are loaded; the tokenised text and the loaded projection
            (exact dyadic numbers) are judged by spec/Trace_Zemax.tla, which runs the same
            reader and evaluates the laws relationally (R*c = 1 to 2^-50 ...).
Every run calibrates both comparisons with corrupted expectations / records.
"""
import copy
import json
import os
import random
import re
from concurrent.futures import ProcessPoolExecutor, ThreadPoolExecutor

from harness import tlc as T
from harness import zmx as Z

CFG_DEFAULT = dict(
    U="= 1024", MinSurf="= 1", MaxSurf="= 3", Modes="<- SeqOnly", Apertures="<- ApE", GcatLists="<- NoGcat",
    FieldTypes="<- FtAngle", FieldPairs="<- FP1", MaxFld="= 1", PadFld="<- Pad0", Waves="<- W2",
    MaxWl="= 1", PadWl="<- Pad0", PwavFirst="<- PwAfter", Types="<- BothTypes", TypeOpt="<- TypeReq",
    Curvs="<- C2", Thicks="<- T1", ObjThicks="<- ObjInf", Conics="<- K1", ParmRows="<- Rows1",
    Glasses="<- G0", ImageFree="= FALSE", Noise="<- NoNoise", MaxNoise="= 0",
    Catalogue="<- MCCatalogue", Export="= TRUE", ExportMod="= 1")
INVARIANTS = ["RejectsNSC", "FinishTotal", "GridExact", "SurfaceCount", "RadiusLaw", "VertexLaw", "ConicLaw", "ParmLaw", "StopLaw",
              "MediumLaw", "WaveLaw", "FieldLaw", "ApertureLaw"]
PROPERTIES = ["UnknownStutters", "BlockFrame", "SurfPushes"]
ACTIONS = ["MODE", "ENPD", "FNUM", "OBNA", "GCAT", "FTYP", "XFLN", "YFLN", "PWAV", "WAVM", "SURF", "STOP",
           "TYPE", "CURV", "PARM", "DISZ", "GLAS", "CONI", "UNKNOWN", "End"]
# the catalogue facts assumed by spec/MC_Zemax.tla (MCCatalogue), re-checked on the database directory
CATALOGUE = {("SCHOTT", "N-SF11"), ("SCHOTT", "F2"), ("HIKARI", "F2"), ("CDGM", "F2"), ("SCHOTT", "SF6"),
             ("HIKARI", "SF6"), ("OHARA", "L-BAL35")}
GRID_NAMES = ["N-SF11", "F2", "SF6", "L-BAL35", "QQGLASS1", "___BLANK"]
UNKNOWN_NAMES = ["QQGLASS1", "___BLANK", "XK7M"]
CLAUSE_OF = {1: "radius", 2: "conic", 3: "coef", 4: "stop", 5: "medium", 6: "n_values", 7: "medium_chain",
             8: "vertex", 10: "aperture", 11: "field_type", 12: "fields", 13: "wavelengths", 14: "primary",
             15: "stop_index", 20: "accepts_nsc", 21: "raises", 22: "count", 99: "more"}


def cfg_text(**over):
    d = dict(CFG_DEFAULT)
    d.update(over)
    t = "SPECIFICATION Spec\nCONSTANTS\n" + "".join("  %s %s\n" % kv for kv in d.items())
    t += "".join("INVARIANT %s\n" % i for i in INVARIANTS) + "".join("PROPERTY %s\n" % p for p in PROPERTIES)
    return t + "CHECK_DEADLOCK FALSE\n"


def write(ctx, name, text):
    p = os.path.join(ctx.work, name)
    with open(p, "w") as fh:
        fh.write(text)
    return p


# ------------------------------------------------------------ environment ----
def check_environment(ctx):
    """The catalogue facts the model assumes, checked on the database itself."""
    src = open(os.path.join(T.SPEC, "MC_Zemax.tla")).read()
    m = re.search(r"MCCatalogue == \{(.*?)\}", src, flags=re.S)
    pairs = set(re.findall(r'<<"([^"]+)", "([^"]+)">>', m.group(1)))
    if pairs != CATALOGUE:
        raise T.MachineryError("MCCatalogue in MC_Zemax.tla differs from the driver's list")
    vendors = sorted(v.upper() for v in os.listdir(Z.glass_dir()))
    for n in GRID_NAMES:
        for v in vendors:
            if Z.catalogue_has(v, n) != ((v, n) in CATALOGUE):
                raise T.MachineryError("catalogue assumption wrong for (%s, %s)" % (v, n))
    # names meant to be unknown must not occur in the catalogue index at all (not even as a substring)
    import csv
    idx = os.path.join(os.path.dirname(Z.glass_dir()), "..", "catalog_nk.csv")
    with open(idx, newline="", encoding="utf-8") as fh:
        rows = list(csv.DictReader(fh))
    for n in UNKNOWN_NAMES:
        for r in rows:
            if n.lower() in r["name"].lower() or n.lower() in r["category_name"].lower():
                raise T.MachineryError("name %s is meant to be unknown but the catalogue has %s" % (n, r["name"]))
    ctx.extra["catalogue_rows"] = len(rows)


# ------------------------------------------------------------- TLC export ----
def coverage_counts(out):
    c = {}
    out = out.split("The coverage statistics at")[-1]       # -coverage 1 reports every minute; the last is final
    for m in re.finditer(r"^<(\w+) line \d+, col \d+ to line \d+, col \d+ of module Zemax>: (\d+):(\d+)", out, flags=re.M):
        c[m.group(1)] = c.get(m.group(1), 0) + int(m.group(3))
    return c


def file_prints(out):
    return [ln for ln in out.splitlines() if ln.startswith('"FILE ')]


def run_grid(ctx, name, over, workers=16, timeout=800):
    cfg = write(ctx, name + ".cfg", cfg_text(**over))
    r = ctx.model_check("MC_Zemax", cfg, workers=workers, timeout=timeout, args=["-coverage", "1"])
    cov = coverage_counts(r.out)
    files = file_prints(r.out)
    mod = int(over.get("ExportMod", "= 1").split()[-1])
    ends = cov.get("End", -1)
    if (mod == 1 and ends != len(files)) or len(files) > ends or len(files) * mod * 4 < ends:
        raise T.MachineryError("%s: TLC took End %s times but printed %d files (1 in %d)" % (name, ends, len(files), mod))
    ctx.extra.setdefault("files_in_grid", {})[name] = ends
    if not files:
        raise T.MachineryError("%s: the grid contains no complete file" % name)
    ctx.extra.setdefault("files_enumerated", {})[name] = len(files)
    return files, cov


def run_sim(ctx, name, over, num, seed, depth=900, timeout=600):
    cfg = write(ctx, name + ".cfg", cfg_text(**over))
    r = ctx.model_check("MC_Zemax", cfg, workers=1, timeout=timeout, must_pass=False,
                        args=["-simulate", "num=%d" % num, "-depth", str(depth), "-seed", str(seed)])
    if "Error:" in r.out or "rror" in "\n".join(l for l in r.out.splitlines() if not l.startswith('"FILE'))[-2000:].replace("No error", ""):
        raise T.MachineryError("simulation failed:\n" + "\n".join(
            l for l in r.out.splitlines() if not l.startswith('"FILE'))[-3000:])
    files = file_prints(r.out)
    if len(files) != num:
        raise T.MachineryError("%s: %d behaviours asked, %d complete files printed" % (name, num, len(files)))
    ctx.extra.setdefault("files_simulated", {})[name] = len(files)
    return files


# ------------------------------------------------------------------ replay ----
def image_block_is_default_plane(lines):
    """Read off the text: the last SURF block denotes a bare plane (no curvature, no
    aspheric term, no glass, not the stop)."""
    last = []
    for l in lines:
        if l["kw"] == "SURF":
            last = []
        else:
            last.append(l)
    val = lambda v: v if isinstance(v, (int, float)) else None
    curv = [l["a"][0] for l in last if l["kw"] == "CURV"]
    typ = [l["s"][0] for l in last if l["kw"] == "TYPE"]
    parm = [l["a"][1] for l in last if l["kw"] == "PARM"]
    return (not curv or val(curv[-1]) == 0) and not any(l["kw"] in ("GLAS", "STOP") for l in last) and \
        (not typ or typ[-1] == "STANDARD" or all(val(p) == 0 for p in parm))


def classify(m, n, lines_cls):
    cls = {"where": Z.where_of(m["j"], n), "image_surface_is_default_plane": lines_cls["image_default"]}
    if "medium_case" in m:
        cls["medium_case"] = m["medium_case"]
    return cls


def _replay_one(args):
    raw, idx, seed, work = args
    rnd = random.Random(seed * 1000003 + idx)
    lines, out = Z.parse_file_print(raw)
    exp = Z.expected(out)
    style = Z.STYLES[rnd.randrange(len(Z.STYLES))]
    ftyp8 = rnd.random() < 0.5
    res = {"idx": idx, "kw": {}, "loads": 0, "mis": [], "harness": None, "style": style, "n": 0, "parax": None}
    for l in lines:
        k = l["kw"] if l["kw"] in Z_KEYWORDS else "UNKNOWN"
        res["kw"][k] = res["kw"].get(k, 0) + 1
    fc = Z.file_class(lines)
    n = fc["surfaces"]
    res["n"] = n
    lcls = {"image_default": image_block_is_default_plane(lines)}
    variants = [("utf-8", rnd.choice(["\n", "\r\n"]), False), ("utf-16", "\r\n", False)]
    if idx % 5 == 0:
        variants.append(("utf-16", "\n", True))            # big endian with BOM
    first_obs = None
    for enc, eol, be in variants:
        text = Z.render(lines, style, ftyp8, eol)
        # the rendering must denote exactly the numbers TLC chose (harness self-check)
        tok = [t for t in Z.tokenize(text) if t["kw"] in Z_KEYWORDS]
        want = [l for l in lines if l["kw"] in Z_KEYWORDS]
        if len(tok) != len(want):
            res["harness"] = "render/tokenize line count"
            return res
        for t, w in zip(tok, want):
            if t["kw"] != w["kw"] or t["s"] != w["s"] or t["a"] != Z.denoted(w):
                res["harness"] = "render/tokenize disagree on %r vs %r" % (t, w)
                return res
        path = os.path.join(work, "f%d_%d_%s%s.zmx" % (os.getpid(), idx, enc, "be" if be else ""))
        optic, exc = Z.load_text(text, enc, path, bom_be=be)
        res["loads"] += 1
        tag = enc + ("-be" if be else "")
        if exp["reject"]:
            if exc is None:
                res["mis"].append({"clause": "accepts_nsc", "j": 0, "enc": tag, "cls": {"where": "header"},
                                   "msg": "MODE NSC file was loaded"})
            else:
                res.setdefault("reject_exc", type(exc).__name__)
            continue
        if exc is not None:
            cls = {"exc": type(exc).__name__, "where": "file",
                   "evenasph_with_fewer_than_8_parm_lines": fc["evenasph_with_fewer_than_8_parm_lines"],
                   "image_surface_is_default_plane": lcls["image_default"]}
            res["mis"].append({"clause": "raises", "j": 0, "enc": tag, "cls": cls,
                               "msg": "load raised %s: %s" % (type(exc).__name__, exc)})
            continue
        try:
            obs = Z.observe(optic)
        except Exception as ex:        # noqa: BLE001
            res["mis"].append({"clause": "raises", "j": 0, "enc": tag,
                               "cls": {"exc": type(ex).__name__, "where": "observe"},
                               "msg": "loaded lens cannot be read: %r" % (ex,)})
            continue
        for m in Z.compare(exp, obs):
            m["enc"] = tag
            m["cls"] = classify(m, n, lcls)
            res["mis"].append(m)
        if first_obs is None:
            first_obs = obs
            first_optic = optic
        elif obs != first_obs:
            res["mis"].append({"clause": "encoding", "j": 0, "enc": tag, "cls": {"where": "file"},
                               "msg": "%s load differs from the UTF-8 load" % tag})
    # paraxial values against a lens built through the public API from the same numbers
    if first_obs is not None and not res["mis"] and n >= 3 and 2 <= exp["stop"] < n:
        try:
            ref = Z.build_reference(exp, first_obs)
        except Exception as ex:        # noqa: BLE001
            res["parax"] = "reference_raises " + type(ex).__name__
        else:
            a, b = Z.paraxial_values(first_optic), Z.paraxial_values(ref)
            if not all(Z.same(b[k], a[k]) for k in b):
                res["mis"].append({"clause": "paraxial", "j": 0, "enc": "utf-8", "cls": {"where": "lens"},
                                   "msg": "paraxial values %r, lens built from the written numbers gives %r" % (a, b)})
            res["parax"] = "compared"
    if idx < 3:
        res["sample"] = {"text": Z.render(lines, style, ftyp8, "\n"), "expected": exp}
    return res


Z_KEYWORDS = {"MODE", "ENPD", "FNUM", "OBNA", "GCAT", "FTYP", "XFLN", "YFLN", "WAVM", "PWAV", "SURF", "TYPE",
              "CURV", "DISZ", "CONI", "PARM", "GLAS", "STOP"}


def _warm(i):
    import optiland.fileio          # noqa: F401  (import cost paid once per worker)
    import optiland.materials       # noqa: F401
    return os.getpid()


def _replay_chunk(jobs):
    return [_replay_one(j) for j in jobs]


def submit_replay(ctx, pool, raws, label, limit=None, rnd=None, chunk=20):
    """Hand TLC-printed files to the worker pool; returns (futures, files used)."""
    total = len(raws)
    if limit is not None and total > limit:
        raws = rnd.sample(raws, limit)
    jobs = [(raw, i, ctx.seed, ctx.work) for i, raw in enumerate(raws)]
    futs = [pool.submit(_replay_chunk, jobs[i:i + chunk]) for i in range(0, len(jobs), chunk)]
    ctx.extra.setdefault("files_replayed", {})[label] = {"enumerated": total, "replayed": len(raws)}
    return futs, raws


def collect(futs):
    out = []
    for f in futs:
        out += f.result()
    return out


def digest(ctx, results, raws, kwcount, stats):
    for r in results:
        if r["harness"]:
            raise T.MachineryError("harness self-check failed: " + r["harness"])
        for k, v in r["kw"].items():
            kwcount[k] = kwcount.get(k, 0) + v
        stats["files"] += 1
        stats["loads"] += r["loads"]
        stats["by_surfaces"][r["n"]] = stats["by_surfaces"].get(r["n"], 0) + 1
        if r["parax"] == "compared":
            stats["paraxial_compared"] += 1
        elif r["parax"]:
            stats["paraxial_reference_raises"] += 1
        if "reject_exc" in r:
            stats["nsc_rejected_with"][r["reject_exc"]] = stats["nsc_rejected_with"].get(r["reject_exc"], 0) + 1
        if not r["mis"]:
            stats["agree"] += 1
        if "sample" in r:
            ctx.sample(r["sample"], cap=3)
        seen = set()
        for m in r["mis"]:
            key = (m["clause"], m["j"])
            if key in seen:                 # same difference in the other encoding
                continue
            seen.add(key)
            lines, _ = Z.parse_file_print(raws[r["idx"]])
            ctx.report(m["clause"], m["cls"], "%s surface %d: %s" % (m["cls"].get("where"), m["j"], m["msg"]),
                       {"encoding": m["enc"], "style": r["style"], "text": Z.render(lines, r["style"], True, "\n")})
    ctx.traces += sum(r["loads"] for r in results)


# -------------------------------------------------------------- calibration ----
def calibrate_compare(ctx, raws, rnd):
    """Corrupt the expected prescription of accepted files, one field each; the
    comparison has to object with the right clause."""
    muts = 0
    used = 0
    for raw in raws:
        lines, out = Z.parse_file_print(raw)
        exp = Z.expected(out)
        if exp.get("reject") or len(exp["surf"]) < 3 or not image_block_is_default_plane(lines):
            continue
        text = Z.render(lines, "repr", True, "\n")
        optic, exc = Z.load_text(text, "utf-8", os.path.join(ctx.work, "cal.zmx"))
        if exc is not None:
            continue
        obs = Z.observe(optic)
        if Z.compare(exp, obs):
            continue
        used += 1

        def m_radius(e):
            e["surf"][1]["R"] = 2.0 * e["surf"][1]["R"] if e["surf"][1]["R"] != float("inf") else 7.0

        def m_vertex(e):
            e["surf"][-1]["z"] += 0.5

        def m_conic(e):
            j = [i for i, s in enumerate(e["surf"]) if s["R"] != float("inf")]
            if not j:
                return False
            e["surf"][j[0]]["k"] += 1.0

        def m_coef(e):
            e["surf"][1]["coef"] = list(e["surf"][1]["coef"]) + [1.0 / 1024]

        def m_medium(e):
            s = e["surf"][1]["med"]
            if s["kind"] == "model":
                s["nd"] += 1.0 / 1024
            elif s["kind"] == "cat":
                s["from"] = ["NOBODY"]
            else:
                e["surf"][1]["med"] = {"kind": "model", "nd": 1.5, "vd": 60.0}

        def m_stop(e):
            e["surf"][1]["stop"] = not e["surf"][1]["stop"]

        def m_stop_index(e):
            e["stop"] = e["stop"] + 1

        def m_aperture(e):
            e["ap"][1] += 1.0 / 1024

        def m_aptype(e):
            e["ap"][0] = "imageFNO" if e["ap"][0] != "imageFNO" else "EPD"

        def m_ftype(e):
            e["ftype"] = "angle" if e["ftype"] != "angle" else "object_height"

        def m_fields(e):
            e["fields"] = sorted(e["fields"] + [[0.125, 0.125]])

        def m_wl(e):
            e["wl"][0] += 1.0 / 1024

        def m_primary(e):
            e["primary"] = e["primary"] % len(e["wl"]) + 1 if len(e["wl"]) > 1 else 2

        def m_count(e):
            e["surf"] = e["surf"][:-1]
        table = [("radius", m_radius), ("vertex", m_vertex), ("conic", m_conic), ("coef", m_coef),
                 ("medium", m_medium), ("stop", m_stop), ("stop_index", m_stop_index), ("aperture", m_aperture),
                 ("aperture", m_aptype), ("field_type", m_ftype), ("fields", m_fields), ("wavelengths", m_wl),
                 ("primary", m_primary), ("count", m_count)]
        for clause, fn in table:
            e2 = copy.deepcopy(exp)
            if fn(e2) is False:
                continue
            got = {m["clause"] for m in Z.compare(e2, obs)}
            if clause not in got:
                raise T.MachineryError("calibration: corrupted %s not noticed by the comparison (got %s)" % (clause, got))
            muts += 1
        if used >= 4:
            break
    if used < 2:
        if ctx.violations:             # nothing is accepted because the code is broken: that is the verdict
            ctx.skip("calibration of the comparison: no accepted file to corrupt")
            return
        raise T.MachineryError("calibration: fewer than two accepted files available")
    ctx.extra["calibration_compare"] = {"files": used, "mutations_rejected": muts}


# ------------------------------------------------------------ code -> spec ----
def decode(codes):
    out = []
    for c in codes:
        out.append((CLAUSE_OF.get(c // 100, "clause%d" % (c // 100)), c % 100))
    return out


def medium_case_from_text(lines_f, j, obs):
    """Describe (not judge) how the loaded medium of surface j relates to the GLAS line."""
    blocks, cur, gcat = [], None, []
    for l in lines_f:
        if l["kw"] == "GCAT":
            gcat = l["s"]
        if l["kw"] == "SURF":
            cur = []
            blocks.append(cur)
        elif cur is not None:
            cur.append(l)
    g = [l for l in blocks[j - 1] if l["kw"] == "GLAS"]
    o = obs["surf"][j - 1]["med"]
    if not g:
        return "glass_where_none_written"
    name = g[-1]["s"][0]
    if o["kind"] == "cat":
        if not Z.vendors_of(name):
            return "unknown_name_resolved"
        return "same_name_other_catalogue" if o["name"] == name else "other_entry"
    if o["kind"] == "model":
        return "not_resolved" if Z.vendors_of(name) else "model_numbers"
    return "not_resolved"


def _load_for_trace(args):
    eid, text, enc, work = args
    optic, exc = Z.load_text(text, enc, os.path.join(work, "t%d_%d.zmx" % (os.getpid(), eid)))
    ev, obs = Z.make_event(eid, text, optic, exc)
    return ev, obs, (None if exc is None else "%s: %s" % (type(exc).__name__, exc))


def _load_chunk(jobs):
    return [_load_for_trace(j) for j in jobs]


def trace_jobs(ctx, rnd, n_random):
    texts = []
    _repo = os.environ.get("VERIF_REPO") or "/repo"
    for path in (_repo + "/tests/zemax_files/lens1.zmx", _repo + "/tests/zemax_files/lens2.zmx"):
        raw = open(path, "rb").read()
        texts.append(("repo:" + os.path.basename(path), raw.decode("utf-16" if raw[:2] in (b"\xff\xfe", b"\xfe\xff") else "utf-8")))
    for i in range(n_random):
        texts.append(("random", Z.random_text(rnd, plain_image=(rnd.random() < 0.85))))
    jobs = [(i, t, ("utf-8", "utf-16")[i % 2], ctx.work) for i, (_, t) in enumerate(texts)]
    return texts, jobs


def trace_validation(ctx, texts, recs, calibrate=True):
    events = [r[0] for r in recs]
    # calibration: corrupted copies of accepted-looking events must be rejected with the right clause
    cal = []
    nid = len(events)
    want = {}
    for ev, obs, _ in recs:
        if not calibrate or ev["exc"] or len(ev["post"]["surf"]) < 3 or len(cal) >= 40:
            continue
        ps = ev["post"]["surf"]

        def variant(code, j, fn):
            nonlocal nid
            e2 = copy.deepcopy(ev)
            e2["id"] = nid
            fn(e2["post"])
            want[nid] = (code * 100 + j, ev["id"])
            nid += 1
            cal.append(e2)
        one = Z.dyn(1.0 / 1024)
        jc = [i for i, s in enumerate(ps) if s["R"]["k"] == "fin"]
        if jc:
            variant(1, jc[0] + 1, lambda p: p["surf"][jc[0]].__setitem__("R", Z.dyn(obs["surf"][jc[0]]["R"] * (1 + 2.0 ** -40))))
            variant(2, jc[0] + 1, lambda p: p["surf"][jc[0]].__setitem__("k", Z.dyn(obs["surf"][jc[0]]["k"] + 1.0)))
        variant(8, 3, lambda p: p["surf"][2].__setitem__("z", Z.dyn(obs["surf"][2]["z"] + 1e-9 * (1 + abs(obs["surf"][2]["z"])))))
        variant(3, 2, lambda p: p["surf"][1].__setitem__("coef", p["surf"][1]["coef"] + [one]))
        variant(4, 2, lambda p: p["surf"][1].__setitem__("stop", not p["surf"][1]["stop"]))
        variant(5, 2, lambda p: p["surf"][1].__setitem__("med", {"kind": "model", "nd": one, "vd": one}))
        variant(10, 0, lambda p: p["ap"].__setitem__(1, Z.dyn(obs["ap"][1] * (1 + 2.0 ** -50))))
        variant(13, 0, lambda p: p["wl"].__setitem__(0, Z.dyn(obs["wl"][0] + 2.0 ** -40)))
        variant(12, 0, lambda p: p["fields"].append([one, one]))
        variant(14, 0, lambda p: p.__setitem__("primary", p["primary"] % 12 + 1 if len(p["wl"]) > 1 else 2))
        variant(22, 0, lambda p: p.__setitem__("surf", p["surf"][:-1]))
    verdicts = ctx.validate("Trace_Zemax", events + cal, shards=6 if len(events) < 400 else 16, count_traces=len(events))
    # only corruptions of records the spec accepts count (a record that already fails may be "repaired" by one)
    eff = {i: code for i, (code, base) in want.items() if not verdicts[base]}
    missed = [i for i, code in eff.items() if code not in verdicts[i]]
    if missed or (len(eff) < 10 and not ctx.violations and calibrate):
        raise T.MachineryError("calibration: Trace_Zemax accepted %d corrupted record(s) (of %d effective)" % (len(missed), len(eff)))
    if calibrate:
        ctx.extra["calibration_trace"] = {"corrupted_events": len(eff), "rejected": len(eff) - len(missed)}
    by_kind = {}
    for (kind, text), (ev, obs, excmsg) in zip(texts, recs):
        by_kind[kind.split(":")[0]] = by_kind.get(kind.split(":")[0], 0) + 1
        lines_f = Z.tokenize(text, float)
        n = sum(1 for l in lines_f if l["kw"] == "SURF")
        img = image_block_is_default_plane(lines_f)
        seen = set()
        for clause, j in decode(verdicts[ev["id"]]):
            if clause == "more" or clause in seen and clause == "n_values":
                continue
            if clause == "raises":
                fc = Z.file_class(lines_f)
                cls = {"exc": ev["exc"], "where": "file",
                       "evenasph_with_fewer_than_8_parm_lines": fc["evenasph_with_fewer_than_8_parm_lines"],
                       "image_surface_is_default_plane": img}
                msg = "load raised " + str(excmsg)
            else:
                cls = {"where": Z.where_of(j, n), "image_surface_is_default_plane": img}
                if clause in ("medium", "n_values") and obs is not None and 1 <= j <= len(obs["surf"]):
                    cls["medium_case"] = medium_case_from_text(lines_f, j, obs)
                    clause = "medium" if clause == "n_values" and cls["medium_case"] else clause
                msg = "Trace_Zemax rejects clause %s at surface %d (%s)" % (clause, j, kind)
            if (clause, j) in seen:
                continue
            seen.add((clause, j))
            ctx.report(clause, cls, msg, {"source": kind, "text": text})
    ctx.extra["trace_events"] = by_kind


def replay(ctx, rep):
    """./check C20 --replay <file>: load the recorded text again and let Trace_Zemax judge it."""
    r = rep.get("repro", {})
    text = r["text"]
    enc = "utf-16" if str(r.get("encoding", "")).startswith("utf-16") else "utf-8"
    recs = [_load_for_trace((0, text, enc, ctx.work))]
    trace_validation(ctx, [(r.get("source", "replay"), text)], recs, calibrate=False)


# -------------------------------------------------------------------- main ----
def main(ctx):
    quick = ctx.tier == "quick"
    rnd = random.Random(ctx.seed)
    check_environment(ctx)
    counts = {}
    grids = []
    # (a) surfaces, every block free including the image block (exposes what happens to the last block)
    grids.append(("surf_free", dict(MaxSurf="= 3", Types="<- BothTypes", ParmRows="<- Rows2",
                                     Curvs="<- C2" if quick else "<- C3", Thicks="<- T1" if quick else "<- T2",
                                     ObjThicks="<- ObjInf" if quick else "<- Obj2", Conics="<- K1", Glasses="<- G2", ImageFree="= TRUE", ExportMod="= 1" if quick else "= 16"),
                  500 if quick else 6000))
    # (b) four surfaces, plain image block, optional TYPE line
    grids.append(("surf_plain", dict(MinSurf="= 3", MaxSurf="= 4" if quick else "= 5", Types="<- BothTypes",
                                      TypeOpt="<- TypeMaybe", ParmRows="<- Rows1", Curvs="<- C2", Thicks="<- T1",
                                      Conics="<- NoneAtAll" if quick else "<- K1", Glasses="<- G0", ObjThicks="<- Obj2", ExportMod="= 1" if quick else "= 16"),
                  None if quick else 5000))
    # (c) glasses x catalogue lists
    grids.append(("glass", dict(MinSurf="= 3", MaxSurf="= 3", Types="<- StdOnly", Curvs="<- C1", Conics="<- NoneAtAll",
                                 Glasses="<- G6", GcatLists="<- Gcat5"), None))
    # (d) header: mode, aperture keywords and values, field type, unknown lines anywhere; one lens shape
    hdr = dict(MinSurf="= 3", MaxSurf="= 3", Types="<- StdOnly", Curvs="<- C1", Conics="<- NoneAtAll",
               Glasses="<- G0" if quick else "<- GQ")
    grids.append(("header_ap", dict(hdr, Modes="<- BothModes", Apertures="<- Ap3" if quick else "<- Ap6", FieldTypes="<- FtBoth",
                                     Noise="<- Noise2" if quick else "<- Noise4", MaxNoise="= 1", ObjThicks="<- Obj2"),
                  300 if quick else 3000))
    # (e) fields: 1-3 declared, padded lines, repeated and unsorted pairs
    grids.append(("header_fields", dict(hdr, MaxFld="= 3", FieldPairs="<- FP3" if quick else "<- FP4",
                                         PadFld="<- Pad01" if quick else "<- Pad02", FieldTypes="<- FtBoth", Glasses="<- G0"),
                  250 if quick else 2500))
    # (f) wavelengths: 1-3 declared, padded WAVM lines, any primary, PWAV before or after
    grids.append(("header_waves", dict(hdr, MaxWl="= 3", Waves="<- W2", PadWl="<- Pad02", PwavFirst="<- PwBoth"),
                  250 if quick else 2500))
    kwcount = {}
    stats = {"files": 0, "loads": 0, "agree": 0, "paraxial_compared": 0, "paraxial_reference_raises": 0,
             "by_surfaces": {}, "nsc_rejected_with": {}}
    accepted_pool = []
    all_exhaustive = True
    pending = []
    pool = ProcessPoolExecutor(max_workers=16)
    # all worker processes are forked here, before any thread exists (a fork while another thread
    # is launching a JVM would inherit that JVM's pipe ends)
    list(pool.map(_warm, range(32)))
    tlcs = ThreadPoolExecutor(max_workers=3)          # three TLC runs at a time, six workers each
    try:
        # (g) long files by simulation: up to 30 surfaces, 12 wavelengths, all keywords, noise
        sim_over = dict(MaxSurf="= 30", Apertures="<- Ap6", GcatLists="<- Gcat5", FieldTypes="<- FtBoth",
                        FieldPairs="<- FP6", MaxFld="= 6", PadFld="<- Pad02", Waves="<- W4", MaxWl="= 12",
                        PadWl="<- Pad02", PwavFirst="<- PwBoth", Types="<- BothTypes", TypeOpt="<- TypeMaybe",
                        Curvs="<- C5", Thicks="<- T4", ObjThicks="<- Obj2", Conics="<- K2", ParmRows="<- RowsFullOnly",
                        Glasses="<- G2", Noise="<- Noise4", MaxNoise="= 6")
        gf = [(name, limit, tlcs.submit(run_grid, ctx, name, over, 6)) for name, over, limit in grids]
        sf = tlcs.submit(run_sim, ctx, "simulate", sim_over, 40 if quick else 800, ctx.seed + 11)
        for name, limit, fut in gf:
            raws, cov = fut.result()
            for k, v in cov.items():
                counts[k] = counts.get(k, 0) + v
            futs, used = submit_replay(ctx, pool, raws, name, limit=limit, rnd=rnd)   # replayed while TLC goes on
            if len(used) < len(raws) or ctx.extra["files_in_grid"][name] != len(raws):
                all_exhaustive = False
            pending.append((futs, used))
        pending.append(submit_replay(ctx, pool, sf.result(), "simulate"))
        tjobs = trace_jobs(ctx, rnd, 80 if quick else 1500)
        tfuts = [pool.submit(_load_chunk, tjobs[1][i:i + 10]) for i in range(0, len(tjobs[1]), 10)]
        for futs, used in pending:
            results = collect(futs)
            digest(ctx, results, used, kwcount, stats)
            accepted_pool += [used[r["idx"]] for r in results if not r["mis"] and r["n"] >= 3][:40]
        recs = collect(tfuts)
    finally:
        tlcs.shutdown(wait=True, cancel_futures=True)
        pool.shutdown(wait=True, cancel_futures=True)
    ctx.exhaustive = all_exhaustive
    ctx.extra["replay"] = stats
    ctx.extra["model_action_counts"] = {a: counts.get(a, 0) for a in ACTIONS}
    ctx.extra["keyword_lines_in_replayed_files"] = kwcount
    missing = [a for a in ACTIONS if a != "End" and counts.get(a, 0) == 0] + \
              [k for k in Z_KEYWORDS | {"UNKNOWN"} if kwcount.get(k, 0) == 0]
    if missing:
        raise T.MachineryError("generator never exercised: %s" % sorted(set(missing)))
    if (stats["agree"] == 0 or stats["paraxial_compared"] == 0) and not ctx.violations:
        raise T.MachineryError("no file agreed completely - the comparison is vacuous")
    calibrate_compare(ctx, accepted_pool, rnd)
    # ---- code -> spec
    trace_validation(ctx, tjobs[0], recs)
    ctx.assumptions += [
        "decimal literals of the generated files denote k/1024 exactly (checked for every rendered number); "
        "curvatures are +-2^k/1024 so 1/c is exact in float64",
        "catalogue facts (which vendor directory of database/data-nk/glass holds <name>.yml) are read from the "
        "database directory, not through Material; the names used as unknown occur nowhere in catalog_nk.csv",
        "the medium of a loaded surface is identified from material_post: class, AbbeMaterial.index/.abbe, "
        "Material.material_data['filename']; index values compared at 0.45/0.55/0.65 um with MaterialFile / AbbeMaterial "
        "objects built directly (certificates, code -> spec direction)",
        "fields are compared as a set (the property does not fix their order; the reader sorts by y and drops repeats)",
        "supported encodings exercised: UTF-8 without BOM (LF and CRLF), UTF-16 with BOM in both byte orders",
        "harness/dy.py float<->dyadic conversion; Python float() as the meaning of a decimal literal",
    ]
