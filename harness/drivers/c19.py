"""C19 - saving and reloading a lens preserves its behaviour.

1. TLC model-checks Lens.tla with SaveLoad (and ScaleSystem) interleaved with the
   edit calls (the prescription is unchanged by a save/reload, in every reachable
   state); the generated behaviours - with save_load steps through the dictionary
   form and through a JSON file - are replayed on the real Optic and compared
   after every call (spec -> code), and re-validated by Trace_Lens (code -> spec).
2. Feature-rich random lenses (every geometry kind, ideal / catalogue / model-glass /
   mirror media, simple and Fresnel coatings, BSDFs, apertures, vignetted fields,
   wavelengths with units, polarization settings, pickups, solves), before and
   after edit histories, are saved and reloaded both ways; Trace_Reload judges
   each reload: same projection, bit-identical ray records and paraxial values
   for the same queries, dictionary round trip.
"""
import json
import math
import os
import random
import tempfile
from concurrent.futures import ProcessPoolExecutor

import numpy as np

from harness import lensgen as G
from harness import project as P
from harness.drivers import c01
from harness.dy import dy

PARAX = ["f1", "f2", "F1", "F2", "P1", "P2", "N1", "N2", "EPL", "EPD", "XPL", "XPD", "FNO", "magnification", "invariant"]


def rich_lens(rnd):
    from optiland.coatings import SimpleCoating
    from optiland.materials import AbbeMaterial, IdealMaterial
    from optiland.scatter import GaussianBSDF, LambertianBSDF
    from optiland.rays import PolarizationState
    kinds = ("standard", "standard", "even_asphere", "polynomial", "chebyshev")
    tele = rnd.random() < 0.15
    if tele:    # object-space telecentric: finite object, object NA, height fields
        o, meta = G.random_lens(rnd, kinds=kinds, mirrors=False, tilts=False, catalogue=True, apertures=True,
                                coatings=True, absorbing=True, finite_object=True, aperture="objectNA",
                                field_type="object_height")
        o.obj_space_telecentric = True
    else:
        o, meta = G.random_lens(rnd, kinds=kinds, mirrors=True, tilts=rnd.random() < 0.4, catalogue=True,
                                apertures=True, coatings=True, absorbing=True)
    sg = o.surface_group
    feats = set(meta["kinds"])
    if tele:
        feats.add("telecentric")
    if rnd.random() < 0.2:
        o.fields.set_telecentric(rnd.random() < 0.5)
        feats.add("fieldgroup_telecentric_flag")
    n = sg.num_surfaces
    for k in range(1, n - 1):
        g = sg.surfaces[k].geometry
        if type(g).__name__ == "ChebyshevPolynomialGeometry" and rnd.random() < 0.5:
            # normalisation lengths are lengths like any other: not necessarily whole numbers
            g.norm_x = rnd.choice([64.5, 100.25, 77.7])
            g.norm_y = rnd.choice([64.5, 90.125, 81.3])
            feats.add("chebyshev_fractional_norm")
    for k in range(1, n - 1):
        s = sg.surfaces[k]
        c = rnd.random()
        if c < 0.15 and s.material_pre is not None and not s.is_reflective:
            s.set_fresnel_coating()
            feats.add("fresnel")
        elif c < 0.25:
            s.bsdf = LambertianBSDF() if rnd.random() < 0.5 else GaussianBSDF(sigma=rnd.uniform(0.01, 0.1))
            feats.add("bsdf")
    if rnd.random() < 0.3 and n > 3:
        k = rnd.randint(1, n - 2)
        if not sg.surfaces[k].is_reflective:
            m = AbbeMaterial(rnd.uniform(1.45, 1.9), rnd.uniform(25, 70))
            sg.surfaces[k].material_post = m
            sg.surfaces[k + 1].material_pre = m
            feats.add("abbe")
    pol = rnd.random()
    if pol < 0.2:
        o.set_polarization(PolarizationState(is_polarized=False))
        feats.add("unpolarized")
    elif pol < 0.4:
        o.set_polarization(PolarizationState(is_polarized=True, Ex=rnd.random(), Ey=rnd.random(),
                                             phase_x=rnd.uniform(0, 3), phase_y=rnd.uniform(0, 3)))
        feats.add("polarized")
    if rnd.random() < 0.3:
        o.add_field(y=meta["max_field"] * 0.5, vx=rnd.uniform(0, 0.3), vy=rnd.uniform(0, 0.3))
        feats.add("vignetting")
    if rnd.random() < 0.3:
        o.add_wavelength(rnd.uniform(500, 600), unit="nm")
        feats.add("wl_unit")
    meta["features"] = sorted(feats)
    return o, meta


def edit_history(rnd, o, meta):
    """A few edits through the public API (set_*, scale, pickups, solves, update)."""
    sg = o.surface_group
    n = sg.num_surfaces
    done = []
    for _ in range(rnd.randint(0, 6)):
        op = rnd.choice(["set_thickness", "set_radius", "set_conic", "set_index", "scale", "pickup", "solve",
                         "image_solve", "update", "remove", "insert"])
        n = sg.num_surfaces
        k = rnd.randint(1, n - 2)
        gname = type(sg.surfaces[k].geometry).__name__
        try:
            if op == "set_thickness":
                o.set_thickness(rnd.uniform(0.5, 20.0), k)
            elif op == "set_radius":
                o.set_radius(G.rnd_radius(rnd, 30.0), k)
            elif op == "set_conic" and gname != "Plane":
                o.set_conic(rnd.uniform(-1, 0.5), k)
            elif op == "set_index" and not sg.surfaces[k].is_reflective:
                o.set_index(rnd.uniform(1.3, 1.9), k)
            elif op == "scale" and not meta["tilted"]:
                o.scale_system(rnd.choice([0.5, 2.0, rnd.uniform(0.3, 3)]))
            elif op == "pickup" and n > 4:
                a, b = rnd.sample(range(1, n - 1), 2)
                if all(type(sg.surfaces[j].geometry).__name__ != "Plane" for j in (a, b)) and \
                        math.isfinite(P.f(sg.radii[a])):
                    o.pickups.add(a, "radius", b, scale=-1.0, offset=0.0)
            elif op == "solve" and not meta["tilted"] and not meta["mirror"]:
                o.solves.add("marginal_ray_height", n - 1, 0.0)
            elif op == "image_solve" and not meta["tilted"]:
                o.image_solve()
            elif op == "update":
                o.update()
            elif op == "remove" and n > 4 and not len(o.pickups) and not len(o.solves) and k != sg.stop_index:
                # a surface taken out of the middle: the next surface keeps the medium it was built
                # with in front of it - whatever the lens is now, it must reload as it is
                sg.remove_surface(k)
            elif op == "insert" and 2 <= k and not len(o.pickups) and not len(o.solves):
                from optiland.materials import IdealMaterial
                o.add_surface(index=k, radius=G.rnd_radius(rnd, 30.0), thickness=rnd.uniform(0.5, 5.0),
                              material=IdealMaterial(n=round(rnd.uniform(1.3, 1.9), 3), k=0))
            else:
                continue
            done.append(op)
        except Exception as ex:     # edits with valid arguments must not raise; C01 judges that - here we only note it
            done.append("%s!%s" % (op, type(ex).__name__))
    return done


def canon(d):
    def default(x):
        if isinstance(x, np.ndarray):
            return {"__ndarray__": x.tolist()}
        if isinstance(x, (np.floating, np.integer)):
            return x.item()
        return {"__object__": type(x).__name__}
    return json.dumps(d, sort_keys=True, default=default)


def observe(o, meta, seed):
    """Projection, ray records and paraxial values for fixed queries."""
    rnd = random.Random(seed)
    proj = P.to_dy(P.project(o))
    rays = []
    # Scatter models draw from numba's internal generator, which cannot be seeded from
    # outside, so two traces of one lens already differ; and optiland.scatter.scatter()
    # (fastmath, `while True`) does not terminate for a non-finite incoming ray.  Lenses
    # with a BSDF are therefore compared on prescription, dictionary form and paraxial
    # values only.
    nb = any(s.bsdf is not None for s in o.surface_group.surfaces)
    for w in ([] if nb else o.wavelengths.get_wavelengths()[:2]):
        n = 4
        Hy = np.array([rnd.uniform(-1, 1) for _ in range(n)])
        rr = np.sqrt(np.array([rnd.random() for _ in range(n)])) * 0.9
        th = np.array([rnd.uniform(0, 2 * math.pi) for _ in range(n)])
        try:
            G.quiet(o.trace_generic, np.zeros(n), Hy, rr * np.cos(th), rr * np.sin(th), w)
            sg = o.surface_group
            for arr in (sg.x, sg.y, sg.z, sg.L, sg.M, sg.N, sg.opd, sg.intensity):
                rays.append([[dy(float(v)) for v in row] for row in arr])
        except Exception as ex:
            rays.append("raises %s" % type(ex).__name__)
    parax = []
    for name in PARAX:
        try:
            v = getattr(o.paraxial, name)()
            parax.append([dy(float(x)) for x in np.ravel(v)])
        except Exception as ex:
            parax.append("raises %s" % type(ex).__name__)
    return proj, rays, parax


def reload_case(args):
    return G.quiet(_reload_case, args)


def _reload_case(args):
    seed, how = args
    rnd = random.Random(abs(seed))
    from optiland.optic import Optic
    from optiland.fileio import load_optiland_file, save_optiland_file
    try:
        if seed < 0:    # a bundled sample design
            classes = G.sample_classes()
            cls = classes[(-seed - 1) % len(classes)]
            o = cls()
            meta = {"features": ["sample:" + cls.__name__], "tilted": False, "mirror": False, "kinds": [], "edits": []}
        else:
            o, meta = G.quiet(rich_lens, rnd)
            meta["edits"] = G.quiet(edit_history, rnd, o, meta)
    except Exception as ex:
        return {"seed": seed, "skip": "build: %s: %s" % (type(ex).__name__, ex)}
    ev = {"id": None, "seed": seed, "how": how, "exc": "", "meta": meta}
    try:
        proj0, rays0, parax0 = observe(o, meta, seed)
    except Exception as ex:
        return {"seed": seed, "skip": "observe: %s: %s" % (type(ex).__name__, ex)}
    try:
        if how == "dict":
            d0 = o.to_dict()
            o1 = Optic.from_dict(d0)
            d0s = canon(d0)
        else:
            fd, path = tempfile.mkstemp(suffix=".json", dir=os.environ.get("VERIF_WORK") or None)
            os.close(fd)
            try:
                save_optiland_file(o, path)
                with open(path) as fh:
                    d0s = canon(json.load(fh))
                o1 = load_optiland_file(path)
            finally:
                os.remove(path)
        d1 = o1.to_dict()
        d1s = canon(d1)
        d2s = canon(Optic.from_dict(d1).to_dict())
        proj1, rays1, parax1 = observe(o1, meta, seed)
    except Exception as ex:
        ev["exc"] = "%s: %s" % (type(ex).__name__, ex)
        for k in ("proj0", "proj1", "rays0", "rays1", "parax0", "parax1"):
            ev[k] = []
        ev["dict0"] = ev["dict1"] = ev["dict2"] = ""
        return ev
    ev.update(proj0=proj0, proj1=proj1, rays0=rays0, rays1=rays1, parax0=parax0, parax1=parax1,
              dict0=d0s, dict1=d1s, dict2=d2s)
    return ev


def classify(ev, clause):
    m = ev["meta"]
    cls = {"how": ev["how"]}
    if clause == "raises":
        msg = ev["exc"]
        cls["error"] = msg.split(":")[0]
        cls["fresnel"] = "fresnel" in m["features"]
        cls["ndarray_position"] = "ndarray" in msg
        import re
        m2 = re.search(r"Object of type (\w+) is not JSON serializable", msg)
        cls["not_serialisable"] = m2.group(1) if m2 else ""
    return cls


def main(ctx):
    quick = ctx.tier == "quick"
    os.environ["VERIF_WORK"] = ctx.work
    rnd = random.Random(ctx.seed)
    # ---- 1. Lens machine with save/load interleaved ------------------------------
    for b in c01.BASES:
        depth = 3 if quick else 4
        if b == "Doublet":
            depth = 3
        ctx.model_check("MC_Lens", c01.write_cfg(ctx, "edit_%s.cfg" % b,
                                                 c01.cfg_text(base=b, depth=depth, extras="AllExtras")), workers=16)
    # (SaveLoad does not change the VIEW of the model, so -dump never shows it as a new state:
    # behaviours containing save_load steps come from simulation)
    jobs = []
    sims = []
    for b in c01.BASES:
        sims += c01.gen_sim(ctx, "sim_%s" % b, c01.cfg_text(base=b, depth=40, invs=False, props=False, extras="AllExtras"),
                            150 if quick else 1500, 10 if quick else 16, ctx.seed + 5)
    sims = [j for j in sims if any(c["op"] == "save_load" for c in j[1])]
    if quick and len(jobs) > 800:
        jobs = rnd.sample(jobs, 800)
    fails = c01.replay_many(ctx, jobs + sims)
    ctx.traces += len(jobs) + len(sims)
    ctx.extra["behaviours_with_save_load_replayed"] = len(jobs) + len(sims)
    for j in (sims[:1] + jobs[:1]):
        ctx.sample({"calls": j[1][:8]})
    for f in fails:
        cls = c01.classify(f)
        cls["ndarray_position"] = "ndarray" in f["msg"]
        ctx.report(f["clause"], cls, f["msg"], {"base": f["base"], "hist": f["hist"]})
    # the same behaviours, recorded and judged by Trace_Lens (code -> spec)
    from harness.drivers import c01_trace
    tasks = [(i, j[0], j[1]) for i, j in enumerate(sims[:60 if quick else 600])]
    events = []
    with ProcessPoolExecutor(max_workers=16) as ex:
        for evs, calls in ex.map(c01_trace.record_grid_behaviour, tasks, chunksize=4):
            events += evs
    for i, e in enumerate(events):
        e["id"] = i
    if events:
        v = c01_trace.validate_by_trace(ctx, "Trace_Lens", events)
        for e in events:
            for clause in v[e["id"]]:
                ctx.report(clause, {"op": e["op"], "ndarray_position": "ndarray" in e["exc"]},
                           "%s (trace %d, call %d): clause %s fails %s" % (e["op"], e["tid"], e["seq"], clause, e["exc"]),
                           {"trace": e["tid"], "seq": e["seq"]})
    # ---- 2. feature-rich lenses ----------------------------------------------------
    n = 160 if quick else 3000
    tasks = [(ctx.seed * 15485863 + i, "dict" if i % 2 else "file") for i in range(n)]
    nsamp = len(G.sample_classes())
    tasks += [(-(i + 1), "dict" if (i + ctx.seed) % 2 else "file") for i in range(nsamp)]
    if not quick:
        tasks += [(-(i + 1), "file" if (i + ctx.seed) % 2 else "dict") for i in range(nsamp)]
    with ProcessPoolExecutor(max_workers=16) as ex:
        res = list(ex.map(reload_case, tasks, chunksize=4))
    evs = []
    feats = {}
    for r in res:
        if "skip" in r:
            ctx.skip(r["skip"].split(":")[0] + ":" + r["skip"].split(":")[1] if ":" in r["skip"] else r["skip"])
            continue
        r["id"] = len(evs)
        evs.append(r)
        for f in r["meta"]["features"] + ["edit:" + e for e in r["meta"]["edits"]]:
            feats[f] = feats.get(f, 0) + 1
    payload = [{k: e[k] for k in ("id", "exc", "proj0", "proj1", "rays0", "rays1", "parax0", "parax1",
                                  "dict0", "dict1", "dict2")} for e in evs]
    verdicts = ctx.validate("Trace_Reload", payload, shards=16, count_traces=len(evs))
    for e in evs:
        for clause in verdicts[e["id"]]:
            ctx.report(clause, classify(e, clause),
                       "reload (%s) of lens seed %d %s: clause %s fails %s" % (e["how"], e["seed"], e["meta"], clause, e["exc"]),
                       {"seed": e["seed"], "how": e["how"]})
    ctx.extra["reload_cases"] = len(evs)
    ctx.extra["features_covered"] = feats
    if evs:
        ctx.sample({"seed": evs[0]["seed"], "how": evs[0]["how"], "features": evs[0]["meta"]["features"], "edits": evs[0]["meta"]["edits"]})
    # ---- calibration ---------------------------------------------------------------
    good = [p for p in payload if not verdicts[p["id"]] and p["rays0"] and not isinstance(p["rays0"][0], str)]
    cal = []
    import copy
    for p in good[:6]:
        c = copy.deepcopy(p); c["id"] = len(cal); c["rays1"][0][-1][0] = dy(1.2345); cal.append((c, "rays"))
        c = copy.deepcopy(p); c["id"] = len(cal); c["dict1"] = c["dict1"] + " "; cal.append((c, "dict_roundtrip"))
        c = copy.deepcopy(p); c["id"] = len(cal); c["proj1"]["surf"][1]["R"] = dy(77.0); cal.append((c, "prescription"))
    if not cal:
        from harness.tlc import MachineryError
        raise MachineryError("no accepted reload case to calibrate on")
    cv = ctx.validate("Trace_Reload", [c for c, _ in cal], shards=4, count_traces=0)
    missed = [(c["id"], cl) for c, cl in cal if cl not in cv[c["id"]]]
    if missed:
        from harness.tlc import MachineryError
        raise MachineryError("calibration: corrupted reload events accepted: %s" % missed)
    ctx.extra["calibration"] = {"corruptions": len(cal), "missed": 0}
    ctx.assumptions += ["lenses with a scatter model (random, unseedable; scatter() hangs on non-finite rays) are compared on prescription, dictionary form and paraxial values, not on rays",
                        "dictionary forms are compared as canonical JSON text (sorted keys) by TLC string equality"]
