"""C10 - Zernike families are correctly indexed, normalised, and recovered by fitting.

model:      spec/Zernike.tla states the three families from the published index rules
            (OSA/ANSI, Noll - closed formula and ordering rule -, Fringe), the radial
            polynomial by the factorial formula, the normalisation, and evaluation as a
            polynomial in (x, y).  spec/MC_Zernike.tla: TLC checks, for all 120 indices of
            each family and all 7 260 pairs, bijection/order, agreement of the two Noll
            definitions, R(1) = 1, the factorial formula and orthonormality by exact
            rational integration.
spec->code: TLC prints the index lists, coefficient tables and exact radial values at
            r = k/8; they are compared with Zernike*.indices (verbatim), _radial_term and
            _norm_constant.
code->spec: recorded uses of the implementation (single terms, poly(), ZernikeFit on
            random coefficient vectors and point sets, fits of linear combinations of data,
            ZernikeOPD on sample and random lenses) are judged by spec/Trace_Zernike.tla
            in exact dyadic arithmetic.
Every run calibrates the trace spec with corrupted records (exit 2 if one is accepted).
"""
import copy
import math
import random
import threading
from concurrent.futures import ProcessPoolExecutor

import numpy as np

from harness import tlc as T
from harness import zrec as R
from harness.dy import dy, undy
from harness.parse_tla import parse_value

# two-letter codes printed by spec/Trace_Zernike.tla (TLC wraps long lines) -> clause names
CLAUSES = {"ix": "index", "ce": "certificate", "do": "domain", "ra": "radial", "no": "norm", "az": "azimuthal",
           "tv": "term_value", "ss": "sine_sign", "co": "combo", "pv": "poly_value", "li": "linear", "rc": "recover",
           "sh": "shape", "sv": "synth_value", "dc": "data_combo", "fl": "fit_linear", "rv": "recon_value",
           "ne": "normal_equations", "rr": "residual_reported", "rx": "residual_exceeds_data",
           "rm": "residual_not_monotone", "uk": "unknown_kind"}
CONDMAX_FIT = 100.0        # exact-combination recovery: point sets with cond(design matrix) above are skipped
CONDMAX_LIN = 20.0         # linearity in (noisy) data is limited by least_squares' own termination tolerances


# ------------------------------------------------------------------ TLC output
def extract_prints(text, tag):
    """All PrintT'ed tuples <<"tag", ...>> of a TLC run, including values TLC wrapped
    over several lines."""
    out = []
    lines = text.splitlines()
    i = 0
    head = '"%s"' % tag
    while i < len(lines):
        ln = lines[i].strip()
        if ln.startswith("<<") and ln[2:].lstrip().startswith(head):
            buf = ln
            depth = buf.count("<<") - buf.count(">>")
            while depth > 0 and i + 1 < len(lines):
                i += 1
                buf += " " + lines[i].strip()
                depth = buf.count("<<") - buf.count(">>")
            out.append(parse_value(buf))
        i += 1
    return out


def model_tables(ctx, res):
    """Index lists, coefficient vectors, exact radial values and N^2 as TLC computed them."""
    idx = {p[1]: [tuple(q) for q in p[2]] for p in extract_prints(res.out, "IDX")}
    rc = {(p[1], p[2]): {"coef": p[3], "abs1": p[4]} for p in extract_prints(res.out, "RC")}
    rv = {(p[1], p[2], p[3]): (undy(p[4]), undy(p[5])) for p in extract_prints(res.out, "RV")}
    n2 = {(p[1], p[2]): p[3] for p in extract_prints(res.out, "N2")}
    if sorted(idx) != sorted(R.FAMILIES) or any(len(v) != 120 for v in idx.values()) or len(n2) != 360 \
            or len(rv) != 9 * len(rc) or not rc:
        raise T.MachineryError("export of the Zernike model incomplete: %d lists, %d coefficient vectors, %d values, %d norms"
                               % (len(idx), len(rc), len(rv), len(n2)))
    return {"idx": idx, "rc": rc, "rv": rv, "n2": n2}


# ------------------------------------------------------------------ spec -> code
def replay_tables(ctx, tab):
    ncmp = 0
    for fam in R.FAMILIES:
        z = R.family_class(fam)()
        code = [(int(n), int(m)) for n, m in z.indices]
        want = tab["idx"][fam]
        ncmp += 1
        if code != want:
            k = next((i for i in range(min(len(code), len(want))) if code[i] != want[i]), min(len(code), len(want)))
            ctx.report("indices", {"family": fam}, "%s indices differ from the published rule at position %d: code %s, rule %s (lengths %d/%d)"
                       % (fam, k + 1, code[k:k + 3], want[k:k + 3], len(code), len(want)),
                       {"family": fam, "position": k + 1})
        for j, (n, m) in enumerate(want, 1):
            nc = float(z._norm_constant(n, m))
            ncmp += 1
            if abs(nc * nc - tab["n2"][(fam, j)]) > 1e-12 * tab["n2"][(fam, j)] or nc <= 0:
                ctx.report("norm_grid", {"family": fam}, "%s _norm_constant(%d,%d)^2 = %r, rule %d" % (fam, n, m, nc * nc, tab["n2"][(fam, j)]),
                           {"family": fam, "n": n, "m": m})
    z = R.family_class("standard")()
    worst = 0.0
    for (n, ma), rec in sorted(tab["rc"].items()):
        for k in range(9):
            exact, scale = tab["rv"][(n, ma, k)]
            for m in ({ma, -ma}):
                for arr in (False, True):
                    r = k / 8.0
                    try:
                        got = R._f(z._radial_term(n, m, np.array([r, 0.5]) if arr else r))
                    except Exception as ex:      # the implementation's answer, not a harness failure
                        ctx.report("raises", {"n": n, "m_abs": ma}, "_radial_term(%d,%d,%g) raises %s: %s"
                                   % (n, m, r, type(ex).__name__, ex), {"n": n, "m": m, "r": r})
                        break
                    ncmp += 1
                    err = abs(got - float(exact))
                    tol = float(scale) * 2.0 ** -46
                    if scale:
                        worst = max(worst, err / float(scale))
                    if not err <= tol:
                        ctx.report("radial_grid", {"n": n, "m_abs": ma}, "_radial_term(%d,%d,%g) = %r, exact %s" % (n, m, r, got, exact),
                                   {"n": n, "m": m, "r": r, "got": got, "exact": str(exact)})
    ctx.extra["spec_to_code"] = {"comparisons": ncmp, "index_lists": 3, "radial_pairs": len(tab["rc"]),
                                 "radial_grid": "r = k/8, k = 0..8, both signs of m, scalar and array input",
                                 "worst_radial_error_over_scale": worst}
    ctx.traces += ncmp
    return ncmp


# ------------------------------------------------------------------ event plans
def plan(ctx):
    quick = ctx.tier == "quick"
    rnd = random.Random(ctx.seed * 1000003 + 10)
    terms, lins, fits, opds = [], [], [], []
    reps = 1 if quick else 6
    for fam in R.FAMILIES:
        for j in range(1, 121):
            for q in range(reps):
                r = rnd.choice([1.0, 0.0, 0.5]) if (q == 0 and rnd.random() < 0.1) else math.sqrt(rnd.random())
                terms.append((fam, j, r, rnd.uniform(-math.pi, math.pi), rnd.uniform(-3, 3) * 10 ** rnd.randint(-2, 2), rnd.random() < 0.5))
    for k in range(40 if quick else 200):                   # high orders once more, near the rim
        fam = R.FAMILIES[k % 3]
        terms.append((fam, rnd.randint(60, 120), 1.0 - rnd.random() ** 3 * 0.2, rnd.uniform(-math.pi, math.pi), 1.0, k % 2 == 0))
    for k in range(48 if quick else 600):
        fam = R.FAMILIES[k % 3]
        # (every admissible length of coefficient vector, the full 120 included)
        N = [1, 2, 37, 36, 120, 119, 80, 120][k // 3] if k < 24 else (rnd.randint(38, 120) if k % 4 == 0 else rnd.randint(1, 37))
        lins.append((fam, R.random_coeffs(rnd, N), R.random_coeffs(rnd, N), rnd.uniform(-3, 3), rnd.uniform(-3, 3),
                     math.sqrt(rnd.random()), rnd.uniform(-math.pi, math.pi), k % 2 == 1))
    for k in range(66 if quick else 900):
        fam = R.FAMILIES[k % 3]
        N = [1, 2, 37, 36][k // 3] if k < 12 else rnd.randint(1, 37)
        fits.append(("fit", rnd.randrange(1 << 40), fam, N, CONDMAX_FIT))
    for k in range(36 if quick else 450):
        fam = R.FAMILIES[k % 3]
        N = [1, 37][k // 3] if k < 6 else rnd.randint(1, 37)
        fits.append(("fitlin", rnd.randrange(1 << 40), fam, N, CONDMAX_LIN))
    if quick:
        opds = [(("sample", "CookeTriplet"), 1, "fringe", 37, 22, 4, 0),
                (("sample", "Edmund_49_847"), 0, "noll", 21, 11, 4, 1),
                (("sample", "TelescopeDoublet"), 2, "standard", 15, 6, 4, 2),
                # lenses whose apertures clip part of the sampled pupil (clipped rays stay samples of the wavefront)
                (("sample", "HubbleTelescope"), 0, "noll", 15, 6, 5, 3),
                (("directed", "vignetted_singlet"), 1, "fringe", 15, 6, 6, 6),
                (("directed", "vignetted_singlet"), 1, "standard", 10, 5, 5, 7),
                (("random", ctx.seed * 100 + 1), 1, "fringe", 15, 6, 6, 4),
                (("random", ctx.seed * 100 + 3), 2, "standard", 10, 5, 5, 5)]
    else:
        from harness import lensgen as G
        names = [c.__name__ for c in G.sample_classes() if c.__name__ != "TelescopeObjective48Inch"]
        for k, name in enumerate(names):
            fam = R.FAMILIES[k % 3]
            N = 37 if k % 2 == 0 else rnd.randint(4, 36)
            rings = 15 if (k % 8 == 3 and N <= 21) else rnd.choice([6, 8, 10])
            opds.append((("sample", name), k, fam, N, rnd.randint(1, N), rings, k))
        for k in range(16):
            fam = R.FAMILIES[k % 3]
            N = rnd.randint(6, 37)
            opds.append((("random", ctx.seed * 100 + k), k, fam, N, rnd.randint(1, N), rnd.choice([5, 6, 8]), k))
    return terms, lins, fits, opds


def _term(a):
    try:
        return R.term_event(*a)
    except Exception as ex:       # the implementation raising on a valid index is a verdict, not a harness failure
        return {"error": "%s: %s" % (type(ex).__name__, ex), "fam": a[0], "kind": "term",
                "lens": "%s term %d at r=%r" % (a[0], a[1], a[2])}


def _lin(a):
    try:
        return R.lin_event(*a)
    except Exception as ex:
        return {"error": "%s: %s" % (type(ex).__name__, ex), "fam": a[0], "kind": "lin",
                "lens": "%s poly with %d coefficients" % (a[0], len(a[1]))}


# ------------------------------------------------------------------ classification of verdicts
def describe(e, m):
    k = e["kind"]
    if k == "term":
        return ("%s term %d (n=%d, m=%d) at r=%.6g phi=%.6g" % (e["fam"], e["j"], e["n"], e["m"], m["r"], m["phi"]),
                {"kind": k, "family": e["fam"], "j": e["j"], "n": e["n"], "m": e["m"], "r": m["r"], "phi": m["phi"], "coeff": m["coeff"],
                 "array_input": m["array"], "get_term": float(undy(e["val"])), "_azimuthal_term": float(undy(e["az"])),
                 "_radial_term": float(undy(e["rad"])), "_norm_constant": float(undy(e["norm"]))})
    if k == "lin":
        return ("%s poly with %d terms at r=%.6g phi=%.6g" % (e["fam"], m["N"], m["r"], m["phi"]),
                {"kind": k, "family": e["fam"], "ca": m["ca"], "cb": m["cb"], "a": m["a"], "b": m["b"], "r": m["r"], "phi": m["phi"],
                 "poly": [float(undy(e[x])) for x in ("pa", "pb", "pc")]})
    if k == "fit":
        return ("%s fit of %d terms on %d %s points (cond %.1f)" % (e["fam"], e["N"], m["K"], m["style"], m["cond"]),
                {"kind": k, "family": e["fam"], "N": e["N"], "task": ["fit", m["seed"], e["fam"], e["N"], CONDMAX_FIT],
                 "ctrue": m["ctrue"], "cfit": m["cfit"]})
    if k == "fitlin":
        return ("%s fits of %d terms on %d %s points (cond %.1f)" % (e["fam"], e["N"], m["K"], m["style"], m["cond"]),
                {"kind": k, "family": e["fam"], "N": e["N"], "task": ["fitlin", m["seed"], e["fam"], e["N"], CONDMAX_LIN]})
    return ("ZernikeOPD(%s, field %s, %.4f um, num_rings=%d, '%s', %d)" % (m["lens"], m["field"], m["wavelength"], m["rings"], e["fam"], e["N"]),
            {"kind": k, "family": e["fam"], "N": e["N"], "lens": m["lens"], "field": m["field"], "wavelength": m["wavelength"],
             "num_rings": m["rings"], "coeffs": m["coeffs"], "residual_rms_waves": m["residual_rms_waves"]})


def judge(ctx, events, metas, verdicts):
    bykind, clauses = {}, {}
    for e in events:
        m = metas[e["id"]]
        bykind[e["kind"]] = bykind.get(e["kind"], 0) + 1
        for c in verdicts[e["id"]]:
            clauses[c] = clauses.get(c, 0) + 1
            text, repro = describe(e, m)
            if c == "sine_sign":
                # Observation, not a clause of C10: the property fixes indices, radial value,
                # orthonormality, linearity and fit recovery - not the sign convention of the
                # sine terms.  The library's sine terms are -N R sin(|m| phi); counted only.
                ctx.extra["observation_sine_terms_have_opposite_sign"] = \
                    ctx.extra.get("observation_sine_terms_have_opposite_sign", 0) + 1
                continue
            cls = {"kind": e["kind"], "family": e["fam"]}
            ctx.report(c, cls, "%s: clause %s fails" % (text, c), repro)
    return bykind, clauses


# ------------------------------------------------------------------ calibration
def _bump(d, delta):
    return dy(float(undy(d)) + delta)


def corruptions(e, m, tab):
    """Single-field corruptions of an accepted event -> [(event, clauses of which one must fire)]."""
    out = []
    k = e["kind"]
    idx = tab["idx"][e["fam"]]

    def scale_of(coefs):
        return sum(abs(c) * math.sqrt(tab["n2"][(e["fam"], i + 1)]) * tab["rc"][(idx[i][0], abs(idx[i][1]))]["abs1"]
                   for i, c in enumerate(coefs))
    if k == "term":
        n, mm = idx[e["j"] - 1]
        a1 = tab["rc"][(n, abs(mm))]["abs1"]
        sc = abs(m["coeff"]) * math.sqrt(tab["n2"][(e["fam"], e["j"])]) * a1
        c = copy.deepcopy(e); c["j"] = e["j"] + 1 if e["j"] < 120 else e["j"] - 1; out.append((c, ["index"]))
        if mm != 0:
            c = copy.deepcopy(e); c["m"] = -mm; out.append((c, ["index"]))
            # the azimuthal factor of the index with the other sign of m (cosine <-> sine)
            c = copy.deepcopy(e)
            c["az"] = dy(math.cos(mm * m["phi"]) if mm < 0 else math.sin(mm * m["phi"]))
            if abs(abs(math.tan(abs(mm) * m["phi"])) - 1) > 1e-3:
                out.append((c, ["azimuthal"]))
        c = copy.deepcopy(e); c["val"] = _bump(e["val"], 2.0 ** -30 * sc + 1e-300); out.append((c, ["term_value"]))
        c = copy.deepcopy(e); c["rad"] = _bump(e["rad"], 2.0 ** -30 * a1); out.append((c, ["radial"]))
        c = copy.deepcopy(e); c["norm"] = dy(float(undy(e["norm"])) * (1 + 1e-9)); out.append((c, ["norm"]))
        c = copy.deepcopy(e); c["s1"] = dy(float(undy(e["s1"])) + 1e-9 + 1e-9 * abs(float(undy(e["s1"])))); out.append((c, ["certificate"]))
    elif k == "lin":
        cc = [float(undy(x)) for x in e["cc"]]
        c = copy.deepcopy(e); c["pc"] = _bump(e["pc"], 2.0 ** -30 * (scale_of(cc) + 1e-300)); out.append((c, ["poly_value", "linear"]))
        nz = [i for i, v in enumerate(cc) if v != 0.0]
        if nz:
            c = copy.deepcopy(e); c["cc"][nz[0]] = dy(cc[nz[0]] * (1 + 1e-6)); out.append((c, ["combo"]))
        c = copy.deepcopy(e); c["pa"], c["pb"] = e["pb"], e["pa"]
        if abs(float(undy(e["pa"])) - float(undy(e["pb"]))) > 2.0 ** -30 * (scale_of(m["ca"]) + scale_of(m["cb"])):
            out.append((c, ["poly_value"]))
    elif k == "fit":
        ct = m["ctrue"]
        mx = max(abs(v) for v in ct)
        c = copy.deepcopy(e); i = len(ct) // 2; c["cfit"][i] = _bump(e["cfit"][i], 2.0 ** -12 * mx); out.append((c, ["recover"]))
        pairs = [(i, j) for i in range(len(ct)) for j in range(i + 1, len(ct)) if abs(ct[i] - ct[j]) > 2.0 ** -10 * mx]
        if pairs:
            i, j = pairs[0]
            c = copy.deepcopy(e); c["cfit"][i], c["cfit"][j] = e["cfit"][j], e["cfit"][i]; out.append((c, ["recover"]))
        c = copy.deepcopy(e); c["cfit"] = e["cfit"][:-1]; out.append((c, ["shape"]))
        s = e["spots"][0] - 1
        c = copy.deepcopy(e); c["z"][s] = _bump(e["z"][s], 2.0 ** -30 * scale_of(ct)); out.append((c, ["synth_value"]))
    elif k == "fitlin":
        a, b = float(undy(e["a"])), float(undy(e["b"]))
        z1 = [float(undy(v)) for v in e["z1"]]; z2 = [float(undy(v)) for v in e["z2"]]
        sc = abs(a) * max(map(abs, z1)) + abs(b) * max(map(abs, z2))
        c = copy.deepcopy(e); c["f3"][0] = _bump(e["f3"][0], 2.0 ** -12 * sc); out.append((c, ["fit_linear"]))
        c = copy.deepcopy(e); c["z3"][0] = _bump(e["z3"][0], 1e-6 * (abs(a * z1[0]) + abs(b * z2[0]) + 1e-300)); out.append((c, ["data_combo"]))
        if abs(a - b) > 0.1:
            c = copy.deepcopy(e); c["a"], c["b"] = e["b"], e["a"]; out.append((c, ["data_combo", "fit_linear"]))
    elif k == "opd":
        co = m["coeffs"]
        z = [float(undy(v)) for v in e["z"]]
        zr = math.sqrt(sum(v * v for v in z) / len(z))
        c = copy.deepcopy(e); c["rms"] = dy(m["residual_rms_waves"] * 1.001 + 1e-300); out.append((c, ["residual_reported"]))
        c = copy.deepcopy(e); c["recon"][1] = _bump(e["recon"][1], 2.0 ** -30 * (scale_of(co) + 1e-300)); out.append((c, ["recon_value"]))
        # a coefficient vector that still describes recon exactly but is not the least-squares solution
        zc = R.family_class(e["fam"])()
        i = min(3, e["N"] - 1)
        n, mm = zc.indices[i]
        x = np.array(m["x"]); y = np.array(m["y"])
        col = zc.get_term(1.0, n, mm, np.sqrt(x * x + y * y), np.arctan2(y, x)) * np.ones(len(x))
        d = 1e-3 * zr + 1e-12
        c = copy.deepcopy(e)
        c["coeffs"][i] = dy(co[i] + d)
        rec = np.array([float(undy(v)) for v in e["recon"]]) + d * col
        c["recon"] = R.dyl(rec)
        c["rms"] = dy(float(np.sqrt(np.mean((rec - np.array(z)) ** 2))))
        out.append((c, ["normal_equations"]))
    return out


def build_calibration(ctx, events, metas, tab):
    """Corrupted copies of recorded events (drawn before the verdicts are known; corruptions
    of an event that turns out not to be accepted are ignored afterwards)."""
    quick = ctx.tier == "quick"
    rnd = random.Random(ctx.seed + 77)
    per = {"term": 8 if quick else 40, "lin": 4 if quick else 20, "fit": 4 if quick else 20, "fitlin": 3 if quick else 12, "opd": 1}
    cal, expect = [], {}
    nid = max([e["id"] for e in events] or [0]) + 1
    for kind, n in per.items():
        pool = [e for e in events if e["kind"] == kind]
        if kind == "opd":
            pool = sorted(pool, key=lambda e: len(e["xs"]) * e["N"])[:1]
        elif kind == "term":
            pool = [e for e in pool if e["m"] != 0 and float(undy(e["val"])) != 0.0] or pool
        for e in rnd.sample(pool, min(n, len(pool))):
            for c, clauses in corruptions(e, metas[e["id"]], tab):
                c["id"] = nid
                nid += 1
                expect[c["id"]] = (clauses, e["kind"], e["id"])
                cal.append(c)
    return cal, expect


def check_calibration(ctx, expect, verdicts):
    used = {cid: x for cid, x in expect.items() if set(verdicts[x[2]]) <= {"sine_sign"}}
    kinds = sorted({k for _, k, _ in used.values()})
    missed = [(cid, cl, verdicts[cid]) for cid, (cl, _, _) in used.items() if not (set(verdicts[cid]) & set(cl))]
    ctx.extra["calibration"] = {"corrupted_records": len(used), "kinds": kinds, "missed": len(missed),
                                "ignored_because_base_event_rejected": len(expect) - len(used),
                                "by_expected_clause": {c: sum(1 for cl, _, _ in used.values() if c in cl)
                                                       for c in sorted({c for cl, _, _ in used.values() for c in cl})}}
    if missed:
        raise T.MachineryError("corrupted records not rejected (spec too permissive): %s" % missed[:4])
    if len(kinds) < 5 and len(used) == len(expect):
        raise T.MachineryError("calibration did not cover every event kind: %s" % kinds)


# ------------------------------------------------------------------ main
def main(ctx):
    quick = ctx.tier == "quick"
    box = {}

    def models():
        try:
            box["mc"] = ctx.model_check("MC_Zernike", "MC_Zernike.cfg", workers=4, timeout=600)
        except BaseException as ex:          # re-raised in the main thread
            box["err"] = ex
    gen = ctx.model_check("MC_Zernike", "MC_Zernike_gen.cfg", workers=1, timeout=300)
    tab = model_tables(ctx, gen)
    th = threading.Thread(target=models)       # the exhaustive model check runs while the code is being recorded
    th.start()
    replay_tables(ctx, tab)

    terms, lins, fits, opds = plan(ctx)
    R.TABLES = tab                             # inherited by the forked recorder processes
    with ProcessPoolExecutor(max_workers=12) as ex:
        fo = ex.map(R.opd_task, opds)
        ff = ex.map(R.fit_task, fits, chunksize=2)
        ft = ex.map(_term, terms, chunksize=40)
        fl = ex.map(_lin, lins, chunksize=8)
        raw = list(fo) + list(ff) + list(ft) + list(fl)
    th.join()
    if "err" in box:
        raise box["err"]
    ctx.exhaustive = True
    mc = box["mc"]
    ctx.extra["model"] = {"families": 3, "indices_per_family": 120, "pairs_checked": 3 * 7260,
                          "distinct_states": mc.distinct, "radial_orders_up_to": 19,
                          "invariants": ["IndexInv", "NollAgree", "EdgeInv", "OrthoInv", "OrthoWrongNorm"]}
    events, metas = [], {}
    conds = []
    for r in raw:
        if "skip" in r:
            ctx.skip(r["skip"])
            continue
        if "error" in r:
            if "not finite" in r["error"]:          # rays lost in a random lens: the OPD has NaN samples
                ctx.skip("OPD samples not finite (rays lost)")
                continue
            ctx.report("raises", {"kind": r.get("kind", "opd"), "family": r["fam"]},
                       "%s on %s raised %s" % ("ZernikeOPD" if r.get("kind", "opd") == "opd" else "evaluation", r["lens"], r["error"]), r)
            continue
        m = r.pop("_meta")
        r["id"] = len(events)
        metas[r["id"]] = m
        events.append(r)
        if "cond" in m:
            conds.append(m["cond"])
    cal, expect = build_calibration(ctx, events, metas, tab)
    # one batch for the recorded events and their corrupted copies; heavy events first so that the
    # round-robin sharding spreads them
    weight = lambda e: len(e["xs"]) * e["N"] if e["kind"] == "opd" else 0
    batch = sorted(events + cal, key=lambda e: -weight(e))
    verdicts = ctx.validate("Trace_Zernike", batch, shards=16, timeout=300 if quick else 840, count_traces=len(events))
    verdicts = {i: sorted(CLAUSES[c] for c in v) for i, v in verdicts.items()}
    bykind, clauses = judge(ctx, events, metas, verdicts)
    for kind in ("term", "lin", "fit", "fitlin", "opd"):
        if not bykind.get(kind):
            raise T.MachineryError("no '%s' event could be recorded (skipped: %s)" % (kind, ctx.skipped))
    check_calibration(ctx, expect, verdicts)
    ctx.extra["events_by_kind"] = bykind
    ctx.extra["events_by_family"] = {f: sum(1 for e in events if e["fam"] == f) for f in R.FAMILIES}
    ctx.extra["failing_clauses"] = clauses
    ctx.extra["fits"] = {"N_values": sorted({e["N"] for e in events if e["kind"] in ("fit", "fitlin")}),
                         "point_set_styles": sorted({metas[e["id"]]["style"] for e in events if e["kind"] in ("fit", "fitlin")}),
                         "max_cond": max(conds) if conds else None,
                         "worst_recovery_error_over_max_coeff": max(
                             [max(abs(a - b) for a, b in zip(metas[e["id"]]["ctrue"], metas[e["id"]]["cfit"])) / max(map(abs, metas[e["id"]]["ctrue"]))
                              for e in events if e["kind"] == "fit"] or [0.0])}
    ctx.extra["opd"] = [{"lens": metas[e["id"]]["lens"], "field": metas[e["id"]]["field"], "family": e["fam"], "N": e["N"],
                         "points": metas[e["id"]]["K"], "opd_rms_waves": metas[e["id"]]["opd_rms_waves"],
                         "residual_rms_waves": metas[e["id"]]["residual_rms_waves"]} for e in events if e["kind"] == "opd"]
    for kind in ("term", "fit", "opd"):
        for e in events:
            if e["kind"] == kind:
                text, repro = describe(e, metas[e["id"]])
                repro.pop("coeffs", None)
                ctx.sample({"event": text, "verdict": verdicts[e["id"]], "record": repro})
                break
    ctx.sample({"model": "Noll indices 1..8 as TLC computed them", "value": tab["idx"]["noll"][:8]})
    ctx.assumptions += [
        "azimuthal orthogonality (int_0^2pi cos/sin products) is the elementary table AzInner of spec/Zernike.tla; the radial integrals are computed exactly",
        "cos(phi), sin(phi) of the azimuth passed to the implementation are libm certificates validated by c^2+s^2=1; multiple angles are computed in the spec by complex powers",
        "square roots of the integer N^2 enter as certificates validated by sqt[k]^2 = k to 2^-50",
        "evaluation tolerance 2^-44 of the rounding scale sum|c_i| N_i sum_k|coef_k|; fitted coefficients 2^-20 of the largest coefficient (data for linearity); "
        "point sets with design-matrix condition number above %g (recovery) / %g (linearity) are skipped and counted" % (CONDMAX_FIT, CONDMAX_LIN),
        "the 'truncation residual it reports' is the rms residual ZernikeFit.view_residual computes (sqrt(mean((poly - z)^2)))",
    ]


def replay(ctx, rep):
    """Re-execute the recorded reproduction against the current tree and re-judge it."""
    gen = ctx.model_check("MC_Zernike", "MC_Zernike_gen.cfg", workers=1, timeout=300)
    tab = model_tables(ctx, gen)
    r = rep["repro"]
    k = r.get("kind")
    if k == "term":
        ev = R.term_event(r["family"], r["j"], r["r"], r["phi"], r["coeff"], r.get("array_input", False))
    elif k == "lin":
        ev = R.lin_event(r["family"], r["ca"], r["cb"], r["a"], r["b"], r["r"], r["phi"], False)
    elif k in ("fit", "fitlin"):
        R.TABLES = tab
        ev = R.fit_task(tuple(r["task"]))
    elif k == "opd":
        lens = ("random", int(r["lens"].split()[-1])) if r["lens"].startswith("random") else \
            (("directed", r["lens"]) if r["lens"] == "vignetted_singlet" else ("sample", r["lens"]))
        from harness import lensgen as G
        ev = None
        for fi in range(3):
            cand = R.opd_task((lens, fi, r["family"], r["N"], max(1, r["N"] // 2), r["num_rings"], 0))
            if "_meta" in cand and cand["_meta"]["field"] == r["field"]:
                ev = cand
        if ev is None:
            raise T.MachineryError("cannot rebuild the OPD case of the replay")
    else:
        replay_tables(ctx, tab)
        return
    if "kind" not in ev:
        raise T.MachineryError("replay did not produce an event: %s" % ev)
    m = ev.pop("_meta")
    ev["id"] = 0
    v = ctx.validate("Trace_Zernike", [ev], shards=1)
    judge(ctx, [ev], {0: m}, {i: sorted(CLAUSES[c] for c in x) for i, x in v.items()})
