"""C01, update() ordering: spec/UpdateOrder.tla bound to Optic.update / pickups / solves.

1. TLC model-checks MC_UpdateOrder (exact rationals): SolvesHold, PickupsHold (for
   compatible pickup/solve sets), Idempotent, ImageSolved, AddApplies, the frame
   conditions of the inner steps, EarlierSolvesKept, ListsGrow, Terminates.
2. negative controls, every run: with SolveOrder = "list" TLC must refute SolvesHold,
   and PickupsHoldAlways (no admissibility condition) must be refuted - otherwise the
   model has lost its discriminating power (machinery failure).
3. spec -> code: every idle state TLC reached carries the history of public calls that
   produced it; each history is executed on a real Optic (n = 2 singlet, two dummy
   planes, image) and the radii and gaps are compared with TLC's rationals - including
   histories outside the admissible class (stale chains, over-determined gaps), where
   the spec predicts the exact result of the list-order mechanism.
"""
import math
import os
from concurrent.futures import ProcessPoolExecutor
from fractions import Fraction

from harness import parse_tla as PT
from harness import tlc as T

CFG = """SPECIFICATION Spec
CONSTANTS
  NS = 5
  Y0 <- MCY0
  BaseR <- MCBaseR
  BaseT <- MCBaseT
  BaseN <- MCBaseN
  Radii <- %(radii)s
  Gaps <- %(gaps)s
  Heights <- MCHeights
  Pickups <- %(pickups)s
  MaxPk = 2
  MaxSv = %(maxsv)d
  MaxCalls = %(calls)d
  SolveOrder = "%(order)s"
VIEW View
CHECK_DEADLOCK FALSE
"""
POS = """INVARIANT TypeOK
INVARIANT SolvesHold
INVARIANT PickupsHold
INVARIANT Idempotent
INVARIANT ImageSolved
INVARIANT AddApplies
PROPERTY SolveStepFrame
PROPERTY PickupStepFrame
PROPERTY EarlierSolvesKept
PROPERTY ListsGrow
"""

BASE_R = [16.0, -16.0, math.inf, math.inf, math.inf]
BASE_T = [2.0, 3.0, 2.0, 4.0]
Y0 = 4.0


def cfg(ctx, name, body, **kw):
    d = dict(radii="OneRadius", gaps="OneGap", pickups="SmallPickups", maxsv=2, calls=3, order="ascending")
    d.update(kw)
    p = os.path.join(ctx.work, name)
    with open(p, "w") as fh:
        fh.write(CFG % d + body)
    return p


def q(v):
    """<<n, d>> -> float (PLANE <<1, 0>> -> inf)"""
    n, d = v
    return math.inf if d == 0 else float(Fraction(n, d))


def build():
    from optiland.materials import IdealMaterial
    from optiland.optic import Optic
    o = Optic()
    o.add_surface(index=0, thickness=math.inf)
    o.add_surface(index=1, radius=BASE_R[0], thickness=BASE_T[0], material=IdealMaterial(n=2.0, k=0), is_stop=True)
    o.add_surface(index=2, radius=BASE_R[1], thickness=BASE_T[1])
    o.add_surface(index=3, thickness=BASE_T[2])
    o.add_surface(index=4, thickness=BASE_T[3])
    o.add_surface(index=5)
    o.set_aperture("EPD", 2 * Y0)
    o.set_field_type("angle")
    o.add_field(y=0.0)
    o.add_wavelength(0.55, is_primary=True)
    return o


def apply_call(o, op, a):
    if op == "set_radius":
        o.set_radius(q(a["v"]), a["k"])
    elif op == "set_thickness":
        o.set_thickness(q(a["v"]), a["k"])
    elif op == "pickup_add":
        o.pickups.add(a["src"], a["attr"], a["tgt"], scale=q(a["scale"]), offset=q(a["off"]))
    elif op == "solve_add":
        o.solves.add("marginal_ray_height", a["k"], q(a["h"]))
    elif op == "image_solve":
        o.image_solve()
    elif op == "update":
        o.update()
    else:
        raise ValueError(op)


def project(o):
    import numpy as np
    sg = o.surface_group
    R = [float(v) for v in np.ravel(sg.radii)[1:]]
    z = [float(v) for v in np.ravel(sg.positions)[1:]]
    return R, [b - a for a, b in zip(z, z[1:])]


def close(a, b):
    if math.isinf(a) or math.isinf(b):
        return a == b or (math.isinf(a) and math.isinf(b))
    return abs(a - b) <= 1e-9 * max(1.0, abs(a), abs(b))


def replay_one(job):
    hist, R, t = job
    import contextlib
    import io
    try:
        with contextlib.redirect_stdout(io.StringIO()):
            o = build()
            for c in hist:
                apply_call(o, c["op"], c["a"])
            gR, gt = project(o)
    except Exception as ex:
        return {"clause": "raises", "msg": "%s: %s" % (type(ex).__name__, ex)}
    eR, et = [q(v) for v in R], [q(v) for v in t]
    bad = [("R%d" % (k + 1), e, g) for k, (e, g) in enumerate(zip(eR, gR)) if not close(e, g)] + \
          [("t%d" % (k + 1), e, g) for k, (e, g) in enumerate(zip(et, gt)) if not close(e, g)]
    if bad:
        return {"clause": "update_state", "msg": "; ".join("%s: spec %r, code %r" % b for b in bad)}
    return None


def classify(hist):
    ops = [c["op"] for c in hist]
    sv = [c["a"]["k"] for c in hist if c["op"] == "solve_add"]
    return {"op": ops[-1], "solves": len(sv), "solves_added_in_descending_order": any(a > b for a, b in zip(sv, sv[1:])),
            "pickups": ops.count("pickup_add")}


def run(ctx):
    quick = ctx.tier == "quick"
    big = dict(radii="MCRadii", gaps="MCGaps", pickups="MCPickups")
    # 1. model checking
    ctx.model_check("MC_UpdateOrder", cfg(ctx, "uo_small.cfg", POS + "PROPERTY Terminates\n", calls=4), workers=8)
    if not quick:
        ctx.model_check("MC_UpdateOrder", cfg(ctx, "uo_big.cfg", POS + "PROPERTY Terminates\n", calls=4, **big),
                        workers=16, timeout=1500)
        ctx.model_check("MC_UpdateOrder", cfg(ctx, "uo_three.cfg", POS, calls=5, maxsv=3, pickups="NoPickups"),
                        workers=16, timeout=1500)
    # 2. negative controls
    for name, body, kw, inv in (("uo_neg_list.cfg", "INVARIANT SolvesHold\n", dict(order="list", calls=4), "SolvesHold"),
                                ("uo_neg_pk.cfg", "INVARIANT PickupsHoldAlways\n", dict(calls=3), "PickupsHoldAlways")):
        r = ctx.model_check("MC_UpdateOrder", cfg(ctx, name, body, **kw), workers=4, must_pass=False)
        if inv not in (r.violated or []):
            raise T.MachineryError("negative control %s: TLC did not refute %s (%s)" % (name, inv, r.violated))
    ctx.extra["update_order_negative_controls"] = ["SolveOrder=list refutes SolvesHold", "PickupsHoldAlways refuted"]
    # 3. spec -> code
    dump = os.path.join(ctx.work, "uo_dump")
    ctx.model_check("MC_UpdateOrder", cfg(ctx, "uo_gen.cfg", "", calls=4, order=os.environ.get("UO_ORDER", "ascending"), **(dict() if quick else big)),
                    workers=8, args=["-dump", dump], timeout=1500)
    text = open(dump + ".dump").read()
    os.remove(dump + ".dump")
    jobs = []
    for st in PT.parse_dump(text):
        if st["pc"] != ["idle"] or not st["hist"] or st["poison"]:
            continue
        jobs.append((st["hist"], st["R"], st["t"]))
    if len(jobs) < 200:
        raise T.MachineryError("update-order dump holds only %d idle states" % len(jobs))
    import random
    rnd = random.Random(ctx.seed + 17)
    # every behaviour that ends in update() or image_solve(); the others (whose last call is a
    # plain edit or an add) are sampled
    cap = 3000 if quick else 40000
    main = [j for j in jobs if j[0][-1]["op"] in ("update", "image_solve")]
    rest = [j for j in jobs if j[0][-1]["op"] not in ("update", "image_solve")]
    if len(main) > 4 * cap:
        main = rnd.sample(main, 4 * cap)
    if len(rest) > cap:
        rest = rnd.sample(rest, cap)
    jobs = main + rest
    nupd = sum(1 for j in jobs if j[0][-1]["op"] == "update")
    ndesc = sum(1 for j in jobs if classify(j[0])["solves_added_in_descending_order"] and j[0][-1]["op"] == "update")
    if not nupd or not ndesc:
        raise T.MachineryError("no update() behaviour with solves added in descending order was generated")
    with ProcessPoolExecutor(max_workers=16) as ex:
        res = list(ex.map(replay_one, jobs, chunksize=64))
    ctx.traces += len(jobs)
    ctx.extra["update_order_behaviours_replayed"] = {"idle_states": len(jobs), "ending_in_update": nupd,
                                                     "update_with_solves_added_in_descending_order": ndesc}
    for job, r in zip(jobs, res):
        if r:
            ctx.report(r["clause"], classify(job[0]), "update-order behaviour %s: %s"
                       % ([(c["op"], c["a"]) for c in job[0]], r["msg"]), {"hist": job[0], "kind": "update_order"})
    ctx.sample({"update_order_history": jobs[0][0]})
    # calibration: a corrupted expectation must be rejected by the comparison
    h, R, t = next(j for j in jobs if j[0][-1]["op"] == "update")
    t2 = list(t)
    t2[1] = [t2[1][0] * 2 + 1, t2[1][1] * 2]
    if replay_one((h, R, t2)) is None:
        raise T.MachineryError("update-order replay accepted a corrupted expected gap")
