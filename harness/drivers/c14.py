"""C14 - optimisers leave the lens at the returned solution, never worse than the start.

1. TLC model-checks spec/Optimizer.tla (the optimisation protocol with scipy as
   nondeterministic environment): 3 candidate points, all 27 merit functions with
   values 0..2, both worker modes, bounded and unbounded, every evaluation order to
   a depth bound.  With the library's Finish step every C14 clause is an invariant;
   two negative configurations document what the clauses guard: without Finish TLC
   must report LensAtReturned violated, and with an undo() that does not update the
   optics it must report UndoRestores violated.
2. code -> spec: real runs of the five front ends (OptimizerGeneric, LeastSquares,
   DualAnnealing, DifferentialEvolution with workers=1 and workers=-1,
   CompensatorOptimizer.run) on small lenses, recorded by harness/optrec.py and
   validated event by event by spec/Trace_Optimizer.tla in exact dyadic arithmetic.
3. calibration: a few runs where the driver itself performs the Finish step (and an
   undo followed by an update of the optics) must be accepted by the same clauses;
   corrupted copies of accepted records must be rejected, clause by clause.
"""
import copy
import json
import math
import os
import random
import re
from concurrent.futures import ProcessPoolExecutor

from harness import optrec as R
from harness import tlc as T
from harness.dy import dy, undy

VAR_FAMILY = {"radius": "std", "conic": "std", "thickness": "std", "index": "std",
              "asphere_coeff": "asph", "tilt": "tilt", "decenter": "tilt",
              "polynomial_coeff": "poly", "chebyshev_coeff": "cheb"}
PARAMS = {
    # scipy methods that never return a point worse than the start (Powell with a one-sided bound
    # and an iteration-limited trust-constr do: that is scipy's behaviour, outside the contract
    # assumed by spec/Optimizer.tla's Return)
    "generic": lambda rnd: {"maxiter": rnd.randint(3, 8), "tol": 1e-6,
                            "method": rnd.choice([None, None, None, "Nelder-Mead", "L-BFGS-B", "TNC"])},
    "least_squares": lambda rnd: {"maxiter": rnd.randint(4, 12), "tol": 1e-6},
    "dual_annealing": lambda rnd: {"maxiter": rnd.randint(1, 3)},
    "diff_evolution": lambda rnd: {"maxiter": 1, "workers": 1},
    "compensator": lambda rnd: {"tol": 1e-3, "cmethod": rnd.choice(["generic", "least_squares"])},
}
SEQS = [["opt"], ["opt", "undo"], ["opt", "undo", "opt"], ["opt", "opt", "undo", "undo"], ["opt", "undo", "opt", "undo"]]


# ------------------------------------------------------------------ model checking
def cfg_variant(ctx, name, depth=None, maxevals=None, fset=None, drop=()):
    """A static cfg of spec/, optionally with other bounds (thorough tier)."""
    text = open(os.path.join(T.SPEC, name)).read()
    if depth is not None:
        text = re.sub(r"Depth = \d+", "Depth = %d" % depth, text)
    if maxevals is not None:
        text = re.sub(r"MaxEvals = \d+", "MaxEvals = %d" % maxevals, text)
    for inv in drop:
        text = text.replace("INVARIANT %s\n" % inv, "")
    path = os.path.join(ctx.work, "v_" + name)
    with open(path, "w") as fh:
        fh.write(text)
    return path


def model_checks(ctx):
    quick = ctx.tier == "quick"
    depth, maxev = (12, 3) if quick else (16, 4)
    for name in ("MC_Optimizer.cfg", "MC_Optimizer_bounded.cfg"):
        ctx.model_check("MC_Optimizer", cfg_variant(ctx, name, depth, maxev), workers=8, timeout=600)
    # the shape of the deviation in the protocol without Finish (lens at the last in-process
    # evaluation, untouched if all were remote) is itself an invariant of that variant
    ctx.model_check("MC_Optimizer", cfg_variant(ctx, "MC_Optimizer_nofinish.cfg", depth, maxev,
                                                drop=("LensAtReturned",)), workers=8, timeout=600)
    neg = {}
    for name, want in (("MC_Optimizer_nofinish.cfg", "LensAtReturned"),
                       ("MC_Optimizer_undonoupdate.cfg", "UndoRestores")):
        r = ctx.model_check("MC_Optimizer", cfg_variant(ctx, name, depth, maxev), workers=8, timeout=600,
                            must_pass=False)
        if want not in r.violated:
            raise T.MachineryError("negative configuration %s: TLC was expected to report %s violated, got %r\n%s"
                                   % (name, want, r.violated, "\n".join(r.out.splitlines()[-25:])))
        m = re.search(r"State (\d+): <Finalize|State (\d+): <Undo", r.out)
        neg[name] = {"violated": want, "counterexample_states": len(re.findall(r"^State \d+:", r.out, re.M))}
    ctx.extra["negative_configs"] = neg


# ------------------------------------------------------------------ cases
def make_cases(ctx):
    quick = ctx.tier == "quick"
    rnd = random.Random(ctx.seed * 7919 + 14)
    cases = []

    def add(**kw):
        fe = kw["front_end"]
        c = {"tid": len(cases) + 1, "lens_seed": rnd.randrange(1 << 30), "seed": rnd.randrange(1 << 30),
             "params": PARAMS[fe](rnd), "sequence": rnd.choice(SEQS), "pickup": False, "solve": False}
        c.update(kw)
        if "params_override" in c:
            c["params"].update(c.pop("params_override"))
        cases.append(c)
        return c
    # (a) every variable type x scaled/unscaled x bounded/unbounded, one variable
    fes = ["generic", "least_squares", "compensator", "generic", "dual_annealing", "diff_evolution"]
    i = 0
    for rep in range(1 if quick else 4):
        for vt, fam in VAR_FAMILY.items():
            for scaled in (True, False):
                for bounded in (True, False):
                    fe = fes[i % (6 if bounded else 4)]
                    i += 1
                    add(front_end=fe, family=fam, want_type=vt, nvars=1, scaled=scaled, bounded=bounded,
                        op_kind=None if fam not in ("poly", "cheb", "tilt") else rnd.choice(["ray_y", "spot", "ray_x"]))
    # (b) random problems, 1-3 variables, every front end
    nrand = 6 if quick else 60
    for fe in R.FRONT_ENDS:
        for _ in range(nrand):
            add(front_end=fe, family=rnd.choice(R.FAMILIES))
    # (c) pickups and solves, with undo
    for _ in range(10 if quick else 80):
        add(front_end=rnd.choice(["generic", "least_squares", "dual_annealing", "diff_evolution"]), family="std",
            nsurf=rnd.choice([2, 3]), pickup=rnd.random() < 0.7, solve=rnd.random() < 0.6,
            sequence=rnd.choice(SEQS[1:]), want_type="radius")
    # (d) index variable on a catalogue glass
    for _ in range(3 if quick else 12):
        # (no probe: probing an index handle already replaces the glass)
        add(front_end=rnd.choice(["generic", "least_squares"]), family="glass", want_type="index", nvars=1,
            sequence=["opt", "undo"], probe=False)
    # (e) global optimisers without bounds must refuse
    for fe in ("dual_annealing", "diff_evolution"):
        for _ in range(2 if quick else 6):
            add(front_end=fe, family="std", expect_reject=True, sequence=["opt"])
    # (f) multi-process differential evolution (run in this process, see run_all)
    for _ in range(3 if quick else 10):
        add(front_end="diff_evolution", family=rnd.choice(["std", "asph"]), nvars=rnd.choice([1, 2]),
            params_override={"workers": -1}, sequence=rnd.choice(SEQS[:3]), scaled=True,
            pickup=rnd.random() < 0.3)
    # (h) a non-monotone scipy method stopped at its iteration limit (the Return contract of
    #     spec/Optimizer.tla - not worse than the start - is then scipy's to break)
    for _ in range(4 if quick else 16):
        add(front_end="generic", family="std", nvars=rnd.choice([2, 3]), scaled=True,
            params_override={"method": "SLSQP", "maxiter": rnd.choice([2, 3])}, sequence=["opt", "undo"])
    # (i) the optimum lies beyond the bound of one variable while the others are free
    for k in range(4 if quick else 16):
        add(front_end=["generic", "least_squares", "generic", "compensator"][k % 4], family="std", want_type="radius",
            nvars=rnd.choice([2, 3]), scaled=(k % 2 == 0), beyond_bound=True, sequence=["opt"], nsurf=2)
    # (g) calibration: the driver performs Finish (and update after undo) itself
    for k in range(8 if quick else 16):
        add(front_end=["generic", "least_squares", "dual_annealing", "diff_evolution"][k % 4], family="std",
            scaled=True, driver_finish=True, pickup=(k % 2 == 0), solve=(k % 4 == 1),
            sequence=["opt", "undo", "opt"], want_type="radius", nsurf=2 if k % 2 == 0 else 3)
    return cases


def run_all(ctx, cases):
    multi = [c for c in cases if c["params"].get("workers") == -1]
    rest = [c for c in cases if c["params"].get("workers") != -1]
    out = {}
    # multi-process runs first, one at a time, in this process (they fork their own pool)
    for c in multi:
        out[c["tid"]] = R.run_case(c)
    with ProcessPoolExecutor(max_workers=10) as ex:
        for c, res in zip(rest, ex.map(R.run_case, rest, chunksize=2)):
            out[c["tid"]] = res
    return out


# ------------------------------------------------------------------ verdicts
def assemble(raw, events):
    """Verdict lines <<"V", id, n>>, <<"V", -(64 id + j), clause>>  ->  {id: [clauses]}."""
    out = {}
    for e in events:
        n = raw[e["id"]]
        try:
            out[e["id"]] = sorted(raw[-(64 * e["id"] + j)] for j in range(1, n + 1))
        except KeyError:
            raise T.MachineryError("verdict lines missing for event %d" % e["id"])
    return out


def describe(e, clause, info):
    s = "%s event (trace %d, #%d): clause %s fails" % (e["op"], e["tid"], e["seq"], clause)
    if info and e["op"] == "after":
        s += "; result.x=%r variables=%r last in-process evaluation=%r; result.fun=%r sum_squared()=%r" % (
            info.get("ret_x"), info.get("after_x"), info.get("last_eval"), info.get("ret_fun"), info.get("after_ss"))
        s += "; lens left at: %s" % info.get("lens_left_at")
    if e["op"] == "reject":
        s += "; " + e.get("msg", "")
    if e["op"] == "probe":
        s += "; %s variable, apply_scaling=%s: min_val=%r max_val=%r -> bounds=(%r, %r) while value=%r for physical %r" % (
            e["vtype"], e["scaled"], _f(e["min"]) if e["has_min"] else None, _f(e["max"]) if e["has_max"] else None,
            _f(e["blo"]) if e["has_blo"] else None, _f(e["bhi"]) if e["has_bhi"] else None, _f(e["va"]), _f(e["pa"]))
    return s


def _f(d):
    v = undy(d)
    return float(v)


def info_for(e, events_of_trace, infos):
    """The run info belonging to an event: runs are numbered by their start events."""
    n = sum(1 for x in events_of_trace if x["op"] == "start" and x["seq"] <= e["seq"])
    return infos[n - 1] if 0 < n <= len(infos) else None


# ------------------------------------------------------------------ calibration
def corruptions(events, verdicts):
    """Accepted records with one field changed each; (event, clause that must now fail)."""
    out = []

    def bump(d, rel=1e-9, abs_=0.0):
        v = float(undy(d))
        return dy(v * (1.0 + rel) + abs_)
    accepted = [e for e in events if not verdicts[e["id"]]]
    by = {}
    for e in accepted:
        by.setdefault(e["op"], []).append(e)

    def some(op, pred=lambda e: True, n=3):
        return [e for e in by.get(op, []) if pred(e)][:n]
    for e in some("after"):
        c = copy.deepcopy(e)
        c["vars"][0]["v"] = bump(c["vars"][0]["v"], 1e-8, 1e-9)
        out.append((c, "lens_at_returned", e))
        c = copy.deepcopy(e)
        c["ss"] = bump(c["ss"], 1e-6, 1e-12)
        out.append((c, "merit_at_returned", e))
    for e in some("after", lambda e: any(r["has_max"] for r in e["vars"])):
        c = copy.deepcopy(e)
        for r in c["vars"]:
            if r["has_max"]:
                r["phys"] = dy(float(undy(r["max"])) + 1e-6 * (1.0 + abs(float(undy(r["max"])))))
        out.append((c, "within_bounds", e))
    for e in some("after", lambda e: e["pk"]):
        c = copy.deepcopy(e)
        c["pk"][0]["tv"] = bump(c["pk"][0]["tv"], 1e-9)
        out.append((c, "pickups_hold", e))
    for e in some("after", lambda e: e["sol"]):
        c = copy.deepcopy(e)
        c["sol"][0]["y"] = dy(float(undy(c["sol"][0]["y"])) + 1e-4)
        out.append((c, "solves_hold", e))
    for e in some("undo"):
        c = copy.deepcopy(e)
        s = next((s for s in c["proj"]["surf"] if s["R"]["k"] == "fin"), None)
        if s is not None:
            s["R"] = bump(s["R"], 1e-9)
            out.append((c, "undo_restores", e))
    for e in some("eval"):
        c = copy.deepcopy(e)
        c["f"] = bump(c["f"], 1e-7, 1e-15)
        out.append((c, "callback_merit", e))
        c = copy.deepcopy(e)
        c["vals"][0] = bump(c["vals"][0], 1e-8, 1e-9)
        out.append((c, "callback_sets", e))
    for e in some("probe", lambda e: e["has_min"]):
        c = copy.deepcopy(e)
        c["blo"] = bump(c["blo"], 1e-6, 1e-7)
        out.append((c, "bounds_same_units", e))
        c = copy.deepcopy(e)
        c["va"] = bump(c["va"], 1e-8, 1e-9)
        out.append((c, "var_readback", e))
    for e in some("merit"):
        c = copy.deepcopy(e)
        c["ss"] = bump(c["ss"], 1e-6, 1e-12)
        out.append((c, "merit_identity", e))
    return out


def calibrate(ctx, events, verdicts):
    """Corrupted copies of accepted records must be rejected (else MachineryError).
    Each corrupted event is validated inside a copy of its own trace prefix, so that
    the machine state (start vector, scipy's result, projection stack) is the real one."""
    cors = corruptions(events, verdicts)
    if len({c[1] for c in cors}) < 8:
        raise T.MachineryError("calibration: too few accepted record kinds to corrupt (%r)"
                               % sorted({c[1] for c in cors}))
    by_tid = {}
    for e in events:
        by_tid.setdefault(e["tid"], []).append(e)
    cal_events, expect = [], []
    nid = 0
    for k, (c, clause, orig) in enumerate(cors):
        prefix = [x for x in by_tid[orig["tid"]] if x["seq"] < orig["seq"]]
        for x in prefix + [c]:
            y = dict(x)
            y["id"] = nid
            y["tid"] = 10 ** 6 + k
            cal_events.append(y)
            nid += 1
        expect.append((nid - 1, clause))
    raw = ctx.validate("Trace_Optimizer", cal_events, shards=8, group="tid", count_traces=0, timeout=600)
    v = assemble(raw, cal_events)
    missed = [(i, cl) for i, cl in expect if cl not in v[i]]
    if missed:
        raise T.MachineryError("calibration: corrupted records accepted: %r" % missed[:5])
    ctx.extra["calibration"] = {"corrupted_records": len(cors), "all_rejected": True,
                                "clauses": sorted({c[1] for c in cors})}


# ------------------------------------------------------------------ main
def judge(ctx, cases, results):
    events, traces = [], {}
    for c in cases:
        evs, case2, infos = results[c["tid"]]
        if not evs:
            ctx.skip((infos[0].get("skip") if infos else "empty") or "empty")
            continue
        traces[c["tid"]] = (case2, infos, evs)
        events += evs
    for i, e in enumerate(events):
        e["id"] = i
    raw = ctx.validate("Trace_Optimizer", events, shards=12, group="tid", count_traces=0, timeout=900)
    verdicts = assemble(raw, events)
    return events, traces, verdicts


def main(ctx):
    model_checks(ctx)
    cases = make_cases(ctx)
    results = run_all(ctx, cases)
    events, traces, verdicts = judge(ctx, cases, results)
    opcount, runs_by_fe, fail_by_clause = {}, {}, {}
    nruns = 0
    for tid, (case, infos, evs) in traces.items():
        for info in infos:
            key = case["front_end"] + ("/multi" if case["params"].get("workers") == -1 else "")
            runs_by_fe[key] = runs_by_fe.get(key, 0) + 1
            nruns += 1
    calib_fail = []
    for e in events:
        opcount[e["op"]] = opcount.get(e["op"], 0) + 1
        case, infos, evs = traces[e["tid"]]
        for clause in verdicts[e["id"]]:
            if clause.startswith("~"):      # a note of the spec (environment assumption void), not a failing clause
                ctx.skip(clause[1:])
                continue
            if clause == "raises" and e["op"] == "reject" and "x0 lay outside the specified bounds" in str(e.get("msg", "")) + str(e.get("exc_msg", "")) + str(info_for(e, evs, infos).get("exc", "")):
                # scipy's differential_evolution maps x0 to [0, 1] and refuses a start that lies exactly on a
                # bound (rounding): the previous run returned the bound itself.  Not a return, nothing to judge.
                prev = [x for x in evs if x["seq"] < e["seq"] and x["op"] == "start"]
                if prev and all((not r["has_blo"] or R.fnum_dy(r["blo"]) <= R.fnum_dy(r["v"])) and
                                (not r["has_bhi"] or R.fnum_dy(r["v"]) <= R.fnum_dy(r["bhi"])) for r in prev[-1]["vars"]):
                    ctx.skip("scipy refused a start point lying exactly on a bound")
                    continue
            info = info_for(e, evs, infos)
            cls = R.classify(case, info)
            cls["step"] = e["op"]
            if e["op"] == "probe":
                cls["apply_scaling"] = bool(e["scaled"])
                cls["scale_is_identity"] = e["vtype"] in R.IDENTITY_SCALE
                cls["var_type"] = e["vtype"]
            if case.get("driver_finish"):
                # runs finished by the driver must satisfy the clauses: never matched to a finding
                cls["driver_finish"] = True
                cls["lens_left_at"] = "n/a"
                cls["has_pickup_or_solve"] = "n/a"
            fail_by_clause[clause] = fail_by_clause.get(clause, 0) + 1
            ctx.report(clause, cls, describe(e, clause, info),
                       {"case": {k: v for k, v in case.items()}, "event_seq": e["seq"],
                        "info": info, "how": "harness.optrec.run_case(case) then ./check C14 --replay <this file>"})
    ctx.traces += nruns
    ctx.extra["runs_by_front_end"] = runs_by_fe
    ctx.extra["events_by_op"] = opcount
    ctx.extra["failing_clauses_seen"] = fail_by_clause
    ctx.extra["cases"] = len(cases)
    vt = {}
    for tid, (case, infos, evs) in traces.items():
        for v in case.get("vars", []):
            k = "%s/%s/%s" % (v["type"], "scaled" if v["scaled"] else "unscaled",
                              "bounded" if (v["min"] is not None or v["max"] is not None) else "unbounded")
            vt[k] = vt.get(k, 0) + 1
    ctx.extra["variables_by_class"] = vt
    # the calibration traces (driver-performed Finish) must satisfy the at-returned clauses
    cal_after = [e for e in events if traces[e["tid"]][0].get("driver_finish") and e["op"] in ("after", "undo")]
    cal_ok = [e for e in cal_after if not verdicts[e["id"]]]
    ctx.extra["driver_finish_events"] = {"after_or_undo": len(cal_after), "accepted": len(cal_ok)}
    if len(cal_ok) < 4:
        raise T.MachineryError("calibration: only %d of %d after/undo events of the runs finished by the driver "
                               "were accepted - the at-returned clauses cannot be calibrated" % (len(cal_ok), len(cal_after)))
    calibrate(ctx, events, verdicts)
    for tid in list(traces)[:3]:
        case, infos, evs = traces[tid]
        ctx.sample({"front_end": case["front_end"], "family": case["family"], "sequence": case["sequence"],
                    "variables": [{k: v for k, v in x.items()} for x in case["vars"]],
                    "operands": [{"type": o["type"], "target": o.get("target"), "weight": o["w"]} for o in case["ops"]],
                    "runs": [{k: i.get(k) for k in ("evals_logged", "ret_x", "ret_fun", "after_x", "after_ss")}
                             for i in infos]})
    ctx.assumptions += [
        "scipy's contract (Return): the returned point was evaluated, lies within the bounds it was given and is not worse than the start; checked per run by the clauses ret_fun_is_callback / not_worse / within_bounds",
        "differential evolution and dual annealing draw from fresh OS entropy (the front ends expose no seed): those runs are not reproducible bit for bit; the clauses do not depend on the path taken",
        "evaluations inside worker processes (workers=-1) are not logged; nothing is required of them",
        "physical values behind a variable are read from surface_group.radii/conic/positions, geometry.c, geometry.cs and material_post.n(wavelength)",
        "harness/dy.py float<->dyadic conversion",
    ]


def replay(ctx, rep):
    case = rep["repro"]["case"]
    case = {k: v for k, v in case.items() if k not in ("vars", "ops", "made")}
    res = {case["tid"]: R.run_case(case)}
    events, traces, verdicts = judge(ctx, [case], res)
    ctx.traces += 1
    for e in events:
        c2, infos, evs = traces[e["tid"]]
        for clause in verdicts[e["id"]]:
            if clause.startswith("~"):
                ctx.skip(clause[1:])
                continue
            info = info_for(e, evs, infos)
            cls = R.classify(c2, info)
            cls["step"] = e["op"]
            if e["op"] == "probe":
                cls["apply_scaling"] = bool(e["scaled"])
                cls["scale_is_identity"] = e["vtype"] in R.IDENTITY_SCALE
                cls["var_type"] = e["vtype"]
            ctx.report(clause, cls, describe(e, clause, info), {"case": c2, "event_seq": e["seq"], "info": info})
