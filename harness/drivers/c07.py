"""C07 - results transform correctly under symmetries and re-descriptions.

1. The library's own scale_system is an action of spec/Lens.tla (ScaleSystem):
   TLC model-checks its frame condition together with the edit calls, generated
   behaviours containing scale_system are replayed on the real Optic with exact
   comparison (spec -> code) and re-validated by Trace_Lens (code -> spec), the
   latter also for arbitrary float factors in [0.01, 100].
2. Metamorphic relations between two executions of the real code, judged by
   spec/Trace_Meta.tla in exact dyadic arithmetic: meridional mirrors of field
   and pupil; tilt of a spherical surface about its own centre of curvature;
   dummy surface between equal media; other wavelength of a dispersion-free
   lens; all lengths multiplied by s (ray heights, paths, f2, Seidel sums scale
   by s, direction cosines unchanged) - both for a lens rebuilt from the scaled
   recipe and for the lens produced by scale_system.
"""
import copy
import math
import os
import random
from concurrent.futures import ProcessPoolExecutor

import numpy as np

from harness import lensgen as G
from harness import tlc as T
from harness.drivers import c01
from harness.dy import dy, undy


# ------------------------------------------------------------------ recipes --
def recipe(rnd, nsurf=None, conics=True):
    """A rotationally symmetric lens as a list of surface dicts (planes / conics, ideal media)."""
    n = nsurf or rnd.randint(2, 6)
    epd = rnd.uniform(1.0, 6.0)
    lo = 5.0 * epd
    surf = []
    in_glass = False
    for j in range(n):
        R = G.rnd_radius(rnd, lo, 400.0)
        k = rnd.uniform(-1.2, 0.4) if (conics and not math.isinf(R) and rnd.random() < 0.3) else 0.0
        if in_glass and rnd.random() < 0.75:
            nval = 1.0
        else:
            nval = round(rnd.uniform(1.35, 1.9), 3)
        in_glass = nval != 1.0
        t = rnd.uniform(1.0, 10.0) if in_glass else rnd.uniform(2.0, 30.0)
        surf.append({"R": R, "k": k, "n": nval, "t": t})
    surf[-1]["n"] = 1.0 if rnd.random() < 0.8 else surf[-1]["n"]
    finite = rnd.random() < 0.3
    # how the aperture is specified: a length (EPD) or a dimensionless number (image-space F-number,
    # object-space NA) of the same beam - the value is derived once from the unscaled EPD lens
    ap = rnd.choice(["EPD", "EPD", "imageFNO", "objectNA"] if finite else ["EPD", "EPD", "imageFNO"])
    return {"epd": epd, "surf": surf, "stop": rnd.randint(1, n), "field": rnd.uniform(1.0, 6.0),
            "finite": finite, "obj_t": rnd.uniform(60, 400), "w": [0.4861, 0.5876, 0.6563],
            "aperture": ap, "ap_value": None,
            # vignetting factors on the outer field (declared on one side of the axis, as usual):
            # the mirrored field point -Hy must be compressed like +Hy
            "vig": (rnd.uniform(0.05, 0.4), rnd.uniform(0.05, 0.4)) if rnd.random() < 0.3 else None,
            # an annular clear aperture on one surface (both of its radii are lengths of the prescription)
            "annulus": (rnd.randrange(n), epd * rnd.uniform(0.8, 1.5), rnd.uniform(0.2, 0.5)) if rnd.random() < 0.3 else None}


def aperture_value(rc):
    """The dimensionless aperture value describing the same beam as rc['epd'] on the unscaled lens
    (input generation only: the library's FNO / EPL pick an argument, they judge nothing)."""
    if rc.get("aperture", "EPD") == "EPD":
        return None
    if rc.get("ap_value") is None:
        o = build(dict(rc, aperture="EPD"))
        if rc["aperture"] == "imageFNO":
            v = abs(float(np.ravel(o.paraxial.FNO())[0]))
        else:
            z = float(np.ravel(o.paraxial.EPL())[0]) + rc["obj_t"]
            v = math.sin(math.atan(rc["epd"] / (2.0 * abs(z))))
        if not (math.isfinite(v) and v > 0):
            rc["aperture"] = "EPD"
            return None
        rc["ap_value"] = v
    return rc["ap_value"]


def build(rc, scale=1.0, dummy=None):
    """Build through the public API.  dummy = (gap index j, fraction) inserts a plane inside gap j."""
    from optiland.materials import IdealMaterial
    from optiland.optic import Optic
    o = Optic()
    o.add_surface(index=0, thickness=(rc["obj_t"] * scale) if rc["finite"] else math.inf)
    idx = 1
    prev_n = 1.0
    for j, s in enumerate(rc["surf"]):
        t = s["t"] * scale
        t1 = None
        if dummy is not None and dummy[0] == j:
            t1 = t * dummy[1]
        extra = {}
        if rc.get("annulus") and rc["annulus"][0] == j:
            from optiland.physical_apertures import RadialAperture
            rm = rc["annulus"][1] * scale
            extra["aperture"] = RadialAperture(r_max=rm, r_min=rm * rc["annulus"][2])
        o.add_surface(index=idx, radius=s["R"] * scale, conic=s["k"], thickness=t if t1 is None else t1,
                      material=IdealMaterial(n=s["n"], k=0) if s["n"] != 1.0 else "air", is_stop=(j + 1 == rc["stop"]),
                      **extra)
        idx += 1
        if t1 is not None:
            o.add_surface(index=idx, thickness=t - t1,
                          material=IdealMaterial(n=s["n"], k=0) if s["n"] != 1.0 else "air")
            idx += 1
        prev_n = s["n"]
    o.add_surface(index=idx)
    apv = aperture_value(rc)
    if apv is None:
        o.set_aperture("EPD", rc["epd"] * scale)
    else:
        o.set_aperture(rc["aperture"], apv)         # dimensionless: the same for every scale
    o.set_field_type("angle")
    o.add_field(y=0.0)
    if rc.get("vig"):
        o.add_field(y=rc["field"], vx=rc["vig"][0], vy=rc["vig"][1])
    else:
        o.add_field(y=rc["field"])
    for i, w in enumerate(rc["w"]):
        o.add_wavelength(w, is_primary=(i == 1))
    return o


def rays_of(o, H, P, w, surfaces=None):
    """records[r][k] = [x, y, z, L, M, N, opd] for the chosen surfaces."""
    n = len(H)
    Hx = np.array([h[0] for h in H])
    Hy = np.array([h[1] for h in H])
    Px = np.array([p[0] for p in P])
    Py = np.array([p[1] for p in P])
    G.quiet(o.trace_generic, Hx, Hy, Px, Py, w)
    sg = o.surface_group
    ks = surfaces if surfaces is not None else list(range(1, sg.num_surfaces))
    # the path is counted from the first surface on: the launch plane of an infinite object is
    # placed by the library at a distance that depends on the vertex positions (an arbitrary
    # reference, not part of the physical system)
    opd1 = np.array(sg.opd)
    rel = opd1 - opd1[1]
    arr = (sg.x, sg.y, sg.z, sg.L, sg.M, sg.N, rel)
    return [[[dy(float(a[k][r])) for a in arr] for k in ks] for r in range(n)]


def samples(rnd, n=4, skew=True):
    H, P = [], []
    for _ in range(n):
        H.append((rnd.uniform(-1, 1) if skew else 0.0, rnd.uniform(-1, 1)))
        r, th = math.sqrt(rnd.random()) * 0.9, rnd.uniform(0, 2 * math.pi)
        P.append((r * math.cos(th), r * math.sin(th)))
    return H, P


def scalars(o):
    f2 = float(np.ravel(o.paraxial.f2())[0])
    F2 = float(np.ravel(o.paraxial.F2())[0])
    se = [float(v) for v in np.ravel(o.aberrations.seidels())]
    # the radii of physical apertures are lengths of the prescription too
    ap = []
    for sf in o.surface_group.surfaces:
        a = getattr(sf, "aperture", None)
        if a is not None and math.isfinite(float(a.r_max)):
            ap += [float(a.r_max), float(a.r_min)]
    return [dy(f2), dy(F2)] + [dy(v) for v in se] + [dy(v) for v in ap]


def meta_case(args):
    return G.quiet(_meta_case, args)


def _meta_case(args):
    seed, kind = args
    rnd = random.Random(seed)
    rc = recipe(rnd)
    ev = {"id": None, "seed": seed, "kind": kind, "name": kind, "exc": "", "a": [], "b": [], "sa": [], "sb": [],
          "s": dy(1.0), "floor": dy(1.0), "bits": 40, "sfloor": dy(1e-9), "sbits": 34, "desc": {}}
    scale_len = 1.0 + sum(abs(s["t"]) for s in rc["surf"])
    ev["floor"] = dy(scale_len)
    try:
        o = build(rc)
        w = rc["w"][rnd.randrange(3)]
        if kind in ("mirror_x", "mirror_y", "mirror_xy"):
            H, P = samples(rnd)
            sx = -1 if kind in ("mirror_x", "mirror_xy") else 1
            sy = -1 if kind in ("mirror_y", "mirror_xy") else 1
            ev["a"] = rays_of(o, H, P, w)
            ev["b"] = rays_of(o, [(sx * h[0], sy * h[1]) for h in H], [(sx * p[0], sy * p[1]) for p in P], w)
            ev["bits"] = 44
        elif kind == "tilt_centre":
            # tilt surface k >= 2 (spherical) about its own centre of curvature
            cands = [j for j, s in enumerate(rc["surf"]) if j >= 1 and not math.isinf(s["R"]) and s["k"] == 0.0]
            if not cands:
                return {"skip": "no spherical surface beyond the first"}
            j = rnd.choice(cands)
            k = j + 1
            R = rc["surf"][j]["R"]
            ang = rnd.uniform(-0.3, 0.3)
            axis = rnd.choice("xy")
            from optiland.optimization.variable import Variable
            o2 = build(rc)
            dz = R * (1.0 - math.cos(ang))
            t_before = float(np.ravel(o2.surface_group.get_thickness(k - 1))[0])
            t_after = float(np.ravel(o2.surface_group.get_thickness(k))[0])
            o2.set_thickness(t_before + dz, k - 1)
            o2.set_thickness(t_after - dz, k)
            Variable(o2, "tilt", surface_number=k, axis=axis).update(ang)
            if axis == "x":
                Variable(o2, "decenter", surface_number=k, axis="y").update(R * math.sin(ang))
            else:
                Variable(o2, "decenter", surface_number=k, axis="x").update(-R * math.sin(ang))
            H, P = samples(rnd)
            ks = [q for q in range(1, o.surface_group.num_surfaces)]
            ev["a"] = rays_of(o, H, P, w, ks)
            ev["b"] = rays_of(o2, H, P, w, ks)
            ev["kind"] = "same"
            ev["bits"] = 36
            ev["desc"] = {"surface": k, "angle": ang, "axis": axis, "R": R, "stop": rc["stop"],
                          "stop_at_or_behind_tilted_surface": rc["stop"] >= k, "aperture": rc["aperture"]}
        elif kind == "dummy":
            j = rnd.randrange(len(rc["surf"]))
            frac = rnd.uniform(0.1, 0.9)
            o2 = build(rc, dummy=(j, frac))
            H, P = samples(rnd)
            n1 = o.surface_group.num_surfaces
            ks1 = list(range(1, n1))
            ks2 = [q if q <= j + 1 else q + 1 for q in ks1]
            ev["a"] = rays_of(o, H, P, w, ks1)
            # admissible only if the dummy plane lies between its neighbours along every sampled ray:
            # a plane that cuts a neighbouring surface's sag inside the beam is met "backwards"
            # (virtual propagation) and is not a description of the same physical system
            zd = float(np.ravel(o2.surface_group.positions)[j + 2])
            zs = [[float(undy(rec[q][2])) for q in (j, j + 1)] for rec in ev["a"]] if j + 1 < len(ks1) else \
                 [[float(undy(rec[j][2])), math.inf] for rec in ev["a"]]
            if any(not (z0 < zd < z1) for z0, z1 in zs if math.isfinite(z0)):
                return {"skip": "dummy plane would cut a neighbouring surface inside the beam"}
            ev["b"] = rays_of(o2, H, P, w, ks2)
            ev["kind"] = "same"
            ev["bits"] = 40
            ev["desc"] = {"gap": j + 1, "fraction": frac}
        elif kind == "wavelength":
            H, P = samples(rnd)
            ev["a"] = rays_of(o, H, P, rc["w"][0])
            ev["b"] = rays_of(o, H, P, rc["w"][2])
            ev["kind"] = "same"
            ev["bits"] = 48
        elif kind in ("scale_rebuild", "scale_system"):
            s = math.exp(rnd.uniform(math.log(0.01), math.log(100.0)))
            if kind == "scale_rebuild":
                o2 = build(rc, scale=s)
            else:
                o2 = build(rc)
                o2.scale_system(s)
            H, P = samples(rnd)
            ev["a"] = rays_of(o, H, P, w)
            ev["b"] = rays_of(o2, H, P, w)
            ev["sa"] = scalars(o)
            ev["sb"] = scalars(o2)
            ev["kind"] = "scale"
            ev["s"] = dy(s)
            ev["bits"] = 34
            ev["sbits"] = 30
            f2 = abs(float(np.ravel(o.paraxial.f2())[0]))
            ev["sfloor"] = dy(1e-6 * (1.0 + (f2 if math.isfinite(f2) else 0.0)))
            ev["desc"] = {"s": s}
        else:
            raise ValueError(kind)
    except Exception as ex:
        ev["exc"] = "%s: %s" % (type(ex).__name__, str(ex)[:300])
    return ev


KINDS = ["mirror_x", "mirror_y", "mirror_xy", "tilt_centre", "dummy", "wavelength", "scale_rebuild", "scale_system"]


def main(ctx):
    quick = ctx.tier == "quick"
    os.environ["VERIF_WORK"] = ctx.work
    # ---- 1. scale_system as an action of the Lens machine -----------------------
    for b in c01.BASES[:2] if quick else c01.BASES:
        ctx.model_check("MC_Lens", c01.write_cfg(ctx, "edit_%s.cfg" % b, c01.cfg_text(base=b, depth=3, extras="ScaleOnly")),
                        workers=16)
    jobs = []
    for b in c01.BASES:
        jobs += c01.gen_dump(ctx, "gen_%s" % b, c01.cfg_text(base=b, depth=3, radii="SmallRadii", thick="SmallThick",
                                                             invs=False, props=False, extras="ScaleOnly"), None)
    jobs = [j for j in jobs if any(c["op"] == "scale_system" for c in j[1])]
    rnd = random.Random(ctx.seed)
    if quick and len(jobs) > 1500:
        jobs = rnd.sample(jobs, 1500)
    fails = c01.replay_many(ctx, jobs)
    ctx.traces += len(jobs)
    ctx.extra["behaviours_with_scale_system_replayed"] = len(jobs)
    for f in fails:
        ctx.report(f["clause"], c01.classify(f), f["msg"], {"base": f["base"], "hist": f["hist"]})
    if jobs:
        ctx.sample({"calls": jobs[0][1]})
    # the same calls recorded and judged by Trace_Lens, plus float factors
    from harness.drivers import c01_trace
    tasks = [(i, j[0], j[1]) for i, j in enumerate(jobs[:80 if quick else 800])]
    events = []
    with ProcessPoolExecutor(max_workers=16) as ex:
        for evs, calls in ex.map(c01_trace.record_grid_behaviour, tasks, chunksize=4):
            events += evs
        for evs, calls in ex.map(float_scale_history, [(20000 + i, ctx.seed * 31 + i) for i in range(40 if quick else 600)]):
            events += evs
    for i, e in enumerate(events):
        e["id"] = i
    v = c01_trace.validate_by_trace(ctx, "Trace_Lens", events)
    for e in events:
        for clause in v[e["id"]]:
            ctx.report(clause, {"op": e["op"]}, "%s (trace %d, call %d): clause %s fails %s"
                       % (e["op"], e["tid"], e["seq"], clause, e["exc"]), {"trace": e["tid"], "seq": e["seq"]})
    # ---- 2. metamorphic relations -------------------------------------------------
    per = 14 if quick else 300
    tasks = [(ctx.seed * 1299709 + i * 17 + q, KINDS[q]) for i in range(per) for q in range(len(KINDS))]
    with ProcessPoolExecutor(max_workers=16) as ex:
        res = list(ex.map(meta_case, tasks, chunksize=2))
    evs = []
    bykind = {}
    for r, t in zip(res, tasks):
        if "skip" in r:
            ctx.skip(r["skip"])
            continue
        r["id"] = len(evs)
        r["src"] = t[1]
        bykind[t[1]] = bykind.get(t[1], 0) + 1
        evs.append(r)
    payload = [{k: e[k] for k in ("id", "kind", "name", "exc", "a", "b", "sa", "sb", "s", "floor", "bits", "sfloor", "sbits")}
               for e in evs]
    verdicts = ctx.validate("Trace_Meta", payload, shards=16, count_traces=2 * len(evs))
    for e in evs:
        for clause in verdicts[e["id"]]:
            ctx.report(clause, {"transformation": e["src"],
                                "stop_at_or_behind_tilted_surface": bool(e["desc"].get("stop_at_or_behind_tilted_surface", False)),
                                "aperture": e["desc"].get("aperture", "EPD") if e["src"] == "tilt_centre" else None},
                       "%s (seed %d, %s): clause %s fails %s" % (e["src"], e["seed"], e["desc"], clause, e["exc"]),
                       {"seed": e["seed"], "kind": e["src"], "desc": e["desc"]})
    ctx.extra["metamorphic_pairs_by_kind"] = bykind
    if evs:
        ctx.sample({"kind": evs[3 % len(evs)]["src"], "seed": evs[3 % len(evs)]["seed"], "desc": evs[3 % len(evs)]["desc"]})
    # ---- calibration ------------------------------------------------------------------
    good = [p for p in payload if not verdicts[p["id"]] and p["a"]]
    cal = []
    for p in good[:10]:
        fin = [r for r in range(len(p["b"])) if all(v["k"] == "fin" for v in p["b"][r][-1])
               and all(v["k"] == "fin" for v in p["a"][r][-1])]
        if not fin:
            continue
        c = copy.deepcopy(p)
        c["id"] = len(cal)
        last = c["b"][fin[0]][-1]
        last[1] = dy(1e-3 + 1.001 * float_of(last[1]))      # image height off by 0.1 % + 1 um
        cal.append(c)
        if p["kind"] == "scale" and p["sb"][0]["k"] == "fin" and p["sa"][0]["k"] == "fin":
            c = copy.deepcopy(p)
            c["id"] = len(cal)
            c["sb"][0] = dy(float_of(c["sb"][0]) * 1.001)
            cal.append(c)
    if not cal:
        raise T.MachineryError("no accepted pair to calibrate on")
    cv = ctx.validate("Trace_Meta", cal, shards=4, count_traces=0)
    missed = [c["id"] for c in cal if not cv[c["id"]]]
    if missed:
        raise T.MachineryError("calibration: corrupted pairs accepted: %s" % missed)
    ctx.extra["calibration"] = {"corruptions": len(cal), "missed": 0}
    ctx.assumptions += ["tilt about the centre of curvature is applied to surfaces k >= 2 through the public API (tilt and decentre variables, two set_thickness calls)",
                        "tolerances: mirrors 2^-44, dummy 2^-40, wavelength 2^-48, tilt 2^-36, scale 2^-34 (rays) / 2^-30 (f2, F2, Seidel sums), relative to value plus the lens length"]


def float_of(d):
    from harness.dy import undy
    return float(undy(d))


def float_scale_history(args):
    """A lens of planes/conics with angular fields, scaled by arbitrary float factors (Trace_Lens)."""
    from harness.drivers.c01_trace import Rec
    tid, seed = args
    rnd = random.Random(seed)
    rc = recipe(rnd)

    def run():
        r = Rec(tid)
        r.add_wavelength(0.55, is_primary=True)
        r.add_surface(thickness=rc["obj_t"] if rc["finite"] else math.inf)
        for j, s in enumerate(rc["surf"]):
            r.add_surface(radius=s["R"], conic=s["k"], thickness=s["t"], material=s["n"] if s["n"] != 1.0 else "air",
                          is_stop=(j + 1 == rc["stop"]))
        r.add_surface()
        for _ in range(rnd.randint(1, 3)):
            r.scale_system(math.exp(rnd.uniform(math.log(0.01), math.log(100.0))))
        return r.events, r.calls
    return G.quiet(run)
