"""C18 - catalogue materials return the index their data file defines.

MC (spec/MC_Catalogue.tla): the lookup post-condition on a toy catalogue with
duplicate names, substrings and regex metacharacters (the specified lookup
satisfies it; the "regex" and "tie" variants - what material.py does - are
negative configurations that must violate it); exact witnesses of every
dispersion formula, the segment law, the Abbe and polyval identities accepted,
perturbed / coefficient-swapped witnesses rejected.

code -> spec (spec/Trace_Catalogue.tla judging with spec/Catalogue.tla):
  * every selected catalogue row: MaterialFile(path).n(w) scalar and array at
    the range end points, three interior wavelengths (one a table node) and,
    for visible materials, the d/F/C lines; .k(w) likewise when the file has a
    k table; .abbe().  Coefficients and tables are read by the recorder with
    PyYAML, not through MaterialFile.
  * every selected exact-name query, without and with the row's reference:
    Material(name[, reference]).material_data against the catalogue.
  * model glasses AbbeMaterial(n_d, V_d) at the Schott glasses' (n_d, V_d).
quick: ~300 rows stratified over all formula types / tabulated forms, ~400
queries; thorough: all 2593 rows and every name (exhaustive).
Calibration on every run: accepted events corrupted in one field (n by 1e-6
relative, two coefficients swapped, returned name changed, ...) must be
rejected by TLC, otherwise the run is a machinery failure.
"""
import copy
import json
import os
import random
import re
import time
from concurrent.futures import ProcessPoolExecutor

from harness import catrec as R
from harness import tlc as T
from harness.dy import dy, undy

SYNTH = {
    # Herzberger (formula 7) is used by no bundled file: silicon's published coefficients
    "synthetic/herzberger-si.yml": ("formula 7", "3.41983 0.159906 -0.123109 1.26878e-6 -1.95104e-9", 1.36, 11.0),
    "synthetic/herzberger-6.yml": ("formula 7", "2.2 0.012 0.0004 -0.0031 0.00002 -0.0000001", 0.5, 3.0),
    # non-integer exponents (no bundled file has any): half-integer -> validated certificate,
    # 0.3 -> trusted libm certificate
    "synthetic/poly-half.yml": ("formula 3", "2.1 0.02 -1.5 0.004 2.5 0.01 -2", 0.4, 2.0),
    "synthetic/cauchy-half.yml": ("formula 5", "1.45 0.004 -0.5 0.003 -2 0.0001 0.3", 0.4, 2.0),
    "synthetic/rii4-half.yml": ("formula 4", "2.0 0.5 1.5 0.2 2 0.1 0.5 0.15 1.5 0.01 -2.5", 0.4, 2.0),
}


def write_synth(work):
    out = []
    d = os.path.join(work, "synthetic")
    os.makedirs(d, exist_ok=True)
    for i, (name, (ty, coef, lo, hi)) in enumerate(sorted(SYNTH.items())):
        p = os.path.join(work, name)
        with open(p, "w") as fh:
            fh.write("REFERENCES: synthetic file written by the C18 check\nDATA:\n  - type: %s\n"
                     "    wavelength_range: %s %s\n    coefficients: %s\n" % (ty, lo, hi, coef))
        out.append((p, lo, hi, 900000 + i))
    return out


def stratify(rows, classes, rnd, total):
    by = {}
    for r in rows:
        by.setdefault(classes[r["idx"]], []).append(r)
    picked = []
    quota = max(8, total // max(1, len(by)))
    for c in sorted(by):
        rs = by[c][:]
        rnd.shuffle(rs)
        picked += rs if "!" in c else rs[:quota]       # (tables with a structural oddity: all of them)
    rest = [r for r in rows if r not in picked]
    rnd.shuffle(rest)
    picked += rest[:max(0, total - len(picked))]
    return sorted(picked, key=lambda r: r["idx"])


_TYPE = re.compile(r"type:\s*(formula \d|tabulated nk|tabulated n)\b")
_ROW = re.compile(r"^\s+([-+0-9.eE]+)[ \t]+([-+0-9.eE]+(?:[ \t]+[-+0-9.eE]+)?)\s*$", re.M)


def table_flags(text):
    """Structural oddities of the tabulated blocks of a data file, from its raw text: rows not in
    increasing wavelength order ("unsorted"), one wavelength listed twice with different values
    ("dup").  Files with such tables are rare and are always part of the quick selection."""
    flags = set()
    for block in text.split("- type:")[1:]:
        if not block.lstrip().startswith("tabulated"):
            continue
        rows = []
        for w, rest in _ROW.findall(block):
            try:
                rows.append((float(w), rest.split()))
            except ValueError:
                pass
        ws = [r[0] for r in rows]
        if any(a > b for a, b in zip(ws, ws[1:])):
            flags.add("unsorted")
        srt = sorted(rows, key=lambda r: r[0])
        if any(a[0] == b[0] and a[1] != b[1] for a, b in zip(srt, srt[1:])):
            flags.add("dup")
    return flags


def classify_files(rows):
    """formula class per row from the raw text of its data file (no YAML parse: fast)."""
    out, cache = {}, {}
    for r in rows:
        fn = r["filename"]
        if fn not in cache:
            with open(os.path.join(R.BASE, fn), encoding="utf-8") as fh:
                text = fh.read()
            cache[fn] = ("+".join(_TYPE.findall(text)) or "none") + "".join("!" + f for f in sorted(table_flags(text)))
        out[r["idx"]] = cache[fn]
    return out


def validate(ctx, events, env, **kw):
    """ctx.validate with one retry: a JVM that dies under load is machinery, not a verdict
    (a deterministic TLC error fails again and is reported)."""
    try:
        return ctx.validate("Trace_Catalogue", events, env=env, **kw)
    except T.MachineryError as ex:
        if "trace validation run failed" not in str(ex) and "timeout" not in str(ex):
            raise
        ctx.extra.setdefault("machinery_retries", []).append(str(ex)[-600:])
        return ctx.validate("Trace_Catalogue", events, env=env, **kw)


def fl(d):
    return float(undy(d)) if d["k"] == "fin" else d["k"]


def main(ctx):
    quick = ctx.tier == "quick"
    rnd = random.Random(ctx.seed)
    # ---- 1. the model ---------------------------------------------------------
    ctx.model_check("MC_Catalogue", "MC_Catalogue.cfg", workers=2, timeout=120)
    ctx.model_check("MC_Catalogue", "MC_Catalogue_laws.cfg", workers=2, timeout=120)
    neg = {}
    for cfg in ("MC_Catalogue_regex.cfg", "MC_Catalogue_tie.cfg"):
        r = ctx.model_check("MC_Catalogue", cfg, workers=2, timeout=120, must_pass=False)
        neg[cfg] = r.violated
        if "Post" not in r.violated:
            raise T.MachineryError("negative configuration %s does not violate Post:\n%s"
                                   % (cfg, "\n".join(r.out.splitlines()[-15:])))
    ctx.extra["negative_models"] = neg

    # ---- 2. rows ----------------------------------------------------------------
    rows = R.load_catalogue()
    t0 = time.time()
    classes = classify_files(rows)
    ctx.log("classified %d rows in %.1fs" % (len(rows), time.time() - t0))
    sel = stratify(rows, classes, rnd, 300) if quick else rows
    tasks = [(r, ctx.seed, True) for r in sel]
    synth = [(p, lo, hi, idx, ctx.seed) for p, lo, hi, idx in write_synth(ctx.work)]
    # ---- 3. queries ---------------------------------------------------------------
    names = sorted({r["name"] for r in rows})
    pairs = sorted({(r["name"], r["reference"]) for r in rows})
    if quick:
        always = [n for n in ("SF5", "SF11", "N-BK7", "BAF2", "N-BK7 (SCHOTT)", "SCHOTT N-BK7®", "Cellulose") if n in names]
        qn = sorted(set(rnd.sample(names, 250) + always))
        qp = sorted(set(rnd.sample(pairs, 150) + [p for p in pairs if p[0] in always]))
    else:
        qn, qp = names, pairs
    queries = [(100000 + i, n, None) for i, n in enumerate(qn)]
    queries += [(100000 + len(qn) + i, n, rf) for i, (n, rf) in enumerate(qp)]
    t0 = time.time()
    with ProcessPoolExecutor(max_workers=16) as ex:
        rres = list(ex.map(R.record_row, tasks, chunksize=4))
        sres = list(ex.map(R.record_file, synth))
        lres = list(ex.map(R.record_lookup, queries, chunksize=8))
        glasses = R.schott_glasses(rows)
        if quick:
            glasses = rnd.sample(glasses, min(40, len(glasses)))
        mtasks = []
        for i, (f, nd, V) in enumerate(glasses):
            mtasks.append((200000 + 2 * i, nd, V, [0.4 + 0.3 * rnd.random(), 0.4, 0.7]))
            if not quick:    # a neighbour in the glass map
                mtasks.append((200001 + 2 * i, min(2.01, max(1.44, nd + rnd.uniform(-0.002, 0.002))),
                               min(85.0, max(20.0, V + rnd.uniform(-0.3, 0.3))), [0.4 + 0.3 * rnd.random()]))
        mres = list(ex.map(R.record_model, mtasks, chunksize=4))
    ctx.log("recorded in %.1fs" % (time.time() - t0))
    ctx.extra["recording_wall_s"] = round(time.time() - t0, 1)

    # ---- 4. assemble ------------------------------------------------------------------
    events, owner = [], {}
    byclass, kskip, kexc, calls = {}, 0, {}, 0
    rowinfo = {r["idx"]: r for r in rows}
    for res in rres + sres:
        idx = res["idx"]
        row = rowinfo.get(idx, {"filename": "synthetic #%d" % idx, "name": "synthetic"})
        for k, v in res["skips"].items():
            ctx.skip(k, v)
        if "k_without_table" in res:
            kexc[res["k_without_table"]] = kexc.get(res["k_without_table"], 0) + 1
        calls += res["calls"]
        if res["error"]:
            two = "+" in res.get("fclass", "")
            ctx.report("raises", {"stage": res["error"]["stage"], "file_names_two_n_relations": two,
                                  "fclass": res.get("fclass", "")},
                       "%s: %s" % (row["filename"], res["error"]["exc"]),
                       {"file": row["filename"], "call": "MaterialFile(path)" if res["error"]["stage"] == "load"
                        else "MaterialFile(path).%s(w)" % res["error"]["stage"], "exc": res["error"]["exc"]})
            if not res["events"]:
                continue
        byclass[res["fclass"]] = byclass.get(res["fclass"], 0) + 1
        for e in res["events"]:
            e["id"] = len(events)
            owner[e["id"]] = (row, res)
            events.append(e)
    nrow_events = len(events)
    for e in lres + mres:
        e["id"] = len(events)
        events.append(e)
    ctx.extra["rows_recorded"] = len(rres)
    ctx.extra["rows_by_formula_class"] = byclass
    ctx.extra["synthetic_files"] = sorted(SYNTH)
    ctx.extra["implementation_calls"] = calls + len(lres) + 6 * len(mres)
    ctx.extra["k_without_table_outcome"] = kexc
    kinds = {}
    for e in events:
        key = e["kind"] + ("/" + e["what"] if "what" in e else "") + ("/" + e["type"] if e["kind"] == "formula" else "")
        kinds[key] = kinds.get(key, 0) + 1
    ctx.extra["events_by_kind"] = kinds
    ctx.extra["queries"] = {"names": len(qn), "name_reference_pairs": len(qp), "distinct_names_in_catalogue": len(names)}
    ctx.extra["model_glasses"] = len(mres)

    catfile = os.path.join(ctx.work, "catalogue.json")
    with open(catfile, "w") as fh:
        json.dump([{"name": r["name"], "reference": r["reference"], "filename": r["filename"],
                    "category_name": r["category_name"]} for r in rows], fh)
    env = {"CATALOGUE_FILE": catfile}
    t0 = time.time()
    verdicts = validate(ctx, events, env, shards=16, group="grp", timeout=600 if quick else 1500)
    ctx.log("validated %d events in %.1fs" % (len(events), time.time() - t0))

    # ---- 5. verdicts --------------------------------------------------------------------
    ill = 0
    nfail = {}
    for e in events:
        v = verdicts[e["id"]]
        if "ill_conditioned" in v:
            ill += 1
            ctx.skip("wavelength within 2^-18 (relative) of a pole of the formula")
            continue
        for clause in v:
            nfail[clause] = nfail.get(clause, 0) + 1
            if e["kind"] == "lookup":
                cls = R.lookup_class(rows, e)
                what = ("Material(%r%s) -> %s" % (e["q_name"], ", %r" % e["q_ref"] if e["has_ref"] else "",
                                                  ("row %r (%s)" % (e["r_name"], e["r_file"])) if e["ok"] else e["exc"]))
                ctx.report(clause, cls, what, {"call": "Material(name, reference).material_data",
                                               "name": e["q_name"], "reference": e["q_ref"] if e["has_ref"] else None,
                                               "got": {k: e[k] for k in ("ok", "r_name", "r_ref", "r_file", "exc")}})
            elif e["kind"] == "model":
                ctx.report(clause, {"kind": "model"}, "AbbeMaterial(%r, %r): clause %s" % (fl(e["nd"]), fl(e["V"]), clause),
                           {"nd": fl(e["nd"]), "V": fl(e["V"]), "pts": [[fl(p["w"]), fl(p["n"])] for p in e["pts"]]})
            else:
                row, res = owner[e["id"]]
                cls = {"kind": e["kind"], "what": e.get("what", "abbe"), "type": e.get("type", ""),
                       "table_unsorted": bool(res.get("unsorted")) and e["kind"] == "tab",
                       "w_in_disordered_region": bool(e.get("in_disordered_region"))}
                val = e.get("n", e.get("v", e.get("V")))
                ctx.report(clause, cls, "%s: %s at w=%s returned %s" % (row["filename"], clause,
                                                                        fl(e["w"]) if "w" in e else "-", fl(val)),
                           {"file": row["filename"], "w": fl(e["w"]) if "w" in e else None, "returned": fl(val),
                            "segments": [[fl(t) for t in s] for s in e.get("segs", [])][:3],
                            "coefficients": [fl(c) for c in e.get("c", [])]})
    ctx.extra["failing_clauses"] = nfail
    ctx.extra["ill_conditioned_events"] = ill
    seen = set()
    for e in events:      # one accepted event of each kind, written out
        key = e["kind"] + e.get("what", "")
        if verdicts[e["id"]] or key in seen:
            continue
        seen.add(key)
        if e["kind"] == "lookup":
            ctx.sample({"query": [e["q_name"], e["q_ref"] if e["has_ref"] else None], "row": e["r_name"], "file": e["r_file"]})
        elif e["kind"] == "model":
            ctx.sample({"model_glass": [fl(e["nd"]), fl(e["V"])], "n_at_d_F_C": [fl(p["n"]) for p in e["pts"][:3]]})
        elif e["kind"] == "abbe":
            ctx.sample({"file": owner[e["id"]][0]["filename"], "abbe": fl(e["V"]), "n_d_F_C": [fl(e["nd"]), fl(e["nF"]), fl(e["nC"])]})
        else:
            ctx.sample({"file": owner[e["id"]][0]["filename"], "kind": e.get("type"), "what": e["what"], "w": fl(e["w"]),
                        "returned": fl(e.get("n", e.get("v")))})
    if not quick:
        ctx.exhaustive = True

    # ---- 6. calibration --------------------------------------------------------------------
    calibrate(ctx, events, verdicts, env, rnd, quick)
    ctx.assumptions += [
        "coefficients and tables are the recorder's own PyYAML/float() reading of each data file; the CSV gives each row's range",
        "identities hold to 2^-30 of the sum of the absolute values of their terms (n^2 is computed by TLC from the recorded n); scalar/array agreement to 2^-40; Abbe identity to 2^-45",
        "tabulated data: the piecewise-linear curve through the file's rows taken in wavelength order (np.interp's requirement); at a duplicated wavelength any value between the two rows is accepted",
        "integer exponents are used exactly; an exponent num/den (den <= 8, dyadic) through a power certificate validated by p^den = w^num; any other exponent through a trusted libm power (no bundled file needs either, the synthetic files exercise both)",
        "formula 7 is exercised on synthetic files only (no bundled file uses it)",
        "accuracy of the model-glass fit is not documented by the library: |n(d)-n_d| <= 2^-10 and |V-V_d| <= V_d/8 over 1.44<=n_d<=2.01, 20<=V_d<=85 are measured bounds with margin (worst seen 7.0e-4 and 9.6 %)",
        "a wavelength closer than 2^-18 relative to a pole of a formula is not judged (counted)",
        "the k clause is judged only for files with a k table; rows of files without one are counted (MaterialFile.k raises ValueError there, pinned by the tests)",
        "lookup: only queries that equal a catalogue name exactly (with or without that row's reference) are judged; fuzzy queries carry no claim",
    ]


def calibrate(ctx, events, verdicts, env, rnd, quick):
    """Corrupt accepted events in one field each; TLC must reject every one."""
    ok = [e for e in events if not verdicts[e["id"]]]
    pick = lambda pred, n: rnd.sample([e for e in ok if pred(e)], min(n, len([e for e in ok if pred(e)])))
    cal, expect = [], {}

    def add(e, clauses):
        e = copy.deepcopy(e)
        e["id"] = len(cal)
        e["grp"] = len(cal)
        expect[e["id"]] = clauses
        cal.append(e)

    def scaled(d, f):
        return dy(float(undy(d)) * f)
    per = 3 if quick else 8
    types = sorted({e["type"] for e in ok if e["kind"] == "formula"})
    for ty in types:
        for e in pick(lambda x: x["kind"] == "formula" and x["type"] == ty and not x["line"], per):
            c = copy.deepcopy(e)
            c["n"] = scaled(c["n"], 1 + 1e-6)
            c["na"] = c["n"]
            add(c, ["formula"])
            c = copy.deepcopy(e)
            cs = c["c"]
            # swap the first pair of distinct coefficients that are not exponents
            cand = [i for i in range(len(cs)) if c["x"][i]["t"] == "none" and cs[i] != cs[0] and cs[i]["s"] != 0]
            if cand and abs(float(undy(c["w"])) - 1.0) > 0.05:      # at w = 1 every power is 1: a swap is invisible
                j = cand[0]
                cs[0], cs[j] = cs[j], cs[0]
                add(c, ["formula", "ill_conditioned"])
            c = copy.deepcopy(e)
            c["na"] = scaled(c["na"], 1 + 1e-9)
            add(c, ["scalar_array"])
    for what in ("n", "k"):
        for e in pick(lambda x: x["kind"] == "tab" and x["what"] == what and not x["line"]
                      and any(s[1] != s[3] for s in x["segs"]) and x["v"]["k"] == "fin" and x["v"]["s"] != 0, per):
            c = copy.deepcopy(e)
            c["v"] = scaled(c["v"], 1 + 1e-6)
            c["va"] = c["v"]
            # only informative where the segment is not flat on the scale of the corruption
            add(c, ["segment"])
    for e in pick(lambda x: x["kind"] == "abbe" and x["V"]["k"] == "fin", per):
        c = copy.deepcopy(e)
        c["V"] = scaled(c["V"], 1 + 1e-6)
        add(c, ["abbe", "abbe_chain"])
    for e in pick(lambda x: x["kind"] == "model", per):
        c = copy.deepcopy(e)
        c["pts"][3]["n"] = scaled(c["pts"][3]["n"], 1 + 1e-6)
        c["pts"][3]["na"] = c["pts"][3]["n"]
        add(c, ["polyval"])
        c = copy.deepcopy(e)
        c["pts"][0]["na"] = scaled(c["pts"][0]["na"], 1 + 1e-9)
        add(c, ["scalar_array"])
        c = copy.deepcopy(e)
        c["nd"] = dy(float(undy(c["nd"])) + 0.002)
        add(c, ["fit_nd", "polyval"])
    for e in pick(lambda x: x["kind"] == "lookup" and x["ok"], per):
        c = copy.deepcopy(e)
        c["r_name"] = c["r_name"] + " "
        add(c, ["name_exact"])
        c = copy.deepcopy(e)
        c["ok"] = False
        add(c, ["lookup_raises"])
        c = copy.deepcopy(e)
        c["r_file"] = "main/none.yml"
        add(c, ["not_a_row"])
        c = copy.deepcopy(e)
        c["r_loaded"] = "main/none.yml"
        add(c, ["loaded_file"])
    if len(cal) < 10:
        raise T.MachineryError("calibration set too small (%d)" % len(cal))
    cv = validate(ctx, cal, env, shards=8, count_traces=0, timeout=600)
    missed = [(cal[i]["kind"], cal[i].get("type"), want, cv[i]) for i, want in expect.items()
              if not (set(cv[i]) & set(want))]
    # a 1e-6 corruption of a tabulated value is invisible only to a check that ignores the value
    ctx.extra["calibration"] = {"corruptions": len(cal), "missed": len(missed)}
    if missed:
        raise T.MachineryError("corrupted events not rejected (spec too permissive): %s" % missed[:4])
