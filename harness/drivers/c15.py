"""C15 - tolerancing reports true perturbed performance and restores the nominal lens.

1. TLC model-checks spec/Tolerancing.tla (the sensitivity and Monte-Carlo loops as a
   protocol): 2 perturbations x 3 sample values, all 9 combinations of sampler kinds
   (scalar / cycling range / seeded stream), all 81 random streams, with and without a
   compensator, three failure sets, two sessions built with the same seed.  RowsTrue,
   RowsCompensated, NominalReproduced, Reproducible, EndStateNominal, ResetRestores and HandlesNominal hold
   for the protocol with both resets, also when the user goes on with the same object
   after the run (up to four what-if steps: Perturbation.apply / apply_compensators in any
   order, then reset()); negative configurations document what they guard: without the
   reset after the last trial TLC must report EndStateNominal violated, without the reset
   before each trial RowsTrue, and with a compensation that re-bases its handle
   EndStateNominal again - but only through a what-if history (the run alone satisfies
   every property with it, which TLC also confirms).
2. code -> spec: real SensitivityAnalysis / MonteCarlo runs on small lenses (every
   variable type as perturbation, every sampler kind, with / without compensator, rows
   with an undefined operand), recorded by harness/tolrec.py - each row next to its
   re-derivation on a from_dict(to_dict()) copy of the nominal lens - and validated by
   spec/Trace_Tolerancing.tla in exact dyadic arithmetic; every analysis is built and run
   twice with the same seeds (reproducibility), and the projection is compared before
   the run, after the run and after reset(); some sessions go on after the run with the
   what-if history of the model (perturb, compensate, perturb, compensate, [run again,]
   reset()), and some put a tolerance on the compensator's own parameter.
3. calibration: corrupted copies of accepted records must be rejected, clause by clause.
"""
import copy
import os
import random
import re
from concurrent.futures import ProcessPoolExecutor

from harness import tlc as T
from harness import tolrec as TR
from harness.dy import dy, undy
from harness.drivers.c14 import assemble, VAR_FAMILY


# ------------------------------------------------------------------ model checking
def model_checks(ctx):
    quick = ctx.tier == "quick"

    def variant(name):
        text = open(os.path.join(T.SPEC, name)).read()
        if not quick:       # three trials, streams of six draws (the what-if configurations keep four draws)
            text = re.sub(r"NTrials = \d+", "NTrials = 3", text)
            if "whatif" not in name:
                text = text.replace("Streams <- Streams4", "Streams <- Streams6")
        path = os.path.join(ctx.work, "v_" + name)
        with open(path, "w") as fh:
            fh.write(text)
        return path
    for name in ("MC_Tolerancing_mc.cfg", "MC_Tolerancing_mc_nocomp.cfg", "MC_Tolerancing_sens.cfg",
                 "MC_Tolerancing_sens_nocomp.cfg",
                 # after the run the user goes on with the same object (up to four what-if steps), then reset()
                 "MC_Tolerancing_sens_whatif.cfg", "MC_Tolerancing_mc_whatif.cfg",
                 # a compensation that re-bases its handle is invisible to the run alone (every property holds) ...
                 "MC_Tolerancing_sens_rebases_nouser.cfg"):
        ctx.model_check("MC_Tolerancing", variant(name), workers=8, timeout=800)
    neg = {}
    for name, want in (("MC_Tolerancing_mc_nofinalreset.cfg", "EndStateNominal"),
                       ("MC_Tolerancing_sens_notrialreset.cfg", "RowsTrue"),
                       # ... and is exposed by a what-if history (two compensations without a reset, then reset())
                       ("MC_Tolerancing_sens_whatif_rebases.cfg", "EndStateNominal"),
                       # a compensator that does nothing after its first run: every row stays consistent with the
                       # compensator value it records (RowsTrue holds) - RowsCompensated is what it violates
                       ("MC_Tolerancing_sens_compskips.cfg", "RowsCompensated")):
        r = ctx.model_check("MC_Tolerancing", variant(name), workers=8, timeout=800, must_pass=False)
        if want not in r.violated:
            raise T.MachineryError("negative configuration %s: TLC was expected to report %s violated, got %r\n%s"
                                   % (name, want, r.violated, "\n".join(r.out.splitlines()[-25:])))
        neg[name] = {"violated": want, "counterexample_states": len(re.findall(r"^State \d+:", r.out, re.M))}
    ctx.extra["negative_configs"] = neg


# ------------------------------------------------------------------ cases
def make_cases(ctx):
    quick = ctx.tier == "quick"
    rnd = random.Random(ctx.seed * 104729 + 15)
    cases = []

    def add(**kw):
        c = {"tid": len(cases) + 1, "lens_seed": rnd.randrange(1 << 30), "seed": rnd.randrange(1 << 30),
             "comp": False, "method": "generic", "tol": 1e-5}
        c.update(kw)
        cases.append(c)
    for rep in range(1 if quick else 5):
        # every variable type as a perturbation, both analyses
        for vt, fam in VAR_FAMILY.items():
            for analysis in ("sens", "mc"):
                add(analysis=analysis, family=fam, want_type=vt, nperts=rnd.choice([1, 2]),
                    comp=(rep % 2 == 1) and rnd.random() < 0.5)
        # every sampler kind (Monte Carlo), with and without compensator
        for sk in ("scalar", "range", "normal", "uniform"):
            for comp in (False, True):
                add(analysis="mc", family=rnd.choice(["std", "asph"]), sampler=sk, comp=comp,
                    method=rnd.choice(["generic", "least_squares"]), iters=rnd.choice([3, 4, 5]))
        # sensitivity with compensator
        for _ in range(3):
            add(analysis="sens", family="std", comp=True, method=rnd.choice(["generic", "least_squares"]))
        # rows with an undefined operand (ray failure)
        for analysis in ("sens", "mc"):
            for comp in (False, True):
                add(analysis=analysis, family="std", fail=True, comp=comp, nperts=rnd.choice([1, 2]),
                    iters=3)
        # histories beyond one run: the user's own perturb / compensate / perturb / compensate / reset()
        # on the same Tolerancing object (and a run after it); a tolerance on the compensator's own parameter
        for analysis in ("sens", "mc"):
            add(analysis=analysis, family="std", comp=True, whatif=True, method=rnd.choice(["generic", "least_squares"]), iters=2)
            add(analysis=analysis, family="std", comp=True, whatif="rerun", iters=2, nperts=rnd.choice([1, 2]))
            add(analysis=analysis, family="std", comp=True, own=True, iters=3, nperts=rnd.choice([1, 2]))
        # a sweep whose first trial is practically at nominal (almost nothing to compensate), with compensator
        for analysis in ("sens", "mc"):
            add(analysis=analysis, family="std", comp=True, near_nominal=True, want_type="radius", nperts=1, iters=3,
                sampler="range", method=rnd.choice(["generic", "least_squares"]))
        # an index perturbation on a catalogue glass
        add(analysis=rnd.choice(["sens", "mc"]), family="glass", want_type="index", nperts=1)
        # random
        for _ in range(6 if quick else 12):
            add(analysis=rnd.choice(["sens", "mc"]), family=rnd.choice(["std", "std", "asph", "tilt", "poly"]),
                comp=rnd.random() < 0.4, method=rnd.choice(["generic", "least_squares"]))
    return cases


def run_all(cases):
    out = {}
    with ProcessPoolExecutor(max_workers=10) as ex:
        for c, res in zip(cases, ex.map(TR.run_case, cases, chunksize=2)):
            out[c["tid"]] = res
    return out


# ------------------------------------------------------------------ calibration
def corruptions(events, verdicts):
    out = []

    def bump(d, rel=1e-7, abs_=1e-9):
        if d["k"] != "fin":
            return dy(1.0)
        v = float(undy(d))
        return dy(v * (1.0 + rel) + abs_)
    acc = {}
    for e in events:
        if not verdicts[e["id"]]:
            acc.setdefault(e["op"], []).append(e)

    def some(op, pred=lambda e: True, n=3):
        return [e for e in acc.get(op, []) if pred(e)][:n]
    for e in some("row", lambda e: e["ops"]):
        c = copy.deepcopy(e)
        c["ops"][0] = bump(c["ops"][0], 1e-5, 1e-6)
        out.append((c, "row_true", e))
    for e in some("row", lambda e: e.get("re_comp") and e["re_comp"][0]["k"] == "fin", n=2):
        c = copy.deepcopy(e)
        c["re_comp"][0] = bump(c["re_comp"][0], 1e-4, 1e-5)     # the fresh compensation lands elsewhere
        out.append((c, "row_compensated", e))
    for e in some("row", lambda e: e["ops"] and e["ops"][0]["k"] != "fin", n=2):
        c = copy.deepcopy(e)
        c["re_ops"][0] = dy(0.5)                        # the copy can trace the ray, the row says undefined
        out.append((c, "row_true", e))
    for e in some("row", lambda e: e["which"] > 0 and e["i"] > 0):
        c = copy.deepcopy(e)
        c["pv"][c["which"] - 1] = bump(c["pv"][c["which"] - 1], 1e-6, 1e-8)
        out.append((c, "sampler_law", e))
    for e in some("end"):
        c = copy.deepcopy(e)
        s = next((s for s in c["proj"]["surf"] if s["R"]["k"] == "fin"), None)
        if s is not None:
            s["R"] = bump(s["R"], 1e-8, 0.0)
            out.append((c, "end_state_nominal", e))
        c = copy.deepcopy(e)
        c["expected_rows"] += 1
        out.append((c, "row_count", e))
    for e in some("reset"):
        c = copy.deepcopy(e)
        z = next((s for s in c["proj"]["surf"][2:] if s["z"]["k"] == "fin"), None)
        if z is not None:
            z["z"] = bump(z["z"], 1e-7, 1e-7)
            out.append((c, "reset_restores", e))
    for e in some("begin"):
        c = copy.deepcopy(e)
        c["targets"][0] = bump(c["targets"][0])
        out.append((c, "targets_nominal", e))
    return out


def calibrate(ctx, events, verdicts):
    by_tid = {}
    for e in events:
        by_tid.setdefault(e["tid"], []).append(e)
    cors = corruptions(events, verdicts)
    # reproducibility: change one recorded operand of a second-session row whose first-session
    # twin is in the prefix; nominal reproduction: claim nominal perturbation values on a perturbed row
    for e in events:
        if e["op"] == "row" and not verdicts[e["id"]] and e["ops"] and e["ops"][0]["k"] == "fin":
            begins = [x for x in by_tid[e["tid"]] if x["op"] == "begin" and x["seq"] < e["seq"]]
            if len(begins) == 2 and len([c for c in cors if c[1] == "reproducible"]) < 3:
                c = copy.deepcopy(e)
                v = dy(float(undy(c["ops"][0])) * (1 + 1e-12) + 1e-13)
                c["ops"][0] = v
                c["re_ops"][0] = v                       # (so that only the session comparison can object)
                cors.append((c, "reproducible", e))
            if len(begins) == 1 and not begins[0]["has_comp"] and len([c for c in cors if c[1] == "nominal_reproduced"]) < 3 \
                    and e["ops"] != begins[0]["nom_ops"]:
                c = copy.deepcopy(e)
                c["pv"] = list(begins[0]["nom_pert"])
                cors.append((c, "nominal_reproduced", e))
    kinds = {c[1] for c in cors}
    need = {"row_true", "row_compensated", "end_state_nominal", "reset_restores", "reproducible", "nominal_reproduced", "sampler_law"}
    if not need <= kinds:
        raise T.MachineryError("calibration: no accepted record to corrupt for %r" % sorted(need - kinds))
    cal, expect, nid = [], [], 0
    for k, (c, clause, orig) in enumerate(cors):
        prefix = [x for x in by_tid[orig["tid"]] if x["seq"] < orig["seq"]]
        for x in prefix + [c]:
            y = dict(x)
            y["id"] = nid
            y["tid"] = 10 ** 6 + k
            cal.append(y)
            nid += 1
        expect.append((nid - 1, clause))
    raw = ctx.validate("Trace_Tolerancing", cal, shards=8, group="tid", count_traces=0, timeout=600)
    v = assemble(raw, cal)
    missed = [(i, cl) for i, cl in expect if cl not in v[i]]
    if missed:
        raise T.MachineryError("calibration: corrupted records accepted: %r" % missed[:5])
    ctx.extra["calibration"] = {"corrupted_records": len(cors), "all_rejected": True, "clauses": sorted(kinds)}


# ------------------------------------------------------------------ main
def describe(e, clause, case):
    def fl(seq):
        return [float(undy(d)) if d["k"] == "fin" else d["k"] for d in seq]
    s = "%s event (trace %d, #%d, %s): clause %s fails" % (e["op"], e["tid"], e["seq"], case["analysis"], clause)
    if e["op"] == "row":
        s += "; perturbation values %r compensators %r -> recorded operands %r, re-derived on a fresh copy %r" % (
            fl(e["pv"]), fl(e["cv"]), fl(e["ops"]), fl(e["re_ops"]))
    return s


def judge(ctx, cases, results):
    events, traces = [], {}
    for c in cases:
        evs, case2, info = results[c["tid"]]
        if not evs:
            ctx.skip(info.get("skip", "empty"))
            continue
        traces[c["tid"]] = case2
        events += evs
    for i, e in enumerate(events):
        e["id"] = i
    raw = ctx.validate("Trace_Tolerancing", events, shards=12, group="tid", count_traces=0, timeout=900)
    return events, traces, assemble(raw, events)


def report_all(ctx, events, traces, verdicts):
    fails = {}
    for e in events:
        case = traces[e["tid"]]
        for clause in verdicts[e["id"]]:
            cls = TR.classify(case)
            cls["step"] = e["op"]
            fails[clause] = fails.get(clause, 0) + 1
            ctx.report(clause, cls, describe(e, clause, case),
                       {"case": case, "event_seq": e["seq"],
                        "how": "harness.tolrec.run_case(case) then ./check C15 --replay <this file>"})
    return fails


def main(ctx):
    model_checks(ctx)
    cases = make_cases(ctx)
    results = run_all(cases)
    events, traces, verdicts = judge(ctx, cases, results)
    fails = report_all(ctx, events, traces, verdicts)
    ctx.traces += 2 * len(traces)                   # every analysis is built and run twice
    opcount, by_an, pert_types, samplers = {}, {}, {}, {}
    nan_rows = comp_rows = 0
    for e in events:
        opcount[e["op"]] = opcount.get(e["op"], 0) + 1
        if e["op"] == "row":
            if any(d["k"] != "fin" for d in e["ops"]):
                nan_rows += 1
            if e["cv"]:
                comp_rows += 1
    for tid, case in traces.items():
        k = case["analysis"] + ("+comp" if case["comps"] else "")
        by_an[k] = by_an.get(k, 0) + 2
        for p in case["perts"]:
            pert_types[p["type"]] = pert_types.get(p["type"], 0) + 1
            samplers[p["sampler"]["kind"]] = samplers.get(p["sampler"]["kind"], 0) + 1
    ctx.extra.update(events_by_op=opcount, runs_by_analysis=by_an, perturbation_types=pert_types,
                     sampler_kinds=samplers, rows_with_undefined_operand=nan_rows, rows_with_compensator=comp_rows,
                     failing_clauses_seen=fails, cases=len(cases))
    if nan_rows == 0 or comp_rows == 0:
        raise T.MachineryError("generator produced no row with an undefined operand / with a compensator")
    calibrate(ctx, events, verdicts)
    for tid in list(traces)[:3]:
        case = traces[tid]
        ctx.sample({"analysis": case["analysis"], "family": case["family"], "operands": [o["type"] for o in case["ops"]],
                    "perturbations": [{"type": p["type"], "surface": p["k"], "sampler": p["sampler"]} for p in case["perts"]],
                    "compensators": [{"type": p["type"], "surface": p["k"]} for p in case["comps"]]})
    ctx.assumptions += [
        "Optic.from_dict(optic.to_dict()) yields a lens with the same prescription (C19); the re-derivation of every row runs on such a copy",
        "re-derivation applies recorded values through fresh Variable handles (perturbations unscaled, compensators scaled) and reads operands through Operand.value",
        "reproducibility is judged for the same construction sequence with the same seeds (DistributionSampler seeds numpy's global generator when constructed)",
        "lenses without pickups and solves (Perturbation.apply does not update the optics)",
        "harness/dy.py float<->dyadic conversion",
    ]


def replay(ctx, rep):
    case = {k: v for k, v in rep["repro"]["case"].items() if k not in ("ops", "perts", "comps")}
    res = {case["tid"]: TR.run_case(case)}
    events, traces, verdicts = judge(ctx, [case], res)
    ctx.traces += 2 * len(traces)
    report_all(ctx, events, traces, verdicts)
