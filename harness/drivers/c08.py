"""C08 - Seidel and first-order chromatic terms equal the classical surface formulas.

1. MC_Seidel (exact small rationals, exhaustive grids of conic-free lenses): TLC computes the
   classical surface contributions (Welford) from the exactly traced marginal / chief rays and
   checks: both forms of S_V agree, the image surface is inert, H is the Lagrange invariant at
   every surface, the library's sums are minus Welford's, the value model satisfies the relational
   laws, stop-shift (S_I, S_IV, C_I do not move; S_II, C_II, and on remote-stop lenses S_III, S_V
   follow the stop-shift formulas), perturbed records are rejected.
2. spec -> code: every grid lens (angle fields) is built through the public API with
   three-wavelength table media; third_order() is compared with TLC's rationals.
3. code -> spec: random conic-free lenses (catalogue glasses for the colour terms) and the bundled
   spherical samples; everything the aberration interface returns is judged by Trace_Seidel from the
   returned paraxial rays and indices, cross-multiplied, plus the small-aperture clause on real rays.
Calibration every run: single-field corruptions of judged records must be rejected.
"""
import copy
import math
import os
import random
import re
from concurrent.futures import ProcessPoolExecutor, ThreadPoolExecutor
from fractions import Fraction

import numpy as np

from harness import lensgen as G
from harness import parax as PX
from harness import seidelrec as SR
from harness import tlc as T
from harness.dy import dy, undy

INVS = ("DistortionForms ImageSurfaceInert InvariantEverywhere SumsAreWelford ModelSatisfiesLaws StopShift "
        "StopShiftAstigDist LawsNotVacuous")
TERM = ("TSC", "CC", "TAC", "TPC", "DC")
CHROM = ("TAchC", "TchC")
# (name, counts, radius codes, medium codes, thicknesses, configs); larger grids leave 32-bit numerators
STRATA = [
    ("one_surface", [1], [0, 8, 108, 16, 116, 32, 132], [1, 2, 3, 4], [1, 4], [1, 2, 3, 5, 7, 8]),
    ("two_surfaces_n_1_2", [2], [0, 8, 116], [1, 3, 4], [2], [1, 2]),
]


def cfg_text(counts, rad, med, thk, cfgs):
    st = lambda xs: "{" + ", ".join(str(x) for x in xs) + "}"
    return ("SPECIFICATION Spec\nCONSTANTS\n  Counts = %s\n  RadCodes = %s\n  MedCodes = %s\n  ThkCodes = %s\n"
            "  Cfgs = %s\nINVARIANTS %s\nCHECK_DEADLOCK FALSE\n" % (st(counts), st(rad), st(med), st(thk), st(cfgs), INVS))


def parse_dump(path):
    with open(path) as fh:
        text = fh.read()
    cases = []
    for block in re.split(r"^State \d+:\s*$", text, flags=re.M)[1:]:
        m = re.search(r"out = <<(.*?)>>\s*/\\ thm", block, flags=re.S)
        if not m or not m.group(1).strip():
            continue
        out = [int(x) for x in re.findall(r"-?\d+", m.group(1))]
        lens = re.search(r"lens = \[(.*?)\]\s*/\\ out", block, flags=re.S).group(1)
        s = int(re.search(r"\bs \|-> (\d+)", lens).group(1))
        c = int(re.search(r"cfg \|-> (\d+)", lens).group(1))
        sf = [tuple(int(v) for v in q) for q in re.findall(r"<<(\d+),\s*(\d+),\s*(\d+),\s*(\d+)>>", lens)]
        cases.append((sf, s, c, out))
    return cases


def _q(out, i):
    n, d = out[2 * i], out[2 * i + 1]
    return None if d == 0 else Fraction(n, d)


def replay_cases(cases):
    """Build each grid lens (table media) with the public API; compare third_order() with TLC."""
    res = {"n": 0, "values": 0, "undefined": 0, "viol": [], "sample": None, "d17": 0}
    mats = {1: "air", 2: SR.table_medium(1.5, 1.0 / 16), 3: SR.table_medium(2.0, 1.0 / 8)}
    for sf, s, cfg, out in cases:
        fin, apt, fdt = PX.CFG[cfg]
        if fdt == "object_height":
            res["d17"] += 1          # chief ray for object_height fields is C04's known finding
            continue
        n = len(sf)
        info = {"sf": sf, "stop": s, "cfg": cfg}
        mirrors = [j + 1 for j, q in enumerate(sf) if q[1] == 4]
        exp = {f: [_q(out, i * n + k) for k in range(n)] for i, f in enumerate(SR.FAM)}
        expS = [_q(out, 12 * n + i) for i in range(5)]
        assert len(out) == 2 * (12 * n + 5)
        res["n"] += 1
        try:
            o = PX.build_grid_lens(sf, s, cfg, wavelengths=(0.4861, 0.5876, 0.6563), materials=mats)
            with np.errstate(all="ignore"):
                r = o.aberrations.third_order()
                ym = PX._flt(*o.paraxial.marginal_ray())[0]
            got = {f: [float(v) for v in np.asarray(r[i], dtype=float).ravel()] for i, f in enumerate(SR.FAM)}
            gotS = [float(v) for v in np.asarray(r[12], dtype=float).ravel()]
        except Exception as ex:
            res["viol"].append(("raises", {"stage": "replay"}, "%s: %s" % (type(ex).__name__, ex), info))
            continue
        bad = []
        for f in SR.FAM:
            sc = max([abs(v) for v in exp[f] if v is not None] + [Fraction(1, 1000)])
            for k in range(n):
                e = exp[f][k]
                if e is None:
                    res["undefined"] += 1
                    continue
                res["values"] += 1
                g = got[f][k] if k < len(got[f]) else math.nan
                if not (math.isfinite(g) and abs(Fraction(g) - e) <= Fraction(1, 10 ** 9) * abs(e) + Fraction(1, 10 ** 12) * sc):
                    bad.append((f, k + 1, "third_order() %s[surface %d] = %r, classical formula gives %s = %.10g"
                                % (f, k + 1, g, e, float(e))))
        for i in range(5):
            if expS[i] is None:
                res["undefined"] += 1
                continue
            res["values"] += 1
            if not (math.isfinite(gotS[i]) and abs(Fraction(gotS[i]) - expS[i]) <= Fraction(1, 10 ** 9) * abs(expS[i]) + Fraction(1, 10 ** 13)):
                bad.append(("seidel_sum", i + 1, "S[%d] = %r, expected %s" % (i + 1, gotS[i], expS[i])))
        if res["sample"] is None and not bad and n > 1 and exp["TSC"][0] not in (None, 0):
            res["sample"] = {"grid_lens": info, "TSC_TLC": [str(v) for v in exp["TSC"]], "TSC_code": got["TSC"],
                             "DC_TLC": [str(v) for v in exp["DC"]], "DC_code": got["DC"]}
        for f, k, what in bad:
            cls = {"has_mirror": bool(mirrors), "zero_invariant": False}
            if f in ("TAchC", "TchC", "LchC"):
                cls["height_differs_from_previous"] = bool(ym[k - 1] != ym[k])
            res["viol"].append((f, cls, "grid lens %s: %s" % (info, what), info))
    return res


def _record(o, label, **kw):
    try:
        L, info = PX.describe(o)
    except PX.Unsupported as ex:
        return dict(kw, skip=str(ex), label=label)
    if info["aspheric_or_conic"]:
        return dict(kw, skip="conic or aspheric surface (C08 quantifies over conic-free lenses)", label=label)
    try:
        # an image surface with its own medium (cover glass or immersion in contact with it): the
        # classical sums are not claimed there, the identities of the returned families are
        E, raw = G.quiet(SR.record, o, info, small_aperture=not info["image_medium_differs"])
    except Exception as ex:
        return dict(kw, error="record: %s: %s" % (type(ex).__name__, ex), label=label)
    E["ident"] = bool(info["image_medium_differs"])
    if E["ident"]:
        E["fs"] = {"kind": "none", "v": E["fs"]["v"]}
    ym = raw["ma"][0]
    keep = {"K": info["K"], "mirrors": info["mirrors"], "has_mirror": bool(info["mirrors"]),
            "zero_invariant": raw["inv"] == 0.0, "finite_object": info["finite_object"],
            "hdiff": [bool(ym[k - 1] != ym[k]) for k in range(1, info["K"])],
            "small_aperture": E["sa"]["has"], "dispersive": any(v != 0.0 for v in raw["dn"])}
    return dict(kw, label=label, L=L, E=E, info=keep,
                raw={"TSC": raw["T"]["TSC"], "DC": raw["T"]["DC"], "TAchC": raw["T"]["TAchC"], "S": raw["S"],
                     "sa": raw.get("sa"), "operand_raised": raw["operand_raised"]},
                presc={"n": info["n"], "z": info["pos"], "radii": info["radii"], "stop": info["stop"]})


def record_random(args):
    seed, = args
    rnd = random.Random(seed)
    try:
        o, meta = PX.random_lens(rnd, catalogue=True, conic_free=True, last_air=0.85, p_catalogue=0.5,
                                 p_zero_field=0.06)
    except Exception as ex:
        return {"error": "build: %s: %s" % (type(ex).__name__, ex), "seed": seed}
    return _record(o, "seed %d %s" % (seed, meta), seed=seed)


def record_requeried(args):
    """The same Optic queried, edited (a glass replaced, surface count unchanged) and queried
    again: the second answer must describe the edited lens (no stale state between queries)."""
    seed, = args
    rnd = random.Random(seed)
    try:
        o, meta = PX.random_lens(rnd, catalogue=True, conic_free=True, last_air=1.0, p_catalogue=0.7,
                                 p_zero_field=0.0)
        G.quiet(o.aberrations.third_order)          # first query
        G.quiet(o.aberrations.TAchC)
        sg = o.surface_group
        cands = [k for k in range(1, sg.num_surfaces - 1) if not sg.surfaces[k].is_reflective
                 and float(np.ravel(sg.surfaces[k].material_post.n(0.5876))[0]) != 1.0]
        if not cands:
            return {"skip": "no glass to replace", "label": "requery seed %d" % seed, "seed": seed}
        k = rnd.choice(cands)
        if rnd.random() < 0.5:
            o.set_index(round(rnd.uniform(1.4, 1.9), 3), k)             # dispersion-free replacement
        else:
            from optiland.materials import Material
            m = G.quiet(Material, *rnd.choice([("N-SF11", "schott"), ("N-BK7", "schott"), ("F2", "schott")]))
            sg.surfaces[k].material_post = m
            sg.surfaces[k + 1].material_pre = m
    except Exception as ex:
        return {"error": "build: %s: %s" % (type(ex).__name__, ex), "seed": seed}
    return _record(o, "requery seed %d %s (glass behind surface %d replaced after a first query)" % (seed, meta, k), seed=seed)


def record_sample(name):
    cls = {c.__name__: c for c in G.sample_classes()}[name]
    try:
        o = G.quiet(cls)
    except Exception as ex:
        return {"error": "build sample: %s: %s" % (type(ex).__name__, ex), "sample": name}
    return _record(o, name, sample=name)


FIXED = [   # hand-picked witnesses judged in every run: (label, sf, stop, cfg, field angle)
    ("fixed: singlet R 32/-32 n 3/2, on-axis field only", [(32, 2, 4, 0), (132, 1, 40, 0)], 1, 1, 0.0),
    ("fixed: concave spherical mirror R -32", [(132, 4, 12, 0)], 1, 1, PX.FIELD_ANGLE),
    ("fixed: singlet R 32/-32 n 3/2, stop behind", [(32, 2, 4, 0), (132, 1, 40, 0)], 2, 3, PX.FIELD_ANGLE),
]


def record_fixed(i):
    label, sf, s, cfg, fa = FIXED[i]
    mats = {1: "air", 2: SR.table_medium(1.5, 1.0 / 16), 3: SR.table_medium(2.0, 1.0 / 8)}
    o = PX.build_grid_lens(sf, s, cfg, field_angle=fa, wavelengths=(0.4861, 0.5876, 0.6563), materials=mats)
    return _record(o, label, fixed=i)


def clauses_of(verdicts, eid):
    out = []
    for j in range(1, verdicts[eid] + 1):
        name, k = verdicts[-(512 * eid + j)].rsplit("@", 1)
        out.append((name, int(k)))
    return out


def classify(name, k, info):
    if name == "operand_surface":
        return {"wrapper": "per_surface"}
    if name in CHROM:
        return {"has_mirror": info["has_mirror"], "zero_invariant": info["zero_invariant"],
                "height_differs_from_previous": info["hdiff"][k - 1]}
    if name in TERM or name in ("seidel_sum", "small_aperture"):
        return {"has_mirror": info["has_mirror"], "zero_invariant": info["zero_invariant"]}
    return {"clause_kind": "identity", "has_mirror": info["has_mirror"]}


def validate_events(module, events, workdir, shards):
    for attempt in (0, 1):
        try:
            return T.validate_events(module, events, workdir, shards=shards)
        except FileNotFoundError:
            if attempt:
                raise T.MachineryError("scratch files of the trace validation disappeared twice")


def corruptions(ev, rnd):
    """Single-field corruptions of a judged event -> (event, clauses one of which must newly fire)."""
    out = []
    n = ev["L"]["K"] - 1
    fl = lambda d: float(undy(d))

    def mod(path, fn, expect):
        c = copy.deepcopy(ev)
        ref = c["E"]
        for p in path[:-1]:
            ref = ref[p]
        ref[path[-1]] = dy(fn(fl(ref[path[-1]])))
        out.append((c, expect))
    nz = [k for k in range(n) if fl(ev["E"]["T"]["TSC"][k]) != 0.0]
    if not nz:
        return out
    k = max(nz, key=lambda q: abs(fl(ev["E"]["T"]["TSC"][q])))
    mod(["T", "TSC", k], lambda v: v * (1 + 1e-6), [("TSC", k + 1)])
    mod(["T", "SC", k], lambda v: v * (1 + 1e-6), [("SC", k + 1)])
    mod(["S", 0], lambda v: v * (1 + 1e-6), [("seidel_sum", 1)])
    mod(["acc", "TSC", k], lambda v: v * (1 + 1e-6), [("accessor", 1)])
    mod(["accS", 0], lambda v: v * (1 + 1e-6), [("accessor", 13)])
    mod(["opsum", 0], lambda v: v * (1 + 1e-6), [("operand_sum", 1)])
    mod(["opS", 0], lambda v: v * (1 + 1e-6), [("operand_seidel", 1)])
    for fam in ("CC", "TAC", "TPC", "DC"):
        ks = [j for j in range(n) if abs(fl(ev["E"]["T"][fam][j])) > 1e-12]
        if ks:
            # (the term of largest magnitude: a relative change of 1e-6 in a term far below the
            # family's scale is inside the clause's tolerance and proves nothing)
            j = max(ks, key=lambda q: abs(fl(ev["E"]["T"][fam][q])))
            mod(["T", fam, j], (lambda v: -v) if fam == "DC" else (lambda v: v * (1 + 1e-6)), [(fam, j + 1)])
    ks = [j for j in range(n) if abs(fl(ev["E"]["T"]["CC"][j])) > 1e-12]
    if ks:
        j = rnd.choice(ks)
        mod(["T", "TCC", j], lambda v: v * (1 + 1e-6), [("TCC", j + 1)])
    ks = [j for j in range(n) if abs(fl(ev["E"]["T"]["TAchC"][j])) > 1e-12 and ("TAchC", j + 1) not in ev["base"]]
    if ks:
        j = rnd.choice(ks)
        mod(["T", "TAchC", j], lambda v: v * (1 + 1e-6), [("TAchC", j + 1)])
        mod(["T", "LchC", j], lambda v: v * (1 + 1e-6), [("LchC", j + 1)])
    if ev["E"]["sa"]["has"] and ("small_aperture", 0) not in ev["base"]:
        ts = sum(fl(v) for v in ev["E"]["sa"]["TSC"])
        if abs(ts) * 0.0625 ** 3 > 1e-8:
            c = copy.deepcopy(ev)
            c["E"]["sa"]["TSC"] = [dy(-fl(v)) for v in c["E"]["sa"]["TSC"]]     # wrong overall sign
            out.append((c, [("small_aperture", 0)]))
    return out


def trace_phase(work, seed, quick, fut_rand, fut_samp):
    rnd = random.Random(seed)
    res = {"reports": [], "skips": [], "extra": {}, "runs": [], "samples": []}
    events, meta = [], {}
    for f in fut_rand + fut_samp:
        r = f.result()
        if r.get("error"):
            res["reports"].append(("raises", {"stage": r["error"].split(":")[0], "sample": r.get("sample", "")},
                                   r["error"], {"seed": r.get("seed"), "sample": r.get("sample")}))
            continue
        if r.get("skip"):
            res["skips"].append("lens outside the property's quantifier: " + r["skip"])
            continue
        if quick and r["L"]["K"] > 9:
            res["skips"].append("quick tier: lens with more than 8 powered surfaces left to the thorough tier")
            continue
        eid = len(events)
        events.append({"id": eid, "L": r["L"], "E": r["E"]})
        meta[eid] = r
    verdicts, st = validate_events("Trace_Seidel", events, os.path.join(work, "tv"), 10 if quick else 16)
    res["runs"].append(("Trace_Seidel", st, len(events), len(events)))
    nclauses, judged = {}, []
    nsa = 0
    for e in events:
        r = meta[e["id"]]
        fails = clauses_of(verdicts, e["id"])
        skips = sorted({n for n, _ in fails if n.startswith("skip_")})
        res["skips"] += ["degenerate input: " + s[5:] for s in skips]
        real = [(n, k) for n, k in fails if not n.startswith("skip_")]
        nsa += bool(r["info"]["small_aperture"] and not skips)
        if not skips:
            judged.append(dict(e, base=set(real), info=r["info"]))
        for name, k in real:
            nclauses[name] = nclauses.get(name, 0) + 1
            res["reports"].append((name, classify(name, k, r["info"]),
                                   "%s: clause %s fails%s" % (r["label"], name, " at index %d" % k if k else ""),
                                   {"lens": r["label"], "prescription": r["presc"], "returned": r["raw"],
                                    "clause": name, "index": k}))
    res["extra"]["trace_events"] = len(events)
    res["extra"]["trace_events_with_small_aperture_data"] = nsa
    res["extra"]["failing_clauses_by_name"] = nclauses
    bycls = {}
    for e in events:
        i = meta[e["id"]]["info"]
        key = "%s%s%s%s" % ("finite" if i["finite_object"] else "infinite", "/mirror" if i["has_mirror"] else "",
                            "/dispersive" if i["dispersive"] else "", "/zero-field" if i["zero_invariant"] else "")
        bycls[key] = bycls.get(key, 0) + 1
    res["extra"]["trace_events_by_class"] = bycls
    # (events in identities-only mode - lenses with an image medium - are not corrupted: the formula
    # clauses a corruption is expected to trip are not judged there)
    clean = [e for e in judged if not e["info"]["has_mirror"] and not e["info"]["zero_invariant"]
             and not e["E"].get("ident")
             and all(n in ("operand_surface", "TAchC", "TchC") for n, _ in e["base"])]
    if clean:
        a = clean[0]
        res["samples"].append({"lens": meta[a["id"]]["label"], "returned": meta[a["id"]]["raw"],
                               "verdict": "term clauses accepted"})
    # ---- calibration ----
    small = [e for e in clean if e["L"]["K"] <= 5] or clean
    picked = rnd.sample(small, min(len(small), 2)) if quick else rnd.sample(clean, min(len(clean), 12))
    cal, expect = [], {}
    for ev in picked:
        for c, clauses in corruptions(ev, rnd):
            cid = len(cal)
            expect[cid] = (clauses, set(ev["base"]))
            cal.append({"id": cid, "L": c["L"], "E": c["E"]})
    if len(cal) < 8:
        # nothing clean enough to corrupt: a machinery failure unless the run already has violations to show
        res["cal_error"] = "calibration: too few accepted events to corrupt (%d)" % len(cal)
        return res
    cv, st = validate_events("Trace_Seidel", cal, os.path.join(work, "cal"), 10 if quick else 16)
    res["runs"].append(("Trace_Seidel", st, len(cal), 0))
    missed = []
    for cid, (clauses, base) in expect.items():
        got = set(clauses_of(cv, cid))
        if not ((got - base) & set(clauses)):
            missed.append((cid, clauses, sorted(got - base)))
    res["extra"]["calibration"] = {"corrupted_records": len(cal), "missed": len(missed)}
    if missed:
        raise T.MachineryError("corrupted records not rejected (spec too permissive): %s" % missed[:3])
    return res


def main(ctx):
    quick = ctx.tier == "quick"
    pool = ProcessPoolExecutor(max_workers=12)
    nrand = 12 if quick else 400
    fut_rand = [pool.submit(record_random, (ctx.seed * 15485863 + i,)) for i in range(nrand)]
    fut_samp = [pool.submit(record_sample, c.__name__) for c in G.sample_classes()]
    fut_samp += [pool.submit(record_fixed, i) for i in range(len(FIXED))]
    fut_samp += [pool.submit(record_requeried, (ctx.seed * 32452843 + i,)) for i in range(10 if quick else 120)]
    tpool = ThreadPoolExecutor(max_workers=1)
    fut_trace = tpool.submit(trace_phase, ctx.work, ctx.seed, quick, fut_rand, fut_samp)

    ctx.model_check("MC_DyadicFast", "MC_DyadicFast_quick.cfg" if quick else "MC_DyadicFast.cfg", workers=4, timeout=600)
    totals = {"lenses": 0, "values_compared": 0, "values_undefined_skipped": 0, "object_height_not_replayed": 0}
    replays = []
    for name, counts, rad, med, thk, cfgs in STRATA:
        cfgp = os.path.join(ctx.work, "MC_Seidel_%s.cfg" % name)
        with open(cfgp, "w") as fh:
            fh.write(cfg_text(counts, rad, med, thk, cfgs))
        dump = os.path.join(ctx.work, "dump_%s" % name)
        ctx.model_check("MC_Seidel", cfgp, workers=8, timeout=400, args=["-dump", dump])
        cases = parse_dump(dump + ".dump")
        os.remove(dump + ".dump")
        if not cases:
            raise T.MachineryError("no cases exported for stratum " + name)
        ctx.extra.setdefault("grid_strata", {})[name] = len(cases)
        size = max(1, len(cases) // 24)
        replays += [pool.submit(replay_cases, cases[i:i + size]) for i in range(0, len(cases), size)]
    for f in replays:
        r = f.result()
        totals["lenses"] += r["n"]
        totals["values_compared"] += r["values"]
        totals["values_undefined_skipped"] += r["undefined"]
        totals["object_height_not_replayed"] += r["d17"]
        if r["sample"]:
            ctx.sample(r["sample"], cap=2)
        for clause, cls, what, repro in r["viol"]:
            ctx.report(clause, cls, what, {"grid_lens": repro,
                                           "how": "harness.parax.build_grid_lens(sf, s, cfg, materials=table media)"})
    ctx.log("grid replay done: %s" % totals)
    ctx.extra["grid_replay"] = totals
    ctx.traces += totals["lenses"]
    ctx.exhaustive = True
    if totals["values_undefined_skipped"]:
        ctx.skip("grid: term undefined (collimated image space / pupil at infinity)", totals["values_undefined_skipped"])
    if totals["object_height_not_replayed"]:
        ctx.skip("grid: object_height configurations are model-checked but not replayed (chief ray: C04 finding)",
                 totals["object_height_not_replayed"])

    res = fut_trace.result()
    pool.shutdown()
    tpool.shutdown()
    ctx.log("trace phase done")
    for module, st, nev, ntr in res["runs"]:
        ctx.states += st["states"]
        ctx.transitions += st["generated"]
        ctx.traces += ntr
        ctx.models.append({"module": module, "cfg": module + ".cfg", "distinct": st["states"],
                           "generated": st["generated"], "events": nev, "wall_s": round(st["wall"], 2),
                           "jvms": st["jvms"], "ok": True})
    for sk in res["skips"]:
        ctx.skip(sk)
    for rep in res["reports"]:
        ctx.report(*rep)
    for sm in res["samples"]:
        ctx.sample(sm)
    ctx.extra.update(res["extra"])
    if res.get("cal_error") and not ctx.violations:
        raise T.MachineryError(res["cal_error"])
    ctx.assumptions += [
        "sign convention fixed once from the library's documentation (Smith, Modern Optical Engineering 6.3, cited by "
        "the module docstring; Aberrations._sum_seidels): transverse term = classical (Welford) contribution / "
        "(2 n_K u_K), Seidel sums = -2 n_K u_K * sum of transverse terms; the sign of TSC is anchored physically by "
        "the small-aperture clause, the signs of S_II..S_V relative to S_I by the stop-shift theorems of MC_Seidel",
        "the returned marginal / chief rays, Optic.n() and n(0.4861) - n(0.6563) are inputs of the formulas (their "
        "own correctness is C04's / C18's business); mirrors enter as n' = -n",
        "products are truncated to >= 85 significant bits in the trace validation (degree-12 relations); "
        "tolerance 2^-32 relative to the term-wise magnitude (bounded by powers of two) of each relation; 1e-9 relative for the grid replay",
        "small-aperture clause: image surface moved to the paraxial focus with image_solve(); real on-axis rays at "
        "pupil 1/8 and 1/16; |y_real - eps y_K - TSC_total eps^3| <= eps^3 sum|TSC_k| / 4 and decay by >= 8",
        "overall sign of the chromatic families is the library's (Smith): it is not anchored by an independent "
        "physical clause",
        "MC_Seidel grids are limited by TLC's 32-bit integers: one surface (all media, all configurations) and two "
        "surfaces with n in {1, 2} and mirrors, infinite object",
    ]


def replay(ctx, rep):
    """./check C08 --replay <file>: re-executes one recorded case and judges it again with Trace_Seidel."""
    r = rep.get("repro", {})
    if "grid_lens" in r:
        g = r["grid_lens"]
        mats = {1: "air", 2: SR.table_medium(1.5, 1.0 / 16), 3: SR.table_medium(2.0, 1.0 / 8)}
        o = PX.build_grid_lens([tuple(q) for q in g["sf"]], g["stop"], g["cfg"], field_angle=g.get("field_angle", PX.FIELD_ANGLE),
                               wavelengths=(0.4861, 0.5876, 0.6563), materials=mats)
        rec = _record(o, "grid lens %s" % g)
    elif r.get("sample"):
        rec = record_sample(r["sample"])
    elif r.get("seed") is not None:
        rec = record_random((r["seed"],))
    elif isinstance(r.get("lens"), str) and r["lens"].startswith("seed "):
        rec = record_random((int(r["lens"].split()[1]),))
    elif isinstance(r.get("lens"), str) and r["lens"].startswith("fixed"):
        rec = record_fixed([f[0] for f in FIXED].index(r["lens"]))
    elif isinstance(r.get("lens"), str):
        rec = record_sample(r["lens"])
    else:
        raise T.MachineryError("replay file has no reproducible case")
    if rec.get("error") or rec.get("skip"):
        raise T.MachineryError("replay: %s" % (rec.get("error") or rec.get("skip")))
    v = ctx.validate("Trace_Seidel", [{"id": 0, "L": rec["L"], "E": rec["E"]}], shards=1)
    for name, k in clauses_of(v, 0):
        if name.startswith("skip_"):
            ctx.skip("degenerate input: " + name[5:])
            continue
        ctx.report(name, classify(name, k, rec["info"]),
                   "%s: clause %s fails%s" % (rec["label"], name, " at index %d" % k if k else ""),
                   {"lens": rec["label"], "returned": rec["raw"], "clause": name, "index": k})
    ctx.sample({"lens": rec["label"], "returned": rec["raw"]})
