"""C11 - PSF, Strehl ratio and MTF are correctly normalised transforms of the pupil.

model:      spec/MC_Diffraction.tla - TLC checks on exact 4x4 / 8x8 models that Parseval, psf <= 100,
            Strehl <= 1 (equality exactly for a phase-free pupil), phase-independence of the energy,
            the peak position, pad-independence and Wiener-Khinchin follow from the definition, that
            witnesses built from the definition are accepted and single perturbations rejected.
code->spec: FFTPSF / FFTMTF / GeometricMTF of stigmatic systems (paraboloid, plano-hyperbolic singlet,
            ellipsoidal mirror at finite conjugates) and of random focusing lenses with 0 .. tens of
            waves of aberration are recorded as exact dyadic numbers together with the complex pupil
            the code built; spec/Diffraction.tla (through Trace_Diffraction) evaluates the laws on them.
Calibration on every run: single-field corruptions of accepted events must be rejected with the
expected clause, otherwise the run is a machinery failure.
"""
import copy
import math
import os
import random
import re
import threading
import time
from concurrent.futures import ProcessPoolExecutor

import numpy as np

from harness import diffrec as D
from harness import lensgen as LG
from harness import tlc as T
from harness.dy import dy, undy

SPEC_FILE = os.path.join(T.SPEC, "Diffraction.tla")


def clause_names():
    src = open(SPEC_FILE).read()
    out = {}
    for kind, nm in (("psf", "ClausesPsf"), ("fftmtf", "ClausesFftMtf"), ("geomtf", "ClausesGeoMtf")):
        body = re.search(nm + r" == <<(.*?)>>", src, re.S).group(1)
        out[kind] = re.findall(r'"([^"]+)"', body)
    return out


def decode(names, kind, mask):
    if not isinstance(mask, int):
        raise T.MachineryError("verdict is not a bit mask: %r" % (mask,))
    if mask >> 30:
        raise T.MachineryError("Diffraction.tla produced a clause name that is not in its clause list")
    nl = names[kind]
    return [nl[i] for i in range(len(nl)) if (mask >> i) & 1]


# ------------------------------------------------------------------ tasks ----
STIG = {"paraboloid": D.paraboloid, "plano_hyperbolic": D.plano_hyperbolic, "ellipsoid": D.ellipsoid,
        "uv_projection": D.uv_projection}


def _lens_of(task):
    if task["family"] == "stigmatic":
        return LG.quiet(STIG[task["name"]], wavelengths=tuple(task["wls"])), {"name": task["name"]}, None
    if task["family"] == "vignetted":
        return LG.quiet(D.vignetted_singlet, wavelengths=tuple(task["wls"])), {"name": "vignetted_singlet"}, None
    if task["family"] == "clipped":
        return LG.quiet(D.clipped_paraboloid, wavelengths=tuple(task["wls"])), {"name": "clipped_paraboloid"}, None
    why = None
    for attempt in range(6):          # weak / diverging draws are re-drawn (counted by the caller)
        rnd = random.Random(task["seed"] + 100003 * attempt)
        o, meta, why = D.aberrated_lens(rnd, task["target_pv"], finite=task["finite"], apertures=task["apertures"],
                                        wavelengths=task["wls"], defocus=task["defocus"])
        if o is not None:
            meta["redraws"] = attempt
            return o, meta, None
    return None, {}, why


def run_task(task):
    """One lens, several analyses -> list of (event | None, meta)."""
    out = []
    rnd = random.Random(task["seed"] * 31 + 7)
    try:
        optic, meta, why = _lens_of(task)
    except Exception as ex:
        return [(None, {"skip": "generator: %s" % type(ex).__name__, "task": task})]
    if optic is None:
        return [(None, {"skip": why, "task": task})]
    base = {"family": task["family"], "lens": meta, "task": {k: task[k] for k in task if k != "jobs"},
            "finite": bool(not optic.object_surface.is_infinite)}
    for job in task["jobs"]:
        what, field, wl, N, Gs = job["what"], tuple(job["field"]), job["wl"], job["N"], job["G"]
        m = dict(base, what=what, field=field, wl=wl, N=N, G=Gs)
        try:
            if what == "psf":
                ev, info, _ = D.record_psf(optic, field, wl, N, Gs, rnd, npix=job.get("npix", 2),
                                           full=job.get("full", True), judge_all=job.get("all", False))
                if ev is None:
                    out.append((None, dict(m, skip=info)))
                else:
                    out.append((ev, dict(m, info=info)))
            elif what == "fftmtf":
                ev, info = D.record_fftmtf(optic, field, wl, N, Gs, pupil=job.get("pupil", True),
                                           ideal=(task["family"] == "stigmatic" and task.get("name") != "uv_projection"), view=job.get("view", True),
                                           others=[tuple(f) for f in job.get("others", [])])
                if ev is None:
                    out.append((None, dict(m, skip=info)))
                else:
                    out.append((ev, dict(m, info=info)))
            elif what == "geomtf":
                for ev, info in D.record_geomtf(optic, field, wl, job.get("rays", 16), job.get("points", 16),
                                                job.get("scale", True)):
                    if ev is None:
                        out.append((None, dict(m, skip=info)))
                    else:
                        out.append((ev, dict(m, info=info, dir=ev["dir"])))
            elif what == "geomtf_numeric_max_freq":
                from optiland.mtf import GeometricMTF
                LG.quiet(GeometricMTF, optic, [field], wl, 16, "uniform", 16, 100.0)
                out.append((None, dict(m, accepted_numeric_max_freq=True)))
        except Exception as ex:
            out.append((None, dict(m, raises="%s: %s" % (type(ex).__name__, ex), exception=type(ex).__name__)))
    return out


def build_tasks(ctx):
    """(N, G, image shipped to TLC, sampled pixels beside the centre: -1 = no pixel at all)."""
    quick = ctx.tier == "quick"
    rnd = random.Random(ctx.seed * 1000003 + 11)
    tasks = []
    W = [0.4861, 0.5876, 0.6563]

    def job(what, N, Gs, wl, field=(0.0, 0.0), **kw):
        return dict(what=what, N=N, G=Gs, wl=wl, field=field, **kw)
    # --- zero aberration ---------------------------------------------------
    # psf: (N, G, full, npix);  mtf: (N, G, pupil shipped, axis read from view())
    if quick:
        # (odd grid sizes too: fftshift and ifftshift differ there, and the centre is pixel G // 2)
        plan = {"paraboloid": ([(16, 64, True, 2), (32, 64, True, 1), (32, 128, False, 0), (64, 256, False, -1),
                                (16, 63, True, 2), (32, 129, False, 1)],
                               [(16, 64, True, True), (64, 256, False, False), (16, 63, True, True)]),
                "plano_hyperbolic": ([(24, 64, True, 2), (16, 128, False, 1)],
                                     [(24, 64, True, True), (32, 128, False, False)]),
                "ellipsoid": ([(32, 64, True, 1), (16, 64, True, 2)], [(32, 64, True, True)])}
    else:
        plan = {"paraboloid": ([(16, 64, True, 4), (32, 64, True, 4), (24, 64, True, 3), (32, 128, True, 2),
                                (64, 128, True, 1), (64, 256, True, 0), (128, 256, False, -1), (128, 1024, False, -1),
                                (256, 512, False, -1), (256, 2048, False, -1), (16, 63, True, 4), (31, 65, True, 2),
                                (64, 255, False, 1), (128, 1023, False, -1)],
                               [(16, 64, True, True), (32, 64, True, True), (32, 128, True, True), (64, 128, True, True),
                                (64, 256, False, True), (128, 256, False, True), (128, 512, False, False),
                                (256, 512, False, False), (16, 63, True, True), (31, 65, True, True)]),
                "plano_hyperbolic": ([(16, 64, True, 4), (32, 64, True, 4), (48, 128, True, 1), (64, 128, False, 1),
                                      (128, 512, False, -1)],
                                     [(16, 64, True, True), (32, 64, True, True), (48, 128, True, True),
                                      (128, 512, False, False)]),
                "ellipsoid": ([(16, 64, True, 4), (32, 64, True, 4), (64, 128, True, 1), (128, 256, False, -1)],
                              [(16, 64, True, True), (32, 64, True, True), (64, 128, False, True)])}
    for name, (psfs, mtfs) in plan.items():
        jobs = []
        for i, (N, Gs, full, npix) in enumerate(psfs):
            # thorough: every pixel of the 64 x 64 image of the 16-sample pupil is judged by the pixel law
            jobs.append(job("psf", N, Gs, W[i % 3], full=full, npix=npix,
                            all=(not quick and N == 16 and Gs == 64 and full)))
        for i, (N, Gs, pupil, view) in enumerate(mtfs):
            jobs.append(job("fftmtf", N, Gs, W[(i + 1) % 3], pupil=pupil, view=view))
        jobs.append(job("geomtf", 16, 0, W[1]))
        tasks.append(dict(family="stigmatic", name=name, wls=W, seed=ctx.seed, jobs=jobs))
    # --- aberrated random lenses --------------------------------------------
    nl = 9 if quick else 40
    sizes_q = [(16, 64, True, 2), (32, 64, True, 1), (24, 63, True, 2), (16, 128, False, 2), (32, 129, False, 1),
               (16, 64, True, 2), (24, 64, True, 1), (32, 64, False, 2)]
    sizes_t = [(16, 64, True, 3), (32, 64, True, 3), (24, 64, True, 3), (32, 128, True, 2), (48, 128, True, 1),
               (64, 128, True, 1), (32, 256, True, 1), (64, 256, False, 0), (128, 256, False, -1), (64, 1024, False, -1),
               (24, 63, True, 2), (33, 129, True, 1), (64, 255, False, 1)]
    for i in range(nl):
        seed = ctx.seed * 7919 + 100 + i
        # aberration targets from a few hundredths of a wave to tens of waves
        target = [0.05, 40.0, 1.0, 12.0, 0.3, 25.0, 4.0, 0.1][i % 8] * math.exp(rnd.uniform(-0.3, 0.3))
        finite = (i % 3 == 1)
        defocus = rnd.uniform(-2.5, 2.5) if i % 4 == 2 else 0.0
        sizes = sizes_q if quick else sizes_t
        N, Gs, full, npix = sizes[i % len(sizes)]
        wls = [W[i % 3]] if i % 2 else W
        pw = wls[len(wls) // 2]
        jobs = [job("psf", N, Gs, pw, full=full, npix=npix, all=(not quick and N == 16 and Gs == 64 and i < 20))]
        if i % 2 == 0 or not quick:
            jobs.append(job("psf", N, Gs, pw, field=(0.0, 1.0), full=False, npix=max(npix, 0) and 1))
        if len(wls) > 1 and not quick:
            jobs.append(job("psf", 16, 64, wls[0], field=(0.0, 0.7), full=False, npix=1))
        if Gs <= 256:
            jobs.append(job("fftmtf", N, Gs, pw, field=(0.0, 1.0 if i % 2 else 0.0),
                            pupil=(N <= 24 or (not quick and N <= 48)), view=(i % 2 == 0 or not quick)))
        if i % 3 != 2 or not quick:
            jobs.append(job("geomtf", 16, 0, pw, field=(0.0, 1.0 if i % 2 else 0.0), rays=16 if quick else 24,
                            points=16 if i % 2 else 24, scale=(i % 5 != 4)))
        tasks.append(dict(family="aberrated", seed=seed, target_pv=target, finite=finite, apertures=False,
                          defocus=defocus, wls=wls, jobs=jobs))
    # --- beams clipped by a physical aperture (zero-intensity rays in the pupil) --------
    tasks.append(dict(family="clipped", wls=[0.55], seed=ctx.seed,
                      jobs=[job("psf", 32 if not quick else 16, 64, 0.55, full=True, npix=1)]))
    for i in range(1 if quick else 6):
        tasks.append(dict(family="aberrated", seed=ctx.seed * 7919 + 5000 + i, target_pv=rnd.uniform(0.05, 2.0),
                          finite=False, apertures=True, defocus=0.0, wls=[0.5876],
                          jobs=[job("psf", 16 if i % 2 == 0 else 32, 64, 0.5876, full=True, npix=1),
                                # several fields in one FFTMTF, the beam of one of them clipped: each curve
                                # is normalised on its own
                                job("fftmtf", 16, 64, 0.5876, field=(0.0, 0.0), pupil=False, view=False,
                                    others=[(0.0, 1.0), (0.0, 0.7)]),
                                job("fftmtf", 16, 64, 0.5876, field=(0.0, 1.0), pupil=False, view=False,
                                    others=[(0.0, 0.0)])]))
    # --- fields of one lens that transmit different pupil fractions, analysed by one FFTMTF -------
    tasks.append(dict(family="vignetted", wls=[0.55], seed=ctx.seed,
                      jobs=[job("fftmtf", 16, 64, 0.55, field=(0.0, 0.0), pupil=False, view=False, others=[(0.0, 1.0)]),
                            job("fftmtf", 16, 64, 0.55, field=(0.0, 1.0), pupil=False, view=False, others=[(0.0, 0.0)])]))
    # --- sizes whose difference is odd, odd samplings -----------------------------------
    tasks.append(dict(family="stigmatic", name="paraboloid", wls=[0.55], seed=ctx.seed + 1,
                      jobs=[job("psf", 33, 64, 0.55, full=False, npix=0),
                            job("psf", 31, 64, 0.55, full=False, npix=0)] +
                           ([] if quick else [job("psf", 17, 64, 0.55, full=False, npix=0)])))
    # --- finite conjugates with the exit pupil behind the image (bundled UVProjectionLens) ------
    tasks.append(dict(family="stigmatic", name="uv_projection", wls=[0.248], seed=ctx.seed + 3,
                      jobs=[job("fftmtf", 32, 64, 0.248, pupil=False, view=True)]))
    # --- documented numeric max_freq of GeometricMTF --------------------------------------
    tasks.append(dict(family="stigmatic", name="plano_hyperbolic", wls=[0.55], seed=ctx.seed + 2,
                      jobs=[job("geomtf_numeric_max_freq", 16, 0, 0.55)]))
    return tasks


# ------------------------------------------------------------ calibration ----
def _scale(d, f):
    return dy(float(undy(d)) * f)


def corruptions(ev):
    """Single-field corruptions of an accepted event -> [(event, clauses one of which must fire)]."""
    out = []

    def mk():
        return copy.deepcopy(ev)
    if ev["kind"] == "psf":
        c = ev["G"] // 2
        # the brightest sampled pixel beside the centre, by 1e-6 relative
        cand = [(float(undy(p[2])), i) for i, p in enumerate(ev["pix"]) if i > 0]
        if cand and max(cand)[0] > 1e-4:
            i = max(cand)[1]
            e = mk()
            e["pix"][i][2] = _scale(e["pix"][i][2], 1 + 1e-6)
            if e["img"]:
                e["img"][e["pix"][i][0]][e["pix"][i][1]] = e["pix"][i][2]
            out.append((e, ["pixel"]))
        e = mk()
        e["strehl"] = _scale(e["strehl"], 1 + 1e-6)
        out.append((e, ["strehl_is_centre"]))
        if float(undy(ev["centre"])) > 0.05:
            e = mk()      # centre, Strehl, image consistently off by 1e-6
            for k in ("strehl", "centre"):
                e[k] = _scale(e[k], 1 + 1e-6)
            if e["pix"]:
                e["pix"][0][2] = e["centre"]
            if e["img"]:
                e["img"][c][c] = e["centre"]
            out.append((e, ["strehl"]))
        e = mk()
        e["strehl"] = dy(1.0 + 1e-9)
        out.append((e, ["strehl_le_1"]))
        e = mk()
        e["norm"] = _scale(e["norm"], 1 + 1e-6)
        out.append((e, ["norm"]))
        e = mk()
        e["min"] = dy(-1e-30)
        out.append((e, ["nonneg"]))
        e = mk()
        e["w"][1] = dy(-float(undy(e["w"][1])))
        if e["pix"]:
            out.append((e, ["cert:root"]))
        if ev["img"]:
            e = mk()     # the whole image scaled by 1 + 1e-6 (a normalisation error)
            e["img"] = [[_scale(v, 1 + 1e-6) for v in row] for row in e["img"]]
            for p in e["pix"]:
                p[2] = e["img"][p[0]][p[1]]
            e["centre"] = e["img"][c][c]
            e["strehl"] = dy(float(undy(e["centre"])) / 100)
            e["max"] = _scale(e["max"], 1 + 1e-6)
            out.append((e, ["parseval"]))
            e = mk()
            a, b = (c + 5) % ev["G"], (c + 9) % ev["G"]
            e["img"][a][b] = dy(-abs(float(undy(e["img"][a][b]))) - 1e-300)
            out.append((e, ["nonneg"]))
        else:
            e = mk()
            e["sum"] = _scale(e["sum"], 1 + 1e-6)
            out.append((e, ["parseval"]))
    elif ev["kind"] == "fftmtf":
        N, Gs = ev["N"], ev["G"]
        fc = float(undy(ev["maxf"]))
        if Gs >= 2 * N and ev["dl"]:
            d = ev["dl"][len(ev["dl"]) // 2]
            k = d[0]
            r = float(undy(d[1]))
            phi = math.acos(min(1.0, r))
            dl = 2 / math.pi * (phi - r * math.sqrt(max(0.0, 1 - r * r)))
            e = mk()
            e["tan"][k] = dy(min(1.0, dl + 0.5 / N + 1e-3))
            e["plot"] = [p for p in e["plot"] if not (p[0] == 1 and p[1] == k)]
            out.append((e, ["dl_bound"]))
        e = mk()
        e["sag"][0] = dy(0.999)
        e["plot"] = [p for p in e["plot"] if not (p[0] == 2 and p[1] == 0)]
        out.append((e, ["mtf0"]))
        e = mk()
        e["tan"][Gs // 2 - 1] = dy(-1e-12)
        e["plot"] = [p for p in e["plot"] if not (p[0] == 1 and p[1] == Gs // 2 - 1)]
        out.append((e, ["range"]))
        # frequency axis: the law's own axis is accepted, 1 % outside the sampling slack is not
        e = mk()
        e["axis"] = [[k, dy(k * fc / N)] for k, _ in ev["axis"]]
        out.append((e, ["!freq_axis"]))
        e = mk()
        e["axis"] = [[k, dy(k * fc / N * 0.99)] for k, _ in ev["axis"]]
        out.append((e, ["freq_axis"]))
        e = mk()
        e["axis"] = [[k, dy(k * fc / (N - 1) * 1.01)] for k, _ in ev["axis"]]
        out.append((e, ["freq_axis"]))
        e = mk()
        e["axis"] = [[k, dy(k * fc / N * (1.0 if k < 2 else 1.01))] for k, _ in ev["axis"]]
        out.append((e, ["axis_linear"]))
        e = mk()
        e["maxf"] = _scale(e["maxf"], 1.01)
        out.append((e, ["max_freq"]))
        if ev["P"] and ev["ks"] and Gs >= 2 * N:
            e = mk()
            k = ev["ks"][-1]
            e["tan"][k] = _scale(e["tan"][k], 1 + 1e-4)
            e["plot"] = [p for p in e["plot"] if not (p[0] == 1 and p[1] == k)]
            out.append((e, ["mtf_value"]))
            if max(abs(float(undy(ev["tan"][k])) - float(undy(ev["sag"][k]))) for k in ev["ks"]) > 1e-3:
                e = mk()      # tangential and sagittal curves exchanged (visible off axis only)
                e["tan"], e["sag"] = e["sag"], e["tan"]
                e["plot"] = []
                out.append((e, ["mtf_value"]))
    elif ev["kind"] == "geomtf":
        k = ev["smp"][len(ev["smp"]) // 2][0]
        e = mk()
        e["mtf"][k] = _scale(e["mtf"][k], 1 - 1e-3)
        out.append((e, ["geo_value"]))
        e = mk()
        e["freq"][k] = _scale(e["freq"][k], 1.01)
        out.append((e, ["geo_freq"]))
        e = mk()
        e["maxf"] = _scale(e["maxf"], 1.01)
        out.append((e, ["geo_max_freq", "geo_freq"]))
        e = mk()
        h = max(range(len(e["A"])), key=lambda i: e["A"][i])
        e["A"][h] += 1
        out.append((e, ["cert:histogram"]))
        if ev["scale"]:
            e = mk()
            e["dlc"][k] = _scale(e["dlc"][k], 1 + 1e-6)
            out.append((e, ["geo_dl"]))
    return out


# ----------------------------------------------------------------- replay ----
def replay(ctx, rep):
    """./check C11 --replay <file written by a VIOLATION>: the one lens and analysis again."""
    r = rep["repro"]
    task = dict(r["task"])
    if "job" in r:                       # an analysis that raised
        what, N, Gs, wl = r["job"]
        task["jobs"] = [dict(what=what, N=N, G=Gs, wl=wl, field=(0.0, 0.0), full=False, npix=0)]
    else:
        task["jobs"] = [dict(what=r["what"], N=r["N"], G=r["G"], wl=r["wl"], field=tuple(r["field"]),
                             full=r["G"] <= 64, npix=2, pupil=r["N"] <= 32)]
    names = clause_names()
    events = []
    for ev, meta in run_task(task):
        if ev is None:
            if "raises" in meta:
                ctx.report("raises", rep["class"], meta["raises"], r)
            continue
        ev["id"] = len(events)
        events.append(ev)
    if events:
        vd = ctx.validate("Trace_Diffraction", events, shards=2)
        for ev in events:
            for clause in decode(names, ev["kind"], vd[ev["id"]]):
                if not clause.startswith("~"):
                    ctx.report(clause, rep["class"] if clause == rep["clause"] else {"analysis": ev["kind"], "replay": True},
                               "replay: clause %s fails" % clause, r)


# ------------------------------------------------------------------- main ----
def main(ctx):
    quick = ctx.tier == "quick"
    names = clause_names()
    t0 = time.time()
    tasks = build_tasks(ctx)
    with ProcessPoolExecutor(max_workers=8) as ex:
        results = list(ex.map(run_task, tasks))
    # the model check runs beside the validation of the implementation's results (started only now:
    # forking the recorder processes while another thread is inside subprocess can deadlock)
    mc_err = []

    def mc():
        try:
            ctx.model_check("MC_Diffraction", "MC_Diffraction_quick.cfg" if quick else "MC_Diffraction.cfg",
                            workers=4 if quick else 8, timeout=600 if quick else 1500)
        except Exception as ex:     # re-raised in the main thread
            mc_err.append(ex)
    th = threading.Thread(target=mc)
    th.start()
    t_rec = time.time() - t0
    events, metas = [], {}
    families = {}
    for res in results:
        for ev, meta in res:
            if ev is None:
                if "skip" in meta:
                    ctx.skip(str(meta["skip"]))
                elif "raises" in meta:
                    what = meta["what"]
                    cls = {"analysis": what, "exception": meta["exception"]}
                    if what == "psf":
                        cls["num_rays_odd"] = bool(meta["N"] % 2)
                    ctx.report("raises", cls, "%s(num_rays=%s, grid_size=%s) on %s raises %s"
                               % (what, meta["N"], meta["G"], meta["lens"], meta["raises"]),
                               {"lens": meta["lens"], "task": meta["task"], "job": [what, meta["N"], meta["G"], meta["wl"]]})
                    ctx.traces += 1
                elif meta.get("accepted_numeric_max_freq"):
                    ctx.traces += 1
                continue
            ev["id"] = len(events)
            events.append(ev)
            metas[ev["id"]] = meta
            key = "%s/%s" % (meta["family"], ev["kind"])
            families[key] = families.get(key, 0) + 1
    if len(events) < 20:
        raise T.MachineryError("only %d events recorded" % len(events))

    # ---- calibration events: single-field corruptions of cheap events expected to be accepted ----
    def cheap(e):
        m = metas[e["id"]]
        if m["family"] not in ("stigmatic", "aberrated") or m["task"].get("apertures"):
            return False
        if e["kind"] == "psf":
            return e["N"] <= 16 and e["G"] == 64 and bool(e["img"]) and e["rows"] == e["G"]
        if e["kind"] == "fftmtf":
            return e["N"] <= 24 and bool(e["P"]) and e["G"] >= 2 * e["N"]
        return True
    nbase = {"psf": 1 if quick else 4, "fftmtf": 1 if quick else 4, "geomtf": 1 if quick else 3}
    cal, cal_of = [], {}
    for kind in ("psf", "fftmtf", "geomtf"):
        c = [e for e in events if e["kind"] == kind and cheap(e)]
        if kind == "fftmtf":      # prefer an off-axis field (tangential and sagittal curves differ)
            c = sorted(c, key=lambda e: metas[e["id"]]["field"][1] == 0)
        for base in c[:nbase[kind]]:
            for e, clauses in corruptions(base):
                e["id"] = 100000 + len(cal)
                cal_of[e["id"]] = (base["id"], clauses, kind)
                cal.append(e)

    def weight(e):        # estimated TLC seconds (measured: see evidence measured_cost)
        if e["kind"] == "psf":
            n2 = e["N"] ** 2
            far = sum(1 for p in e["pix"] if not (p[0] == p[1] == e["G"] // 2))
            return 0.2 + 1.4e-3 * n2 + 1.0e-3 * n2 * far + (1.5e-4 * e["G"] ** 2 if e["img"] else 0) + \
                (2.5e-4 * (n2 * e["G"] + e["G"] ** 2 * e["N"]) if e["all"] else 0)
        if e["kind"] == "fftmtf":
            return 0.3 + (1.4e-3 + 1.6e-3 * len(e["ks"])) * e["N"] ** 2 if e["P"] else 0.3
        return 2.5
    # longest-processing-time-first packing into shards (validate keeps a group in one shard)
    nshards = 10 if quick else 16
    load = [0.0] * nshards
    bins = [[] for _ in range(nshards)]
    for e in sorted(events + cal, key=weight, reverse=True):
        i = load.index(min(load))
        load[i] += weight(e)
        e["shard"] = i
        bins[i].append(e)
    order = [e for b in bins for e in b]
    tv = time.time()
    verdicts = ctx.validate("Trace_Diffraction", order, shards=nshards, timeout=600 if quick else 2400,
                            count_traces=len(events), group="shard")
    t_val = time.time() - tv
    ctx.log("recorded %d events in %.1fs, validated %d (+%d calibration) in %.1fs"
            % (len(events), t_rec, len(events), len(cal), t_val))

    accepted = set()
    failing = {}
    nfail = 0
    strehls = []
    flat_seen = 0
    for ev in events:
        meta = metas[ev["id"]]
        got = decode(names, ev["kind"], verdicts[ev["id"]])
        notes = [c for c in got if c.startswith("~")]
        fails = [c for c in got if not c.startswith("~")]
        certs = [c for c in fails if c.startswith("cert:")]
        failing[ev["id"]] = set(fails)
        flat_seen += "~flat" in notes
        if certs:
            raise T.MachineryError("certificate rejected on a recorded event (%s %s N=%s G=%s): %s"
                                   % (ev["kind"], meta["lens"], ev.get("N"), ev.get("G"), certs))
        if meta["family"] == "stigmatic" and ev["kind"] == "psf" and "~flat" not in notes:
            raise T.MachineryError("designated stigmatic system %s does not give a flat pupil" % meta["lens"])
        if not fails:
            accepted.add(ev["id"])
        for clause in fails:
            nfail += 1
            cls = {"analysis": ev["kind"]}
            if ev["kind"] == "psf":
                cls["zero_amplitude_rays"] = meta["info"]["zero_amplitude_rays"] > 0
                cls["pad_parity"] = "odd" if (ev["G"] - ev["N"]) % 2 else "even"
                if "~norm_counts_nonzero_points" in notes:
                    cls["explained"] = "norm_counts_nonzero_points"
            elif ev["kind"] == "fftmtf":
                if clause == "freq_axis" and "~axis_is_Q_over_lam_F" in notes:
                    cls["explained"] = "axis_is_Q_over_lam_F"
                cls["grid_size_not_1024"] = ev["G"] != 1024
            else:
                cls["finite_object"] = meta["finite"]
                if clause == "geo_max_freq" and "~cutoff_uses_infinite_conjugate_F" in notes:
                    cls["explained"] = "cutoff_uses_infinite_conjugate_F"
            ctx.report(clause, cls,
                       "%s of %s, field %s, wavelength %s, num_rays %s, grid %s: clause %s fails (notes %s; %s)"
                       % (ev["kind"], meta["lens"], meta["field"], meta["wl"], ev.get("N", meta.get("N")), ev.get("G"),
                          clause, notes, meta.get("info")),
                       {"lens": meta["lens"], "task": meta["task"], "what": meta["what"], "field": meta["field"],
                        "wl": meta["wl"], "N": meta["N"], "G": meta["G"], "info": meta.get("info")})
        if ev["kind"] == "psf":
            strehls.append(meta["info"]["strehl"])

    # ---- calibration verdicts --------------------------------------------------------------
    # a base counts when it was accepted, or fails only the clause of a finding the corruption does not touch
    tolerated = {"psf": set(), "fftmtf": {"freq_axis"}, "geomtf": {"geo_max_freq"}}
    missed, used, kinds_cal = [], 0, set()

    def judge_cal(cal_map, vd):
        nonlocal used
        for cid, (bid, clauses, kind) in cal_map.items():
            if not failing[bid] <= tolerated[kind]:
                continue
            got = set(decode(names, kind, vd[cid]))
            used += 1
            kinds_cal.add(kind)
            if clauses[0] == "!freq_axis":
                if "freq_axis" in got:
                    missed.append((cid, kind, "the law's own frequency axis was rejected", sorted(got)))
            elif not (got & set(clauses)):
                missed.append((cid, kind, clauses, sorted(got)))
    judge_cal(cal_of, verdicts)
    # a kind whose pre-selected bases were all rejected: calibrate with events that were accepted
    cal2, cal2_of = [], {}
    for kind in ("psf", "fftmtf", "geomtf"):
        if kind in kinds_cal:
            continue
        okev = sorted([e for e in events if e["kind"] == kind and failing[e["id"]] <= tolerated[kind]], key=weight)
        if not okev:
            ctx.skip("calibration of %s events impossible: every such event of this run is rejected" % kind)
            continue
        for e, clauses in corruptions(okev[0]):
            e["id"] = 200000 + len(cal2)
            cal2_of[e["id"]] = (okev[0]["id"], clauses, kind)
            cal2.append(e)
    if cal2:
        judge_cal(cal2_of, ctx.validate("Trace_Diffraction", cal2, shards=8, timeout=600, count_traces=0))
    ctx.extra["calibration"] = {"corrupted_events": len(cal) + len(cal2), "judged": used, "missed": len(missed),
                                "kinds": sorted(kinds_cal)}
    if missed:
        raise T.MachineryError("corrupted events not rejected (spec too permissive): %s" % missed[:4])

    lens_metas = {str(m["lens"]): m["lens"] for m in metas.values() if isinstance(m["lens"], dict)}
    redraws = sum(l.get("redraws", 0) for l in lens_metas.values())
    if redraws:
        ctx.skip("lens draw without a usable real image (weak, diverging or too slow) re-drawn", redraws)
    pvs = [l["pv"] for l in lens_metas.values() if "pv" in l]
    ctx.extra["events_by_family_and_kind"] = families
    ctx.extra["events"] = len(events)
    ctx.extra["events_accepted_clean"] = len(accepted)
    ctx.extra["failing_clause_instances"] = nfail
    ctx.extra["flat_pupils_seen"] = flat_seen
    sizes = {}
    for ev in events:
        if ev["kind"] != "geomtf":
            k = "%s N=%d G=%d%s" % (ev["kind"], ev["N"], ev["G"], " full-image" if ev.get("img") else "")
            sizes[k] = sizes.get(k, 0) + 1
    ctx.extra["events_by_size"] = sizes
    ctx.extra["pixels_judged_by_dft"] = sum(len(e["pix"]) for e in events if e["kind"] == "psf")
    ctx.extra["images_summed_by_tlc"] = sum(1 for e in events if e["kind"] == "psf" and e["img"])
    ctx.extra["images_judged_pixel_by_pixel"] = sum(1 for e in events if e["kind"] == "psf" and e["all"])
    ctx.extra["distinct_lenses"] = len(set(str(m["lens"]) for m in metas.values()))
    if pvs:
        ctx.extra["aberration_pv_waves_range"] = [min(pvs), max(pvs)]
    if strehls:
        ctx.extra["strehl_range"] = [min(strehls), max(strehls)]
    ctx.extra["measured_cost"] = {"record_s": round(t_rec, 1), "validate_wall_s": round(t_val, 1),
                                  "events_validated": len(order), "estimated_tlc_cpu_s": round(sum(load), 1),
                                  "cost_model_s": "psf: 0.2 + 1.4e-3 N^2 (moduli, sums) + 1.0e-3 N^2 per off-centre pixel + "
                                                  "1.5e-4 G^2 (image summed); fftmtf with pupil: (1.4e-3 + 1.6e-3 per exact "
                                                  "autocorrelation index) N^2; geomtf 2.5; JVM start 4-5 s CPU each"}
    for ev in events[:1] + [e for e in events if e["kind"] == "fftmtf"][:1] + [e for e in events if e["kind"] == "geomtf"][:1]:
        meta = metas[ev["id"]]
        ctx.sample({"kind": ev["kind"], "lens": meta["lens"], "field": meta["field"], "wl": meta["wl"],
                    "N": meta["N"], "G": meta["G"], "info": meta.get("info"),
                    "verdict": decode(names, ev["kind"], verdicts[ev["id"]])})

    th.join()
    if mc_err:
        raise mc_err[0]
    ctx.assumptions += [
        "the complex pupil array FFTPSF built (attribute .pupils) is input data: that it represents the lens's wavefront is C09's business",
        "root of unity, moduli, cos/sin and arccos certificates are logged by the recorder and validated polynomially "
        "(unit modulus, repeated squaring, Taylor brackets of degree 11/12); only the constant Pi (float nearest pi, "
        "checked by exp(i Pi) = -1 in MC_Diffraction) is trusted",
        "working F-number = F (1 + |m| / p) from the paraxial accessors FNO, XPD, EPD, magnification recorded as data (C04's business); "
        "finite-conjugate lenses have the image plane at the paraxial focus",
        "on grids larger than 64 (quick) / 256 (thorough) the image is not shipped to TLC: Parseval, non-negativity and the maximum are "
        "judged on numpy reductions (sum, min, max) of the image, the pixel law on the centre and on seeded sampled pixels",
        "sampling slack of the continuous diffraction-limited curve against the sampled pupil: 1/(2 N) on the MTF, and the cut-off "
        "index may lie anywhere between N-1 (physical sample spacing) and N (the documented Q = grid/num_rays)",
        "diffraction-limited bound and closed form are judged only when grid >= 2 num_rays (no wrap-around of the autocorrelation)",
        "tolerances: pixel law 2^-36 of sqrt(n E) in amplitude, sums 2^-30 relative, <= 1 with 2^-40 slack",
    ]
