"""C01 - lens prescription stays consistent under any history of edits.

1. TLC model-checks spec/Lens.tla (build model; edit models from three base
   lenses) - invariants FirstAtZero, MediumChain, AtMostOneStop, OnePrimary and
   the frame conditions as action properties.
2. spec -> code: TLC exports behaviours (exhaustive `-dump` to a depth bound and
   `-simulate` for long random ones); each is executed on the real Optic and the
   projected state is compared with the state TLC computed, exactly.
3. code -> spec: random float histories (arbitrary finite values, all surface
   kinds, tilts/decentres, pickups, solves, variables) recorded from the real
   code and validated step by step by spec/Trace_Lens.tla in exact dyadic
   arithmetic.
"""
import glob
import json
import os
import random
from concurrent.futures import ProcessPoolExecutor

from harness import lensops as L
from harness import parse_tla as PT
from harness import tlc as T

BASES = ["Singlet", "MirrorSys", "Doublet"]

EDIT_CFG = """SPECIFICATION %(spec)s
CONSTANTS
  MaxSurf = %(maxsurf)d
  Radii <- %(radii)s
  Thick <- %(thick)s
  Media <- %(media)s
  Conics <- %(conics)s
  Tilts <- %(tilts)s
  Decs <- %(decs)s
  Coefs <- %(coefs)s
  Kinds <- %(kinds)s
  Extras <- %(extras)s
  Waves <- MCWaves
  MaxWl = %(maxwl)d
  MaxPk = %(maxpk)d
  Base <- %(base)s
  Depth = %(depth)d
VIEW View
CONSTRAINT LevelBound
CHECK_DEADLOCK FALSE
"""
INVS = """INVARIANT FirstAtZero
INVARIANT MediumChain
INVARIANT AtMostOneStop
INVARIANT OnePrimary
INVARIANT ObjectBehind
"""
PROPS = """PROPERTY RadiusFrame
PROPERTY ConicFrame
PROPERTY IndexFrame
PROPERTY ThicknessFrame
PROPERTY PickupsAfterUpdate
PROPERTY ScaleFrame
PROPERTY StructureRefined
"""


def cfg_text(spec="SpecEdit", base="Singlet", depth=3, maxsurf=5, radii="MCRadii", thick="MCThick",
             media="MCMedia3", conics="MCConics", tilts="MCTilts", decs="MCDecs", coefs="MCCoefs",
             kinds="BothKinds", maxwl=3, maxpk=2, invs=True, props=True, extra="", extras="NoExtras"):
    t = EDIT_CFG % locals()
    if invs:
        t += INVS
    if props:
        t += PROPS
    return t + extra


def write_cfg(ctx, name, text):
    p = os.path.join(ctx.work, name)
    with open(p, "w") as fh:
        fh.write(text)
    return p


# ---------------------------------------------------------------- replay ----
def _replay_hist(args):
    """Replay one behaviour: (base_state, hist, expected final/intermediate states)."""
    base, hist, expected = args[:3]
    os.environ["VERIF_WORK"] = args[3] if len(args) > 3 else ""
    try:
        optic = L.build_from_state(base)
    except Exception as ex:  # building the base is itself a sequence of valid calls
        return {"step": 0, "clause": "raises", "msg": "building base: %r" % (ex,)}
    d = L.diff_state(base, L.abstract(optic))
    if d:
        return {"step": 0, "clause": "state", "msg": "base lens: " + d}
    seen_reset = False
    for i, call in enumerate(hist):
        try:
            optic = L.apply_call(optic, call["op"], call["a"])
        except Exception as ex:
            return {"step": i + 1, "clause": "raises", "op": call["op"],
                    "msg": "%s%r raised %s: %s" % (call["op"], call["a"], type(ex).__name__, ex)}
        seen_reset = seen_reset or call["op"] == "reset"
        if seen_reset:
            d = helpers_current(optic)
            if d:
                return {"step": i + 1, "clause": "helpers_current", "op": call["op"],
                        "msg": "after %s%r on an Optic that was reset(): %s" % (call["op"], call["a"], d)}
        exp = expected.get(i + 1)
        if exp is not None:
            d = L.diff_state(exp, L.abstract(optic))
            if d:
                return {"step": i + 1, "clause": "state", "op": call["op"],
                        "msg": "after %s%r: %s" % (call["op"], call["a"], d)}
    return None


def helpers_current(optic):
    """After reset() the Optic's helper objects answer for the lens built since, exactly as fresh
    helpers over the same prescription do (observed through the paraxial marginal ray)."""
    import numpy as np
    sg = optic.surface_group
    if sg.num_surfaces < 3 or not optic.wavelengths.wavelengths or not any(s.is_stop for s in sg.surfaces):
        return None
    from optiland.paraxial import Paraxial
    def obs(px):
        try:
            with np.errstate(all="ignore"):
                ya, ua = px.marginal_ray()
            return [float(v) for v in np.ravel(ya)] + [float(v) for v in np.ravel(ua)]
        except Exception as ex:
            return "%s: %s" % (type(ex).__name__, ex)
    a, b = obs(optic.paraxial), obs(Paraxial(optic))
    if isinstance(a, str) or isinstance(b, str):
        return None if (isinstance(a, str) and isinstance(b, str)) else "optic.paraxial gives %r, a fresh Paraxial %r" % (a, b)
    same = len(a) == len(b) and all((x == y) or (x != x and y != y) for x, y in zip(a, b))
    return None if same else "optic.paraxial.marginal_ray() = %r, a fresh Paraxial over the same lens gives %r" % (a, b)


def replay_many(ctx, jobs):
    """jobs: list of (base, hist, expected-by-step).  Returns list of failures."""
    fails = []
    jobs = [j + (ctx.work,) for j in jobs]
    with ProcessPoolExecutor(max_workers=16) as ex:
        for job, res in zip(jobs, ex.map(_replay_hist, jobs, chunksize=64)):
            if res:
                res["hist"] = job[1][:res["step"]]
                res["base"] = job[0]
                fails.append(res)
    return fails


def classify(f):
    """Input-class attributes of a replay failure, for known-finding matching."""
    ops = [c["op"] for c in f.get("hist", [])]
    return {"op": f.get("op", "build"), "after_set_thickness": "set_thickness" in ops[:-1] or
            "scale_system" in ops[:-1] or any(c["op"] == "pickup_add" and c["a"].get("attr") == "thickness"
                                               for c in f.get("hist", [])[:-1]),
            "how": (f.get("hist") or [{}])[-1].get("a", {}).get("how") if f.get("op") == "save_load" else None}


def gen_dump(ctx, name, cfgtext, base_state_of):
    cfg = write_cfg(ctx, name + ".cfg", cfgtext)
    dump = os.path.join(ctx.work, name)
    r = ctx.model_check("MC_Lens", cfg, workers=16, args=["-dump", dump])
    text = open(dump + ".dump").read()
    os.remove(dump + ".dump")
    states = PT.parse_dump(text)
    jobs = []
    init = [s for s in states if not s["hist"]]
    base = {"surf": init[0]["surf"], "wl": init[0]["wl"]}
    for s in states:
        if not s["hist"]:
            continue
        jobs.append((base, s["hist"], {len(s["hist"]): {"surf": s["surf"], "wl": s["wl"], "tainted": s.get("tainted", False)}}))
    return jobs


def gen_sim(ctx, name, cfgtext, num, depth, seed):
    cfg = write_cfg(ctx, name + ".cfg", cfgtext)
    d = os.path.join(ctx.work, name + "_sim")
    os.makedirs(d, exist_ok=True)
    r = ctx.model_check("MC_Lens", cfg, workers=1, must_pass=False,
                        args=["-simulate", "file=%s/tr,num=%d" % (d, num), "-depth", str(depth),
                              "-seed", str(seed)])
    if "Error:" in r.out:
        raise T.MachineryError("simulation failed:\n" + "\n".join(r.out.splitlines()[-30:]))
    jobs = []
    for fpath in sorted(glob.glob(d + "/tr_*")):
        beh = PT.parse_sim_file(open(fpath).read())
        os.remove(fpath)
        if len(beh) < 2:
            continue
        states = [s for (_, s) in beh]
        base = {"surf": states[0]["surf"], "wl": states[0]["wl"]}
        hist = states[-1]["hist"]
        exp = {i: {"surf": states[i]["surf"], "wl": states[i]["wl"], "tainted": states[i].get("tainted", False)}
               for i in range(1, len(states))}
        jobs.append((base, hist, exp))
    return jobs


def main(ctx):
    quick = ctx.tier == "quick"
    rnd = random.Random(ctx.seed)
    # ---- 1. model checking ------------------------------------------------
    build = cfg_text(spec="SpecBuild", base="Empty", depth=10, maxsurf=4, thick="MCThick",
                     media="MCMedia", conics="ZeroOnly", tilts="ZeroOnly", decs="ZeroOnly",
                     coefs="ZeroOnly", kinds="StdOnly", maxwl=2, maxpk=0, props=False,
                     extra="INVARIANT MirrorKeeps\nPROPERTY VertexRunningSum\nPROPERTY StructureRefined\n")
    if quick:
        build = build.replace("Thick <- MCThick", "Thick <- SmallThick")
    ctx.model_check("MC_Lens", write_cfg(ctx, "build.cfg", build), workers=16)
    # a second build model with aspheres, conics, tilts and decentres on a smaller grid
    # (per level: 11 geometries x thick x media x stop: 44 quick / 88 thorough; 1.8e5 / 1.4e6 states)
    build2 = cfg_text(spec="SpecBuild", base="Empty", depth=10, maxsurf=4, radii="SmallRadii",
                      thick="OneThick" if quick else "SmallThick", media="Media2", conics="MCConics",
                      tilts="ZeroOnly", decs="ZeroOnly", coefs="MCCoefs",
                      kinds="BothKinds", maxwl=1, maxpk=0, props=False,
                      extra="PROPERTY VertexRunningSum\nPROPERTY StructureRefined\n")
    ctx.model_check("MC_Lens", write_cfg(ctx, "build2.cfg", build2), workers=16)
    for b in BASES:
        depth = {"Singlet": 3, "MirrorSys": 4, "Doublet": 3}[b] if quick else \
                {"Singlet": 4, "MirrorSys": 5, "Doublet": 3}[b]
        ctx.model_check("MC_Lens", write_cfg(ctx, "edit_%s.cfg" % b, cfg_text(base=b, depth=depth)),
                        workers=16)
    # ---- 2. spec -> code ---------------------------------------------------
    jobs = []
    for b in BASES:
        jobs += gen_dump(ctx, "gen_%s" % b,
                         cfg_text(base=b, depth=3, radii="SmallRadii", thick="SmallThick",
                                  invs=False, props=False), None)
    jobs += gen_dump(ctx, "gen_build",
                     cfg_text(spec="SpecBuild", base="Empty", depth=10, maxsurf=4, radii="SmallRadii",
                              thick="OneThick", media="MCMedia", conics="MCConics", tilts="ZeroOnly",
                              decs="ZeroOnly", coefs="ZeroOnly", kinds="StdOnly", maxwl=1, maxpk=0,
                              invs=False, props=False), None)
    # insertion in the middle / removal: stop and wavelength clauses only
    for b in BASES:
        ctx.model_check("MC_Lens", write_cfg(ctx, "ins_%s.cfg" % b, cfg_text(base=b, depth=3 if (quick or b == "Doublet") else 4,
                        maxsurf=6, props=False, extras="InsertOnly", radii="SmallRadii", thick="OneThick",
                        conics="ZeroOnly", tilts="ZeroOnly", decs="ZeroOnly", coefs="ZeroOnly", media="Media2",
                        extra="PROPERTY StructureRefined\n")),
                        workers=16)
        jobs_ins = gen_dump(ctx, "genins_%s" % b,
                            cfg_text(base=b, depth=3, maxsurf=6, radii="SmallRadii", thick="OneThick", conics="ZeroOnly",
                                     tilts="ZeroOnly", decs="ZeroOnly", coefs="ZeroOnly", media="Media2",
                                     invs=False, props=False, extras="InsertOnly"), None)
        jobs_ins = [j for j in jobs_ins if any(c["op"] in ("insert_surface", "remove_surface") for c in j[1])]
        ctx.extra["behaviours_with_insert_or_remove"] = ctx.extra.get("behaviours_with_insert_or_remove", 0) + len(jobs_ins)
        jobs += jobs_ins
    # reset(): the Optic is as new; behaviours that reset and build again (from simulation: a reset
    # returns to a state the exhaustive search has already seen)
    ctx.model_check("MC_Lens", write_cfg(ctx, "reset.cfg", cfg_text(spec="Spec", base="Empty", depth=8 if quick else 9, maxsurf=3,
                    radii="SmallRadii", thick="OneThick", media="Media2", conics="ZeroOnly", tilts="ZeroOnly", decs="ZeroOnly",
                    coefs="ZeroOnly", kinds="StdOnly", maxwl=1, maxpk=0, props=False, extras="ResetOnly",
                    extra="PROPERTY StructureRefined\n")), workers=16)
    jobs_reset = gen_sim(ctx, "sim_reset", cfg_text(spec="Spec", base="Empty", depth=40, maxsurf=4, invs=False, props=False,
                                                   extras="ResetOnly", maxpk=0),
                         150 if quick else 1500, 14 if quick else 20, ctx.seed + 9)
    jobs_reset = [j for j in jobs_reset if any(c["op"] == "reset" for c in j[1])]
    if not jobs_reset:
        raise T.MachineryError("no simulated behaviour contains a reset")
    ctx.extra["behaviours_with_reset_replayed"] = len(jobs_reset)
    jobs += jobs_reset
    nsim = 150 if quick else 3000
    simcfg = cfg_text(spec="Spec", base="Empty", depth=40, maxsurf=5, invs=False, props=False)
    jobs_sim = gen_sim(ctx, "sim", simcfg, nsim, 14 if quick else 22, ctx.seed + 1)
    for b in BASES:
        jobs_sim += gen_sim(ctx, "sim_%s" % b, cfg_text(base=b, depth=40, invs=False, props=False),
                            nsim // 3, 10 if quick else 16, ctx.seed + 2)
    if not quick:
        # a fourth base, thorough tier only: two air-spaced elements (6 surfaces, object at infinity,
        # stop inside the second element) - every edit history of depth 3 model-checked with all
        # invariants and frame properties, dumped and replayed, plus simulated longer histories
        b = "AirSpaced"
        ctx.model_check("MC_Lens", write_cfg(ctx, "edit_%s.cfg" % b, cfg_text(base=b, depth=3, maxsurf=6)),
                        workers=16)
        jobs_as = gen_dump(ctx, "gen_%s" % b,
                           cfg_text(base=b, depth=3, maxsurf=6, radii="SmallRadii", thick="SmallThick",
                                    invs=False, props=False), None)
        # (kept out of jobs_sim: the code -> spec step below draws its histories from jobs_sim)
        jobs_as += gen_sim(ctx, "sim_%s" % b, cfg_text(base=b, depth=40, maxsurf=6, invs=False, props=False),
                           nsim // 3, 16, ctx.seed + 2)
        ctx.extra["behaviours_replayed_AirSpaced"] = len(jobs_as)
        jobs += jobs_as
    if quick and len(jobs) > 6000:
        jobs = rnd.sample(jobs, 6000)
    ctx.extra["behaviours_replayed_exhaustive_dump"] = len(jobs)
    ctx.extra["behaviours_replayed_simulated"] = len(jobs_sim)
    fails = replay_many(ctx, jobs + jobs_sim)
    ctx.traces += len(jobs) + len(jobs_sim)
    for j in (jobs_sim[:2] + jobs[:2]):
        ctx.sample({"base_surfaces": len(j[0]["surf"]), "calls": j[1][:8]})
    for f in fails:
        ctx.report(f["clause"], classify(f), f["msg"], {"base": f["base"], "hist": f["hist"]})
    # ---- 1b. the flag structure for lenses of every size (Apalache) -----------
    from harness.drivers import c01_struct
    c01_struct.run(ctx)
    # ---- 2b. update() as a multi-step process: spec/UpdateOrder.tla ----------
    from harness.drivers import c01_update
    c01_update.run(ctx)
    # ---- 3. code -> spec ---------------------------------------------------
    from harness.drivers import c01_trace
    c01_trace.run(ctx, jobs_sim)
    ctx.assumptions += [
        "float arithmetic on the 1/8-grid values of generated behaviours is exact (values are small dyadic rationals)",
        "projection reads surface_group.positions/radii/conic, geometry.cs, material_pre/post.n(w) at 0.45/0.55/0.65 um",
        "harness/dy.py float<->dyadic conversion",
    ]
