"""C06 - analytically stigmatic systems are imaged perfectly.

MC_Stigmatic: TLC checks on an exact integer grid that the closed-form conjugates
stated by spec/Stigmatic.tla are stigmatic (Fermat: equal optical paths for every
surface point, via the rational focus distances of a conic; Apollonius for the
aplanatic points) and that the element relations reject perturbed parameters.

spec -> code / code -> spec: every configuration (paraboloid, ellipsoid, Cassegrain
hyperboloid, plano-hyperbolic singlet, elliptic refractor, sphere imaging its
centre, aplanatic points; each also mirrored behind a plane fold mirror, i.e. with
radii of the opposite sign) is built through the public API over a grid of radii,
indices, eccentricities and apertures up to the geometric limit; the prescription
read back from the live lens, the rays of a hexapolar bundle, Wavefront(...).data
and FFTPSF(...).strehl_ratio() are recorded and judged by TLC (Trace_Stigmatic).
The per-surface ray events of the same systems additionally go through the C02
laws (Trace_RayStep).  Calibration: a paraboloid with k = -1.001 must be rejected.
"""
import copy
import itertools
import math
import random
from concurrent.futures import ProcessPoolExecutor

import numpy as np

from harness import lensgen as G
from harness import rayrec as RR
from harness import stigsys as S
from harness import tlc as T
from harness.dy import dy, undy

W0 = 0.55
RADII = (8.0, 50.0, 333.0)
INDICES = ((4, 3), (3, 2), (2, 1), (3, 1), (4, 1))
ECC = ((3, 5), (4, 5), (5, 13), (12, 13), (8, 17), (15, 17))
FNOS = (0.6, 0.8, 1.2, 2.5, 8.0)
NAS = (0.05, 0.3, 0.6, 0.8)


def _f(x):
    return float(np.asarray(x, dtype=float).ravel()[0])


def all_configs():
    """(name, constructor args) of every configuration of the grid, direct orientation."""
    out = []
    for R in RADII:
        for fno in FNOS + (0.5,):
            out.append(("paraboloid", (R, fno)))
        for fno in (0.6, 2.0):
            for n in (1.3, 1.5, 1.7, 2.0):
                out.append(("window_paraboloid", (R, fno, n)))
        for n in (1.33, 4.0):
            out.append(("immersed_paraboloid", (R, 1.2, n)))
            out.append(("immersed_ellipsoid", (R, 3, 5, False, 0.3, n)))
        for (p, q) in ECC:
            for near in (False, True):
                for na in NAS:
                    out.append(("ellipsoid", (R, p, q, near, na)))
            for fno in (0.6, 1.0, 3.0):
                for dfrac in (0.5, 0.8):
                    out.append(("cassegrain", (R, fno, dfrac, q, p)))          # e = q/p > 1
            if (p, q) in ((3, 5), (5, 13), (8, 17)):      # the secondary's vertex cap takes the whole cone
                for fno in (2.0, 3.0, 8.0):              # (system f-number 0.5 .. 3.6)
                    out.append(("convex_paraboloid_relay", (R, fno, 0.6, p, q)))    # e = p/q < 1
        for na in NAS + (0.95,):
            out.append(("sphere_mirror_centre", (R, na)))
        for n in INDICES:
            for fno in FNOS:
                out.append(("hyperbolic_lens", (R, n[0], n[1], fno)))
                if fno == FNOS[0]:
                    out.append(("touching_stop_hyperbolic", (R, n[0], n[1], fno)))
                out.append(("elliptic_front", (R, n[0], n[1], fno)))
            for n2 in INDICES:
                for fno in (0.7, 2.0):
                    out.append(("concentric", (R, n, n2, fno, 0.3, False)))
                    out.append(("concentric", (R, n, n2, fno, 0.5, True)))
                    for frac in (0.4, 0.9):
                        out.append(("aplanatic", (R, n, n2, fno, frac, False)))
                        out.append(("aplanatic", (R, n, n2, fno, frac, True)))
    return out


def dyv(xs):
    return [dy(float(x)) for x in xs]


def system_event(s, optic, els, pos):
    def beam(b):
        return {"c": bool(b[0]), "a": dy(float(b[1]))}
    return {"kind": "system", "inf": not math.isfinite(s["obj"]), "zobj": dy(0.0 if not math.isfinite(s["obj"]) else pos[0]),
            "zimg": dy(pos[-1]),
            "els": [{"ty": e["ty"], "zv": dy(e["zv"]), "R": dy(e["R"]), "kk": dy(e["kk"]), "n1": dy(e["n1"]),
                     "n2": dy(e["n2"]), "p": int(e["p"]), "q": int(e["q"]), "bin": beam(e["bin"]), "bout": beam(e["bout"])}
                    for e in els]}


def record(s, rings, psf_rays, psf_grid, nstep, retarget=False):
    """Build one configuration and record everything the spec judges."""
    from optiland.wavefront import Wavefront
    from optiland.psf import FFTPSF
    optic = S.build(s, W0, retarget=retarget)
    els, pos = S.beam_chain(s, optic, W0)
    ev = [system_event(s, optic, els, pos)]
    sg = optic.surface_group
    n0 = _f(optic.object_surface.material_post.n(W0))
    # chief ray (alone), then the hexapolar bundle
    optic.trace_generic(0.0, 0.0, 0.0, 0.0, W0)
    oc = float(np.array(sg.opd)[-1, 0])
    pc0 = [float(np.array(a)[0, 0]) for a in (sg.x, sg.y, sg.z)]
    optic.trace(0.0, 0.0, W0, rings, "hexapolar")
    X, Y, Z, L, M, N, O = (np.array(a, dtype=float) for a in (sg.x, sg.y, sg.z, sg.L, sg.M, sg.N, sg.opd))
    ahead = n0 * ((X[0] - pc0[0]) * L[0] + (Y[0] - pc0[1]) * M[0] + (Z[0] - pc0[2]) * N[0])
    ev.append({"kind": "rays", "xs": dyv(X[-1]), "ys": dyv(Y[-1]), "zs": dyv(Z[-1]), "os": dyv(O[-1]),
               "aheads": dyv(ahead), "oc": dy(oc), "zimg": dy(pos[-1])})
    wf = Wavefront(optic, [(0.0, 0.0)], [W0], rings, "hexapolar")
    psf = FFTPSF(optic, (0.0, 0.0), W0, num_rays=psf_rays, grid_size=psf_grid)
    ev.append({"kind": "wave", "opds": dyv(np.array(wf.data[0][0][0], dtype=float)), "strehl": dy(float(psf.strehl_ratio()))})
    # a few rays, surface by surface, for the C02 laws
    px = np.array([0.0, 0.0, 1.0, -0.7, 0.35][:nstep + 1])
    py = np.array([0.0, 1.0, 0.0, 0.7, -0.61][:nstep + 1])
    optic.trace_generic(np.zeros_like(px), np.zeros_like(px), px.copy(), py.copy(), W0)
    steps = RR.record_events(optic, W0)
    # conditioning note: how close a bundle ray comes to an asymptote direction of a hyperboloid
    # ((1+k) N^2 + L^2 + M^2 = 0 there; no tilts, so global = local directions)
    min_a = float("inf")
    for j in range(1, len(sg.surfaces) - 1):
        kk = _f(getattr(sg.surfaces[j].geometry, "k", 0.0))
        if kk < -1.0:
            a = (1 + kk) * N[j - 1] ** 2 + L[j - 1] ** 2 + M[j - 1] ** 2
            if np.any(np.isfinite(a)):
                min_a = min(min_a, float(np.nanmin(np.abs(a))))
    stats = {"min_abs_a": min_a, "scale": abs(oc), "max_xy": float(np.nanmax(np.abs(np.concatenate([X[-1], Y[-1]])))) if X.shape[1] else float("nan"),
             "opl_spread": float(np.nanmax(O[-1] + ahead) - np.nanmin(O[-1] + ahead)),
             "w_max": float(np.nanmax(np.abs(wf.data[0][0][0]))), "strehl": float(psf.strehl_ratio()),
             # working f-number of the image-side cone, 1 / (2 sin U'), U' = steepest ray at the image
             "fno_work": 1.0 / max(1e-300, 2 * float(np.nanmax(np.hypot(L[-1], M[-1])))),
             "nrays": int(X.shape[1])}
    return ev, steps, stats


def config_task(args):
    name, cargs, folded, quick = args
    try:
        s = getattr(S, name)(*cargs)
        if folded:
            s = S.fold(s)
        # every second configuration on an odd grid (the centre pixel is G // 2 there too)
        odd = (sum(map(ord, name + repr(cargs))) + int(folded)) % 2
        # every third configuration is reached by edits (set_index / set_conic / set_thickness)
        retarget = (sum(map(ord, name + repr(cargs))) // 2 + int(folded)) % 3 == 1
        ev, steps, stats = G.quiet(record, s, 6, 64 if quick else 128, (128 if quick else 256) - odd, 2 if quick else 3,
                                   retarget)
    except Exception as ex:
        import traceback
        return {"error": "%s: %s" % (type(ex).__name__, ex), "tb": traceback.format_exc()[-1200:], "name": name,
                "args": cargs, "folded": folded}
    return {"name": name, "args": cargs, "folded": folded, "fam": s["fam"], "events": ev, "steps": steps, "stats": stats}


def python_repro(name, cargs, folded):
    return ("from harness import stigsys as S\ns = S.%s(*%r)\n%so = S.build(s)\n"
            "o.trace(0.0, 0.0, 0.55, 6, 'hexapolar')\nsg = o.surface_group\n"
            "print(abs(sg.x[-1]).max(), abs(sg.y[-1]).max(), sg.opd[-1].max() - sg.opd[-1].min())\n"
            % (name, tuple(cargs), "s = S.fold(s)\n" if folded else ""))


def fl(d):
    return float(undy(d)) if d["k"] == "fin" else float("nan")


def corruptions(e):
    out = []
    if e["kind"] == "system":
        c = copy.deepcopy(e)
        el = c["els"][-1]
        el["bout"]["a"] = dy(fl(el["bout"]["a"]) * (1 + 1e-6) + 1e-7)
        c["zimg"] = el["bout"]["a"]
        out.append((c, ["element_relation"]))
        c = copy.deepcopy(e)
        c["zimg"] = dy(fl(e["zimg"]) * (1 + 1e-6) + 1e-7)
        out.append((c, ["image_position"]))
        for j, el in enumerate(e["els"]):
            if el["ty"] in ("conic_mirror", "conic_refr") and el["p"] > 0:
                c = copy.deepcopy(e)
                c["els"][j]["kk"] = dy(fl(el["kk"]) * 1.001)
                out.append((c, ["element_relation"]))
                break
    elif e["kind"] == "rays":
        oc = abs(fl(e["oc"]))
        k = len(e["xs"]) // 2
        c = copy.deepcopy(e)
        c["xs"][k] = dy(fl(e["xs"][k]) + 1e-7 * oc)
        out.append((c, ["image_point"]))
        c = copy.deepcopy(e)
        c["os"][k] = dy(fl(e["os"][k]) * (1 + 1e-7))
        out.append((c, ["equal_path"]))
    elif e["kind"] == "wave":
        c = copy.deepcopy(e)
        c["opds"][len(e["opds"]) // 3] = dy(1e-5)
        out.append((c, ["wavefront_zero"]))
        c = copy.deepcopy(e)
        c["strehl"] = dy(0.999)
        out.append((c, ["strehl_one"]))
    return out


def main(ctx):
    quick = ctx.tier == "quick"
    r = ctx.model_check("MC_Stigmatic", "MC_Stigmatic.cfg", workers=8, timeout=300)
    counts = r.prints("COUNTS")
    ctx.extra["model_cases"] = counts[-1][1:] if counts else []
    # ---- configurations ---------------------------------------------------------
    rnd = random.Random(ctx.seed * 7919 + 6)
    grid = all_configs()
    ctx.extra["grid_size(direct+folded)"] = 2 * len(grid)
    # (the two-mirror relay behind a convex primary is built in the direct orientation only: folded,
    #  its secondary would stand between the fold mirror and the primary)
    tasks = [(n, a, f, quick) for (n, a) in grid for f in (False, True)
             if not (f and n == "convex_paraboloid_relay")]
    if quick:
        # a seeded sub-grid that keeps every family, both orientations and the fastest apertures
        byname = {}
        for t in tasks:
            byname.setdefault((t[0], t[2]), []).append(t)
        tasks = []
        for key in sorted(byname):
            lst = byname[key]
            rnd.shuffle(lst)
            tasks += lst[:11]
    else:
        ctx.exhaustive = True
    with ProcessPoolExecutor(max_workers=12) as ex:
        results = list(ex.map(config_task, tasks, chunksize=4))
    events, owner, steps = [], {}, []
    fams, worst = {}, {"max_xy/scale": 0.0, "w_max": 0.0, "min_strehl": 2.0, "min_working_fno": 1e9}
    nconf = 0
    for res in results:
        if res.get("error"):
            ctx.report("raises", {"family": res["name"], "folded": res["folded"], "error": res["error"].split(":")[0]},
                       "%s%r%s: %s" % (res["name"], tuple(res["args"]), " folded" if res["folded"] else "", res["error"]),
                       {"python": python_repro(res["name"], res["args"], res["folded"]), "traceback": res["tb"]})
            continue
        nconf += 1
        key = res["fam"] + ("/folded" if res["folded"] else "")
        fams[key] = fams.get(key, 0) + 1
        st = res["stats"]
        if st["min_abs_a"] < 1e-6:
            fams["(with a ray parallel to a hyperboloid asymptote)"] = fams.get("(with a ray parallel to a hyperboloid asymptote)", 0) + 1
        elif math.isfinite(st["max_xy"]):
            worst["max_xy/scale"] = max(worst["max_xy/scale"], st["max_xy"] / st["scale"])
        if st["min_abs_a"] < 1e-6:
            pass
        elif math.isfinite(st["w_max"]):
            worst["w_max"] = max(worst["w_max"], st["w_max"])
        if math.isfinite(st["strehl"]) and st["min_abs_a"] >= 1e-6:
            worst["min_strehl"] = min(worst["min_strehl"], st["strehl"])
        if math.isfinite(st["fno_work"]):
            worst["min_working_fno"] = min(worst["min_working_fno"], st["fno_work"])
        for e in res["events"]:
            e["id"] = len(events)
            owner[e["id"]] = res
            events.append(e)
        base = len(steps)
        for e in res["steps"]:
            e["id"] = len(steps)
            e["ray"] = e["ray"] + 1000 * nconf
            e["_owner"] = len(events) - 1
            steps.append(e)
    ctx.extra["configurations"] = nconf
    ctx.extra["configurations_by_family"] = fams
    ctx.extra["observed_extremes"] = worst
    verdicts = ctx.validate("Trace_Stigmatic", events, shards=16, timeout=900, count_traces=nconf)
    for e in events:
        res = owner[e["id"]]
        for clause in verdicts[e["id"]]:
            st = res["stats"]
            ctx.report(clause, {"family": res["fam"], "folded": res["folded"],
                                "ray_parallel_to_asymptote": st["min_abs_a"] < 1e-6},
                       "%s%r%s: clause %s fails (max |x|,|y| %.3g, OPL spread %.3g, max |W| %.3g waves, Strehl %.6f)"
                       % (res["name"], tuple(res["args"]), " folded" if res["folded"] else "", clause,
                          st["max_xy"], st["opl_spread"], st["w_max"], st["strehl"]),
                       {"python": python_repro(res["name"], res["args"], res["folded"]), "stats": st})
    for res in [x for x in results if not x.get("error")][:: max(1, nconf // 5)][:5]:
        ctx.sample({"config": "%s%r%s" % (res["name"], tuple(res["args"]), " folded" if res["folded"] else ""),
                    "rays": res["stats"]["nrays"], "max|x|,|y|": res["stats"]["max_xy"], "opl_spread": res["stats"]["opl_spread"],
                    "max|W|": res["stats"]["w_max"], "strehl": res["stats"]["strehl"]})
    # ---- the same systems through the C02 laws ------------------------------------
    souts = [{k: v for k, v in e.items() if not k.startswith("_")} for e in steps]
    sv = ctx.validate("Trace_RayStep", souts, shards=16, timeout=900, env={"RAYSTEP_MODE": "ray"}, count_traces=0, group="ray")
    ctx.extra["ray_step_events"] = len(steps)
    for e in steps:
        res = owner[e["_owner"]]
        for clause in sv[e["id"]]:
            if clause.startswith("~"):
                ctx.skip(clause[1:] + " (C02 note)")
                continue
            ctx.report("raystep_" + clause, {"family": res["fam"], "folded": res["folded"], "shape": e["shape"], "refl": e["refl"],
                                             "ray_parallel_to_asymptote": res["stats"]["min_abs_a"] < 1e-6},
                       "%s%r%s: surface %d violates the C02 clause %s" % (res["name"], tuple(res["args"]),
                                                                             " folded" if res["folded"] else "", e["k"], clause),
                       {"python": python_repro(res["name"], res["args"], res["folded"])})
    # ---- calibration ------------------------------------------------------------------
    cal, expect = [], {}
    # (a) a slightly wrong conic, really built and traced
    bad = S.paraboloid(100.0, 1.0)
    bad["surfs"][0]["k"] = -1.001
    bev, _, bstats = G.quiet(record, bad, 6, 64, 128, 1)
    for e, clauses in zip(bev, (["element_relation"], ["image_point", "equal_path"], ["wavefront_zero", "strehl_one"])):
        e["id"] = len(cal)
        expect[e["id"]] = (clauses, True)
        cal.append(e)
    good = S.paraboloid(100.0, 1.0)
    gev, _, _ = G.quiet(record, good, 6, 64, 128, 1)
    for e in gev:
        e["id"] = len(cal)
        expect[e["id"]] = (None, False)
        cal.append(e)
    # (b) single-field corruptions of accepted events
    ok = [e for e in events if not verdicts[e["id"]]]
    pick = []
    for kind in ("system", "rays", "wave"):
        lst = [e for e in ok if e["kind"] == kind]
        rnd.shuffle(lst)
        pick += lst[:6 if quick else 20]
    for e in pick:
        for c, clauses in corruptions(e):
            c["id"] = len(cal)
            expect[c["id"]] = (clauses, False)
            cal.append(c)
    cv = ctx.validate("Trace_Stigmatic", cal, shards=8, timeout=600, count_traces=0)
    missed = []
    for cid, (clauses, need_all) in expect.items():
        got = set(cv[cid])
        if clauses is None:
            # the exact paraboloid, built and traced: a rejection is a verdict about the code, not about the machinery
            for clause in sorted(got):
                ctx.report(clause, {"family": "paraboloid", "folded": False, "ray_parallel_to_asymptote": False},
                           "paraboloid(100.0, 1.0) (calibration twin of the k = -1.001 system): clause %s fails" % clause,
                           {"python": python_repro("paraboloid", (100.0, 1.0), False)})
        elif need_all and not all(c in got for c in clauses):
            missed.append((cid, clauses, sorted(got)))
        elif not (got & set(clauses)):
            missed.append((cid, clauses, sorted(got)))
    ctx.extra["calibration"] = {"events": len(cal), "wrong_conic(k=-1.001)": {k: bstats[k] for k in ("max_xy", "w_max", "strehl")},
                                "missed": len(missed)}
    if len(cal) < 12 and not ctx.violations:
        raise T.MachineryError("calibration set too small")
    if missed:
        raise T.MachineryError("calibration: not rejected as expected: %s" % missed[:3])
    ctx.assumptions += [
        "the beam points of the chain (foci) are the driver's claim, evaluated in floats from the closed forms; TLC verifies them "
        "against the prescription read back from the live lens (zv, R, conic, indices) to 2^-46",
        "system scale for |x|, |y| <= 2^-30 scale and for path equality is the chief ray's optical path (object/launch plane to image)",
        "hyperboloid mirrors have one virtual conjugate; the library reports rays that must travel backwards to a plane as non-finite, "
        "so the family is realised as the classical Cassegrain (paraboloid + convex hyperboloid); the refracting sphere "
        "families (own centre, aplanatic points) receive their virtual object point from a plano-hyperbolic converger",
        "radii of the opposite sign are reached by mirroring the system behind a plane fold mirror (light then travels along -z)",
        "Strehl = 1 is a threshold (>= 1 - 2^-12) on an FFT result (grid 128 or 127 quick / 256 or 255 thorough), not an identity",
    ]
