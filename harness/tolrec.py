"""Recorder for C15: builds small tolerancing problems through the public API, runs
SensitivityAnalysis / MonteCarlo, and writes one event per protocol step for
spec/Trace_Tolerancing.tla.  Every result row is re-derived on a
from_dict(to_dict()) copy of the nominal lens (recorded perturbation values and
recorded compensator values applied through fresh Variable handles); both the
recorded and the re-derived operand values are logged as exact dyadic numbers and
TLC compares them.  Nothing is decided here.
"""
import copy
import math
import random
import warnings

import numpy as np

from harness import lensgen as G
from harness import optrec as R
from harness import project as P
from harness.dy import dy


# ------------------------------------------------------------------ the problem
def choose_tolerancing(case, o):
    """Fill case['ops'], case['perts'], case['comps'] (JSON-able)."""
    rnd = random.Random(case["seed"])
    fam = case["family"]
    cands = R.candidates(o, fam)
    wl = P.f(o.wavelengths.primary_wavelength.value)
    n = o.surface_group.num_surfaces - 2
    analysis = case["analysis"]
    # operands
    ops = []
    kinds = ["f2", "ray_y", "ray_y", "spot"] + (["ray_x"] if fam == "tilt" else [])
    for _ in range(rnd.choice([1, 2, 3])):
        kd = rnd.choice(kinds)
        if kd == "f2":
            ops.append({"type": "f2", "data": {}})
        elif kd in ("ray_y", "ray_x"):
            ops.append({"type": "real_y_intercept" if kd == "ray_y" else "real_x_intercept",
                        "data": {"surface_number": -1, "Hx": 0.0, "Hy": rnd.choice([0.0, 0.7, 1.0]),
                                 "Px": rnd.choice([0.0, 0.5]) if kd == "ray_x" else 0.0,
                                 "Py": rnd.choice([1.0, 0.5, -1.0]), "wavelength": wl}})
        else:
            ops.append({"type": "rms_spot_size",
                        "data": {"surface_number": -1, "Hx": 0.0, "Hy": rnd.choice([0.0, 1.0]),
                                 "num_rays": 3, "wavelength": wl, "distribution": "hexapolar"}})
    if case.get("fail"):
        # an operand that becomes undefined when a radius shrinks below the beam: a real ray
        ops.insert(0, {"type": "real_y_intercept",
                       "data": {"surface_number": -1, "Hx": 0.0, "Hy": 0.0, "Px": 0.0, "Py": 1.0, "wavelength": wl}})
    case["ops"] = ops
    # compensator: the last gap (image distance) or a radius, scaled handle
    comps = []
    if case.get("comp"):
        comps.append({"type": "thickness", "k": n, "scaled": True, "min": None, "max": None})
    case["comps"] = comps
    # perturbations
    npert = case.get("nperts") or rnd.choice([1, 2, 2, 3])
    want = case.get("want_type")
    pool = [c for c in cands if not (c["type"] == "thickness" and c["k"] == n and comps)]
    chosen = []
    if case.get("own") and comps:
        # a tolerance on the compensator's own parameter (the focus gap is both perturbed and re-optimised)
        chosen.append({"type": "thickness", "k": n})
    if want:
        w = [c for c in pool if c["type"] == want]
        if w:
            chosen.append(rnd.choice(w))
    if case.get("fail"):
        w = [c for c in pool if c["type"] == "radius"]
        if w and not any(c["type"] == "radius" for c in chosen):
            chosen.insert(0, rnd.choice(w))
    rnd.shuffle(pool)
    for c in pool:
        if len(chosen) >= npert:
            break
        if any(c == d for d in chosen):
            continue
        chosen.append(c)
    epd = P.f(o.aperture.value) if o.aperture is not None else 4.0
    for i, vs in enumerate(chosen):
        vs = chosen[i] = dict(vs)
        vs["scaled"] = False
        nom = R.phys_value(o, vs)
        a, b = R.natural_bounds(rnd, vs, nom)
        d = 0.25 * min(abs(nom - a), abs(b - nom))
        kind = "range" if analysis == "sens" else case.get("sampler") or rnd.choice(["scalar", "range", "normal", "uniform"])
        if case.get("fail") and vs["type"] == "radius" and i == 0:
            # sweep from nominal to a radius smaller than the semi-aperture: the marginal ray misses
            tiny = math.copysign(0.3 * epd, nom)
            vs["sampler"] = {"kind": "range", "a": nom, "b": tiny, "steps": 3}
        elif case.get("near_nominal") and i == 0:
            # a one-sided sweep that starts practically (not exactly) at nominal: the first trial has almost
            # nothing to compensate, the later ones do
            vs["sampler"] = {"kind": "range", "a": nom + 1e-8 * max(1.0, abs(nom)), "b": nom + rnd.choice([-1, 1]) * d, "steps": 3}
        elif kind == "scalar":
            vs["sampler"] = {"kind": "scalar", "a": nom if rnd.random() < 0.4 else nom + rnd.uniform(-d, d)}
        elif kind == "range":
            steps = rnd.choice([2, 3, 4])
            if rnd.random() < 0.6:
                vs["sampler"] = {"kind": "range", "a": nom, "b": nom + rnd.choice([-1, 1]) * d, "steps": steps}
            else:
                vs["sampler"] = {"kind": "range", "a": nom - d, "b": nom + d, "steps": steps}
        elif kind == "normal":
            vs["sampler"] = {"kind": "normal", "a": nom, "b": d / 3.0, "seed": rnd.randrange(1, 10 ** 6)}
        else:
            vs["sampler"] = {"kind": "uniform", "a": nom - d, "b": nom + d, "seed": rnd.randrange(1, 10 ** 6)}
        if case.get("unseeded") and vs["sampler"]["kind"] in ("normal", "uniform"):
            vs["sampler"]["seed"] = None
    # 0 is a seed like any other: in one case out of five every seeded sampler uses it
    if not case.get("unseeded") and rnd.random() < 0.2:
        for vs in chosen:
            if vs["sampler"]["kind"] in ("normal", "uniform"):
                vs["sampler"]["seed"] = 0
    case["perts"] = chosen
    if analysis == "mc":
        case["iters"] = case.get("iters") or rnd.choice([2, 3, 4, 5])
    return case


def make_sampler(sp):
    from optiland.tolerancing.perturbation import ScalarSampler, RangeSampler, DistributionSampler
    if sp["kind"] == "scalar":
        return ScalarSampler(sp["a"])
    if sp["kind"] == "range":
        return RangeSampler(sp["a"], sp["b"], sp["steps"])
    if sp["kind"] == "normal":
        return DistributionSampler("normal", seed=sp.get("seed"), loc=sp["a"], scale=sp["b"])
    return DistributionSampler("uniform", seed=sp.get("seed"), low=sp["a"], high=sp["b"])


def build_tolerancing(case, o):
    from optiland.tolerancing.core import Tolerancing
    tol = Tolerancing(o, method=case.get("method", "generic"), tol=case.get("tol", 1e-5))
    for op in case["ops"]:
        data = dict(op["data"])
        data["optic"] = o
        tol.add_operand(op["type"], data)
    for vs in case["perts"]:
        tol.add_perturbation(vs["type"], make_sampler(vs["sampler"]), **R.var_kwargs(vs))
    for vs in case["comps"]:
        tol.add_compensator(vs["type"], **R.var_kwargs(vs))
    return tol


# ------------------------------------------------------------------ re-derivation
def rederive(case, nominal_dict, pvals, applied, cvals):
    """Operand values on a fresh copy of the nominal lens with the given perturbation
    values (only those flagged in `applied`) and compensator values installed."""
    from optiland.optic import Optic
    from optiland.optimization.operand import Operand
    from optiland.optimization.variable import Variable
    o = Optic.from_dict(copy.deepcopy(nominal_dict))
    for vs, v, ap in zip(case["perts"], pvals, applied):
        if ap:
            Variable(o, vs["type"], apply_scaling=False, **R.var_kwargs(vs)).update(v)
    for vs, v in zip(case["comps"], cvals):
        Variable(o, vs["type"], apply_scaling=True, **R.var_kwargs(vs)).update(v)
    out = []
    for op in case["ops"]:
        data = dict(op["data"])
        data["optic"] = o
        try:
            out.append(R.fnum(Operand(op["type"], 0.0, 1.0, data).value))
        except Exception:
            out.append(float("nan"))
    return out


def recompensate(case, nominal_dict, pvals, applied):
    """Operand values after "the same compensation": a fresh copy of the nominal lens, a fresh
    Tolerancing object with the same operands and compensators, the recorded perturbation values
    applied through scalar samplers, apply_compensators() run afresh, operands evaluated."""
    from optiland.optic import Optic
    from optiland.tolerancing.core import Tolerancing
    from optiland.tolerancing.perturbation import ScalarSampler
    o = Optic.from_dict(copy.deepcopy(nominal_dict))
    tol = Tolerancing(o, method=case.get("method", "generic"), tol=case.get("tol", 1e-5))
    for op in case["ops"]:
        data = dict(op["data"])
        data["optic"] = o
        tol.add_operand(op["type"], data)
    for vs, v, ap in zip(case["perts"], pvals, applied):
        if ap:
            tol.add_perturbation(vs["type"], ScalarSampler(v), **R.var_kwargs(vs))
    for vs in case["comps"]:
        tol.add_compensator(vs["type"], **R.var_kwargs(vs))
    for p in tol.perturbations:
        p.apply()
    with warnings.catch_warnings():
        warnings.simplefilter("ignore")
        G.quiet(tol.apply_compensators)
    out = []
    for v in tol.evaluate():
        try:
            out.append(R.fnum(v))
        except Exception:
            out.append(float("nan"))
    return out


def sampler_rec(sp):
    kind = sp["kind"]
    return {"kind": kind, "a": dy(sp["a"]), "b": dy(sp.get("b", 0.0)), "steps": int(sp.get("steps", 1))}


# ------------------------------------------------------------------ one session
def session(tr, case, number):
    o, meta = R.build_lens(case)
    if "perts" not in case:
        choose_tolerancing(case, o)
    # deep copy: to_dict() hands out the lens's own coefficient lists, and from_dict() adopts them
    # (a lens made from the dict would share them with this lens)
    nominal_dict = copy.deepcopy(o.to_dict())
    tol = build_tolerancing(case, o)
    nom_ops = [R.fnum(v) for v in tol.evaluate()]
    nom_pert = [R.phys_value(o, vs) for vs in case["perts"]]
    if not all(math.isfinite(v) for v in nom_ops):
        return "nominal operand undefined"
    analysis = case["analysis"]
    tr.emit("begin", analysis=analysis, session=number, nom_ops=[dy(v) for v in nom_ops],
            targets=[dy(R.fnum(op.target)) for op in tol.operands], nom_pert=[dy(v) for v in nom_pert],
            proj=R.proj_dy(o), zmax=dy(R.zmax(o)), has_comp=bool(case["comps"]),
            samplers=[sampler_rec(vs["sampler"]) for vs in case["perts"]])
    from optiland.tolerancing.sensitivity_analysis import SensitivityAnalysis
    from optiland.tolerancing.monte_carlo import MonteCarlo
    exc = ""
    rows = []
    try:
        with warnings.catch_warnings():
            warnings.simplefilter("ignore")
            if analysis == "sens":
                an = SensitivityAnalysis(tol)
                G.quiet(an.run)
            else:
                an = MonteCarlo(tol)
                G.quiet(an.run, case["iters"])
        df = an.get_results()
        rows = [df.iloc[i].to_dict() for i in range(len(df))]
    except Exception as ex:
        exc = "%s: %s" % (type(ex).__name__, ex)
    names = [str(p.variable) for p in tol.perturbations]
    opnames = list(an.operand_names) if not exc else []
    cnames = ["C%d: %s" % (i, str(v)) for i, v in enumerate(tol.compensator.variables)]
    counters = {}
    for r in rows:
        missing = False
        if analysis == "sens":
            which = names.index(r["perturbation_type"]) + 1 if r.get("perturbation_type") in names else 0
            missing = which == 0
            i = counters.get(which, 0)
            counters[which] = i + 1
            pv = list(nom_pert)
            if which:
                pv[which - 1] = R.fnum(r.get("perturbation_value", float("nan")))
            applied = [j + 1 == which for j in range(len(names))]
        else:
            which = 0
            i = counters.get(0, 0)
            counters[0] = i + 1
            missing = any(nm not in r for nm in names)
            pv = [R.fnum(r.get(nm, float("nan"))) for nm in names]
            applied = [True] * len(names)
        missing = missing or any(nm not in r for nm in opnames) or any(nm not in r for nm in cnames)
        ops = [R.fnum(r.get(nm, float("nan"))) for nm in opnames]
        cv = [R.fnum(r.get(nm, float("nan"))) for nm in cnames]
        try:
            re_ops = rederive(case, nominal_dict, pv, applied, cv) if not missing else []
        except Exception as ex:
            re_ops = [float("nan")] * len(ops)
            missing = True
        re_comp = []
        if case["comps"] and not missing and all(math.isfinite(v) for v in pv):
            try:
                re_comp = recompensate(case, nominal_dict, pv, applied)
            except Exception:
                re_comp = [float("nan")] * len(ops)
        tr.emit("row", i=i, which=which, pv=[dy(v) for v in pv], ops=[dy(v) for v in ops],
                cv=[dy(v) for v in cv], re_ops=[dy(v) for v in re_ops], missing=bool(missing),
                re_comp=[dy(v) for v in re_comp])
    expected = sum(vs["sampler"]["steps"] for vs in case["perts"]) if analysis == "sens" else case["iters"]
    tr.emit("end", exc=exc, proj=R.proj_dy(o), zmax=dy(R.zmax(o)), expected_rows=expected)
    exc2 = ""
    try:
        tol.reset()
    except Exception as ex:
        exc2 = "%s: %s" % (type(ex).__name__, ex)
    tr.emit("reset", exc=exc2, proj=R.proj_dy(o), zmax=dy(R.zmax(o)))
    if case.get("whatif") and case["comps"]:
        # the user's own what-if study on the same Tolerancing object: perturb, compensate, perturb
        # again, compensate again (no reset in between), then reset(): back at the nominal prescription
        exc3 = ""
        try:
            with warnings.catch_warnings():
                warnings.simplefilter("ignore")
                tol.perturbations[0].apply()
                G.quiet(tol.apply_compensators)
                tol.perturbations[-1].apply()
                G.quiet(tol.apply_compensators)
                if case.get("whatif") == "rerun":
                    # ... and a complete run afterwards must still end at nominal
                    an2 = SensitivityAnalysis(tol) if analysis == "sens" else MonteCarlo(tol)
                    G.quiet(an2.run) if analysis == "sens" else G.quiet(an2.run, 2)
                    tr.emit("reset", exc="", proj=R.proj_dy(o), zmax=dy(R.zmax(o)), after="whatif+run")
            tol.reset()
        except Exception as ex:
            exc3 = "%s: %s" % (type(ex).__name__, ex)
        tr.emit("reset", exc=exc3, proj=R.proj_dy(o), zmax=dy(R.zmax(o)), after="whatif")
    return None


def run_case(case):
    with warnings.catch_warnings():
        warnings.simplefilter("ignore")
        return G.quiet(_run_case, case)


def _run_case(case):
    tr = R.Trace(case["tid"], case)
    try:
        for number in (1, 2):
            why = session(tr, case, number)
            if why:
                return [], case, {"skip": why}
    except Exception as ex:
        return [], case, {"skip": "setup: %s" % type(ex).__name__, "msg": str(ex)}
    return tr.events, case, {}


def classify(case):
    perts = case.get("perts", [])
    return {"history": "whatif" if case.get("whatif") else ("own_parameter" if case.get("own") else "run"),
            "analysis": {"sens": "sensitivity", "mc": "monte_carlo"}[case["analysis"]],
            "has_compensator": bool(case.get("comps")),
            "index_perturbation_on_dispersive_glass": case["family"] == "glass" and any(p["type"] == "index" for p in perts),
            "seeded": not any(p["sampler"]["kind"] in ("normal", "uniform") and p["sampler"].get("seed") is None
                              for p in perts),
            "sampler_kinds": sorted({p["sampler"]["kind"] for p in perts})}
