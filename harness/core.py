"""Run context shared by every property driver: work dir, TLC bookkeeping,
violation / known-finding handling, evidence and replay files, exit codes.

Exit 0: held on everything explored (known findings printed as KNOWN-FINDING).
Exit 1: VIOLATION line for a violation not listed in known_findings.json.
Exit 2: machinery failure only (TLC crash, unparsable output, driver bug).
"""
import hashlib
import json
import os
import shutil
import sys
import time
import traceback

from harness import tlc as T

VERIF = T.VERIF
KNOWN_FILE = os.path.join(VERIF, "known_findings.json")


def load_known():
    with open(KNOWN_FILE) as fh:
        out = json.load(fh)
    d = os.path.join(VERIF, "known_findings.d")     # per-property additions, merged at load
    if os.path.isdir(d):
        for name in sorted(os.listdir(d)):
            if name.endswith(".json"):
                with open(os.path.join(d, name)) as fh:
                    out += json.load(fh)
    return out


def _match(where, cls):
    """where: dict key -> required value (or list of admissible values)."""
    for k, v in where.items():
        if k not in cls:
            return False
        if isinstance(v, list):
            if cls[k] not in v:
                return False
        elif cls[k] != v:
            return False
    return True


class Ctx:
    def __init__(self, pid, tier, seed):
        self.pid = pid
        self.tier = tier
        self.seed = seed
        self.t0 = time.time()
        self.work = os.path.join(VERIF, ".work", "%s_%d" % (pid, os.getpid()))
        shutil.rmtree(self.work, ignore_errors=True)
        os.makedirs(self.work, exist_ok=True)
        self.states = 0
        self.transitions = 0
        self.traces = 0
        self.samples = []
        self.assumptions = []
        self.extra = {}
        self.models = []       # per TLC run: name, distinct, generated, wall
        self.violations = []   # unlisted
        self.known_hits = {}   # finding key -> count
        self.known = [k for k in load_known() if k["property"] == pid]
        self.skipped = {}
        self.exhaustive = False

    def log(self, msg):
        if os.environ.get("VERIF_VERBOSE"):
            print("[%6.1fs] %s" % (time.time() - self.t0, msg), file=sys.stderr, flush=True)

    # ---- TLC on the model ------------------------------------------------
    def model_check(self, module, cfg, workers=16, timeout=900, args=(), env=None,
                    heap="6g", must_pass=True):
        r = T.run_tlc(module, cfg, self.work, workers=workers, timeout=timeout,
                      args=args, env=env, heap=heap)
        self.models.append({"module": module, "cfg": cfg, "distinct": r.distinct,
                            "generated": r.generated, "depth": r.depth,
                            "wall_s": round(r.wall, 2), "ok": r.ok})
        self.states += r.distinct
        self.transitions += r.generated
        self.log("TLC %s %s: %d distinct / %d generated, depth %d, %.1fs ok=%s"
                 % (module, os.path.basename(str(cfg)), r.distinct, r.generated, r.depth, r.wall, r.ok))
        if must_pass:
            T.require_ok(r, "%s/%s" % (module, cfg))
        return r

    # ---- trace validation (code -> spec) ----------------------------------
    def validate(self, module, events, shards=16, timeout=1800, cfg=None, env=None,
                 count_traces=None, group=None):
        if os.environ.get("VERIF_VERBOSE"):
            import hashlib
            self.log("events digest %s %s n=%d" % (module, hashlib.sha256(json.dumps(
                events, sort_keys=True, default=str).encode()).hexdigest()[:16], len(events)))
        verdicts, st = T.validate_events(module, events, self.work, shards=shards,
                                         timeout=timeout, cfg=cfg, env=env, group=group)
        self.states += st["states"]
        self.transitions += st["generated"]
        self.models.append({"module": module, "cfg": cfg or module + ".cfg",
                            "distinct": st["states"], "generated": st["generated"],
                            "events": len(events), "wall_s": round(st["wall"], 2),
                            "jvms": st["jvms"], "ok": True})
        self.traces += len(events) if count_traces is None else count_traces
        return verdicts

    # ---- verdict bookkeeping ----------------------------------------------
    def skip(self, reason, n=1):
        self.skipped[reason] = self.skipped.get(reason, 0) + n

    def sample(self, obj, cap=6):
        if len(self.samples) < cap:
            self.samples.append(obj)

    def report(self, clause, cls, what, repro):
        """A property violation observed on the real code.

        clause: name of the failing spec clause; cls: input-class attributes
        (dict) used to match known findings; what: human text; repro:
        JSON-able reproduction (call sequence / event)."""
        for k in self.known:
            if k["status"] != "known":
                continue
            if k["clause"] != clause and clause not in k.get("clauses", []):
                continue
            if _match(k.get("where", {}), cls):
                key = k["id"]
                self.known_hits[key] = self.known_hits.get(key, 0) + 1
                return "known"
        sig = hashlib.sha256(json.dumps([self.pid, clause, cls], sort_keys=True,
                                        default=str).encode()).hexdigest()[:12]
        for v in self.violations:
            if v["sig"] == sig:
                v["count"] += 1
                return "dup"
        d = os.path.join(VERIF, "replays", self.pid)
        os.makedirs(d, exist_ok=True)
        path = os.path.join(d, sig + ".json")
        with open(path, "w") as fh:
            json.dump({"property": self.pid, "clause": clause, "class": cls,
                       "what": what, "repro": repro, "tier": self.tier,
                       "seed": self.seed}, fh, indent=1, default=str)
        self.violations.append({"sig": sig, "clause": clause, "class": cls,
                                "what": what, "path": path, "count": 1})
        return "new"

    # ---- finish -------------------------------------------------------------
    def finish(self):
        wall = time.time() - self.t0
        for k in self.known:
            if k["status"] == "known" and self.known_hits.get(k["id"]):
                print("KNOWN-FINDING: property=%s %s [%s, %d occurrence(s) this run]"
                      % (self.pid, k["what"], k["id"], self.known_hits[k["id"]]))
        for v in self.violations:
            print("VIOLATION property=%s replay=%s" % (self.pid, v["path"]))
            print("  clause=%s class=%s x%d: %s" % (v["clause"], json.dumps(v["class"], default=str),
                                                  v["count"], v["what"]))
        cov = {
            "states": int(self.states),
            "transitions": int(self.transitions),
            "traces_validated_against_impl": int(self.traces),
            "samples": self.samples or ["(no sample recorded)"],
            "tlc_runs": self.models,
            "skipped_inputs": self.skipped,
            "known_findings_hit": self.known_hits,
            "exhaustive": bool(self.exhaustive),
        }
        cov.update(self.extra)
        ev = {"property_id": self.pid, "tier": self.tier, "seed": int(self.seed),
              "level": "model_checking", "coverage": cov,
              "assumptions": self.assumptions, "wall_s": round(wall, 2),
              "violations": len(self.violations)}
        os.makedirs(os.path.join(VERIF, "evidence"), exist_ok=True)
        with open(os.path.join(VERIF, "evidence", self.pid + ".json"), "w") as fh:
            json.dump(ev, fh, indent=1, default=str)
        shutil.rmtree(self.work, ignore_errors=True)
        print("%s %s: states=%d transitions=%d impl_traces=%d violations=%d known=%d wall=%.1fs"
              % (self.pid, self.tier, self.states, self.transitions, self.traces,
                 len(self.violations), sum(self.known_hits.values()), wall))
        return 1 if self.violations else 0


def run_driver(pid, main, tier, seed):
    ctx = Ctx(pid, tier, seed)
    try:
        main(ctx)
        rc = ctx.finish()
    except T.MachineryError as ex:
        print("MACHINERY-FAILURE property=%s: %s" % (pid, ex), file=sys.stderr)
        shutil.rmtree(ctx.work, ignore_errors=True)
        return 2
    except Exception:
        traceback.print_exc()
        print("MACHINERY-FAILURE property=%s: driver exception" % pid, file=sys.stderr)
        shutil.rmtree(ctx.work, ignore_errors=True)
        return 2
    return rc
