"""Executing behaviours of spec/Lens.tla on a real Optic (spec -> code) and
recording histories of real calls (code -> spec).

Spec units: integers in 1/8 (mm, rad, unitless); INF = 1000000.
Spec surface index k is 1-based (k = 1 is the object); code index = k - 1.
"""
import json
import math
import os
import tempfile

import numpy as np

from harness import project as P

INF = 1000000
MEDIA = {"air": 1.0, "n15": 1.5, "n2": 2.0}


def u(v):
    """spec integer -> float."""
    if v == INF:
        return float("inf")
    if v == -INF:
        return float("-inf")
    return v / 8.0


def to_int(x):
    """float -> spec integer, or None when not representable."""
    if math.isinf(x):
        return INF if x > 0 else -INF
    y = x * 8.0
    if y != y or not float(y).is_integer():
        return None
    return int(y)


def medium_arg(tok):
    from optiland.materials import IdealMaterial
    if tok in ("air", "mirror"):
        return tok
    return IdealMaterial(n=MEDIA[tok], k=0)


def medium_tok(nvals):
    for tok, n in MEDIA.items():
        if all(v == n for v in nvals):
            return tok
    return "?%r" % (nvals,)


def new_optic():
    from optiland.optic import Optic
    optic = Optic()
    optic.set_aperture("EPD", 1.0)
    optic.set_field_type("angle")
    optic.add_field(y=0)
    return optic


def add_surface(optic, a, index=None):
    kw = dict(index=optic.surface_group.num_surfaces if index is None else index,
              surface_type="standard" if a["kind"] == "std" else "even_asphere",
              radius=u(a["R"]), conic=u(a["k"]), thickness=u(a["t"]),
              material=medium_arg(a["med"]), is_stop=bool(a["stop"]))
    if a["kind"] == "asph":
        kw["coefficients"] = [u(a["c1"])]
    if a.get("dx", 0):
        kw["dx"] = u(a["dx"])
    if a.get("rx", 0):
        kw["rx"] = u(a["rx"])
    optic.add_surface(**kw)


def build_from_state(st):
    """Build, through the public API, the lens whose abstract state is st."""
    optic = new_optic()
    sf = st["surf"]
    for j, s in enumerate(sf):
        if j + 1 < len(sf):
            zn, z = sf[j + 1]["z"], s["z"]
            t = INF if z == -INF else zn - z
        else:
            t = 0
        a = {"kind": s["kind"], "R": s["R"], "k": s["k"], "c1": s["c1"], "t": t,
             "med": "mirror" if s["refl"] else s["post"], "stop": s["stop"],
             "dx": s["dx"], "rx": s["rx"]}
        add_surface(optic, a)
    for w in st["wl"]:
        optic.add_wavelength(u(w["v"]), is_primary=w["primary"])
    return optic


def apply_call(optic, op, a):
    """Perform one spec call on the real lens.  Returns the (possibly new) optic."""
    from optiland.optimization.variable import Variable
    if op == "add_surface":
        add_surface(optic, a)
    elif op == "set_radius":
        optic.set_radius(u(a["v"]), a["k"] - 1)
    elif op == "set_conic":
        optic.set_conic(u(a["v"]), a["k"] - 1)
    elif op == "set_thickness":
        optic.set_thickness(u(a["v"]), a["k"] - 1)
    elif op == "set_index":
        optic.set_index(MEDIA[a["v"]], a["k"] - 1)
    elif op == "set_asphere_coeff":
        optic.set_asphere_coeff(u(a["v"]), a["k"] - 1, 0)
    elif op == "set_tilt":
        Variable(optic, "tilt", surface_number=a["k"] - 1, axis="x").update(u(a["v"]))
    elif op == "set_decentre":
        Variable(optic, "decenter", surface_number=a["k"] - 1, axis="x").update(u(a["v"]))
    elif op == "add_wavelength":
        optic.add_wavelength(u(a["v"]), is_primary=bool(a["p"]))
    elif op == "pickup_add":
        optic.pickups.add(a["src"] - 1, a["attr"], a["tgt"] - 1, scale=a["scale"],
                          offset=u(a["off"]))
    elif op == "update":
        optic.update()
    elif op == "scale_system":
        if optic.aperture is None:
            optic.set_aperture("EPD", 1.0)
        optic.scale_system(a["v"])
    elif op == "insert_surface":
        if a["i"] % 2 == 0:
            # the other public way in: a ready-made Surface object (its own flag says whether it is the stop)
            from optiland.coordinate_system import CoordinateSystem
            from optiland.geometries import Plane
            from optiland.materials import IdealMaterial
            from optiland.surfaces.standard_surface import Surface
            air = IdealMaterial(n=1.0, k=0.0)
            sf = Surface(Plane(CoordinateSystem(z=0.0)), air, air, is_stop=bool(a["stop"]))
            optic.add_surface(new_surface=sf, index=a["i"] - 1)
        else:
            optic.add_surface(index=a["i"] - 1, is_stop=bool(a["stop"]))
    elif op == "remove_surface":
        optic.surface_group.remove_surface(a["i"] - 1)
    elif op == "reset":
        optic.reset()
        optic.set_aperture("EPD", 1.0)      # the settings new_optic() gives a fresh Optic
        optic.set_field_type("angle")
        optic.add_field(y=0)
    elif op == "save_load":
        from optiland.optic import Optic
        if a["how"] == "dict":
            optic = Optic.from_dict(optic.to_dict())
        else:
            from optiland.fileio import save_optiland_file, load_optiland_file
            fd, path = tempfile.mkstemp(suffix=".json", dir=os.environ.get("VERIF_WORK"))
            os.close(fd)
            try:
                save_optiland_file(optic, path)
                optic = load_optiland_file(path)
            finally:
                os.remove(path)
    else:
        raise ValueError("unknown op %s" % op)
    return optic


def abstract(optic):
    """Abstract state (spec integers/tokens) of the real lens, or a dict with
    key 'unrepresentable' naming the first field that has left the grid."""
    p = P.project(optic)
    res = _abstract(p)
    res["_raw"] = p
    return res


def _abstract(p):
    surf = []
    for j, s in enumerate(p["surf"]):
        rec = {}
        for key, val in (("z", s["z"]), ("R", s["R"]), ("k", s["k"]), ("dx", s["dx"]), ("rx", s["rx"])):
            iv = to_int(val)
            if iv is None:
                return {"unrepresentable": "surf[%d].%s=%r" % (j + 1, key, val)}
            rec[key] = iv
        cf = s["coef"]
        c1 = to_int(cf[0]) if cf else 0
        if c1 is None or len(cf) > 1:
            return {"unrepresentable": "surf[%d].coef=%r" % (j + 1, cf)}
        rec["c1"] = c1
        rec["kind"] = {"Plane": "std", "StandardGeometry": "std", "EvenAsphere": "asph"}.get(s["kind"], s["kind"])
        rec["pre"] = medium_tok(s["npost"] if j == 0 else s["npre"])  # object: one medium
        rec["post"] = medium_tok(s["npost"])
        rec["stop"] = s["stop"]
        rec["refl"] = s["refl"]
        if s["dy"] != 0 or s["ry"] != 0:
            return {"unrepresentable": "surf[%d] dy/ry" % (j + 1)}
        surf.append(rec)
    wl = []
    for w in p["wl"]:
        iv = to_int(w["v"])
        if iv is None:
            return {"unrepresentable": "wl=%r" % w["v"]}
        wl.append({"v": iv, "primary": w["primary"]})
    return {"surf": surf, "wl": wl}


def diff_state(exp, got):
    """First difference between the spec state and the abstract code state."""
    if exp.get("tainted"):
        # after insertion in the middle / removal only count, stop flags and wavelengths are specified
        p = got.get("_raw")
        if p is None:
            return "no raw projection"
        if len(exp["surf"]) != len(p["surf"]):
            return "surface count %d vs %d" % (len(exp["surf"]), len(p["surf"]))
        es = [s["stop"] for s in exp["surf"]]
        gs = [s["stop"] for s in p["surf"]]
        if es != gs:
            return "stop flags: spec %r code %r" % (es, gs)
        ew = [w["primary"] for w in exp["wl"]]
        gw = [w["primary"] for w in p["wl"]]
        if ew != gw:
            return "primary flags: spec %r code %r" % (ew, gw)
        return None
    if "unrepresentable" in got:
        return got["unrepresentable"]
    if len(exp["surf"]) != len(got["surf"]):
        return "surface count %d vs %d" % (len(exp["surf"]), len(got["surf"]))
    for j, (a, b) in enumerate(zip(exp["surf"], got["surf"])):
        for key in ("z", "R", "k", "c1", "kind", "pre", "post", "stop", "refl", "dx", "rx"):
            if a[key] != b[key]:
                return "surf[%d].%s: spec %r code %r" % (j + 1, key, a[key], b[key])
    if exp["wl"] != got["wl"]:
        return "wl: spec %r code %r" % (exp["wl"], got["wl"])
    return None
