"""Recording for C08: what the aberration interface of a live Optic returns, as exact dyadic
numbers, for spec/Seidel.tla.  Nothing here evaluates a Seidel formula."""
import math

import numpy as np

from harness.dy import dy
from harness.parax import _f, _flt, _ray

FAM = ["TSC", "SC", "CC", "TCC", "TAC", "AC", "TPC", "PC", "DC", "TAchC", "LchC", "TchC"]
EPS = (0.125, 0.0625)
NOISE = 2.0 ** -33


def table_medium(nd, dn):
    """A medium with a three-wavelength index table (n_d, n_F = n_d + dn/2, n_C = n_d - dn/2):
    the driver-side dispersive glass of the MC_Seidel grid (dyadic values, so n_F - n_C is exact)."""
    from optiland.materials.base import BaseMaterial

    class TableMedium(BaseMaterial):
        def __init__(self, nd, dn):
            self.nd, self.dn = nd, dn

        def n(self, wavelength):
            w = float(np.asarray(wavelength, dtype=float).ravel()[0])
            if abs(w - 0.4861) < 2e-3:
                return self.nd + self.dn / 2
            if abs(w - 0.6563) < 2e-3:
                return self.nd - self.dn / 2
            return self.nd

        def k(self, wavelength):
            return 0.0
    return TableMedium(nd, dn)


def _arr(a):
    return [float(v) for v in np.asarray(a, dtype=float).ravel()]


def record(optic, info, small_aperture=True):
    """Returns (E record with dyadic numbers, raw floats).  May mutate the optic at the very end
    (image_solve for the small-aperture data); the optic is not used afterwards."""
    from optiland.optimization.operand.aberration import AberrationOperand as AO
    K = info["K"]
    n = K - 1
    ab = optic.aberrations
    wl = optic.primary_wavelength
    raw = {}
    with np.errstate(all="ignore"):
        ym, um = _flt(*optic.paraxial.marginal_ray())
        yc, uc = _flt(*optic.paraxial.chief_ray())
        dn = _arr(optic.n(0.4861) - optic.n(0.6563))[:K + 1]
        res = ab.third_order()
        T = {f: _arr(res[i]) for i, f in enumerate(FAM)}
        S = _arr(res[12])
        acc = {f: _arr(getattr(ab, f)()) for f in FAM}
        accS = _arr(ab.seidels())
        op = {}
        raised = 0
        for f in FAM:
            vals = []
            for k in range(1, n + 1):
                try:
                    vals.append(float(np.asarray(getattr(AO, f)(optic, k)).ravel()[0]))
                except IndexError:
                    vals.append(math.nan)
                    raised += 1
            op[f] = vals
        opsum = [float(getattr(AO, f + "_sum")(optic)) for f in FAM]
        opS = [float(np.asarray(AO.seidels(optic, i)).ravel()[0]) for i in range(1, 6)]
    raw.update(T=T, S=S, ma=(ym, um), ch=(yc, uc), dn=dn, operand_raised=raised,
               inv=_f(optic.paraxial.invariant()))
    sa = {"has": False}
    if small_aperture:
        try:
            with np.errstate(all="ignore"):
                optic.image_solve()
                tsc2 = _arr(ab.TSC())
                yK = _f(optic.paraxial.marginal_ray()[0][-1])
                yr = []
                for e in EPS:
                    optic.trace_generic(0.0, 0.0, 0.0, e, wl)
                    yr.append(_f(optic.surface_group.y[-1]))
            if len(tsc2) == n and all(math.isfinite(v) for v in tsc2 + yr + [yK]):
                sa = {"has": True, "TSC": [dy(v) for v in tsc2], "yK": dy(yK), "yr": [dy(v) for v in yr],
                      "eps": [dy(e) for e in EPS], "noise": dy(NOISE)}
                raw["sa"] = {"TSC_sum": sum(tsc2), "yK": yK, "yr": yr}
        except Exception as ex:          # afocal lens, ray failure: no small-aperture claim
            raw["sa_error"] = "%s: %s" % (type(ex).__name__, ex)
    D = lambda seq: [dy(v) for v in seq]
    # what the field specification says the chief ray carries (see clause chief_carries_field)
    finite = not optic.object_surface.is_infinite
    mf = float(optic.fields.max_field)
    if finite and optic.field_type == "object_height":
        fs = {"kind": "height", "v": dy(mf)}
    elif not finite and optic.field_type == "angle":
        fs = {"kind": "angle", "v": dy(math.tan(math.radians(mf)))}
    else:
        fs = {"kind": "none", "v": dy(0.0)}
    E = {"fs": fs, "ma": _ray(ym, um), "ch": _ray(yc, uc), "dn": D(dn), "T": {f: D(T[f]) for f in FAM}, "S": D(S),
         "acc": {f: D(acc[f]) for f in FAM}, "accS": D(accS), "op": {f: D(op[f]) for f in FAM},
         "opsum": D(opsum), "opS": D(opS), "sa": sa}
    return E, raw
