"""Recorders for C10: run optiland.zernike / ZernikeOPD and write down what went in
and what came out as exact dyadic numbers.  Nothing here computes an expected
value; the laws are in spec/Zernike.tla and are evaluated by TLC.
"""
import math
import random

import numpy as np

from harness.dy import dy

FAMILIES = ("standard", "noll", "fringe")
# square-root certificates sqt[k-1] ~ sqrt(k); the spec validates sqt[k]^2 = k
SQT = [dy(math.sqrt(k)) for k in range(1, 41)]


def family_class(fam):
    from optiland import zernike as Z
    return {"standard": Z.ZernikeStandard, "noll": Z.ZernikeNoll, "fringe": Z.ZernikeFringe}[fam]


def _f(v):
    """python float of a numpy scalar / 0-d / 1-element array."""
    return float(np.ravel(np.asarray(v, dtype=float))[0])


def dyl(seq):
    return [dy(float(v)) for v in seq]


# ---------------------------------------------------------------- single terms
def term_event(fam, j, r, phi, coeff, as_array):
    """One index of one family at one point: every public/anchored piece."""
    z = family_class(fam)()
    n, m = z.indices[j - 1]
    rr = np.array([r, 0.5 * r]) if as_array else r
    pp = np.array([phi, phi]) if as_array else phi
    return {"kind": "term", "fam": fam, "j": j, "n": int(n), "m": int(m),
            "r": dy(r), "c1": dy(math.cos(phi)), "s1": dy(math.sin(phi)), "coeff": dy(coeff),
            "rad": dy(_f(z._radial_term(n, m, rr))), "norm": dy(_f(z._norm_constant(n, m))),
            "az": dy(_f(z._azimuthal_term(m, pp))), "val": dy(_f(z.get_term(coeff, n, m, rr, pp))),
            "sqt": SQT, "_meta": {"phi": phi, "array": bool(as_array), "r": r, "coeff": coeff}}


# ---------------------------------------------------------------- poly: linearity
def lin_event(fam, ca, cb, a, b, r, phi, as_array):
    cls = family_class(fam)
    ca = np.asarray(ca, dtype=float)
    cb = np.asarray(cb, dtype=float)
    cc = a * ca + b * cb
    rr = np.array([r, 0.25]) if as_array else r
    pp = np.array([phi, 1.0]) if as_array else phi
    use_list = not as_array            # coefficient container: list or ndarray
    mk = (lambda c: cls(list(map(float, c)))) if use_list else (lambda c: cls(c))
    return {"kind": "lin", "fam": fam, "ca": dyl(ca), "cb": dyl(cb), "cc": dyl(cc), "a": dy(a), "b": dy(b),
            "r": dy(r), "c1": dy(math.cos(phi)), "s1": dy(math.sin(phi)),
            "pa": dy(_f(mk(ca).poly(rr, pp))), "pb": dy(_f(mk(cb).poly(rr, pp))), "pc": dy(_f(mk(cc).poly(rr, pp))),
            "sqt": SQT, "_meta": {"phi": phi, "r": r, "N": len(ca), "array": bool(as_array),
                                  "ca": list(map(float, ca)), "cb": list(map(float, cb)), "a": a, "b": b}}


# ---------------------------------------------------------------- point sets
def hexapolar(nr):
    x, y = [0.0], [0.0]
    for i in range(1, nr + 1):
        for k in range(6 * i):
            th = 2 * math.pi * k / (6 * i)
            x.append(i / nr * math.cos(th))
            y.append(i / nr * math.sin(th))
    return np.array(x), np.array(y)


def point_set(rnd, N, style=None):
    """A point set with at least N points in the unit disk.  Returns (style, x, y)."""
    style = style or rnd.choice(["hexapolar", "hexapolar_rot", "uniform", "grid", "fibonacci", "rings_jitter"])
    if style in ("hexapolar", "hexapolar_rot", "rings_jitter"):
        nr = 1
        while 1 + 3 * nr * (nr + 1) < max(N + 2, int(1.3 * N)):
            nr += 1
        nr += rnd.randint(0, 2)
        x, y = hexapolar(nr)
        if style == "hexapolar_rot":
            t = rnd.uniform(0, math.pi)
            s = rnd.uniform(0.9, 1.0)
            x, y = s * (x * math.cos(t) - y * math.sin(t)), s * (x * math.sin(t) + y * math.cos(t))
        elif style == "rings_jitter":
            jx = np.array([rnd.uniform(-0.3, 0.3) / nr for _ in x])
            jy = np.array([rnd.uniform(-0.3, 0.3) / nr for _ in x])
            x, y = x + jx, y + jy
            rr = np.maximum(1.0, np.sqrt(x * x + y * y) * (1 + 1e-12))
            x, y = x / rr, y / rr
    elif style == "uniform":
        K = int(N * rnd.uniform(1.5, 3.0)) + rnd.randint(2, 12)
        rr = np.sqrt(np.array([rnd.random() for _ in range(K)]))
        th = np.array([rnd.uniform(0, 2 * math.pi) for _ in range(K)])
        x, y = rr * np.cos(th), rr * np.sin(th)
    elif style == "grid":
        g = 3
        while True:
            ax = np.linspace(-1, 1, g)
            X, Y = np.meshgrid(ax, ax)
            keep = X * X + Y * Y <= 1.0
            if keep.sum() >= max(N + 2, int(1.5 * N)):
                break
            g += 1
        x, y = X[keep].ravel(), Y[keep].ravel()
    elif style == "fibonacci":
        K = int(N * rnd.uniform(1.3, 2.5)) + rnd.randint(2, 10)
        k = np.arange(K) + 0.5
        rr = np.sqrt(k / K)
        th = math.pi * (1 + 5 ** 0.5) * k + rnd.uniform(0, 1)
        x, y = rr * np.cos(th), rr * np.sin(th)
    else:
        raise ValueError(style)
    return style, np.asarray(x, dtype=float), np.asarray(y, dtype=float)


TABLES = None      # index lists / coefficient vectors / N^2 exported by TLC (set by the driver before forking)


def design_cond(fam, N, x, y):
    """Condition number of the N-column design matrix on the points: the generator's
    'well spread' filter.  Built from the tables TLC exported from spec/Zernike.tla, so
    that it does not depend on the code under test; it judges nothing."""
    r = np.sqrt(x * x + y * y)
    p = np.arctan2(y, x)
    cols = []
    for i, (n, m) in enumerate(TABLES["idx"][fam][:N]):
        coef = TABLES["rc"][(n, abs(m))]["coef"]
        rad = sum(c * r ** (n - 2 * k) for k, c in enumerate(coef))
        ang = np.cos(m * p) if m >= 0 else np.sin(-m * p)
        cols.append(math.sqrt(TABLES["n2"][(fam, i + 1)]) * rad * ang * np.ones_like(r))
    sv = np.linalg.svd(np.array(cols).T, compute_uv=False)
    return float(sv[0] / sv[-1]) if sv[-1] > 0 else float("inf")


def random_coeffs(rnd, N):
    mode = rnd.choice(["uniform", "decades", "sparse", "unit", "large"])
    if mode == "large":       # hundreds to thousands of waves (a strongly defocused or aberrated wavefront)
        s = 10 ** rnd.uniform(2, 4)
        c = [rnd.uniform(-1, 1) * s for _ in range(N)]
    elif mode == "uniform":
        c = [rnd.uniform(-1, 1) for _ in range(N)]
    elif mode == "decades":
        c = [rnd.uniform(-1, 1) * 10 ** rnd.uniform(-3, 2) for _ in range(N)]
    elif mode == "sparse":
        c = [rnd.uniform(-2, 2) if rnd.random() < 0.3 else 0.0 for _ in range(N)]
        c[rnd.randrange(N)] = rnd.uniform(0.5, 2)
    else:
        c = [0.0] * N
        c[rnd.randrange(N)] = rnd.choice([-1.0, 1.0])
    return c


# ---------------------------------------------------------------- fits
def fit_task(args):
    """('fit', seed, fam, N, condmax) -> event or skip record.  Runs in a worker process."""
    from optiland import zernike as Z
    kind, seed, fam, N, condmax = args
    rnd = random.Random(seed)
    style, x, y = point_set(rnd, N)
    cond = design_cond(fam, N, x, y)
    if not cond <= condmax:
        return {"skip": "ill-conditioned point set (cond > %g)" % condmax, "style": style, "cond": cond}
    r = np.sqrt(x * x + y * y)
    p = np.arctan2(y, x)
    K = len(x)
    if kind == "fit":
        c = random_coeffs(rnd, N)
        z = family_class(fam)(c).poly(r, p) * np.ones(K)
        fit = Z.ZernikeFit(x, y, z, fam, N)
        spots = sorted(rnd.sample(range(1, K + 1), min(K, 2)))
        return {"kind": "fit", "fam": fam, "N": N, "xs": dyl(x), "ys": dyl(y), "z": dyl(z), "ctrue": dyl(c),
                "cfit": dyl(np.ravel(fit.coeffs)), "spots": spots, "sqt": SQT,
                "_meta": {"style": style, "cond": cond, "K": K, "seed": seed, "ctrue": list(map(float, c)),
                          "cfit": list(map(float, np.ravel(fit.coeffs)))}}
    # linearity of the fit in the data: data need not lie in the span of the N terms
    z1 = family_class(fam)(random_coeffs(rnd, N)).poly(r, p) * np.ones(K)
    extra = family_class(fam)(random_coeffs(rnd, min(120, N + rnd.randint(1, 12)))).poly(r, p) * np.ones(K)
    z2 = extra + np.array([rnd.gauss(0, 0.2) for _ in range(K)])
    if rnd.random() < 0.5:
        z1 = z1 + np.array([rnd.gauss(0, 0.05) for _ in range(K)])
    a, b = rnd.uniform(-2, 2), rnd.uniform(-2, 2)
    z3 = a * z1 + b * z2
    f1 = Z.ZernikeFit(x, y, z1, fam, N).coeffs
    f2 = Z.ZernikeFit(x, y, z2, fam, N).coeffs
    f3 = Z.ZernikeFit(x, y, z3, fam, N).coeffs
    return {"kind": "fitlin", "fam": fam, "N": N, "a": dy(a), "b": dy(b), "z1": dyl(z1), "z2": dyl(z2), "z3": dyl(z3),
            "f1": dyl(np.ravel(f1)), "f2": dyl(np.ravel(f2)), "f3": dyl(np.ravel(f3)),
            "_meta": {"style": style, "cond": cond, "K": K, "seed": seed}}


# ---------------------------------------------------------------- wavefront decomposition
def opd_task(args):
    """(lens_spec, field_index, fam, N, N1, num_rings, seed) -> event / skip / error."""
    from optiland import wavefront as W
    from optiland import zernike as Z
    from harness import lensgen as G
    lens_spec, fidx, fam, N, N1, rings, seed = args
    try:
        if lens_spec[0] == "sample":
            cls = {c.__name__: c for c in G.sample_classes()}[lens_spec[1]]
            optic = G.quiet(cls)
            name = lens_spec[1]
        elif lens_spec[0] == "directed":
            from harness import diffrec
            optic = G.quiet(getattr(diffrec, lens_spec[1]))
            name = lens_spec[1]
        else:
            # (every second random lens carries physical apertures: clipped rays keep their OPD - they
            # are samples of the wavefront like the others)
            optic, meta = G.random_lens(random.Random(lens_spec[1]), kinds=("standard", "standard", "even_asphere"),
                                        nsurf=random.Random(lens_spec[1]).randint(2, 6),
                                        apertures=(lens_spec[1] % 2 == 1))
            name = "random seed %d" % lens_spec[1]
    except Exception as ex:
        return {"skip": "lens could not be built", "detail": "%s: %s" % (type(ex).__name__, ex), "lens": str(lens_spec)}
    fields = optic.fields.get_field_coords()
    field = fields[fidx % len(fields)]
    wl = optic.primary_wavelength
    try:
        zo = G.quiet(W.ZernikeOPD, optic, field, wl, num_rings=rings, zernike_type=fam, num_terms=N)
    except Exception as ex:
        return {"error": "%s: %s" % (type(ex).__name__, ex), "lens": name, "field": list(map(float, field)), "fam": fam, "N": N}
    x = np.asarray(zo.distribution.x, dtype=float)
    y = np.asarray(zo.distribution.y, dtype=float)
    z = np.asarray(zo.data[0][0][0], dtype=float)
    if not (np.all(np.isfinite(z)) and len(z) == len(x)):
        return {"skip": "OPD samples not finite (rays lost)", "lens": name}
    recon = np.asarray(zo.zernike.poly(zo.radius, zo.phi), dtype=float) * np.ones(len(x))
    rms = float(np.sqrt(np.mean((recon - z) ** 2)))          # what view_residual() reports
    coeffs = np.ravel(np.asarray(zo.coeffs, dtype=float))
    f1 = Z.ZernikeFit(x, y, z, fam, N1)
    recon1 = np.asarray(f1.zernike.poly(f1.radius, f1.phi), dtype=float) * np.ones(len(x))
    return {"kind": "opd", "fam": fam, "N": N, "N1": N1, "xs": dyl(x), "ys": dyl(y), "z": dyl(z), "coeffs": dyl(coeffs),
            "recon": dyl(recon), "recon1": dyl(recon1), "rms": dy(rms), "sqt": SQT,
            "_meta": {"lens": name, "field": list(map(float, field)), "wavelength": float(wl), "K": len(x), "rings": rings,
                      "residual_rms_waves": rms, "opd_rms_waves": float(np.sqrt(np.mean(z ** 2))),
                      "x": list(map(float, x)), "y": list(map(float, y)), "coeffs": list(map(float, coeffs))}}
