"""Recording for spec/Wavefront.tla (C09) and spec/Stigmatic.tla (C06).

Reads only observation points: surface_group.x/y/z/L/M/N/opd after
optic.trace_generic (first row = launch records on the object surface, last row =
image surface), surface_group.positions, paraxial.XPL(), the media of object and
image space.  Nothing here computes an expected OPD: the only derived number is
the back-propagation distance t to the reference sphere, logged as a
*certificate* that the spec verifies (it satisfies the sphere equation and is the
meant root).
"""
import math
from fractions import Fraction

import numpy as np

from harness.dy import dy

ZERO = dy(0.0)
NOFAN = [0, 0, ZERO, ZERO]


def _f(x):
    return float(np.asarray(x, dtype=float).ravel()[0])


def lens_constants(optic, w):
    """zi, XPL, image / object space index at w.  Call BEFORE tracing: the paraxial
    accessors trace paraxial rays and overwrite the per-surface records."""
    sg = optic.surface_group
    ztol = 0.0
    for sf in sg.surfaces:
        g = sf.geometry
        if type(g).__name__ not in ("Plane", "StandardGeometry"):
            ztol += _f(g.tol) * (_f(sf.material_pre.n(w)) + _f(sf.material_post.n(w)))
    return {"ztol": ztol, "zi": _f(sg.positions[-1]), "xpl": _f(optic.paraxial.XPL()),
            # The image surface is an ordinary surface: its record holds the direction AFTER it, in its
            # material_post (air unless the caller gave the image surface a medium).  That medium is the
            # space in which the ray is continued back to the reference sphere.
            "nimg": _f(optic.image_surface.material_post.n(w)),
            "nimg_pre": _f(optic.image_surface.material_pre.n(w)),
            "nobj": _f(optic.object_surface.material_post.n(w)),
            "inf": bool(optic.object_surface.is_infinite)}


def trace_records(optic, Hx, Hy, px, py, w):
    """Image-surface and launch records of the samples (px, py) of field (Hx, Hy)."""
    px = np.array(px, dtype=float).ravel().copy()      # trace_generic scales its arguments in place
    py = np.array(py, dtype=float).ravel().copy()
    n = px.size
    optic.trace_generic(np.full(n, float(Hx)), np.full(n, float(Hy)), px, py, w)
    sg = optic.surface_group
    X, Y, Z, L, M, N, O = (np.array(a) for a in (sg.x, sg.y, sg.z, sg.L, sg.M, sg.N, sg.opd))
    out = []
    for r in range(n):
        out.append({"P": [float(X[-1, r]), float(Y[-1, r]), float(Z[-1, r])],
                    "d": [float(L[-1, r]), float(M[-1, r]), float(N[-1, r])],
                    "o": float(O[-1, r]),
                    "p0": [float(X[0, r]), float(Y[0, r]), float(Z[0, r])],
                    "d0": [float(L[0, r]), float(M[0, r]), float(N[0, r])]})
    return out


def chief_record(optic, Hx, Hy, w):
    """The chief ray, traced alone (pupil point (0, 0))."""
    optic.trace_generic(float(Hx), float(Hy), 0.0, 0.0, w)
    sg = optic.surface_group
    g = lambda a, k: float(np.asarray(a)[k, 0])
    return {"P": [g(sg.x, -1), g(sg.y, -1), g(sg.z, -1)], "d": [g(sg.L, -1), g(sg.M, -1), g(sg.N, -1)],
            "o": g(sg.opd, -1), "p0": [g(sg.x, 0), g(sg.y, 0), g(sg.z, 0)],
            "d0": [g(sg.L, 0), g(sg.M, 0), g(sg.N, 0)]}


def back_distance(P, d, C, X):
    """Certificate: t with |P - t d - C| = |C - X|, the root reached first going
    backwards from the image surface (t > 0 when P is inside the sphere).  Float
    solution of the quadratic, polished by one Newton step in exact rationals.
    NaN when there is no (finite) solution.  The spec does not trust this value."""
    vals = list(P) + list(d) + list(C) + list(X)
    if not all(math.isfinite(v) for v in vals):
        return float("nan")
    u = [P[i] - C[i] for i in range(3)]
    a = sum(v * v for v in d)
    pb = sum(u[i] * d[i] for i in range(3))
    r2 = sum((C[i] - X[i]) ** 2 for i in range(3))
    c = sum(v * v for v in u) - r2
    disc = pb * pb - a * c
    if disc < 0 or a == 0:
        return float("nan")
    s = math.sqrt(disc)
    if c < 0:
        t = (pb + s) / a
    else:                       # outside the sphere: nearest intersection (not judged by the spec)
        t1, t2 = (pb - s) / a, (pb + s) / a
        t = t1 if t1 >= 0 else t2
    F = Fraction
    tf = F(t)
    w = [F(P[i]) - tf * F(d[i]) - F(C[i]) for i in range(3)]
    q = sum(v * v for v in w) - sum((F(C[i]) - F(X[i])) ** 2 for i in range(3))
    dq = -2 * sum(w[i] * F(d[i]) for i in range(3))
    if dq != 0:
        t = float(tf - q / dq)
    return t


def sample_event(const, lam, chief, ray, opd, is_chief, full=True, fan=None):
    """One "ray" event of spec/Wavefront.tla (without id)."""
    X = [0.0, 0.0, const["zi"] + const["xpl"]]
    tc = back_distance(chief["P"], chief["d"], chief["P"], X)
    t = back_distance(ray["P"], ray["d"], chief["P"], X)
    v = lambda xs: [dy(x) for x in xs]
    return {"kind": "ray", "C": v(chief["P"]), "dc": v(chief["d"]), "oc": dy(chief["o"]), "tc": dy(tc),
            "pc0": v(chief["p0"]), "d0c": v(chief["d0"]),
            "zi": dy(const["zi"]), "xpl": dy(const["xpl"]),
            "P": v(ray["P"]), "d": v(ray["d"]), "o": dy(ray["o"]), "t": dy(t),
            "p0": v(ray["p0"]), "d0": v(ray["d0"]),
            "nimg": dy(const["nimg"]), "nobj": dy(const["nobj"]), "lam": dy(float(lam)),
            "inf": const["inf"], "ztol": dy(const["ztol"]), "opd": dy(float(opd)), "chief": bool(is_chief), "full": bool(full),
            "fan": fan if fan is not None else NOFAN}


def rms_event(opds, val):
    return {"kind": "rms", "opds": [dy(float(x)) for x in opds], "val": dy(float(val))}


def opdiff_event(opds, weights, val):
    return {"kind": "opdiff", "opds": [dy(float(x)) for x in opds],
            "ws": [dy(float(x)) for x in weights], "val": dy(float(val))}
