"""Entry point: ./check <id> [--tier quick|thorough] [--replay path]."""
import argparse
import importlib
import json
import os
import sys

from harness import core


def main():
    ap = argparse.ArgumentParser()
    ap.add_argument("pid")
    ap.add_argument("--tier", default=os.environ.get("VERIF_TIER", "quick"),
                    choices=["quick", "thorough"])
    ap.add_argument("--replay", default=None)
    a = ap.parse_args()
    seed = int(os.environ.get("VERIF_SEED", "0") or 0)
    pid = a.pid.upper()
    try:
        mod = importlib.import_module("harness.drivers.%s" % pid.lower())
    except ImportError as ex:
        print("MACHINERY-FAILURE property=%s: no driver (%s)" % (pid, ex), file=sys.stderr)
        sys.exit(2)
    if a.replay:
        with open(a.replay) as fh:
            rep = json.load(fh)
        if not hasattr(mod, "replay"):
            print("driver %s has no replay()" % pid, file=sys.stderr)
            sys.exit(2)
        sys.exit(core.run_driver(pid, lambda ctx: mod.replay(ctx, rep), a.tier, seed))
    sys.exit(core.run_driver(pid, mod.main, a.tier, seed))


if __name__ == "__main__":
    main()
