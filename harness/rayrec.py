"""Recording of real-ray traces as (ray, surface) events for spec/RayStep.tla.

Reads only the observation points of C02/C16: surface_group.x/y/z/L/M/N/opd/
intensity after a trace, surface.geometry parameters and cs, material n/k.
"""
import math

import numpy as np

from harness.dy import dy

ZERO = dy(0.0)
ONE = dy(1.0)


def _f(x):
    return float(np.asarray(x, dtype=float).ravel()[0])


def surface_desc(surface, w):
    """Geometry/media description of one surface at wavelength w (um)."""
    g = surface.geometry
    cs = g.cs
    name = type(g).__name__
    rx, ry = _f(cs.rx), _f(cs.ry)
    if _f(getattr(cs, "rz", 0.0)) != 0.0:
        raise ValueError("rz not modelled")
    d = {"v": [dy(_f(cs.x)), dy(_f(cs.y)), dy(_f(cs.z))],
         "rot": [dy(math.cos(rx)), dy(math.sin(rx)), dy(math.cos(ry)), dy(math.sin(ry))],
         "R": dy(_f(g.radius)), "kk": dy(_f(getattr(g, "k", 0.0))), "terms": [], "tol": ZERO}
    if name == "Plane":
        d["shape"] = "plane"
    elif name == "StandardGeometry":
        d["shape"] = "conic"
    else:
        d["shape"] = "sag"
        d["tol"] = dy(_f(g.tol))
        c = np.asarray(g.c, dtype=float)
        if name == "EvenAsphere":
            for q, cq in enumerate(c.ravel()):
                if cq != 0.0:
                    d["terms"].append({"t": "r", "a": dy(float(cq)), "n": q + 1, "i": 0, "j": 0, "sx": 0, "sy": 0})
        elif name == "PolynomialGeometry":
            for i in range(c.shape[0]):
                for j in range(c.shape[1]):
                    if c[i, j] != 0.0:
                        d["terms"].append({"t": "xy", "a": dy(float(c[i, j])), "n": 0, "i": i, "j": j, "sx": 0, "sy": 0})
        elif name == "ChebyshevPolynomialGeometry":
            sx, sy = math.log2(_f(g.norm_x)), math.log2(_f(g.norm_y))
            if sx != int(sx) or sy != int(sy):
                raise ValueError("chebyshev norms must be powers of two for exact recording")
            for i in range(c.shape[0]):
                for j in range(c.shape[1]):
                    if c[i, j] != 0.0:
                        d["terms"].append({"t": "ch", "a": dy(float(c[i, j])), "n": 0, "i": i, "j": j,
                                           "sx": int(sx), "sy": int(sy)})
        else:
            raise ValueError("unknown geometry " + name)
    d["n1"] = dy(_f(surface.material_pre.n(w)))
    d["n2"] = dy(_f(surface.material_post.n(w)))
    d["refl"] = bool(surface.is_reflective)
    ap = surface.aperture
    if ap is None:
        d["ap"] = [False, ZERO, ZERO]
    else:
        d["ap"] = [True, dy(_f(ap.r_min)), dy(_f(ap.r_max))]
    coat = surface.coating
    cname = type(coat).__name__ if coat is not None else ""
    d["exact"] = cname in ("", "SimpleCoating") and surface.bsdf is None
    if cname == "SimpleCoating":
        d["tau"] = dy(_f(coat.reflectance if surface.is_reflective else coat.transmittance))
    else:
        d["tau"] = ONE
    d["_k1"] = _f(surface.material_pre.k(w))
    return d


def record_events(optic, w, ray_base=0, max_rays=None, polarized=False, returned=None, pick=None):
    """Events for every ray of the trace that was just performed on `optic`
    (optic.surface_group holds the per-surface records).  Returns list of
    events without ids."""
    sg = optic.surface_group
    X, Y, Z, L, M, N, O, I = sg.x, sg.y, sg.z, sg.L, sg.M, sg.N, sg.opd, sg.intensity
    ns = len(sg.surfaces)
    if X.shape[0] != ns:
        raise ValueError("not every surface recorded (%d of %d)" % (X.shape[0], ns))
    nr = X.shape[1]
    if max_rays is not None:
        nr = min(nr, max_rays)
    descs = [None] + [surface_desc(sg.surfaces[k], w) for k in range(1, ns)]
    events = []
    for r in (range(nr) if pick is None else pick):     # pick: the rays of the bundle that carry wavelength w
        for k in range(1, ns):
            d = descs[k]
            p0 = [float(X[k - 1, r]), float(Y[k - 1, r]), float(Z[k - 1, r])]
            p = [float(X[k, r]), float(Y[k, r]), float(Z[k, r])]
            dist = math.sqrt(sum((a - b) ** 2 for a, b in zip(p, p0)))
            k1 = d["_k1"]
            if k1 == 0.0 or not math.isfinite(dist):
                ab = 1.0
            else:
                ab = math.exp(-4.0 * math.pi * k1 / w * dist * 1e3)
            ev = {"id": None, "ray": ray_base + r, "k": k, "first": k == 1,
                  "p0": [dy(v) for v in p0],
                  "d0": [dy(float(L[k - 1, r])), dy(float(M[k - 1, r])), dy(float(N[k - 1, r]))],
                  "o0": dy(float(O[k - 1, r])), "i0": dy(float(I[k - 1, r])),
                  "p": [dy(v) for v in p],
                  "d": [dy(float(L[k, r])), dy(float(M[k, r])), dy(float(N[k, r]))],
                  "o": dy(float(O[k, r])), "i": dy(float(I[k, r])),
                  "ab": dy(ab), "kz": k1 == 0.0,
                  "last": returned is not None and k == ns - 1,
                  "ri": dy(float(np.ravel(returned.i)[r])) if (returned is not None and k == ns - 1) else ZERO}
            for key, val in d.items():
                if not key.startswith("_"):
                    ev[key] = val
            if polarized:
                ev["exact"] = False
            events.append(ev)
    return events
