"""float <-> exact dyadic record (see spec/Dyadic.tla).

A finite float64 is s * m * 2^e with m an odd positive integer; m is carried as
little-endian base-2^14 limbs because TLC has 32-bit integers and its JSON
reader mangles values >= 2^31.  Part of the trusted base (DESIGN section 2).
"""
import math
from fractions import Fraction

B_BITS = 14
B = 1 << B_BITS


def limbs(m):
    out = []
    while m:
        out.append(m & (B - 1))
        m >>= B_BITS
    return out


def from_limbs(ls):
    m = 0
    for i, d in enumerate(ls):
        m |= int(d) << (B_BITS * i)
    return m


def dy(x):
    """Exact dyadic record of a Python/numpy float (or int)."""
    if isinstance(x, int) and not isinstance(x, bool):
        num, den = x, 1
    else:
        x = float(x)
        if math.isnan(x):
            return {"k": "nan"}
        if math.isinf(x):
            return {"k": "inf", "s": 1 if x > 0 else -1}
        num, den = x.as_integer_ratio()
    if num == 0:
        return {"k": "fin", "s": 0, "e": 0, "m": []}
    s = 1 if num > 0 else -1
    num = abs(num)
    e = -(den.bit_length() - 1)
    tz = (num & -num).bit_length() - 1
    num >>= tz
    e += tz
    return {"k": "fin", "s": s, "e": e, "m": limbs(num)}


def dyfrac(fr):
    """Dyadic record of a Fraction whose denominator is a power of two."""
    fr = Fraction(fr)
    den = fr.denominator
    assert den & (den - 1) == 0, "not dyadic"
    num = fr.numerator
    if num == 0:
        return {"k": "fin", "s": 0, "e": 0, "m": []}
    s = 1 if num > 0 else -1
    num = abs(num)
    e = -(den.bit_length() - 1)
    tz = (num & -num).bit_length() - 1
    return {"k": "fin", "s": s, "e": e + tz, "m": limbs(num >> tz)}


def undy(d):
    """Back to Fraction / float('nan') / float('inf')."""
    if d["k"] == "nan":
        return float("nan")
    if d["k"] == "inf":
        return float("inf") * d["s"]
    return Fraction(d["s"] * from_limbs(d["m"])) * (Fraction(2) ** d["e"])


def dyv(seq):
    return [dy(v) for v in seq]


def tla(d):
    """TLA+ source text of a dyadic record (for generated modules)."""
    if d["k"] == "nan":
        return '[k |-> "nan"]'
    if d["k"] == "inf":
        return '[k |-> "inf", s |-> %d]' % d["s"]
    return '[k |-> "fin", s |-> %d, e |-> %d, m |-> <<%s>>]' % (
        d["s"], d["e"], ", ".join(str(x) for x in d["m"]))
