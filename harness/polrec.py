"""Recorders for C17 (spec/Polarization.tla): run the real optiland code and
write what it returned as exact dyadic numbers, together with the
certificates (cosines / sines, launch basis) the spec validates polynomially.

Observation points only: JonesFresnel(...).calculate_matrix(rays, reflect, aoi),
Jones*.calculate_matrix(rays), rays.i / rays.p / rays.L,M,N after optic.trace
with a PolarizationState, surface_group.L/M/N[0] (launch direction record).
Nothing here computes an expected value of a law.
"""
import math
import random

import numpy as np

from harness import lensgen as G
from harness.dy import dy

NAMED = ("H", "V", "L+45", "L-45", "RCP", "LCP")
CT_MIN = 0.02      # shell around the critical angle (see FRESBITS in Polarization.tla)
CI_MIN = 0.01      # shell around grazing incidence


def cplx(z):
    z = complex(z)
    return [dy(z.real), dy(z.imag)]


def mat(m):
    m = np.asarray(m)
    return [[cplx(m[i, j]) for j in range(m.shape[1])] for i in range(m.shape[0])]


def _rays(n):
    from optiland.rays import RealRays
    z = np.zeros(n)
    return RealRays(z.copy(), z.copy(), z.copy(), z.copy(), z.copy(), np.ones(n), np.ones(n),
                    np.full(n, 0.55))


# --------------------------------------------------------------------- Fresnel
def fresnel_inputs(rnd, n, batch=3):
    """n groups (n1, n2, [(aoi, regime), ...]): index pairs in [1, 4], angles in
    [0, 90 deg) below the critical angle; structured cases mixed with uniform."""
    out = []
    for _ in range(n):
        mode = rnd.random()
        n1 = rnd.uniform(1.0, 4.0)
        n2 = rnd.uniform(1.0, 4.0)
        if mode < 0.1:
            n1 = 1.0
        elif mode < 0.15:
            n2 = n1
        elif mode < 0.25:
            n2 = min(4.0, max(1.0, n1 * rnd.uniform(0.97, 1.03)))
        elif mode < 0.3:
            n1, n2 = rnd.choice([(1.0, 1.5), (1.5, 1.0), (4.0, 1.0), (1.0, 4.0), (2.0, 2.0)])
        crit = math.asin(n2 / n1) if n1 > n2 else math.pi / 2
        angles = []
        for _k in range(batch):
            m2 = rnd.random()
            if m2 < 0.12:
                angles.append((0.0, "normal"))
            elif m2 < 0.27:
                angles.append((math.atan2(n2, n1), "brewster"))
            elif m2 < 0.40:
                angles.append((crit * (1 - 10 ** rnd.uniform(-4, -1)), "near_limit"))
            else:
                angles.append((rnd.uniform(0.0, crit), "oblique"))
        out.append((n1, n2, angles))
    return out


def fresnel_events(inputs):
    """Call JonesFresnel for the inputs (a few rays per call, so that the
    per-ray vectorisation is exercised) and return (events, skipped)."""
    from optiland.jones import JonesFresnel
    from optiland.materials import IdealMaterial
    events, skipped = [], 0
    for n1, n2, group in inputs:
        m1, m2 = IdealMaterial(n=n1), IdealMaterial(n=n2)
        rays = _rays(len(group))
        aoi = np.array([g[0] for g in group])
        jf = JonesFresnel(m1, m2)
        Mt = jf.calculate_matrix(rays, reflect=False, aoi=aoi.copy())
        Mr = jf.calculate_matrix(rays, reflect=True, aoi=aoi.copy())
        n1v = float(np.ravel(m1.n(rays.w))[0])
        n2v = float(np.ravel(m2.n(rays.w))[0])
        for k, (a, regime) in enumerate(group):
            ci = math.cos(a)
            st = n1v * math.sin(a) / n2v
            ct = math.sqrt(max(0.0, (1.0 - st) * (1.0 + st)))
            if ct < CT_MIN or ci < CI_MIN:
                skipped += 1
                continue
            events.append({"t": "fresnel", "n1": dy(n1v), "n2": dy(n2v), "ci": dy(ci), "ct": dy(ct),
                           "Mt": mat(Mt[k]), "Mr": mat(Mr[k]),
                           "_cls": {"element": "JonesFresnel", "regime": regime, "dense_to_rare": n1v > n2v},
                           "_in": {"n1": n1v.hex(), "n2": n2v.hex(), "aoi": float(a).hex()}})
    return events, skipped


# --------------------------------------------------------------------- elements
def _fixed_classes():
    from optiland import jones as J
    return {"H": J.JonesPolarizerH, "V": J.JonesPolarizerV, "L+45": J.JonesPolarizerL45,
            "L-45": J.JonesPolarizerL135, "RCP": J.JonesPolarizerRCP, "LCP": J.JonesPolarizerLCP}


def _angle(rnd):
    m = rnd.random()
    if m < 0.1:
        return rnd.choice([0.0, math.pi / 4, math.pi / 2, -math.pi / 4, math.pi, math.pi / 6])
    return rnd.uniform(-math.pi, math.pi)


def element_events(rnd, n_oriented):
    """Every Jones element class: the fixed polarizers (each ray's copy of the
    matrix) and the oriented elements at random angles / retardances /
    transmissions together with the same element at theta = 0."""
    from optiland import jones as J
    events = []
    for kind, cls in _fixed_classes().items():
        nr = rnd.randint(1, 3)
        M = cls().calculate_matrix(_rays(nr))
        for k in range(nr):
            events.append({"t": "element", "kind": kind, "M": mat(M[k]),
                           "_cls": {"element": cls.__name__}, "_in": {}})
    for j in range(n_oriented):
        which = ("retarder", "diattenuator", "quarter", "half", "retarder", "diattenuator")[j % 6]
        th = _angle(rnd)
        ev = {"t": "element", "kind": which, "cs": [dy(math.cos(th)), dy(math.sin(th))]}
        cls = {"element": None}
        inp = {"theta": float(th).hex()}
        if which == "retarder":
            d = rnd.choice([0.0, math.pi / 2, math.pi, 2 * math.pi]) if rnd.random() < 0.1 \
                else rnd.uniform(0.0, 2 * math.pi)
            el, el0 = J.JonesLinearRetarder(d, th), J.JonesLinearRetarder(d, 0.0)
            ev["hd"] = [dy(math.cos(d / 2)), dy(math.sin(d / 2))]
            inp["retardance"] = float(d).hex()
        elif which == "quarter":
            el, el0 = J.JonesQuarterWaveRetarder(th), J.JonesQuarterWaveRetarder(0.0)
            ev["hd"] = [dy(math.cos(el.retardance / 2)), dy(math.sin(el.retardance / 2))]
        elif which == "half":
            el, el0 = J.JonesHalfWaveRetarder(th), J.JonesHalfWaveRetarder(0.0)
            ev["hd"] = [dy(math.cos(el.retardance / 2)), dy(math.sin(el.retardance / 2))]
        else:
            tmax = rnd.choice([1.0, 0.0]) if rnd.random() < 0.15 else rnd.uniform(0.0, 1.0)
            tmin = rnd.choice([0.0, tmax]) if rnd.random() < 0.2 else rnd.uniform(0.0, tmax)
            el, el0 = J.JonesLinearDiattenuator(tmin, tmax, th), J.JonesLinearDiattenuator(tmin, tmax, 0.0)
            ev["tmax"], ev["tmin"] = dy(tmax), dy(tmin)
            cls["t_max_nonzero"] = tmax != 0.0
            inp.update(t_max=float(tmax).hex(), t_min=float(tmin).hex())
        cls["element"] = type(el).__name__
        nr = rnd.randint(1, 2)
        M = el.calculate_matrix(_rays(nr))
        M0 = el0.calculate_matrix(_rays(1))
        ev["M"], ev["M0"] = mat(M[nr - 1]), mat(M0[0])
        ev["_cls"], ev["_in"] = cls, inp
        events.append(ev)
    return events


# --------------------------------------------------------------------- lens traces
def state_rec(st):
    """Observable attributes of a PolarizationState with phase certificates."""
    return {"Ex": dy(st.Ex), "Ey": dy(st.Ey),
            "px": [dy(math.cos(st.phase_x)), dy(math.sin(st.phase_x))],
            "py": [dy(math.cos(st.phase_y)), dy(math.sin(st.phase_y))]}


def random_state(rnd):
    from optiland.rays import PolarizationState
    while True:
        ex, ey = rnd.uniform(-1, 1), rnd.uniform(-1, 1)
        if ex * ex + ey * ey > 1e-2:
            break
    return PolarizationState(True, Ex=ex, Ey=ey, phase_x=rnd.uniform(-math.pi, math.pi),
                             phase_y=rnd.uniform(-math.pi, math.pi))


def orthogonal_state(st):
    """(-conj(a2), conj(a1)) for a = (Ex e^{i px}, Ey e^{i py})."""
    from optiland.rays import PolarizationState
    return PolarizationState(True, Ex=-st.Ey, Ey=st.Ex, phase_x=-st.phase_y, phase_y=-st.phase_x)


def launch_basis(d0):
    L, M, N = d0
    w = (1.0 - L * L, -L * M, -L * N)
    nw = math.sqrt(sum(c * c for c in w))
    s = tuple(c / nw for c in w)
    p = (M * s[2] - N * s[1], N * s[0] - L * s[2], L * s[1] - M * s[0])
    return s, p


def trace_events(optic, rays, st, picks, cls):
    """One "trace" event per picked ray of the trace just performed."""
    sg = optic.surface_group
    out, skipped = [], 0
    for r in picks:
        d0 = (float(sg.L[0, r]), float(sg.M[0, r]), float(sg.N[0, r]))
        d = (float(rays.L[r]), float(rays.M[r]), float(rays.N[r]))
        Pm = np.asarray(rays.p[r])
        # a ray is lost when its geometry is non-finite; a ray that arrives (finite direction) with a
        # non-finite intensity or polarization matrix is judged (clause field_finite)
        pos = (float(rays.x[r]), float(rays.y[r]), float(rays.z[r]))
        if not all(math.isfinite(v) for v in list(d0) + list(d) + list(pos)):
            skipped += 1        # (a ray that does not reach the image surface has a non-finite position there
            continue            #  even when its direction record is finite)
        s, p = launch_basis(d0)
        out.append({"t": "trace", "d0": [dy(v) for v in d0], "d": [dy(v) for v in d],
                    "sv": [dy(v) for v in s], "pv": [dy(v) for v in p], "st": state_rec(st),
                    "P": mat(Pm), "i": dy(float(rays.i[r])), "coated": cls["coating"] != "none",
                    "_cls": dict(cls), "_in": {"ray": int(r)}})
    return out, skipped


def lens_job(args):
    """One random lens (worker process): returns events + bookkeeping.

    mode "bare": no coatings at all, several input states;
    mode "fresnel": FresnelCoating on the refracting surfaces, the same rays
    traced unpolarized and with two orthogonal states;
    mode "mixed": FresnelCoating and SimpleCoating mixed (only the unpolarized
    mean is claimed there)."""
    seed, mode, tilts, mirrors, nstates, nrays, generic = args
    from optiland.rays import PolarizationState, create_polarization
    rnd = random.Random(seed)
    try:
        optic, meta = G.random_lens(rnd, tilts=tilts, mirrors=mirrors, catalogue=False,
                                    kinds=("standard",), wavelengths=[0.55])
    except Exception as ex:
        return {"error": "build: %s: %s" % (type(ex).__name__, ex), "seed": seed, "events": []}
    cls = {"coating": "none", "tilted": bool(meta["tilted"]), "mirror": bool(meta["mirror"]), "entry": "trace"}
    if mode in ("fresnel", "mixed"):
        from optiland.coatings import SimpleCoating
        cls["coating"] = mode
        for s in optic.surface_group.surfaces[1:-1]:
            if s.is_reflective:
                continue
            u = rnd.random()
            if mode == "mixed" and u < 0.4:
                # "any coatings": scalar coatings between the polarizing ones
                T_ = rnd.uniform(0.2, 1.0)
                s.coating = SimpleCoating(transmittance=T_, reflectance=rnd.uniform(0.0, 1.0 - T_))
            elif u < 0.8:
                s.set_fresnel_coating()
        if not optic.surface_group.uses_polarization:
            optic.surface_group.surfaces[1].set_fresnel_coating()
    Hy = rnd.choice([0.0, 0.7, 1.0])
    events, skipped, ntr = [], 0, 0
    desc = "random_lens(seed=%d, tilts=%s, mirrors=%s) %s Hy=%s" % (seed, tilts, mirrors, mode, Hy)

    def run(state):
        optic.set_polarization(state)
        return G.quiet(optic.trace, 0.0, Hy, 0.55, 2, "hexapolar")
    try:
        if mode == "bare":
            names = rnd.sample(NAMED, min(len(NAMED), max(0, nstates - 1)))
            states = [(nm, create_polarization(nm)) for nm in names] + [("random", random_state(rnd))]
            for nm, st in states:
                rays = run(st)
                ntr += 1
                # the centre ray of the hexapolar pattern is always judged: on the axis of an untilted
                # lens it meets every surface at normal incidence (and a mirror sends it straight back)
                picks = [0] + rnd.sample(range(1, rays.x.size), min(nrays, rays.x.size) - 1)
                ev, sk = trace_events(optic, rays, st, picks, dict(cls, state=nm))
                events += ev
                skipped += sk
        else:
            pair = rnd.choice([("H", "V"), ("L+45", "L-45"), ("RCP", "LCP"), None, None])
            if pair:
                sa, sb = create_polarization(pair[0]), create_polarization(pair[1])
            else:
                sa = random_state(rnd)
                sb = orthogonal_state(sa)
            ru = run(PolarizationState(is_polarized=False))
            iu = np.array(ru.i, dtype=float)
            ra = run(sa)
            picks = [0] + rnd.sample(range(1, ra.x.size), min(nrays, ra.x.size) - 1)
            emit = mode == "fresnel"     # field clauses are claimed without scalar coatings only
            ev, sk = trace_events(optic, ra, sa, picks, dict(cls, state=pair[0] if pair else "random"))
            events += ev if emit else []
            skipped += sk
            ia = np.array(ra.i, dtype=float)
            rb = run(sb)
            ev, sk = trace_events(optic, rb, sb, picks, dict(cls, state=pair[1] if pair else "random_orth"))
            events += ev if emit else []
            skipped += sk
            ib = np.array(rb.i, dtype=float)
            ntr += 3
            for r in picks:
                if not all(math.isfinite(float(t.N[r])) and math.isfinite(float(t.x[r])) for t in (ru, ra, rb)):
                    skipped += 1        # the ray did not reach the image
                    continue
                events.append({"t": "unpol", "iu": dy(iu[r]), "ia": dy(ia[r]), "ib": dy(ib[r]),
                               "sa": state_rec(sa), "sb": state_rec(sb),
                               "_cls": dict(cls), "_in": {"ray": int(r)}})
            if generic:
                # the same lens through Optic.trace_generic
                optic.set_polarization(sa)
                Px = np.array([0.0, 0.3, -0.5])
                Py = np.array([0.0, 0.4, 0.2])
                rg = G.quiet(optic.trace_generic, 0.0, float(Hy), Px, Py, 0.55)
                ntr += 1
                ev, sk = trace_events(optic, rg, sa, range(rg.x.size), dict(cls, entry="trace_generic"))
                events += ev
                skipped += sk
    except Exception as ex:
        return {"error": "trace: %s: %s" % (type(ex).__name__, ex), "seed": seed, "events": [], "desc": desc}
    for e in events:
        e["_in"]["lens"] = desc
    return {"seed": seed, "events": events, "skipped": skipped, "traces": ntr, "desc": desc,
            "meta": {k: meta[k] for k in ("nsurf", "tilted", "mirror")}}


# --------------------------------------------------------------------- one surface
def surface_job(args):
    """One Fresnel-coated plane surface between two ideal media, collimated
    beam at a field angle in the y-z plane; H, V and unpolarized traces."""
    seed, = args
    from optiland.optic import Optic
    from optiland.materials import IdealMaterial
    from optiland.rays import PolarizationState, create_polarization
    rnd = random.Random(seed)
    n1, n2 = rnd.uniform(1.0, 4.0), rnd.uniform(1.0, 4.0)
    if rnd.random() < 0.2:
        n1 = 1.0
    crit = math.degrees(math.asin(n2 / n1)) if n1 > n2 else 90.0
    ang = rnd.uniform(0.0, min(crit * 0.98, 80.0))
    if rnd.random() < 0.15:
        ang = min(math.degrees(math.atan2(n2, n1)), 80.0)        # Brewster
    o = Optic()
    o.add_surface(index=0, thickness=np.inf, material=IdealMaterial(n=n1))
    # every third job meets the coated plane travelling towards -z (behind a plane fold mirror): the
    # same interface, the same angles - by symmetry the same transmitted fractions
    reverse = seed % 3 == 0
    ks = 1
    if reverse:
        o.add_surface(index=1, radius=np.inf, thickness=-rnd.uniform(1.0, 10.0), material="mirror", is_stop=True)
        o.add_surface(index=2, radius=np.inf, thickness=-rnd.uniform(1.0, 10.0), material=IdealMaterial(n=n2),
                      coating="fresnel")
        o.add_surface(index=3, material=IdealMaterial(n=n2))
        ks = 2
    else:
        o.add_surface(index=1, radius=np.inf, thickness=rnd.uniform(1.0, 10.0), material=IdealMaterial(n=n2),
                      is_stop=True, coating="fresnel")
        o.add_surface(index=2, material=IdealMaterial(n=n2))
    o.set_aperture("EPD", 2.0)
    o.set_field_type("angle")
    o.add_field(y=0.0)
    o.add_field(y=ang)
    o.add_wavelength(0.55, is_primary=True)
    desc = "plane surface%s n1=%s n2=%s field angle %s deg" % (" met backwards" if reverse else "", n1.hex(), n2.hex(),
                                                                 float(ang).hex())
    res = {}
    try:
        for nm in ("U", "H", "V"):
            o.set_polarization(PolarizationState(is_polarized=False) if nm == "U" else create_polarization(nm))
            r = G.quiet(o.trace, 0.0, 1.0, 0.55, 1, "hexapolar")
            res[nm] = np.array(r.i, dtype=float)
    except Exception as ex:
        return {"error": "trace: %s: %s" % (type(ex).__name__, ex), "seed": seed, "events": [], "desc": desc}
    sg = o.surface_group
    s1 = sg.surfaces[ks]
    n1v = float(np.ravel(s1.material_pre.n(0.55))[0])
    n2v = float(np.ravel(s1.material_post.n(0.55))[0])
    events, skipped = [], 0
    zs = -1.0 if reverse else 1.0           # (the mirror image of the backward pass is judged)
    for r in rnd.sample(range(res["U"].size), 2):
        d0 = [float(sg.L[ks - 1, r]), float(sg.M[ks - 1, r]), zs * float(sg.N[ks - 1, r])]
        d1 = [float(sg.L[ks, r]), float(sg.M[ks, r]), zs * float(sg.N[ks, r])]
        vals = d0 + d1 + [res[k][r] for k in "UHV"]
        if not all(math.isfinite(v) for v in vals) or d1[2] < CT_MIN or d0[2] < CI_MIN:
            skipped += 1
            continue
        events.append({"t": "surface", "n1": dy(n1v), "n2": dy(n2v), "d0": [dy(v) for v in d0],
                       "d1": [dy(v) for v in d1], "iu": dy(res["U"][r]), "ih": dy(res["H"][r]),
                       "iv": dy(res["V"][r]),
                       "_cls": {"coating": "fresnel", "entry": "trace", "lens": "plane_surface",
                                "dense_to_rare": n1v > n2v, "met_backwards": reverse},
                       "_in": {"lens": desc, "ray": int(r)}})
    return {"seed": seed, "events": events, "skipped": skipped, "traces": 3, "desc": desc}


# --------------------------------------------------------------------- an element inside a lens
def inlens_job(args):
    """A Jones polarizer used as the coating of a surface of a centred singlet of a
    lossless ideal glass (no other coating: the trace applies no other loss).  The element is
    handed to the trace the way FresnelCoating hands JonesFresnel: a BaseCoatingPolarized whose
    .jones is the element.  Circular polarizers (circular states do not depend on the transverse
    basis): every ray of a hexapolar bundle, or a meridional fan through trace_generic, at a
    random field."""
    seed, = args
    from optiland.optic import Optic
    from optiland.materials import IdealMaterial
    from optiland.coatings import BaseCoatingPolarized
    from optiland.rays import PolarizationState, create_polarization
    from optiland import jones as J
    rnd = random.Random(seed)

    class ElementCoating(BaseCoatingPolarized):
        def __init__(self, jones):
            self.jones = jones
    # (circular polarizers only: the library expresses an element in the local s/p frame of each ray at
    # each surface - for an undeviated ray s = k x x^ is the y axis, for a deviated one the normal of its
    # plane of incidence - so "horizontal" is not a direction a linear polarizer on a lens surface keeps;
    # circular states are the same in every transverse frame)
    name, other, cls_ = [("RCP", "LCP", J.JonesPolarizerRCP), ("LCP", "RCP", J.JonesPolarizerLCP)][seed % 2]
    n = rnd.uniform(1.3, 1.9)
    r1 = rnd.choice([math.inf, rnd.uniform(30.0, 80.0)])
    r2 = rnd.choice([math.inf, -rnd.uniform(30.0, 80.0)])
    where = rnd.choice(["front", "back"])
    Hy = rnd.choice([0.0, 0.6, 1.0])

    def lens(two):
        o = Optic()
        o.add_surface(index=0, radius=np.inf, thickness=np.inf)
        cf = ElementCoating(cls_()) if (where == "front" or two) else None
        cb = ElementCoating(cls_()) if (where == "back" or two) else None
        o.add_surface(index=1, radius=r1, thickness=4.0, material=IdealMaterial(n=n), is_stop=True, coating=cf)
        o.add_surface(index=2, radius=r2, thickness=30.0, coating=cb)
        o.add_surface(index=3)
        o.set_aperture("EPD", 8.0)
        o.set_field_type("angle")
        o.add_field(y=0.0)
        o.add_field(y=rnd.choice([3.0, 8.0]))
        o.add_wavelength(0.55, is_primary=True)
        return o
    desc = "singlet n=%s R=(%r, %r) with a %s polarizer on the %s surface, Hy=%s" % (float(n).hex(), r1, r2, name, where, Hy)
    circular = seed % 4 < 2          # entry point: Optic.trace (hexapolar bundle) / Optic.trace_generic (meridional fan)
    Py = np.array([-0.9, -0.4, 0.0, 0.3, 0.8])

    def run(o, st):
        o.set_polarization(PolarizationState(is_polarized=False) if st == "U" else create_polarization(st))
        if circular:
            r = G.quiet(o.trace, 0.0, Hy, 0.55, 2, "hexapolar")
        else:
            r = G.quiet(o.trace_generic, np.zeros(5), np.full(5, Hy), np.zeros(5), Py.copy(), 0.55)
        return np.array(r.i, dtype=float), np.array(r.x, dtype=float)
    try:
        one, two = lens(False), lens(True)
        ip, xp = run(one, name)
        ib, _ = run(one, other)
        iu, _ = run(one, "U")
        it, _ = run(two, name)
    except Exception as ex:
        return {"error": "trace: %s: %s" % (type(ex).__name__, ex), "seed": seed, "events": [], "desc": desc}
    events, skipped = [], 0
    for r in rnd.sample(range(ip.size), min(3, ip.size)):
        if not math.isfinite(xp[r]):
            skipped += 1
            continue
        events.append({"t": "inlens", "ipass": dy(ip[r]), "iblock": dy(ib[r]), "iunpol": dy(iu[r]), "itwice": dy(it[r]),
                       "_cls": {"coating": "element", "element": name, "entry": "trace" if circular else "trace_generic",
                                "lens": "singlet"},
                       "_in": {"lens": desc, "ray": int(r)}})
    return {"seed": seed, "events": events, "skipped": skipped, "traces": 4, "desc": desc}


# --------------------------------------------------------------------- a monocentric lens, oblique field
def monocentric_job(args):
    """A meniscus whose two surfaces are concentric with the centre of the aperture stop (a plane
    stop in air in front of it), uncoated, lossless glass; a field off both axes.  The chief ray
    meets both surfaces at normal incidence - it is the one undeviated ray of a bundle whose other
    rays are all refracted - and travels obliquely to every coordinate axis."""
    seed, = args
    from optiland.optic import Optic
    from optiland.materials import IdealMaterial
    from optiland.rays import create_polarization
    rnd = random.Random(seed)
    d1 = rnd.uniform(6.0, 15.0)
    t = rnd.uniform(2.0, 6.0)
    o = Optic()
    o.add_surface(index=0, radius=np.inf, thickness=np.inf)
    o.add_surface(index=1, radius=np.inf, thickness=d1, is_stop=True)
    o.add_surface(index=2, radius=-d1, thickness=t, material=IdealMaterial(n=rnd.uniform(1.4, 1.9)))
    o.add_surface(index=3, radius=-(d1 + t), thickness=rnd.uniform(20.0, 60.0))
    o.add_surface(index=4)
    o.set_aperture("EPD", rnd.uniform(1.0, 3.0))
    o.set_field_type("angle")
    o.add_field(y=0.0)
    F = rnd.uniform(5.0, 20.0)
    o.add_field(y=F)
    o.add_wavelength(0.55, is_primary=True)
    Hx, Hy = rnd.choice([(1.0, 0.0), (0.6, 0.6), (-0.8, 0.3), (0.0, 1.0)])
    desc = "monocentric meniscus d=%s t=%s field %s deg H=(%s, %s)" % (float(d1).hex(), float(t).hex(), float(F).hex(), Hx, Hy)
    cls = {"coating": "none", "tilted": False, "mirror": False, "entry": "trace", "lens": "monocentric"}
    events, skipped, ntr = [], 0, 0
    try:
        for nm in rnd.sample(NAMED, 2) + ["random"]:
            st = random_state(rnd) if nm == "random" else create_polarization(nm)
            o.set_polarization(st)
            rays = G.quiet(o.trace, Hx, Hy, 0.55, 2, "hexapolar")
            ntr += 1
            picks = [0] + rnd.sample(range(1, rays.x.size), 3)
            ev, sk = trace_events(o, rays, st, picks, dict(cls, state=nm))
            events += ev
            skipped += sk
    except Exception as ex:
        return {"error": "trace: %s: %s" % (type(ex).__name__, ex), "seed": seed, "events": [], "desc": desc}
    for e in events:
        e["_in"]["lens"] = desc
    return {"seed": seed, "events": events, "skipped": skipped, "traces": ntr, "desc": desc}
