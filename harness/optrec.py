"""Recorder for C14 (and the compensation part of C15): builds small optimisation
problems on small lenses through the public API, runs the optimiser front ends
and writes one event per protocol step for spec/Trace_Optimizer.tla.

Nothing here decides anything: events carry the implementation's own numbers as
exact dyadic records; TLC evaluates the clauses.  Physical values of the
quantities behind a variable are read from the lens directly (not through the
Variable classes), so that the handle laws are judged against an independent
reading.
"""
import math
import random
import warnings

import numpy as np

from harness import lensgen as G
from harness import project as P
from harness.dy import dy

IDENTITY_SCALE = {"conic", "tilt", "decenter", "polynomial_coeff", "chebyshev_coeff"}
FRONT_ENDS = ("generic", "least_squares", "dual_annealing", "diff_evolution", "compensator")


# ------------------------------------------------------------------ readings
def phys_value(optic, vs):
    """The physical quantity a variable addresses, read from the lens itself."""
    sg = optic.surface_group
    k, t = vs["k"], vs["type"]
    s = sg.surfaces[k]
    if t == "radius":
        return P.f(sg.radii[k])
    if t == "conic":
        return P.f(sg.conic[k])
    if t == "thickness":
        return P.f(sg.positions[k + 1]) - P.f(sg.positions[k])
    if t == "index":
        return P.f(s.material_post.n(vs["wavelength"]))
    if t == "asphere_coeff":
        return float(np.ravel(s.geometry.c)[vs["coeff_number"]])
    if t in ("polynomial_coeff", "chebyshev_coeff"):
        i, j = vs["coeff_index"]
        return float(np.asarray(s.geometry.c, dtype=float)[i][j])
    if t == "tilt":
        return P.f(s.geometry.cs.rx if vs["axis"] == "x" else s.geometry.cs.ry)
    if t == "decenter":
        return P.f(s.geometry.cs.x if vs["axis"] == "x" else s.geometry.cs.y)
    raise ValueError(t)


def var_kwargs(vs):
    kw = {"surface_number": vs["k"]}
    for key in ("axis", "coeff_number", "wavelength"):
        if key in vs:
            kw[key] = vs[key]
    if "coeff_index" in vs:
        kw["coeff_index"] = tuple(vs["coeff_index"])
    return kw


def fnum_dy(d):
    from harness.dy import undy
    v = undy(d)
    return float(v)


def fnum(x):
    """float of whatever a Variable / Operand returns (numpy 2 safe)."""
    a = np.asarray(x, dtype=float)
    return float(a.ravel()[0]) if a.size else float("nan")


def proj_dy(optic):
    p = P.project(optic)
    if p["surf"]:
        p["surf"][0]["npre"] = p["surf"][0]["npost"]
    return P.to_dy(p)


def pickup_rows(optic):
    """[tv, sv, scale, off] per pickup, read from the prescription."""
    sg = optic.surface_group
    rows = []

    def attr(k, a):
        if a == "radius":
            return P.f(sg.radii[k])
        if a == "conic":
            return P.f(sg.conic[k])
        return P.f(sg.positions[k + 1]) - P.f(sg.positions[k])
    for p in optic.pickups.pickups:
        rows.append({"tv": dy(attr(p.target_surface_idx, p.attr_type)),
                     "sv": dy(attr(p.source_surface_idx, p.attr_type)),
                     "scale": dy(float(p.scale)), "off": dy(float(p.offset)),
                     "thick": p.attr_type == "thickness"})
    return rows


def solve_rows(optic):
    rows = []
    if not len(optic.solves.solves):
        return rows
    try:
        ya, ua = optic.paraxial.marginal_ray()
        ya = [float(v) for v in np.ravel(ya)]
    except Exception:
        ya = []
    for s in optic.solves.solves:
        k = s.surface_idx
        y = ya[k] if k < len(ya) else float("nan")
        rows.append({"y": dy(y), "h": dy(float(s.height)),
                     "ymax": dy(max([abs(v) for v in ya if math.isfinite(v)] + [0.0]))})
    return rows


def zmax(optic):
    z = [abs(P.f(v)) for v in optic.surface_group.positions]
    return max([v for v in z if math.isfinite(v)] + [1.0])


# ------------------------------------------------------------------ the callback wrapper
class LoggedFun:
    """Instance-level wrapper of optimizer._fun (picklable: differential evolution
    with workers=-1 ships the objective to worker processes, whose copies log into
    their own lists - evaluations in workers are therefore unlogged here)."""

    def __init__(self, opt, problem):
        # the optimiser object, not its bound method: pickling a bound method goes through
        # getattr(obj, name), which in the copy would find this wrapper instead of the method
        self.opt = opt
        self.problem = problem
        self.log = []

    def __call__(self, x):
        f = type(self.opt)._fun(self.opt, x)
        try:
            vals = [fnum(v.value) for v in self.problem.variables]
            ops = [fnum(op.value) for op in self.problem.operands]
        except Exception:
            vals, ops = [], []
        self.log.append(([float(v) for v in np.ravel(x)], fnum(f), vals, ops))
        return f


# ------------------------------------------------------------------ lenses and problems
FAMILIES = ("std", "std", "std", "asph", "tilt", "poly", "glass")


def build_lens(case):
    rnd = random.Random(case["lens_seed"])
    fam = case["family"]
    kinds = {"std": ("standard",), "tilt": ("standard",), "glass": ("standard",),
             "asph": ("even_asphere",), "poly": ("polynomial",), "cheb": ("chebyshev",)}[fam]
    if fam == "glass":
        return glass_singlet(rnd), {"family": "glass"}
    nsurf = case.get("nsurf") or (rnd.choice([2, 3]) if fam == "std" else 2)
    o, meta = G.random_lens(rnd, nsurf=nsurf, kinds=kinds, finite_object=case.get("finite", False),
                            catalogue=(fam == "glass"), max_field=rnd.uniform(0.5, 2.5),
                            aperture="EPD", field_type="angle" if not case.get("finite") else None)
    return o, meta


def glass_singlet(rnd):
    """A singlet of catalogue (dispersive) glass, through the public API."""
    from optiland.optic import Optic
    o = Optic()
    o.add_surface(index=0, thickness=math.inf)
    r1 = rnd.uniform(30.0, 120.0)
    o.add_surface(index=1, radius=r1, thickness=rnd.uniform(2.0, 8.0),
                  material=rnd.choice([("N-BK7", "schott"), ("N-SF11", "schott"), ("F2", "schott")]), is_stop=True)
    o.add_surface(index=2, radius=-r1 * rnd.uniform(0.7, 3.0), thickness=rnd.uniform(30.0, 90.0))
    o.add_surface(index=3)
    o.set_aperture("EPD", rnd.uniform(2.0, 6.0))
    o.set_field_type("angle")
    o.add_field(y=0.0)
    o.add_field(y=rnd.uniform(0.5, 2.0))
    for i, w in enumerate([0.4861, 0.5876, 0.6563]):
        o.add_wavelength(w, is_primary=(i == 1))
    return o


def candidates(o, fam):
    """Variables this lens admits (physical value finite, sensible)."""
    sg = o.surface_group
    n = sg.num_surfaces - 2                      # optical surfaces 1..n
    wl = P.f(o.wavelengths.primary_wavelength.value)
    out = []
    for k in range(1, n + 1):
        s = sg.surfaces[k]
        gk = type(s.geometry).__name__
        R = P.f(sg.radii[k])
        if math.isfinite(R):
            out.append({"type": "radius", "k": k})
        if gk != "Plane":
            out.append({"type": "conic", "k": k})
        out.append({"type": "thickness", "k": k})
        if abs(P.f(s.material_post.n(wl)) - 1.0) > 1e-6 and not s.is_reflective:
            out.append({"type": "index", "k": k, "wavelength": wl})
        if gk == "EvenAsphere":
            for q in range(len(np.ravel(s.geometry.c))):
                out.append({"type": "asphere_coeff", "k": k, "coeff_number": q})
        if gk == "PolynomialGeometry":
            out.append({"type": "polynomial_coeff", "k": k, "coeff_index": [1, 1]})
            out.append({"type": "polynomial_coeff", "k": k, "coeff_index": [0, 1]})
        if gk == "ChebyshevPolynomialGeometry":
            out.append({"type": "chebyshev_coeff", "k": k, "coeff_index": [1, 1]})
        if fam == "tilt":
            out.append({"type": "tilt", "k": k, "axis": "x"})
            out.append({"type": "tilt", "k": k, "axis": "y"})
            out.append({"type": "decenter", "k": k, "axis": "x"})
            out.append({"type": "decenter", "k": k, "axis": "y"})
    return out


def natural_bounds(rnd, vs, phys):
    """A bound interval in physical units that contains the current value."""
    t = vs["type"]
    if t == "radius":
        a, b = sorted([phys * rnd.uniform(0.4, 0.7), phys * rnd.uniform(1.5, 3.0)])
    elif t == "thickness":
        a, b = max(0.05, phys * rnd.uniform(0.3, 0.8)), phys * rnd.uniform(1.2, 2.0) + 0.5
    elif t == "index":
        a, b = phys - rnd.uniform(0.05, 0.2), phys + rnd.uniform(0.05, 0.2)
    elif t == "conic":
        a, b = phys - rnd.uniform(0.2, 1.0), phys + rnd.uniform(0.2, 1.0)
    elif t == "asphere_coeff":
        w = 2.0 * 10.0 ** -(5 + 2 * vs["coeff_number"]) + abs(phys)
        a, b = phys - w * rnd.uniform(0.5, 1.0), phys + w * rnd.uniform(0.5, 1.0)
    elif t in ("polynomial_coeff", "chebyshev_coeff"):
        a, b = phys - rnd.uniform(1e-4, 1e-3), phys + rnd.uniform(1e-4, 1e-3)
    elif t == "tilt":
        a, b = phys - rnd.uniform(0.01, 0.05), phys + rnd.uniform(0.01, 0.05)
    else:
        a, b = phys - rnd.uniform(0.1, 0.5), phys + rnd.uniform(0.1, 0.5)
    # a bound of exactly 0 is a bound like any other (thickness >= 0, conic <= 0, decentre >= 0 ...)
    if rnd.random() < 0.25:
        if a < 0.0 < phys or (t == "thickness" and phys > 0.0):
            a = 0.0
        elif phys < 0.0 < b:
            b = 0.0
    return a, b


def probe_points(vs, v0):
    """Two nearby handle values (in the handle's own units) for the handle laws."""
    t, scaled = vs["type"], vs["scaled"]
    if t == "asphere_coeff" and not scaled:
        unit = 10.0 ** -(5 + 2 * vs["coeff_number"])
    elif t in ("polynomial_coeff", "chebyshev_coeff"):
        unit = 1e-4
    elif t == "tilt":
        unit = 0.01
    elif t == "index":
        unit = 0.02
    elif t == "radius" and not scaled:
        unit = max(1.0, 0.05 * abs(v0))
    elif t == "thickness" and not scaled:
        unit = max(0.05, 0.05 * abs(v0))
    else:
        unit = 0.05
    return v0 + 0.37 * unit, v0 - 0.81 * unit


def choose_problem(case, o, fam):
    """Fill case['vars'] and case['ops'] (JSON-able) for this lens."""
    rnd = random.Random(case["seed"])
    cands = candidates(o, fam)
    want = case.get("want_type")
    fe = case["front_end"]
    nv = case.get("nvars") or rnd.choice([1, 1, 2, 2, 3])
    chosen = []
    if want:
        pool = [c for c in cands if c["type"] == want]
        if pool:
            chosen.append(rnd.choice(pool))
    rnd.shuffle(cands)
    for c in cands:
        if len(chosen) >= nv:
            break
        if any(c["type"] == d["type"] and c["k"] == d["k"] and c.get("axis") == d.get("axis")
               and c.get("coeff_number") == d.get("coeff_number")
               and c.get("coeff_index") == d.get("coeff_index") for d in chosen):
            continue
        # a thickness variable and a solve / pickup target on the same gap would fight
        chosen.append(c)
    need_bounds = fe in ("dual_annealing", "diff_evolution") and not case.get("expect_reject")
    for vs in chosen:
        vs["scaled"] = case.get("scaled") if case.get("scaled") is not None else rnd.random() < 0.6
        ph = phys_value(o, vs)
        mode = "both" if need_bounds else rnd.choice(["none", "both", "both", "lower", "upper"])
        if case.get("bounded") is not None:
            mode = "both" if case["bounded"] else "none"
        if case.get("expect_reject"):
            mode = "none" if vs is chosen[0] else mode
        a, b = natural_bounds(rnd, vs, ph)
        if case.get("beyond_bound"):
            # the first variable is held in a narrow interval that the target pulls it out of; every
            # other variable is free: the bound of the first must hold all the same
            if vs is chosen[0]:
                a, b = sorted([ph * 0.97, ph * 1.03])
                mode = "both"
            else:
                mode = "none"
        vs["min"] = a if mode in ("both", "lower") else None
        vs["max"] = b if mode in ("both", "upper") else None
    case["vars"] = chosen
    # operands
    wl = P.f(o.wavelengths.primary_wavelength.value)
    nops = rnd.choice([1, 2, 2, 3])
    ops = []
    kinds = ["f2", "ray_y", "ray_y", "spot"] + (["ray_x"] if fam == "tilt" else []) + ["f1"]
    if case.get("op_kind"):
        kinds = [case["op_kind"]]
    if case.get("beyond_bound"):
        case["ops"] = [{"type": "f2", "w": 1.0, "rel": rnd.choice([0.7, 1.4]), "data": {}}]
        return case
    for _ in range(nops):
        kd = rnd.choice(kinds)
        if kd in ("f2", "f1"):
            ops.append({"type": kd, "w": rnd.choice([1, 1.0, 0.5, 2.0]), "rel": rnd.uniform(0.92, 1.08), "data": {}})
        elif kd in ("ray_y", "ray_x"):
            ops.append({"type": "real_y_intercept" if kd == "ray_y" else "real_x_intercept",
                        "w": rnd.choice([1.0, 3.0, 0.25]), "abs": rnd.uniform(-0.05, 0.05),
                        "data": {"surface_number": -1, "Hx": 0.0, "Hy": rnd.choice([0.0, 0.7, 1.0]),
                                 "Px": rnd.choice([0.0, 0.5]) if kd == "ray_x" else 0.0,
                                 "Py": rnd.choice([1.0, 0.5, -1.0, 0.7]), "wavelength": wl}})
        else:
            ops.append({"type": "rms_spot_size", "w": rnd.choice([1.0, 10.0]), "target": 0.0,
                        "data": {"surface_number": -1, "Hx": 0.0, "Hy": rnd.choice([0.0, 1.0]),
                                 "num_rays": 3, "wavelength": wl, "distribution": "hexapolar"}})
    case["ops"] = ops
    return case


def build_problem(case, o, problem=None):
    """OptimizationProblem for the case; operand targets are fixed on first build
    (relative to the start lens) and stored in the case."""
    from optiland.optimization import optimization as O
    from optiland.optimization.operand import Operand
    p = problem if problem is not None else O.OptimizationProblem()
    for op in case["ops"]:
        data = dict(op["data"])
        data["optic"] = o
        if "target" not in op:
            cur = fnum(Operand(op["type"], 0.0, 1.0, data).value)
            op["target"] = cur * op["rel"] if "rel" in op else cur + op["abs"]
        p.add_operand(op["type"], op["target"], op["w"], data)
    for vs in case["vars"]:
        p.add_variable(o, vs["type"], min_val=vs["min"], max_val=vs["max"],
                       apply_scaling=vs["scaled"], **var_kwargs(vs))
    return p


def add_constraints(case, o):
    """Optional pickup / solve on the lens (kept away from the variables)."""
    rnd = random.Random(case["seed"] + 7)
    sg = o.surface_group
    n = sg.num_surfaces - 2
    used = {(v["type"], v["k"]) for v in case["vars"]}
    made = {"pickup": False, "solve": False}
    if case.get("pickup") and n >= 2:
        # radius pickup: the target follows a variable radius if there is one
        src = next((v["k"] for v in case["vars"] if v["type"] == "radius"), None)
        if src is None:
            src = next((k for k in range(1, n + 1) if math.isfinite(P.f(sg.radii[k]))), None)
        tgts = [k for k in range(1, n + 1) if k != src and ("radius", k) not in used
                and type(sg.surfaces[k].geometry).__name__ == "StandardGeometry"]
        if src is not None and tgts:
            o.pickups.add(src, "radius", rnd.choice(tgts), scale=rnd.choice([-1.0, 1.0, -1.5]), offset=0.0)
            made["pickup"] = True
    if case.get("solve") and ("thickness", n) not in used:
        try:
            ya, ua = o.paraxial.marginal_ray()
            u_out, y_out = float(np.ravel(ua)[n]), float(np.ravel(ya)[n])
            # only a real focus behind the last surface (solved image distance > 1 mm)
            ok = np.all(np.isfinite(ya)) and abs(float(np.ravel(ua)[n - 1])) > 1e-3 \
                and abs(u_out) > 1e-3 and sg.stop_index < n + 1 and 1.0 < -y_out / u_out < 1e3
        except Exception:
            ok = False
        if ok and not case.get("finite"):
            o.solves.add("marginal_ray_height", n + 1, 0.0)
            made["solve"] = True
    return made


# ------------------------------------------------------------------ events
class Trace:
    def __init__(self, tid, case):
        self.tid = tid
        self.case = case
        self.events = []

    def emit(self, op, **kw):
        ev = {"id": None, "tid": self.tid, "seq": len(self.events), "op": op}
        ev.update(kw)
        self.events.append(ev)
        return ev


def merit_fields(problem):
    ops = [fnum(op.value) for op in problem.operands]
    return {"ops": [dy(v) for v in ops],
            "w": [dy(float(op.weight)) for op in problem.operands],
            "t": [dy(float(op.target)) for op in problem.operands],
            "ss": dy(fnum(problem.sum_squared()))}


def var_rows(problem, case, o):
    rows = []
    for v, vs in zip(problem.variables, case["vars"]):
        blo, bhi = v.bounds
        rows.append({"v": dy(fnum(v.value)), "phys": dy(phys_value(o, vs)),
                     "vtype": vs["type"], "scaled": bool(vs["scaled"]),
                     "has_min": vs["min"] is not None, "has_max": vs["max"] is not None,
                     "min": dy(vs["min"] if vs["min"] is not None else 0.0),
                     "max": dy(vs["max"] if vs["max"] is not None else 0.0),
                     "has_blo": blo is not None, "has_bhi": bhi is not None,
                     "blo": dy(fnum(blo) if blo is not None else 0.0),
                     "bhi": dy(fnum(bhi) if bhi is not None else 0.0)})
    return rows


def probe_variable(tr, o, v, vs):
    """Handle laws: set a, read (value, physical); set b, read; bounds; restore."""
    v0 = fnum(v.value)
    a, b = probe_points(vs, v0)
    exc = ""
    rec = {}
    try:
        v.update(a)
        va, pa = fnum(v.value), phys_value(o, vs)
        v.update(b)
        vb, pb = fnum(v.value), phys_value(o, vs)
        blo, bhi = v.bounds
        v.update(v0)
        rec = {"a": dy(a), "b": dy(b), "va": dy(va), "pa": dy(pa), "vb": dy(vb), "pb": dy(pb),
               "has_min": vs["min"] is not None, "has_max": vs["max"] is not None,
               "min": dy(vs["min"] if vs["min"] is not None else 0.0),
               "max": dy(vs["max"] if vs["max"] is not None else 0.0),
               "has_blo": blo is not None, "has_bhi": bhi is not None,
               "blo": dy(fnum(blo) if blo is not None else 0.0),
               "bhi": dy(fnum(bhi) if bhi is not None else 0.0),
               "zmax": dy(zmax(o))}
    except Exception as ex:
        exc = "%s: %s" % (type(ex).__name__, ex)
        rec = {k: dy(0.0) for k in ("a", "b", "va", "pa", "vb", "pb", "min", "max", "blo", "bhi", "zmax")}
        rec.update(has_min=False, has_max=False, has_blo=False, has_bhi=False)
    tr.emit("probe", exc=exc, vtype=vs["type"], scaled=bool(vs["scaled"]), **rec)


MAX_EVAL_EVENTS = 24


def make_optimizer(front_end, problem):
    from optiland.optimization import optimization as O
    cls = {"generic": O.OptimizerGeneric, "least_squares": O.LeastSquares,
           "dual_annealing": O.DualAnnealing, "diff_evolution": O.DifferentialEvolution}[front_end]
    opt = cls(problem)
    opt._fun = LoggedFun(opt, problem)             # instance-level wrapper, from outside
    return opt


def call_optimize(front_end, opt, params):
    if front_end == "generic":
        return opt.optimize(method=params.get("method"), maxiter=params["maxiter"], disp=False,
                            tol=params.get("tol", 1e-6))
    if front_end == "least_squares":
        return opt.optimize(maxiter=params["maxiter"], disp=False, tol=params.get("tol", 1e-6))
    if front_end == "dual_annealing":
        return opt.optimize(maxiter=params["maxiter"], disp=False)
    return opt.optimize(maxiter=params["maxiter"], disp=False, workers=params.get("workers", 1))


def one_run(tr, o, problem, case, opt, front_end, params, finish=False):
    """start, eval*, return / reject, after.  finish=True (calibration traces only):
    the driver performs the protocol's Finish step itself after scipy returned -
    re-install result.x and update the optics - to show that the real code then
    satisfies the clauses and to obtain accepted records for corruption."""
    from harness.lensgen import quiet
    vrows = var_rows(problem, case, o)
    tr.emit("start", fe=front_end, mode=("multi" if params.get("workers", 1) == -1 else "inproc"),
            vars=vrows, proj=proj_dy(o), zmax=dy(zmax(o)), **merit_fields(problem))
    holder = {}
    if front_end == "compensator":
        # CompensatorOptimizer.run() builds its optimiser internally: hand it one whose
        # objective is wrapped (instance-level override of the public get_optimizer)
        from optiland.optimization import optimization as O
        base = problem.get_optimizer()

        def factory(prob):
            inner = base(prob)
            inner._fun = LoggedFun(inner, prob)
            holder["opt"] = inner
            return inner
        problem.get_optimizer = lambda: factory
    else:
        holder["opt"] = opt
    exc = ""
    res = None
    try:
        with warnings.catch_warnings():
            warnings.simplefilter("ignore")
            if front_end == "compensator":
                res = quiet(problem.run)
            else:
                res = quiet(call_optimize, front_end, opt, params)
    except Exception as ex:
        exc = type(ex).__name__
        holder["msg"] = "%s: %s" % (type(ex).__name__, ex)
    if front_end == "compensator":
        del problem.get_optimizer
    log = holder["opt"]._fun.log if "opt" in holder and isinstance(holder["opt"]._fun, LoggedFun) else []
    mine = list(log)
    del log[:]
    shown = mine if len(mine) <= MAX_EVAL_EVENTS else mine[:MAX_EVAL_EVENTS // 2] + mine[-MAX_EVAL_EVENTS // 2:]
    for (p, f, vals, ops) in shown:
        tr.emit("eval", p=[dy(v) for v in p], f=dy(f), vals=[dy(v) for v in vals], ops=[dy(v) for v in ops],
                ok=len(vals) == len(p))
    info = {"evals_logged": len(mine), "front_end": front_end, "exc": holder.get("msg", "")}
    if exc:
        tr.emit("reject", exc=exc, expected=bool(case.get("expect_reject")), proj=proj_dy(o),
                msg=holder.get("msg", ""))
        info["last_eval_is_returned"] = None
        return None, info
    rx = [float(v) for v in np.ravel(res.x)]
    rf = fnum(res.fun)
    tr.emit("return", x=[dy(v) for v in rx], fun=dy(rf), nfev=int(getattr(res, "nfev", 0) or 0),
            complete=bool(mine) and len(mine) <= MAX_EVAL_EVENTS and params.get("workers", 1) != -1,
            success=bool(getattr(res, "success", True)),
            # over ALL evaluations of this process (the logged ones may be truncated): was the returned
            # point evaluated, and did some evaluation of it give the returned objective?
            match=("pair" if any(m[0] == rx and abs(m[1] - rf) <= 1e-12 * (abs(rf) + abs(m[1])) for m in mine) else
                   "x_only" if any(m[0] == rx for m in mine) else "none"))
    info["last_eval_is_returned"] = (mine[-1][0] == rx) if mine else None
    info["x0"] = [fnum_dy(r["v"]) for r in vrows]
    info["scipy_success"] = bool(getattr(res, "success", True))
    info["scipy_message"] = str(getattr(res, "message", ""))
    info["last_vals"] = mine[-1][2] if mine else None
    info["ret_x"] = rx
    info["ret_fun"] = rf
    info["last_eval"] = mine[-1][0] if mine else None
    if finish:
        for v, xv in zip(problem.variables, rx):
            v.update(xv)
        problem.update_optics()
    tr.emit("after", vars=var_rows(problem, case, o), proj=proj_dy(o), zmax=dy(zmax(o)),
            pk=pickup_rows(o), sol=solve_rows(o), **merit_fields(problem))
    info["after_x"] = [fnum(v.value) for v in problem.variables]
    info["after_ss"] = fnum(problem.sum_squared())
    # where the lens was left (classification of a violation TLC has decided, nothing more)
    if mine and info["after_x"] == info["last_vals"]:
        info["lens_left_at"] = "returned point" if info["last_eval_is_returned"] else "last in-process evaluation"
    elif not mine and info["after_x"] == info["x0"]:
        info["lens_left_at"] = "start (every evaluation was remote)"
    elif info["after_x"] == rx:
        info["lens_left_at"] = "returned point"
    else:
        info["lens_left_at"] = "elsewhere"
    return res, info


def undo_event(tr, o, opt, finish_problem=None):
    exc = ""
    try:
        opt.undo()
        if finish_problem is not None:           # calibration traces: undo + update of the optics
            finish_problem.update_optics()
    except Exception as ex:
        exc = "%s: %s" % (type(ex).__name__, ex)
    tr.emit("undo", exc=exc, proj=proj_dy(o), zmax=dy(zmax(o)), pk=pickup_rows(o), sol=solve_rows(o))


def run_case(case):
    """Execute one scenario; returns (events, case-with-choices, infos)."""
    with warnings.catch_warnings():
        warnings.simplefilter("ignore")
        return G.quiet(_run_case, case)


def _run_case(case):
    tr = Trace(case["tid"], case)
    infos = []
    try:
        o, meta = build_lens(case)
        choose_problem(case, o, case["family"])
        fe = case["front_end"]
        case["made"] = add_constraints(case, o)
        if fe == "compensator":
            from optiland.tolerancing.compensator import CompensatorOptimizer
            problem = build_problem(case, o, CompensatorOptimizer(method=case["params"].get("cmethod", "generic"),
                                                                  tol=case["params"].get("tol", 1e-5)))
        else:
            problem = build_problem(case, o)
        m0 = fnum(problem.sum_squared())
        if not math.isfinite(m0) or not case["vars"]:
            return [], case, [{"skip": "start merit not finite" if case["vars"] else "no admissible variable"}]
    except Exception as ex:
        return [], case, [{"skip": "setup: %s" % type(ex).__name__, "msg": str(ex)}]
    tr.emit("new")
    if case.get("probe", True):
        for v, vs in zip(problem.variables, case["vars"]):
            probe_variable(tr, o, v, vs)
    tr.emit("merit", **merit_fields(problem))
    opt = None if fe == "compensator" else make_optimizer(fe, problem)
    for step in case["sequence"]:
        if step == "opt":
            res, info = one_run(tr, o, problem, case, opt, fe, case["params"], finish=bool(case.get("driver_finish")))
            infos.append(info)
            # a run that raised or left the lens without a finite merit ends the history
            if res is None or not math.isfinite(info.get("after_ss", float("nan"))):
                break
        elif step == "undo" and opt is not None:
            undo_event(tr, o, opt, problem if case.get("driver_finish") else None)
    return tr.events, case, infos


def classify(case, info):
    """Input-class attributes of a run (for known-finding matching)."""
    vs = case.get("vars", [])
    d8 = any((not v["scaled"]) and v["type"] not in IDENTITY_SCALE
             and (v["min"] is not None or v["max"] is not None) for v in vs)
    cls = {"front_end": case["front_end"],
           "apply_scaling": all(v["scaled"] for v in vs),
           # False iff some bounded, unscaled variable has a non-identity scale()
           "scale_is_identity": not d8,
           "has_pickup_or_solve": bool(case.get("made", {}).get("pickup") or case.get("made", {}).get("solve")),
           "index_var_on_dispersive_glass": case["family"] == "glass" and any(v["type"] == "index" for v in vs)}
    cls["method"] = (case.get("params", {}).get("method") or "default") if case["front_end"] == "generic" else "n/a"
    if info is not None:
        cls["lens_left_at"] = info.get("lens_left_at")
        cls["scipy_success"] = info.get("scipy_success")
    return cls
