"""Recorder for C18 (catalogue materials).

Reads the catalogue (csv module) and the data files (PyYAML, own table /
coefficient parsing - deliberately NOT through optiland's MaterialFile, so a
parsing slip in MaterialFile._parse_file shows up as a broken identity), calls
the real code and writes events with exact dyadic numbers.  Nothing here
computes an expected index: the events carry the file's numbers and the
code's answers, spec/Catalogue.tla relates them.
"""
import csv
import math
import os
import random
from fractions import Fraction

import numpy as np
import yaml

from harness.dy import dy
from harness.lensgen import quiet

REPO = os.environ.get("VERIF_REPO") or os.environ.get("OPTILAND_REPO", "/repo")     # the tree under test
CSV = os.path.join(REPO, "database", "catalog_nk.csv")
BASE = os.path.join(REPO, "database", "data-nk")
NPY = os.path.join(REPO, "database", "glass_model_coefficients.npy")
LINES = (("d", 0.5875618), ("F", 0.4861327), ("C", 0.6562725))
REGEX_META = set(".^$*+?{}[]\\|()")


def load_catalogue():
    with open(CSV, encoding="utf-8", newline="") as fh:
        rows = list(csv.DictReader(fh))
    for i, r in enumerate(rows):
        r["idx"] = i
        r["lo"] = float(r["min_wavelength"])
        r["hi"] = float(r["max_wavelength"])
    return rows


# ---- data files ------------------------------------------------------------
def read_blocks(path):
    """The DATA blocks of a refractiveindex.info YAML file, as plain Python."""
    with open(path, encoding="utf-8") as fh:
        data = yaml.safe_load(fh)
    out = []
    for b in data["DATA"]:
        ty = b["type"]
        rec = {"type": ty}
        if ty.startswith("formula"):
            rec["c"] = [float(t) for t in str(b["coefficients"]).split()]
            if "wavelength_range" in b:
                rec["range"] = [float(t) for t in str(b["wavelength_range"]).split()]
        elif ty.startswith("tabulated"):
            rows = []
            for ln in str(b["data"]).splitlines():
                ln = ln.split("#")[0].strip()
                if ln:
                    rows.append([float(t) for t in ln.split()])
            rec["rows"] = rows
        out.append(rec)
    return out


def n_blocks(blocks):
    return [b for b in blocks if b["type"].startswith("formula") or b["type"] in ("tabulated n", "tabulated nk")]


def k_table(blocks):
    for b in blocks:
        if b["type"] == "tabulated k":
            return [(r[0], r[1]) for r in b["rows"]]
        if b["type"] == "tabulated nk":
            return [(r[0], r[2]) for r in b["rows"]]
    return None


def n_table(block):
    return [(r[0], r[1]) for r in block["rows"]]


def formula_class(blocks):
    nb = n_blocks(blocks)
    if not nb:
        return "none"
    return "+".join(b["type"] for b in nb)


def is_sorted(tab):
    return all(a[0] <= b[0] for a, b in zip(tab, tab[1:]))


def in_disordered_region(tab, w):
    """The rows that bracket w as neighbours in file order are not the rows that bracket it
    in wavelength order (only possible when the file's table steps backwards): there a
    bisection that presumes sorted rows interpolates between the wrong rows."""
    if is_sorted(tab):
        return False
    idx = sorted(range(len(tab)), key=lambda i: tab[i][0])
    by_sort = {(a, b) for a, b in zip(idx, idx[1:]) if tab[a][0] <= w <= tab[b][0]}
    by_file, descent = set(), False
    for i in range(len(tab) - 1):
        a, b = (i, i + 1) if tab[i][0] <= tab[i + 1][0] else (i + 1, i)
        if tab[a][0] <= w <= tab[b][0]:
            by_file.add((a, b))
            descent = descent or a > b          # w sits inside a backward step
    return descent or by_sort != by_file


def segments(tab, w):
    """Pairs of rows adjacent in wavelength order (stable) that bracket w."""
    st = sorted(tab, key=lambda r: r[0])
    if len(st) == 1:
        return [[st[0][0], st[0][1], st[0][0], st[0][1]]] if st[0][0] == w else []
    out = []
    for a, b in zip(st, st[1:]):
        if a[0] <= w <= b[0]:
            out.append([a[0], a[1], b[0], b[1]])
        elif a[0] > w:
            break
    return out


# ---- certificates for exponents ---------------------------------------------
def exponent_cert(base, e):
    """How spec/Catalogue.tla may use base**e (see PowOK there)."""
    if float(e).is_integer() and abs(e) <= 64:
        return {"t": "int", "e": int(e)}
    fr = Fraction(e).limit_denominator(8)
    if float(fr) == e and 2 <= fr.denominator <= 8 and abs(fr.numerator) <= 32 and base > 0:
        return {"t": "rat", "num": fr.numerator, "den": fr.denominator, "p": dy(math.pow(base, e))}
    try:
        p = math.pow(base, e)
    except (ValueError, OverflowError, ZeroDivisionError):
        p = float("nan")
    return {"t": "lib", "p": dy(p)}


def certificates(ftype, c, w):
    x = [{"t": "none"} for _ in c]
    f = ftype.split()[-1]
    if f in ("3", "5"):
        for k in range(2, len(c), 2):          # 0-based positions 2, 4, ... hold exponents
            x[k] = exponent_cert(w, c[k])
    elif f == "4":
        for k, base in ((2, w), (4, c[3] if len(c) > 3 else 0.0), (6, w), (8, c[7] if len(c) > 7 else 0.0)):
            if k < len(c):
                x[k] = exponent_cert(base, c[k])
        for k in range(10, len(c), 2):
            x[k] = exponent_cert(w, c[k])
    return x


# ---- wavelengths -------------------------------------------------------------
def pick_wavelengths(row, blocks, rnd, abbe):
    lo, hi = row["lo"], row["hi"]
    ws = [(lo, ""), (hi, "")]
    if hi > lo:
        for _ in range(3):
            ws.append((lo + (hi - lo) * rnd.random(), ""))
    tabs = [n_table(b) for b in n_blocks(blocks) if b["type"].startswith("tabulated")]
    kt = k_table(blocks)
    if kt:
        tabs.append(kt)
    for j, tab in enumerate(tabs[:2]):
        inner = [r[0] for r in tab if lo < r[0] < hi]
        if inner and hi > lo:
            ws[4 - j] = (rnd.choice(inner), "")       # one exact node of the table
        # tables that are not sorted: probe the middle of every descent
        for a, b in zip(tab, tab[1:]):
            if a[0] > b[0]:
                m = 0.5 * (a[0] + b[0])
                if lo <= m <= hi:
                    ws.append((m, ""))
        # one wavelength listed twice with different values: interpolation on either side of the
        # step starts from the row next to that side (probe both sides and the node itself)
        srt = sorted(tab, key=lambda r: r[0])
        for q in range(len(srt) - 1):
            if srt[q][0] == srt[q + 1][0] and list(srt[q][1:]) != list(srt[q + 1][1:]):
                w0 = srt[q][0]
                below = [r[0] for r in srt if r[0] < w0]
                above = [r[0] for r in srt if r[0] > w0]
                for m in ([0.5 * (below[-1] + w0)] if below else []) + ([0.5 * (w0 + above[0])] if above else []):
                    if lo <= m <= hi:
                        ws.append((m, ""))
    # round wavelengths: where integer powers of small integers coincide (0**0 = 1**q = 1), an absent
    # term of a dispersion formula must not turn into 0/0
    ws += [(w, "") for w in (1.0, 2.0, 0.5) if lo <= w <= hi]
    if abbe:
        ws += [(w, name) for name, w in LINES]
    return ws


def scalar(x):
    return float(np.asarray(x).reshape(-1)[0])


def record_row(task):
    """All events of one catalogue row, recorded from MaterialFile(path)."""
    row, seed, want_abbe = task
    from optiland.materials import MaterialFile
    rnd = random.Random(seed * 1000003 + row["idx"])
    path = os.path.join(BASE, row["filename"])
    out = {"idx": row["idx"], "events": [], "skips": {}, "error": None, "calls": 0}
    blocks = read_blocks(path)
    nb = n_blocks(blocks)
    out["fclass"] = formula_class(blocks)
    kt = k_table(blocks)
    out["has_k"] = kt is not None
    out["unsorted"] = any(not is_sorted(t) for t in
                          [n_table(b) for b in nb if b["type"].startswith("tabulated")] + ([kt] if kt else []))
    if not nb:
        out["skips"]["row defines no dispersion relation (k table only)"] = 1
        return out
    try:
        m = quiet(MaterialFile, path)
    except Exception as ex:
        out["error"] = {"stage": "load", "exc": "%s: %s" % (type(ex).__name__, ex)}
        return out
    if len(nb) > 1:     # loaded although two relations are named: judge against the first
        out["skips"]["file names two n relations"] = 1
    blk = nb[0]
    if row["lo"] > row["hi"]:
        # the catalogue's range (intersection of the n and k ranges) is empty: nothing is claimed
        # "inside the stated range"; judge each block on its own range instead
        out["skips"]["stated range is empty (n and k ranges do not overlap): each block judged on its own range"] = 1
        krow = dict(row)
        if kt:
            krow["lo"], krow["hi"] = min(r[0] for r in kt), max(r[0] for r in kt)
        row = dict(row)
        if "range" in blk:
            row["lo"], row["hi"] = blk["range"][0], blk["range"][1]
        else:
            row["lo"], row["hi"] = min(r[0] for r in blk["rows"]), max(r[0] for r in blk["rows"])
    else:
        krow = None
    abbe = want_abbe and row["lo"] <= LINES[1][1] and row["hi"] >= LINES[2][1]
    ws = pick_wavelengths(row, [b for b in blocks if krow is None or b["type"] != "tabulated k"], rnd, abbe)
    warr = np.array([w for w, _ in ws])
    try:
        with np.errstate(all="ignore"):
            ns = [scalar(m.n(w)) for w, _ in ws]
            na = np.asarray(m.n(warr), dtype=float).reshape(-1)
        out["calls"] += len(ws) + 1
    except Exception as ex:
        out["error"] = {"stage": "n", "exc": "%s: %s" % (type(ex).__name__, ex)}
        return out
    base = {"grp": row["idx"], "row": row["idx"]}
    for i, (w, line) in enumerate(ws):
        if blk["type"].startswith("formula"):
            e = dict(base, kind="formula", what="n", type=blk["type"], c=[dy(v) for v in blk["c"]],
                     x=certificates(blk["type"], blk["c"], w), w=dy(w), n=dy(ns[i]), na=dy(na[i]), line=line)
        else:
            segs = segments(n_table(blk), w)
            e = dict(base, kind="tab", what="n", type=blk["type"], w=dy(w), v=dy(ns[i]), va=dy(na[i]),
                     segs=[[dy(t) for t in s] for s in segs], line=line,
                     in_disordered_region=in_disordered_region(n_table(blk), w))
        out["events"].append(e)
    if abbe:
        try:
            with np.errstate(all="ignore"):
                V = scalar(m.abbe())
            out["calls"] += 1
            k0 = len(ws) - 3
            out["events"].append(dict(base, kind="abbe", nd=dy(ns[k0]), nF=dy(ns[k0 + 1]), nC=dy(ns[k0 + 2]), V=dy(V)))
        except Exception as ex:
            out["error"] = {"stage": "abbe", "exc": "%s: %s" % (type(ex).__name__, ex)}
    # extinction coefficient
    kws = [w for w, line in ws if not line]
    if krow is not None and kt is not None:
        kws = [w for w, _ in pick_wavelengths(krow, [b for b in blocks if b["type"] == "tabulated k"], rnd, False)]
    if kt is None:
        try:
            m.k(kws[0])
            out["k_without_table"] = "returned"
        except Exception as ex:
            out["k_without_table"] = type(ex).__name__
        out["skips"]["k clause: file has no k table (MaterialFile.k raises ValueError, documented)"] = 1
    else:
        try:
            with np.errstate(all="ignore"):
                ks = [scalar(m.k(w)) for w in kws]
                ka = np.asarray(m.k(np.array(kws)), dtype=float).reshape(-1)
            out["calls"] += len(kws) + 1
            for i, w in enumerate(kws):
                segs = segments(kt, w)
                out["events"].append(dict(base, kind="tab", what="k", type="k table", w=dy(w), v=dy(ks[i]),
                                          va=dy(ka[i]), segs=[[dy(t) for t in s] for s in segs], line="",
                                          in_disordered_region=in_disordered_region(kt, w)))
        except Exception as ex:
            out["error"] = {"stage": "k", "exc": "%s: %s" % (type(ex).__name__, ex)}
    return out


def record_file(task):
    """Events of a synthetic data file (formula 7, non-integer exponents): same recorder,
    the row is made up (range given), the code under test is the same MaterialFile."""
    path, lo, hi, idx, seed = task
    row = {"idx": idx, "filename": path, "lo": lo, "hi": hi}
    return record_row((row, seed, False))


# ---- lookups -------------------------------------------------------------------
def record_lookup(task):
    qid, name, ref = task
    from optiland.materials import Material
    e = {"kind": "lookup", "grp": qid, "q_name": name, "has_ref": ref is not None, "q_ref": ref or "",
         "ok": False, "r_name": "", "r_ref": "", "r_file": "", "r_cat": "", "r_loaded": "", "exc": ""}
    try:
        m = quiet(Material, name, ref) if ref is not None else quiet(Material, name)
        d = m.material_data
        loaded = os.path.relpath(os.path.realpath(m.filename), os.path.realpath(BASE)).replace(os.sep, "/")
        e.update(ok=True, r_name=str(d["name"]), r_ref=str(d["reference"]), r_file=str(d["filename"]),
                 r_cat=str(d["category_name"]), r_loaded=loaded)
    except Exception as ex:
        e["exc"] = "%s: %s" % (type(ex).__name__, ex)
    return e


def lookup_class(rows, e):
    """Input-class attributes of a lookup (computed from the query and the catalogue only)."""
    q = e["q_name"]
    ql = q.lower()
    tie = any((r["category_name"].lower() == ql or r["name"].lower() == ql) and r["name"] != q for r in rows)
    exact_files = {r["filename"] for r in rows if r["name"] == q and (not e["has_ref"] or r["reference"] == e["q_ref"])}
    cls = {"name_has_regex_metachar": bool(set(q) & REGEX_META),
           "name_has_regex_group_or_quantifier": bool(set(q) & (REGEX_META - {"."})),
           "tie_at_distance_zero": tie, "with_reference": e["has_ref"]}
    if e["ok"]:
        cls["same_data_file"] = e["r_file"] in exact_files
    else:
        cls["exc_kind"] = ("no_matches" if "No matches found" in e["exc"] else
                           "two_n_relations" if "Multiple refractive index" in e["exc"] else "other")
        if cls["exc_kind"] == "two_n_relations":
            cls["file_names_two_n_relations"] = True
    return cls


# ---- model glass ------------------------------------------------------------------
def record_model(task):
    gid, nd, V, extra_w = task
    from optiland.materials import AbbeMaterial
    K = np.load(NPY)
    m = AbbeMaterial(nd, V)
    ws = [w for _, w in LINES] + list(extra_w)
    arr = np.asarray(m.n(np.array(ws)), dtype=float).reshape(-1)
    pts = [{"w": dy(w), "n": dy(scalar(m.n(w))), "na": dy(arr[i])} for i, w in enumerate(ws)]
    return {"kind": "model", "grp": gid, "nd": dy(nd), "V": dy(V), "K": [[dy(v) for v in r] for r in K.tolist()],
            "pts": pts}


def schott_glasses(rows):
    """(n_d, V_d) of the Schott catalogue glasses, computed with the code under test
    (inputs for the model glass; the values themselves are judged by the formula clauses)."""
    from optiland.materials import MaterialFile
    seen, out = set(), []
    for r in rows:
        f = r["filename"]
        if not f.startswith("glass/schott/") or f in seen:
            continue
        seen.add(f)
        if not (r["lo"] <= LINES[1][1] and r["hi"] >= LINES[2][1]):
            continue
        try:
            m = quiet(MaterialFile, os.path.join(BASE, f))
            nd = scalar(m.n(LINES[0][1]))
            V = scalar(m.abbe())
        except Exception:
            continue
        if 1.44 <= nd <= 2.01 and 20.0 <= V <= 85.0:
            out.append((f, nd, V))
    return out
