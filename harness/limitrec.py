"""Recording for spec/Limit.tla (C05): eps-families of real rays next to the library's
paraxial marginal / chief ray.

Reads only the observation points of C05: optic.surface_group.x / y / M / N per surface after
optic.trace_generic(0, H, 0, P, w), and optic.paraxial.marginal_ray() / chief_ray() (plus F2()),
which are recorded data (their correctness is C04's business).  Nothing here computes an
expected value; tangents of field angles are certificates validated by the spec.
"""
import math

import numpy as np

from harness.dy import dy
from harness.lensgen import quiet

NJ = 9
EPS0 = 1.0 / 16.0
EPS = [EPS0 * 2.0 ** -j for j in range(NJ)]
SAMPLES = ["CookeTriplet", "DoubleGauss", "ReverseTelephoto", "TessarLens", "Telephoto", "LensWithFieldCorrector",
           "PetzvalLens", "EdmundLens", "SingletStopSurf2", "Objective60x", "HeliarLens", "EyepieceErfle"]


def _f(x):
    return float(np.asarray(x, dtype=float).ravel()[0])


def random_lens(rnd):
    """Axially symmetric random prescription for the limit check: spheres, conics, planes, even
    aspheres without an r^2 term (the paraxial trace ignores that term: known C04 finding), mirrors
    (negative separations behind them), any stop position, finite or infinite object, the three
    aperture types, both field types; no tilts.  Returns (optic, meta)."""
    from optiland.optic import Optic
    from optiland.materials import IdealMaterial
    o = Optic()
    n = rnd.randint(1, 7)
    finite = rnd.random() < 0.45
    epd = rnd.uniform(1.0, 8.0)
    lo = 4.0 * epd
    obj_t = rnd.uniform(40.0, 400.0) if finite else math.inf
    o.add_surface(index=0, thickness=obj_t)
    stop = rnd.choice([1, n, rnd.randint(1, n)])
    sign = 1.0
    in_glass = False
    late = []
    meta = {"nsurf": n, "finite_object": finite, "stop": stop, "mirrors": 0, "aspheres": 0, "conics": 0}
    for j in range(1, n + 1):
        plane = rnd.random() < 0.12
        R = math.inf if plane else rnd.choice([-1, 1]) * math.exp(rnd.uniform(math.log(lo), math.log(600.0)))
        kw = dict(index=j, radius=R, is_stop=(j == stop))
        q = rnd.random()
        if q < 0.2 and not plane:      # (an even asphere with an infinite radius cannot be traced at all)
            kw["surface_type"] = "even_asphere"
            kw["conic"] = rnd.uniform(-1.5, 0.5) if rnd.random() < 0.5 else 0.0
            kw["coefficients"] = [0.0, rnd.uniform(-1, 1) * 1e-3 / lo ** 3, rnd.uniform(-1, 1) * 1e-3 / lo ** 5]
            meta["aspheres"] += 1
        elif q < 0.45 and not plane:
            kw["conic"] = rnd.uniform(-1.5, 0.5)
            meta["conics"] += 1
        m = rnd.random()
        if m < 0.1 and j > 1:
            material = "mirror"
            sign = -sign
            meta["mirrors"] += 1
        elif in_glass and m < 0.8 or (j == n and m < 0.9):
            material = "air"
            in_glass = False
        else:
            material = IdealMaterial(n=rnd.uniform(1.3, 2.0))
            in_glass = True
        kw["material"] = material
        t = rnd.uniform(0.5, 12.0) if in_glass else rnd.uniform(0.5, 40.0)
        kw["thickness"] = sign * t
        # a lens is a prescription, however it came about: one sphere in five is entered flat and
        # receives its radius afterwards through the public setter
        if "surface_type" not in kw and "conic" not in kw and not plane and rnd.random() < 0.2:
            late.append((j, kw.pop("radius")))
        quiet(o.add_surface, **kw)
    o.add_surface(index=n + 1)
    for j, R in late:
        o.set_radius(R, j)
    meta["radius_set_afterwards"] = len(late)
    apt = rnd.choice(["EPD", "EPD", "imageFNO", "objectNA"] if finite else ["EPD", "EPD", "imageFNO"])
    o.set_aperture("EPD", epd)
    o.add_wavelength(0.5876, is_primary=True)
    # F-number / NA chosen so that the beam stays of the size the radii and aspheric terms were drawn for
    # (input generation only: the library's own f2 / EPL are used to pick an argument, not to judge anything)
    val = epd
    try:
        with np.errstate(all="ignore"):
            if apt == "imageFNO":
                val = min(max(abs(_f(o.paraxial.f2())) / (epd * rnd.uniform(0.7, 1.4)), 0.8), 1e6)
            elif apt == "objectNA":
                z = _f(o.paraxial.EPL()) - _f(o.object_surface.geometry.cs.z)
                val = math.sin(math.atan(epd * rnd.uniform(0.7, 1.4) / (2.0 * abs(z))))
        if not (math.isfinite(val) and val > 0):
            raise ValueError
    except Exception:
        apt, val = "EPD", epd
    o.wavelengths.wavelengths.clear()
    o.set_aperture(apt, val)
    ft = "object_height" if (finite and rnd.random() < 0.5) else "angle"
    o.set_field_type(ft)
    mf = rnd.uniform(1.0, 12.0) if ft == "angle" else rnd.uniform(1.0, 8.0)
    o.add_field(y=0.0)
    o.add_field(y=0.7 * mf)
    o.add_field(y=mf)
    for i, w in enumerate([0.4861, 0.5876, 0.6563]):
        o.add_wavelength(w, is_primary=(i == 1))
    meta.update(aperture=apt, field_type=ft, max_field=mf)
    return o, meta


def conditioning(optic, ym, yc):
    """Size of the beam at eps_0 against the local radii, and of the next aspheric order against
    the leading one: the decay clause is an asymptotic statement and is only judged where the
    first sample of the sequence is already in the small-aperture regime."""
    worst = 0.0
    for k, s in enumerate(optic.surface_group.surfaces):
        if k == 0:
            continue
        g = s.geometry
        h = EPS0 * (abs(ym[k]) + abs(yc[k]))
        R = _f(g.radius)
        if math.isfinite(R) and R != 0.0:
            worst = max(worst, h / abs(R))
        if type(g).__name__ == "EvenAsphere":
            c = [abs(float(v)) for v in np.asarray(g.c, dtype=float).ravel()]
            for q in range(1, len(c) - 1):
                if c[q] > 0:
                    worst = max(worst, math.sqrt(c[q + 1] * h * h / c[q]))
    return worst


def unsupported(optic):
    """Reason why a lens lies outside what this check records, or None."""
    if optic.obj_space_telecentric:
        return "telecentric object space (no finite entrance pupil)"
    sg = optic.surface_group
    if len(sg.surfaces) < 3:
        return "no lens surface"
    if optic.object_surface.is_infinite and optic.aperture.ap_type == "objectNA":
        return "objectNA with an infinite object"
    if optic.object_surface.is_infinite and optic.field_type == "object_height":
        return "object_height with an infinite object"
    for s in sg.surfaces:
        g = s.geometry
        name = type(g).__name__
        if name not in ("Plane", "StandardGeometry", "EvenAsphere"):
            return "geometry " + name
        cs = g.cs
        if any(_f(getattr(cs, a)) != 0.0 for a in ("x", "y", "rx", "ry", "rz")):
            return "tilted or decentred surface"
        if name == "EvenAsphere":
            c = list(np.asarray(g.c, dtype=float).ravel())
            if c and c[0] != 0.0:
                return "even asphere with an r^2 coefficient (ignored by the paraxial trace: known C04 finding)"
    if np.any(optic.fields.x_fields != 0):
        return "x fields"
    if np.any(optic.fields.vx != 0) or np.any(optic.fields.vy != 0):
        return "vignetting factors"
    return None


def _family(optic, fam, w, style=0):
    """Real eps-family: arrays [k][j] of x, y, M, N.  One trace_generic call with 9 rays.
    style: how the zero coordinates are passed - 0: floats / float arrays, 1: Python ints,
    2: integer arrays (all three mean the same coordinates)."""
    eps = np.array(EPS)
    z = np.zeros(NJ)
    zi = np.zeros(NJ, dtype=int)
    with np.errstate(all="ignore"):
        if fam == "marginal":
            if style == 1:
                quiet(optic.trace_generic, 0, 0, 0, eps.copy(), w)
            elif style == 2:
                quiet(optic.trace_generic, zi.copy(), zi.copy(), zi.copy(), eps.copy(), w)
            else:
                quiet(optic.trace_generic, 0.0, 0.0, z.copy(), eps.copy(), w)
        else:
            if style == 1:
                quiet(optic.trace_generic, 0, eps.copy(), 0, 0, w)
            elif style == 2:
                quiet(optic.trace_generic, zi.copy(), eps.copy(), zi.copy(), zi.copy(), w)
            else:
                quiet(optic.trace_generic, z.copy(), eps.copy(), z.copy(), z.copy(), w)
    sg = optic.surface_group
    return {k: np.array(getattr(sg, k), dtype=float) for k in ("x", "y", "z", "M", "N")}


def record(optic, label, lens_id):
    """Returns dict(events=[...], skip=reason|None, info={...}).  Events carry no ids."""
    out = {"label": label, "events": [], "skip": None, "info": {}}
    why = unsupported(optic)
    if why:
        out["skip"] = "outside the recorded class: " + why
        return out
    sg = optic.surface_group
    K = len(sg.surfaces) - 1
    stop = int(sg.stop_index)
    ft = optic.field_type
    inf = bool(optic.object_surface.is_infinite)
    w = optic.primary_wavelength
    F = float(optic.fields.max_y_field)
    info = {"K": K, "stop": stop, "field_type": ft, "finite_object": not inf, "aperture": optic.aperture.ap_type,
            "mirror": any(bool(s.is_reflective) for s in sg.surfaces), "max_field": F}
    out["info"] = info
    with np.errstate(all="ignore"):
        try:
            ym, um = [np.ravel(np.asarray(a, dtype=float)) for a in optic.paraxial.marginal_ray()]
            yc, uc = [np.ravel(np.asarray(a, dtype=float)) for a in optic.paraxial.chief_ray()]
            F2 = _f(optic.paraxial.F2())
            epl = _f(optic.paraxial.EPL())
        except Exception as ex:
            out["skip"] = "paraxial accessor raises: %s" % type(ex).__name__
            return out
    if not all(np.all(np.isfinite(a)) for a in (ym, um, yc, uc)) or len(ym) != K + 1:
        out["skip"] = "paraxial marginal / chief ray undefined (non-finite)"
        return out
    info["conditioning"] = conditioning(optic, ym, yc)
    if info["conditioning"] > 0.05:
        out["skip"] = ("ill-conditioned: at eps_0 = 1/16 the beam is not small against a radius or an aspheric order "
                       "(h/R or sqrt(a_{q+1} h^2 / a_q) > 0.05)")
        return out
    info["paraxial"] = {"ym": [float(v) for v in ym], "um": [float(v) for v in um], "yc": [float(v) for v in yc],
                        "uc": [float(v) for v in uc], "F2": F2, "EPL": epl}
    # the same two rays from Paraxial.trace(Hy, Py, w) - the paraxial trace by normalised coordinates
    ptr = {}
    with np.errstate(all="ignore"):
        for fam, (hy, py) in (("marginal", (0.0, 1.0)), ("chief", (1.0, 0.0))):
            try:
                quiet(optic.paraxial.trace, hy, py, w)
                yy = np.ravel(np.asarray(sg.y, dtype=float)).copy()
                uu = np.ravel(np.asarray(sg.u, dtype=float)).copy()
                if len(yy) == K + 1 and len(uu) == K + 1:
                    ptr[fam] = (yy, uu)      # (non-finite values are passed on: the spec answers "not_finite")
                else:
                    out.setdefault("notes", []).append("Paraxial.trace does not record every surface: not compared")
            except Exception as ex:
                out.setdefault("notes", []).append("Paraxial.trace raises %s: not compared" % type(ex).__name__)
    fams = {}
    for fam in ("marginal", "chief"):
        if fam == "chief" and F == 0.0:
            continue
        try:
            R = _family(optic, fam, w, style=(lens_id if isinstance(lens_id, int) else sum(map(ord, str(lens_id)))) % 3)
        except Exception as ex:
            out["skip"] = "trace_generic raises: %s: %s" % (type(ex).__name__, ex)
            return out
        if R["y"].shape != (K + 1, NJ):
            out["skip"] = "not every surface recorded"
            return out
        if not all(np.all(np.isfinite(R[k])) for k in ("x", "y", "M", "N")):
            if epl < float(R["z"][0, 0]) if np.isfinite(R["z"][0, 0]) else False:
                out["skip"] = ("real rays not traceable: entrance pupil in front of the launch point, rays are launched "
                               "backwards (known C03 finding C03-pupil-in-front-backward-rays)")
            else:
                out["skip"] = "real rays not traceable at eps = 1/16 (missed surface or total internal reflection)"
            return out
        fams[fam] = R
    evs = out["events"]
    for fam, src in [(f, s) for f in fams for s in ("rays", "trace")]:
        R = fams[fam]
        if src == "trace":
            if fam not in ptr:
                continue
            yp, up = ptr[fam]
        else:
            yp, up = (ym, um) if fam == "marginal" else (yc, uc)
        sc = {"kind": "scale", "lens": lens_id, "fam": fam, "src": src, "eps": [dy(e) for e in EPS]}
        if fam == "chief" and ft == "angle":
            th = [F * e for e in EPS]
            rr = [math.radians(t) for t in th]
            sc.update(mode="angle", F=dy(F), th=[dy(t) for t in th], rr=[dy(r) for r in rr],
                      sn=[dy(math.tan(r)) for r in rr], rF=dy(math.radians(F)), sd=dy(math.tan(math.radians(F))))
        else:
            sc.update(mode="linear", sn=[dy(e) for e in EPS], sd=dy(1.0))
        evs.append(sc)
        Sy = float(np.max(np.abs(yp))) if np.all(np.isfinite(yp)) else float("nan")
        Su = float(np.max(np.abs(up))) if np.all(np.isfinite(up)) else float("nan")
        base = {"lens": lens_id, "fam": fam, "src": src}
        # (Paraxial.trace launches from the object: for a finite object its record 0 is a height on the object)
        for k in range(0 if (src == "trace" and not inf) else 1, K + 1):
            evs.append(dict(base, kind="height", k=k, Y=[dy(float(v)) for v in R["y"][k]], yp=dy(float(yp[k])),
                            up=dy(float(up[k])), S=dy(Sy)))
        for k in range(0, K + 1):
            evs.append(dict(base, kind="tangent", k=k, M=[dy(float(v)) for v in R["M"][k]],
                            N=[dy(float(v)) for v in R["N"][k]], yp=dy(float(yp[k])), up=dy(float(up[k])), S=dy(Su)))
        if src == "trace":
            continue
        if fam == "marginal":
            if abs(up[K]) > 1e-9 * max(Su, 1e-300) and abs(up[K]) > 1e-12:
                # axial crossing measured from the image surface against the paraxial image position -y_K/u_K
                evs.append(dict(base, kind="focus", k=K, variant="marginal_ray", Y=[dy(float(v)) for v in R["y"][K]],
                                M=[dy(float(v)) for v in R["M"][K]], N=[dy(float(v)) for v in R["N"][K]],
                                yp=dy(float(yp[K])), up=dy(float(up[K])), S=dy(Sy)))
                if inf and math.isfinite(F2):
                    # ... and, for an object at infinity, against the back focal position F2() (= -yp/up with up = 1)
                    evs.append(dict(base, kind="focus", k=K, variant="F2", Y=[dy(float(v)) for v in R["y"][K]],
                                    M=[dy(float(v)) for v in R["M"][K]], N=[dy(float(v)) for v in R["N"][K]],
                                    yp=dy(-F2), up=dy(1.0), S=dy(Sy)))
            else:
                out.setdefault("notes", []).append("afocal: no axial focus")
        else:
            evs.append(dict(base, kind="stopx", k=stop, X=[dy(float(v)) for v in R["x"][stop]], S=dy(Sy)))
            # "the zero-pupil ray of each field tends to the centre of the aperture stop": the height at the
            # stop against 0 itself - not against the library's own paraxial chief ray there, which comes out
            # of the same entrance-pupil computation the real ray was aimed with
            evs.append(dict(base, kind="height", k=stop, variant="stop_centre", Y=[dy(float(v)) for v in R["y"][stop]],
                            yp=dy(0.0), up=dy(float(up[stop])), S=dy(Sy)))
    return out
