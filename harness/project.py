"""Projection of a live Optic onto the abstract state of spec/Lens.tla.

Reads only public attributes named in the properties' observe_at lists, so a
refactoring that keeps the public surface keeps the projection.
"""
import math

import numpy as np

from harness.dy import dy

PROBE_WL = (0.45, 0.55, 0.65)   # um: media are compared by value at these


def f(x):
    """python float of a scalar / 0-d / 1-element array (numpy 2 safe)."""
    a = np.asarray(x, dtype=float)
    if a.size != 1:
        raise ValueError("not scalar: %r" % (x,))
    return float(a.ravel()[0])


def geom_kind(g):
    return type(g).__name__


def coef_list(g):
    c = getattr(g, "c", None)
    if c is None:
        return []
    return [float(v) for v in np.asarray(c, dtype=float).ravel()]


def n_at(mat, w):
    return f(mat.n(w))


def surface_rec(optic, k):
    sg = optic.surface_group
    s = sg.surfaces[k]
    g = s.geometry
    cs = g.cs
    kk = getattr(g, "k", 0.0)
    rec = {
        "z": f(sg.positions[k]),
        "R": f(sg.radii[k]),
        "k": f(sg.conic[k]),
        "kind": geom_kind(g),
        "coef": coef_list(g),
        "npre": [n_at(s.material_pre, w) for w in PROBE_WL],
        "npost": [n_at(s.material_post, w) for w in PROBE_WL],
        "stop": bool(s.is_stop),
        "refl": bool(s.is_reflective),
        "dx": f(cs.x), "dy": f(cs.y), "rx": f(cs.rx), "ry": f(cs.ry),
        "csz": f(cs.z),
    }
    return rec


def project(optic):
    sg = optic.surface_group
    surf = [surface_rec(optic, k) for k in range(sg.num_surfaces)]
    wl = [{"v": f(w.value), "primary": bool(w.is_primary)} for w in optic.wavelengths.wavelengths]
    pks = [{"src": p.source_surface_idx, "attr": p.attr_type, "tgt": p.target_surface_idx,
            "scale": float(p.scale), "off": float(p.offset)} for p in optic.pickups.pickups]
    sol = [{"k": s.surface_idx, "h": float(s.height)} for s in optic.solves.solves]
    return {"surf": surf, "wl": wl, "pk": pks, "sol": sol,
            "stop_index": sg.stop_index,
            "primary_index": optic.wavelengths.primary_index if wl else None}


def to_dy(p):
    """Dyadic form of a projection for trace records."""
    def srec(s):
        return {"z": dy(s["z"]), "R": dy(s["R"]), "k": dy(s["k"]), "kind": s["kind"],
                "coef": [dy(c) for c in s["coef"]],
                "npre": [dy(v) for v in s["npre"]], "npost": [dy(v) for v in s["npost"]],
                "stop": s["stop"], "refl": s["refl"],
                "dx": dy(s["dx"]), "dy": dy(s["dy"]), "rx": dy(s["rx"]), "ry": dy(s["ry"])}
    return {"surf": [srec(s) for s in p["surf"]],
            "wl": [{"v": dy(w["v"]), "primary": w["primary"]} for w in p["wl"]],
            "pk": [{"src": q["src"], "attr": q["attr"], "tgt": q["tgt"],
                    "scale": dy(q["scale"]), "off": dy(q["off"])} for q in p["pk"]],
            "sol": [{"k": q["k"], "h": dy(q["h"])} for q in p["sol"]]}
