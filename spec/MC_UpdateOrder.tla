--------------------------- MODULE MC_UpdateOrder ---------------------------
(* Finite instances of UpdateOrder: two air-spaced singlets and an image      *)
(* plane (NS = 5), marginal ray height 4, every number a small rational.      *)
EXTENDS UpdateOrder
Q(a, b) == <<a, b>>
\* a singlet (surfaces 1, 2), two dummy planes in air (3, 4) and the image plane (5): three
\* surfaces a solve can own, whose gaps interact through nothing but the order of application.
\* n = 2 and power-of-two radii keep every rational small (TLC integers are 32-bit).
MCBaseR == <<Q(16, 1), Q(-16, 1), PLANE, PLANE, PLANE>>
MCBaseT == <<Q(2, 1), Q(3, 1), Q(2, 1), Q(4, 1)>>
MCBaseN == <<Q(2, 1), Q(1, 1), Q(1, 1), Q(1, 1), Q(1, 1)>>
MCY0 == Q(4, 1)
MCRadii == {Q(32, 1), Q(-8, 1)}
MCGaps == {Q(3, 1), Q(8, 1)}
MCHeights == {Q(0, 1), Q(1, 1)}
P(a, s, g, sc, o) == [attr |-> a, src |-> s, tgt |-> g, scale |-> sc, off |-> o]
\* radius pickups (symmetric lens, chains 1 -> 2 -> 3, a stale chain 3 <- 2 listed before 2 <- 1,
\* two writers of one target) and thickness pickups (free of / tied to a solved gap)
\* radius pickups between the two curved surfaces (either direction: a two-cycle when both are
\* added) and thickness pickups forming chains 1 -> 2 -> 3 in fresh and stale list order, two
\* writers of one gap, and gaps a solve may own
MCPickups == {P("radius", 1, 2, Q(-1, 1), Q(0, 1)), P("radius", 2, 1, Q(-2, 1), Q(0, 1)),
              P("radius", 1, 2, Q(1, 2), Q(8, 1)),
              P("thickness", 1, 2, Q(1, 1), Q(1, 1)), P("thickness", 2, 3, Q(2, 1), Q(0, 1)),
              P("thickness", 1, 3, Q(1, 2), Q(0, 1)), P("thickness", 3, 1, Q(1, 1), Q(0, 1))}
SmallPickups == {P("radius", 1, 2, Q(-1, 1), Q(0, 1)), P("thickness", 1, 2, Q(1, 1), Q(1, 1)),
                 P("thickness", 2, 3, Q(2, 1), Q(0, 1))}
OneRadius == {Q(32, 1)}
NoPickups == {}
OneGap == {Q(8, 1)}
=============================================================================
