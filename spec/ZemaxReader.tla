---------------------------- MODULE ZemaxReader ----------------------------
(* The reader of a sequential .zmx file as a line-dispatch state machine:     *)
(* one operator per keyword, any other keyword leaves the state unchanged.    *)
(* A line is a record [kw, s, a]: keyword, string arguments, numeric          *)
(* arguments.  Numbers are only stored, never computed with, so the module    *)
(* is independent of their representation (integers in Zemax.tla, dyadic      *)
(* records in Trace_Zemax.tla); Zero is the number 0 of that representation.  *)
(* Counts and indices (FTYP, WAVM i, PARM n, PWAV) are plain integers.        *)
EXTENDS Integers, Sequences
CONSTANT Zero
NewBlock == [type |-> "STANDARD", c |-> Zero, t |-> Zero, k |-> Zero, parm |-> [n \in 1..8 |-> Zero],
             glass |-> <<>>, stop |-> FALSE]
RdInit == [mode |-> "", ap |-> <<>>, gcat |-> <<>>, ftype |-> -1, nf |-> 0, nw |-> 0,
           xs |-> <<>>, ys |-> <<>>, wl |-> <<>>, pw |-> 0,
           cur |-> <<>>,          \* the open SURF block (sequence of length 0 or 1)
           blocks |-> <<>>]       \* finished SURF blocks
Take(s, n) == SubSeq(s, 1, IF n < Len(s) THEN n ELSE Len(s))
InBlock(r) == r.cur # <<>>
\* one operator per keyword: the reader's dispatch table
RdMODE(r, l) == [r EXCEPT !.mode = l.s[1]]
RdENPD(r, l) == [r EXCEPT !.ap = <<"EPD", l.a[1]>>]
RdFNUM(r, l) == IF l.a[2] = 0 THEN [r EXCEPT !.ap = <<"imageFNO", l.a[1]>>] ELSE r
RdOBNA(r, l) == IF l.a[2] = 0 THEN [r EXCEPT !.ap = <<"objectNA", l.a[1]>>] ELSE r
RdGCAT(r, l) == [r EXCEPT !.gcat = l.s]
RdFTYP(r, l) == [r EXCEPT !.ftype = l.a[1], !.nf = l.a[2], !.nw = l.a[3]]
RdXFLN(r, l) == [r EXCEPT !.xs = Take(l.a, r.nf)]
RdYFLN(r, l) == [r EXCEPT !.ys = Take(l.a, r.nf)]
\* WAVM i v: wavelength number i; lines come in index order, entries beyond nw are padding
RdWAVM(r, l) == IF l.a[1] <= r.nw /\ l.a[1] = Len(r.wl) + 1 THEN [r EXCEPT !.wl = Append(@, l.a[2])] ELSE r
RdPWAV(r, l) == [r EXCEPT !.pw = l.a[1]]
RdSURF(r, l) == [r EXCEPT !.blocks = @ \o r.cur, !.cur = <<NewBlock>>]
RdTYPE(r, l) == IF InBlock(r) THEN [r EXCEPT !.cur[1].type = l.s[1]] ELSE r
RdCURV(r, l) == IF InBlock(r) THEN [r EXCEPT !.cur[1].c = l.a[1]] ELSE r
RdDISZ(r, l) == IF InBlock(r) THEN [r EXCEPT !.cur[1].t = l.a[1]] ELSE r
RdCONI(r, l) == IF InBlock(r) THEN [r EXCEPT !.cur[1].k = l.a[1]] ELSE r
RdPARM(r, l) == IF InBlock(r) /\ l.a[1] \in 1..8 THEN [r EXCEPT !.cur[1].parm[l.a[1]] = l.a[2]] ELSE r
RdGLAS(r, l) == IF InBlock(r)
                THEN [r EXCEPT !.cur[1].glass = <<[name |-> l.s[1], bare |-> l.a = <<>>,
                                                   nd |-> IF l.a = <<>> THEN Zero ELSE l.a[1],
                                                   vd |-> IF l.a = <<>> THEN Zero ELSE l.a[2]]>>]
                ELSE r
RdSTOP(r, l) == IF InBlock(r) THEN [r EXCEPT !.cur[1].stop = TRUE] ELSE r
Keywords == {"MODE", "ENPD", "FNUM", "OBNA", "GCAT", "FTYP", "XFLN", "YFLN", "WAVM", "PWAV",
             "SURF", "TYPE", "CURV", "DISZ", "CONI", "PARM", "GLAS", "STOP"}
Read(r, l) ==
  CASE l.kw = "MODE" -> RdMODE(r, l) [] l.kw = "ENPD" -> RdENPD(r, l) [] l.kw = "FNUM" -> RdFNUM(r, l)
    [] l.kw = "OBNA" -> RdOBNA(r, l) [] l.kw = "GCAT" -> RdGCAT(r, l) [] l.kw = "FTYP" -> RdFTYP(r, l)
    [] l.kw = "XFLN" -> RdXFLN(r, l) [] l.kw = "YFLN" -> RdYFLN(r, l) [] l.kw = "WAVM" -> RdWAVM(r, l)
    [] l.kw = "PWAV" -> RdPWAV(r, l) [] l.kw = "SURF" -> RdSURF(r, l) [] l.kw = "TYPE" -> RdTYPE(r, l)
    [] l.kw = "CURV" -> RdCURV(r, l) [] l.kw = "DISZ" -> RdDISZ(r, l) [] l.kw = "CONI" -> RdCONI(r, l)
    [] l.kw = "PARM" -> RdPARM(r, l) [] l.kw = "GLAS" -> RdGLAS(r, l) [] l.kw = "STOP" -> RdSTOP(r, l)
    [] OTHER -> r                                   \* unknown keyword (or blank line): no effect
\* the whole file
RECURSIVE ReadAll(_, _)
ReadAll(r, ls) == IF ls = <<>> THEN r ELSE ReadAll(Read(r, Head(ls)), Tail(ls))
=============================================================================
