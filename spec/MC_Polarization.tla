--------------------------- MODULE MC_Polarization ---------------------------
(* Design-level check of spec/Polarization.tla on an exact grid.             *)
(* Back-end: rationals [n, d] whose numerator / denominator are Dyadic big   *)
(* integers (no 32-bit overflow, no normalisation, compared by cross-        *)
(* multiplication); Near is exact equality.                                  *)
(*                                                                           *)
(* Grid: Pythagorean angles, so that sines and cosines of incidence *and*    *)
(* refraction are rational: sin i = a/c, sin t = a'/c', n2/n1 = sin i/sin t. *)
(* Every state is one case; the invariants say                               *)
(*  - the textbook witness (coefficients solved from the cross-multiplied    *)
(*    relations) is accepted: in particular R + T = 1 for s and p, Brewster  *)
(*    and the normal-incidence value FOLLOW from the four relations;         *)
(*  - perturbed / swapped witnesses are rejected with the expected clause    *)
(*    (the law is neither vacuous nor over-permissive);                      *)
(*  - ideal element matrices (closed forms of the textbooks) satisfy the     *)
(*    element algebra, wrong ones (identity as polarizer, a polarizer for    *)
(*    another state, the precedence-slip diattenuator, a retarder with the   *)
(*    wrong retardance) are rejected;                                        *)
(*  - |J e|^2 + |J e_perp|^2 is independent of e (the unpolarized mean).     *)
(* The Fresnel and element cases are also exported (PrintT "CASE") with the  *)
(* exactly computed expectations for replay into the implementation.         *)
EXTENDS Dyadic, TLC, FiniteSets

Q(n, d) == [n |-> DInt(n), d |-> DInt(d)]
\* (shortcuts for 0 and for equal denominators keep the unnormalised fractions small)
QAdd(a, b) == IF a.n.s = 0 THEN b ELSE IF b.n.s = 0 THEN a
              ELSE IF a.d = b.d THEN [n |-> DAdd(a.n, b.n), d |-> a.d]
              ELSE [n |-> DAdd(DMul(a.n, b.d), DMul(b.n, a.d)), d |-> DMul(a.d, b.d)]
QSub(a, b) == QAdd(a, [n |-> DNeg(b.n), d |-> b.d])
QMul(a, b) == IF a.n.s = 0 \/ b.n.s = 0 THEN [n |-> DZero, d |-> DOne]
              ELSE [n |-> DMul(a.n, b.n), d |-> DMul(a.d, b.d)]
QAbs(a) == [n |-> DAbs(a.n), d |-> a.d]
QLeq(a, b) == DLe(DMul(a.n, b.d), DMul(b.n, a.d))            \* denominators are positive
QEq(a, b) == DEq(DMul(a.n, b.d), DMul(b.n, a.d))
QNear(a, b, scale, bits) == QEq(a, b)
QDiv(a, b) == IF DSign(b.n) > 0 THEN [n |-> DMul(a.n, b.d), d |-> DMul(a.d, b.n)]
              ELSE [n |-> DNeg(DMul(a.n, b.d)), d |-> DMul(a.d, DAbs(b.n))]      \* b # 0
Q0 == Q(0, 1)
Q1 == Q(1, 1)

P == INSTANCE Polarization WITH Add <- QAdd, Sub <- QSub, Mul <- QMul, Zero <- Q0, One <- Q1,
                                Abs <- QAbs, Leq <- QLeq, Near <- QNear

--------------------------------------------------------------------------
\* Pythagorean angles <<sin numerator, cos numerator, hypotenuse>>
Oblique == { <<3, 4, 5>>, <<4, 3, 5>>, <<5, 12, 13>>, <<12, 5, 13>>, <<8, 15, 17>>, <<15, 8, 17>>,
             <<7, 24, 25>>, <<24, 7, 25>>, <<20, 21, 29>>, <<21, 20, 29>> }
Angles == Oblique \cup { <<0, 1, 1>>, <<1, 0, 1>> }               \* element angles incl. 0 and 90 deg
SinQ(a) == Q(a[1], a[3])
CosQ(a) == Q(a[2], a[3])
Indices == { <<1, 1>>, <<5, 4>>, <<4, 3>>, <<3, 2>>, <<2, 1>>, <<5, 2>>, <<3, 1>>, <<4, 1>> }
Ts == { <<0, 1>>, <<1, 4>>, <<1, 2>>, <<1, 1>> }
InRange(q) == QLeq(Q1, q) /\ QLeq(q, Q(4, 1))

FresnelCases ==
  { [fam |-> "fresnel", i |-> i, t |-> t, n1 |-> n1] : i \in Oblique, t \in Oblique, n1 \in Indices }
  \cup { [fam |-> "normal", n1 |-> n1, n2 |-> n2] : n1 \in Indices, n2 \in Indices }
PolarizerCases == { [fam |-> "polarizer", kind |-> k, as |-> k2] : k \in P!PolarizerKinds, k2 \in P!PolarizerKinds }
RetarderCases == { [fam |-> "retarder", th |-> th, hd |-> hd] : th \in Angles, hd \in Angles }
DiattCases == { [fam |-> "diattenuator", th |-> th, tmax |-> a, tmin |-> b] :
                th \in Angles, a \in Ts, b \in Ts }
GaussVals == { <<0, 0>>, <<1, 0>>, <<0, 1>>, <<-1, 2>>, <<2, 1>> }          \* re, im (halves below)
StateVecs == { <<<<1, 0>>, <<0, 0>>>>, <<<<1, 0>>, <<1, 0>>>>, <<<<1, 0>>, <<0, -1>>>>,
               <<<<3, 0>>, <<0, 4>>>>, <<<<1, 2>>, <<2, -1>>>> }
BasisCases == { [fam |-> "basis", a |-> a, b |-> b, c |-> c, d |-> d, e |-> e] :
                a \in GaussVals, b \in GaussVals, c \in GaussVals, d \in GaussVals, e \in StateVecs }
CONSTANT Fams          \* families of cases explored by this configuration
Cases == {c \in FresnelCases \cup PolarizerCases \cup RetarderCases \cup DiattCases \cup BasisCases :
            c.fam \in Fams}

--------------------------------------------------------------------------
\* Fresnel witness: coefficients solved from the cross-multiplied relations
N1(c) == Q(c.n1[1], c.n1[2])
N2(c) == IF c.fam = "normal" THEN Q(c.n2[1], c.n2[2])
         ELSE QMul(N1(c), QDiv(SinQ(c.i), SinQ(c.t)))           \* Snell
Ci(c) == IF c.fam = "normal" THEN Q1 ELSE CosQ(c.i)
Ct(c) == IF c.fam = "normal" THEN Q1 ELSE CosQ(c.t)
Coef(c) ==
  LET a == QMul(N1(c), Ci(c))
      b == QMul(N2(c), Ct(c))
      cc == QMul(N2(c), Ci(c))
      d == QMul(N1(c), Ct(c)) IN
  [rs |-> QDiv(QSub(a, b), QAdd(a, b)), ts |-> QDiv(QAdd(a, a), QAdd(a, b)),
   rp |-> QDiv(QSub(cc, d), QAdd(cc, d)), tp |-> QDiv(QAdd(a, a), QAdd(cc, d))]
Z == P!CZero
Diag3(x, y, z) == <<<<P!CR(x), Z, Z>>, <<Z, P!CR(y), Z>>, <<Z, Z, P!CR(z)>>>>
FEvent(c, k) == [n1 |-> N1(c), n2 |-> N2(c), ci |-> Ci(c), ct |-> Ct(c),
                 Mt |-> Diag3(k.ts, k.tp, Q1), Mr |-> Diag3(k.rs, k.rp, Q1)]
FresnelAdmissible(c) == InRange(N2(c))
Eps == Q(1, 1024)
FresnelOK(c) ==
  FresnelAdmissible(c) =>
    LET k == Coef(c)
        f == FEvent(c, k)
        rs1 == QAdd(k.rs, Eps)
        tp1 == QSub(k.tp, Eps) IN
    /\ P!JudgeFresnel(f) = {}                                              \* witness accepted
    /\ P!JudgeFresnel(FEvent(c, [k EXCEPT !.rp = QSub(Q0, k.rp)])) = {}     \* either p convention
    \* the relations determine the coefficients: perturbed witnesses are rejected,
    \* by the coefficient relation and by the energy balance
    /\ P!JudgeFresnel(FEvent(c, [k EXCEPT !.rs = rs1])) =
          {"r_s", "energy_s"} \cup (IF c.fam = "normal" THEN {"normal_incidence"} ELSE {})
    /\ ~P!IsTs(f, QAdd(k.ts, Eps))
    /\ ~P!IsRpEither(f, QAdd(k.rp, Eps)) \/ QEq(QAdd(k.rp, k.rp), QSub(Q0, Eps))
    /\ ~P!IsTp(f, tp1)
    /\ ~P!Energy(f, P!CR(k.rp), P!CR(tp1))
    \* interchanging the media without recomputing the angles breaks Snell (unless n1 = n2)
    /\ (~QEq(N1(c), N2(c)) /\ c.fam = "fresnel" =>
          P!JudgeFresnel([f EXCEPT !.n1 = N2(c), !.n2 = N1(c)]) \in {{"certificate"}, {"domain"}})
    \* Brewster: n1 ct = n2 ci  =>  r_p = 0 (and only then)
    /\ (P!AtBrewster(f) <=> QEq(k.rp, Q0))
    /\ (P!AtBrewster(f) => ~P!Brewster(f, Eps))
    \* normal incidence: R_s = R_p = ((n1-n2)/(n1+n2))^2
    /\ (c.fam = "normal" =>
          /\ QEq(QMul(k.rs, k.rs), QMul(k.rp, k.rp))
          /\ QEq(QMul(k.rs, k.rs), QDiv(QMul(QSub(N1(c), N2(c)), QSub(N1(c), N2(c))),
                                        QMul(QAdd(N1(c), N2(c)), QAdd(N1(c), N2(c))))))
\* the grid is not vacuous
ASSUME \E c \in FresnelCases : c.fam = "fresnel" /\ FresnelAdmissible(c) /\ ~QEq(N1(c), N2(c))
                                /\ P!AtBrewster(FEvent(c, Coef(c)))
ASSUME \E c \in FresnelCases : c.fam = "fresnel" /\ FresnelAdmissible(c) /\ QLeq(N2(c), N1(c))
                                /\ ~QEq(N1(c), N2(c))                       \* dense -> rare, below critical

--------------------------------------------------------------------------
\* ideal elements (textbook closed forms, Gaussian rationals)
H2 == Q(1, 2)
C(re, im) == <<re, im>>
Pad(A) == <<<<A[1][1], A[1][2], Z>>, <<A[2][1], A[2][2], Z>>, <<Z, Z, P!COne>>>>
IdealPolarizer(kind) ==
  CASE kind = "H"    -> <<<<P!COne, Z>>, <<Z, Z>>>>
    [] kind = "V"    -> <<<<Z, Z>>, <<Z, P!COne>>>>
    [] kind = "L+45" -> <<<<C(H2, Q0), C(H2, Q0)>>, <<C(H2, Q0), C(H2, Q0)>>>>
    [] kind = "L-45" -> <<<<C(H2, Q0), C(QSub(Q0, H2), Q0)>>, <<C(QSub(Q0, H2), Q0), C(H2, Q0)>>>>
    [] kind = "RCP"  -> <<<<C(H2, Q0), C(Q0, H2)>>, <<C(Q0, QSub(Q0, H2)), C(H2, Q0)>>>>
    [] kind = "LCP"  -> <<<<C(H2, Q0), C(Q0, QSub(Q0, H2))>>, <<C(Q0, H2), C(H2, Q0)>>>>
\* the intensities a lossless trace reports when the 2x2 element A sits on a surface and the
\* input is the named state `as` (unnormalised vector, |e|^2 = 1 or 2): stated state, the
\* orthogonal one, unpolarized light (their mean), two elements in series
Transposed(A) == <<<<A[1][1], A[2][1]>>, <<A[1][2], A[2][2]>>>>
InLens(A, as) ==
  LET e == P!StateVec(as)
      sc == IF as \in {"H", "V"} THEN Q1 ELSE H2
      ip == QMul(sc, P!VAbs2(P!MatVec(A, e)))
      ib == QMul(sc, P!VAbs2(P!MatVec(A, P!Orth(e)))) IN
  [ipass |-> ip, iblock |-> ib, iunpol |-> QMul(H2, QAdd(ip, ib)),
   itwice |-> QMul(sc, P!VAbs2(P!MatVec(P!MatMul(A, A), e)))]
PolarizerOK(c) ==
  LET el == [kind |-> c.as, M |-> Pad(IdealPolarizer(c.kind))]
      j == P!JudgeElement(el) IN
  /\ (c.kind = c.as => j = {})
  \* the element inside a lens (JudgeInLens): accepted exactly for its own stated state ...
  /\ (c.kind = c.as <=> P!JudgeInLens(InLens(IdealPolarizer(c.kind), c.as)) = {})
  \* ... and the transposed matrix (an index slip in the composition with the local bases) is
  \* invisible for the linear polarizers (symmetric matrices) and rejected for the circular ones
  /\ (c.kind = c.as =>
        (P!JudgeInLens(InLens(Transposed(IdealPolarizer(c.kind)), c.as)) = {} <=> c.kind \notin {"RCP", "LCP"}))
  /\ (c.kind # c.as => "passes_stated_state" \in j \/ "blocks_orthogonal_state" \in j)
  \* the identity is idempotent and passes every state but is no polarizer
  /\ P!JudgeElement([kind |-> c.as, M |-> Pad(P!Id2)]) = {"blocks_orthogonal_state"}
  \* half a projector is not idempotent
  /\ "idempotent" \in P!JudgeElement([kind |-> c.as,
         M |-> Pad(P!MatMul(<<<<C(H2, Q0), Z>>, <<Z, C(H2, Q0)>>>>, IdealPolarizer(c.kind)))])

\* closed form of an element with eigenvalues u (along theta) and v (across):
\*   [[u c^2 + v s^2, (u - v) c s], [(u - v) c s, u s^2 + v c^2]]
Oriented(u, v, c, s) ==
  LET cc == P!CR(QMul(c, c))
      ss == P!CR(QMul(s, s))
      cs == P!CR(QMul(c, s))
      x == P!CMul(P!CSub(u, v), cs) IN
  <<<<P!CAdd(P!CMul(u, cc), P!CMul(v, ss)), x>>, <<x, P!CAdd(P!CMul(u, ss), P!CMul(v, cc))>>>>
RetarderOK(c) ==
  LET cd == CosQ(c.hd)
      sd == SinQ(c.hd)
      ct == CosQ(c.th)
      st == SinQ(c.th)
      u == C(cd, QSub(Q0, sd))
      v == C(cd, sd)
      el == [kind |-> "retarder", M |-> Pad(Oriented(u, v, ct, st)), M0 |-> Pad(Oriented(u, v, Q1, Q0)),
             cs |-> <<ct, st>>, hd |-> <<cd, sd>>]
      slow == [el EXCEPT !.M = Pad(Oriented(v, u, ct, st))]      \* fast and slow axes interchanged
      mirrored == [el EXCEPT !.M = Pad(Oriented(u, v, ct, QSub(Q0, st)))]   \* orientation -theta
  IN
  /\ P!JudgeElement(el) = {}
  \* no Pythagorean half-retardance is 45 deg: the quarter-wave clause rejects them all
  /\ P!JudgeElement([el EXCEPT !.kind = "quarter"]) = {"retardance"}
  /\ (sd.n.s # 0 /\ ct.n.s # 0 /\ st.n.s # 0 =>
        /\ P!JudgeElement(mirrored) = {"rotation_covariance"}
        /\ ~P!Covariant(P!Blk(slow.M), P!Blk(el.M0), ct, st))
  /\ ~P!Unitary(P!MatMul(<<<<C(H2, Q0), Z>>, <<Z, P!COne>>>>, Oriented(u, v, ct, st)))
  /\ (sd.n.s # 0 /\ cd.n.s # 0 => ~P!RetarderAtZero(P!Blk(el.M0), sd, cd))     \* another retardance
  \* half wave (d/2 = 90 deg) and nothing else passes the half-wave clause
  /\ (P!HalfAtZero(P!Blk(el.M0)) <=> cd.n.s = 0)
DiattOK(c) ==
  LET ct == CosQ(c.th)
      st == SinQ(c.th)
      tmax == Q(c.tmax[1], c.tmax[2])
      tmin == Q(c.tmin[1], c.tmin[2])
      u == P!CR(tmax)
      v == P!CR(tmin)
      el == [kind |-> "diattenuator", M |-> Pad(Oriented(u, v, ct, st)), M0 |-> Pad(Oriented(u, v, Q1, Q0)),
             cs |-> <<ct, st>>, tmax |-> tmax, tmin |-> tmin]
      \* the precedence slip  t_max - t_min * cos * sin  in the off-diagonal entries
      slipx(c1, s1) == P!CR(QSub(tmax, QMul(tmin, QMul(c1, s1))))
      slip(c1, s1) == LET A == Oriented(u, v, c1, s1) IN <<<<A[1][1], slipx(c1, s1)>>, <<slipx(c1, s1), A[2][2]>>>>
      bad == [el EXCEPT !.M = Pad(slip(ct, st)), !.M0 = Pad(slip(Q1, Q0))]
  IN
  /\ P!JudgeElement(el) = {}
  /\ (tmax.n.s # 0 => "axis_transmissions" \in P!JudgeElement(bad))
  /\ (tmax.n.s # 0 /\ ~QEq(tmax, tmin) /\ ct.n.s # 0 /\ st.n.s # 0 =>
        "rotation_covariance" \in P!JudgeElement(bad))
QuarterOK ==       \* quarter wave: cos(d/2) = sin(d/2); on the rational grid use u = 1 - i, v = 1 + i (unnormalised)
  LET u == C(Q1, QSub(Q0, Q1))
      v == C(Q1, Q1)
      A0 == Oriented(u, v, Q1, Q0) IN
  P!QuarterAtZero(A0) /\ ~P!HalfAtZero(A0) /\ ~P!QuarterAtZero(Oriented(u, u, Q1, Q0))
ASSUME QuarterOK

BasisOK(c) ==
  LET g(x) == C(Q(x[1], 2), Q(x[2], 2))
      J == <<<<g(c.a), g(c.b)>>, <<g(c.c), g(c.d)>>>>
      e == <<C(Q(c.e[1][1], 1), Q(c.e[1][2], 1)), C(Q(c.e[2][1], 1), Q(c.e[2][2], 1))>> IN
  /\ P!BasisIndependent(J, e)
  /\ P!CIsZero(P!CAdd(P!CMul(P!CConj(e[1]), P!Orth(e)[1]), P!CMul(P!CConj(e[2]), P!Orth(e)[2])))

--------------------------------------------------------------------------
ASSUME PrintT(<<"COUNTS", Cardinality({c \in FresnelCases : FresnelAdmissible(c)}),
                Cardinality(RetarderCases), Cardinality(DiattCases), Cardinality(Cases)>>)
\* The cases are reached through a two-level tree (root -> bucket -> case) only so
\* that TLC's workers share the evaluation; every case is one state.
Key(c) == CASE c.fam = "fresnel" -> <<c.fam, c.i>>
            [] c.fam = "normal" -> <<c.fam, c.n1>>
            [] c.fam = "polarizer" -> <<c.fam, c.kind>>
            [] c.fam \in {"retarder", "diattenuator"} -> <<c.fam, c.th>>
            [] c.fam = "basis" -> <<c.fam, c.a, c.b>>
Keys == {Key(c) : c \in Cases}
VARIABLE case
Init == case = [fam |-> "root"]
Next == \/ /\ case.fam = "root"
           /\ \E k \in Keys : case' = [fam |-> "bucket", key |-> k]
        \/ /\ case.fam = "bucket"
           /\ \E c \in Cases : Key(c) = case.key /\ case' = c
Spec == Init /\ [][Next]_case
ModelOK ==
  CASE case.fam \in {"fresnel", "normal"} -> FresnelOK(case)
    [] case.fam = "polarizer" -> PolarizerOK(case)
    [] case.fam = "retarder" -> RetarderOK(case)
    [] case.fam = "diattenuator" -> DiattOK(case)
    [] case.fam = "basis" -> BasisOK(case)
    [] OTHER -> TRUE
\* export of the cases with exact expectations (spec -> code)
Export ==
  CASE case.fam \in {"fresnel", "normal"} ->
         (FresnelAdmissible(case) =>
            LET k == Coef(case) IN
            PrintT(<<"CASE", "fresnel", N1(case), N2(case),
                     IF case.fam = "normal" THEN Q0 ELSE SinQ(case.i), Ci(case), k.rs, k.rp, k.ts, k.tp>>))
    [] case.fam = "retarder" ->
         LET u == C(CosQ(case.hd), QSub(Q0, SinQ(case.hd)))
             v == C(CosQ(case.hd), SinQ(case.hd)) IN
         PrintT(<<"CASE", "retarder", SinQ(case.th), CosQ(case.th), SinQ(case.hd), CosQ(case.hd),
                  Oriented(u, v, CosQ(case.th), SinQ(case.th))>>)
    [] case.fam = "diattenuator" ->
         LET tmax == Q(case.tmax[1], case.tmax[2])
             tmin == Q(case.tmin[1], case.tmin[2]) IN
         PrintT(<<"CASE", "diattenuator", SinQ(case.th), CosQ(case.th), tmax, tmin,
                  Oriented(P!CR(tmax), P!CR(tmin), CosQ(case.th), SinQ(case.th))>>)
    [] OTHER -> TRUE
=============================================================================
