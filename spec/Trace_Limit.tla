---------------------------- MODULE Trace_Limit ----------------------------
(* Trace validation for C05.  Events of one lens arrive in order: a "scale"     *)
(* record per family (requested coordinates eps_j, scale factors s_j = sn_j/sd  *)
(* with their certificates) followed by that family's quantity events (heights  *)
(* and direction tangents per surface, axial focus, stop x) recorded from       *)
(* optic.trace_generic together with the library's paraxial values: src "rays"  *)
(* = marginal_ray() / chief_ray(), src "trace" = Paraxial.trace(Hy, Py) with     *)
(* (0, 1) / (1, 0).  The scale record is kept in `cur`; each quantity is      *)
(* judged by Limit!JudgeQuantity in exact dyadic arithmetic.  Verdicts are      *)
(* total; names starting with "~" are notes, not failures.                      *)
EXTENDS Limit, Json, IOUtils, TLC
Trace == JsonDeserialize(IOEnv.TRACE_FILE)
VARIABLES l, cur
vars == <<l, cur>>
NoCur == [lens |-> -1, fam |-> "", src |-> "", ok |-> FALSE]
Init == l = 0 /\ cur = NoCur
Next == /\ l < Len(Trace)
        /\ LET e == Trace[l + 1] IN
             IF e.kind = "scale"
             THEN LET ok == ScaleOK(e) IN
                  /\ PrintT(<<"V", e.id, IF ok THEN {} ELSE {"certificate"}>>)
                  /\ cur' = [lens |-> e.lens, fam |-> e.fam, src |-> e.src, ok |-> ok, sn |-> e.sn, sd |-> e.sd]
             ELSE /\ PrintT(<<"V", e.id, IF cur.lens # e.lens \/ cur.fam # e.fam \/ cur.src # e.src THEN {"chain"}
                                        ELSE IF ~cur.ok THEN {"~bad_scale"}
                                        ELSE JudgeQuantity(cur, e)>>)
                  /\ UNCHANGED cur
        /\ l' = l + 1
Spec == Init /\ [][Next]_vars
Done == TLCGet("stats").diameter - 1 = Len(Trace) /\ PrintT(<<"DONE", Len(Trace)>>)
=============================================================================
