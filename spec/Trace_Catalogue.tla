-------------------------- MODULE Trace_Catalogue --------------------------
(* Trace validation for C18.  The recorded events of real calls              *)
(*   MaterialFile(path).n(w) / .k(w) (scalar and array), .abbe(),             *)
(*   Material(name, reference).material_data, AbbeMaterial(n_d, V_d).n(w)      *)
(* are consumed in order and judged by the laws of Catalogue.  Events of one  *)
(* catalogue row form a group: the index values recorded at the d, F and C    *)
(* lines are carried in `st` so that the Abbe event is judged against the     *)
(* very n values the formula clauses accepted or rejected.                    *)
(* The catalogue itself (every row of catalog_nk.csv as [name, reference,     *)
(* filename]) is read from IOEnv.CATALOGUE_FILE for the lookup events.        *)
EXTENDS Catalogue, Json, IOUtils, TLC
Trace == JsonDeserialize(IOEnv.TRACE_FILE)
Cat == IF "CATALOGUE_FILE" \in DOMAIN IOEnv THEN JsonDeserialize(IOEnv.CATALOGUE_FILE) ELSE <<>>
VARIABLES l, st
vars == <<l, st>>
NoLines == [grp |-> -1, d |-> NaN, F |-> NaN, C |-> NaN]
IsIndexEvent(e) == e.kind = "formula" \/ (e.kind = "tab" /\ e.what = "n")
Value(e) == IF e.kind = "formula" THEN e.n ELSE e.v
Update(e) == IF IsIndexEvent(e) /\ e.line # ""
             THEN [(IF st.grp = e.grp THEN st ELSE [NoLines EXCEPT !.grp = e.grp]) EXCEPT ![e.line] = Value(e)]
             ELSE st
LineOK(e) == IF IsIndexEvent(e) /\ e.line # "" /\ ~IsLine(e.w, e.line) THEN {"line_wavelength"} ELSE {}
JudgeAbbe(e) ==
  IF ~(st.grp = e.grp /\ st.d = e.nd /\ st.F = e.nF /\ st.C = e.nC) THEN {"abbe_chain"}
  ELSE IF AbbeHolds(e.V, e.nd, e.nF, e.nC) THEN {} ELSE {"abbe"}
\* r_file: the filename column of the returned row; r_loaded: the data file the object really read
JudgeLookup(e) == LookupFails(Cat, [name |-> e.q_name, has_ref |-> e.has_ref, ref |-> e.q_ref],
                              [ok |-> e.ok, name |-> e.r_name, reference |-> e.r_ref, filename |-> e.r_file])
                  \cup (IF e.ok /\ e.r_loaded # e.r_file THEN {"loaded_file"} ELSE {})
Judge(e) ==
  CASE e.kind = "formula" -> JudgeFormula(e) \cup LineOK(e)
    [] e.kind = "tab" -> JudgeTab(e) \cup LineOK(e)
    [] e.kind = "abbe" -> JudgeAbbe(e)
    [] e.kind = "model" -> JudgeModel(e)
    [] e.kind = "lookup" -> JudgeLookup(e)
    [] OTHER -> {"unknown_event"}
Init == l = 0 /\ st = NoLines
Next == /\ l < Len(Trace)
        /\ LET e == Trace[l + 1] IN
             /\ PrintT(<<"V", e.id, Judge(e)>>)
             /\ st' = Update(e)
        /\ l' = l + 1
Spec == Init /\ [][Next]_vars
Done == TLCGet("stats").diameter - 1 = Len(Trace) /\ PrintT(<<"DONE", Len(Trace)>>)
=============================================================================
