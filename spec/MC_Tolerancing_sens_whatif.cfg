\* after a run the user goes on with the same object: up to four what-if steps
\* (Perturbation.apply / apply_compensators in any order), then reset()
SPECIFICATION Spec
CONSTANTS
  Values <- MCValues
  Nom <- MCNom
  Shape = "sens"
  KindSets <- RangeOnly
  RangeVals <- MCRange
  ScalarVal = 2
  NTrials = 2
  Streams <- NoStream
  WithComp = TRUE
  CompFns <- MCCompFns
  FailSets <- MCFailSets
  TrialReset = TRUE
  FinalReset = TRUE
  CompRebases = FALSE
  MaxUser = 4
  CompSkips = FALSE
INVARIANT TypeOK
INVARIANT RowsTrue
INVARIANT RowsCompensated
INVARIANT NominalReproduced
INVARIANT Reproducible
INVARIANT EndStateNominal
INVARIANT HandlesNominal
PROPERTY ResetRestores
CHECK_DEADLOCK FALSE
