-------------------------------- MODULE Limit --------------------------------
(* C05: real rays converge to the paraxial prediction as aperture and field    *)
(* vanish, with the discrepancy shrinking at least quadratically.              *)
(*                                                                            *)
(* The statement "Y(eps)/eps -> y_p with error O(eps^2)" is judged on a        *)
(* geometric sequence of scale factors s_1 > s_2 > ... > s_9 (s_{j+1} ~ s_j/2) *)
(* through an error sequence e_j = r_j / w_j given as residual r_j >= 0 and    *)
(* weight w_j > 0 (so that nothing is divided):                                *)
(*   decay   e_{j+1} <= (1/4 + 3/16) e_j + floor_{j+1}   wherever e_j is above *)
(*           the rounding floor, i.e. r_j > F  (F: absolute rounding floor of   *)
(*           the traced quantity; in units of e it is F / w_j and rises as the  *)
(*           scale factor falls)                                               *)
(*   end     e_9 <= 2 e_1 (s_9 / s_1)^2 + floor_9                               *)
(*   run     at least four consecutive j lie above the floor (otherwise the     *)
(*           sequence carries no information: noted, not judged)               *)
(* all cross-multiplied:  16 (r_{j+1} - F) w_j <= 7 r_j w_{j+1}, ...            *)
(* The order of convergence is judged by "end" (a sequence that converges with  *)
(* order 3/2 passes "decay" and fails "end"); "decay" excludes plateaus and     *)
(* non-monotone sequences.  Its constant was 5/16 at first: a lens whose        *)
(* second-order coefficient nearly cancels (e = a s^2 - b s^4 with b s_1^2 =    *)
(* 0.4 a, relative discrepancy 3e-9 at s_1) has a first ratio of 0.38 although  *)
(* it converges quadratically - the constant, not the lens, was wrong.          *)
(*                                                                            *)
(* Quantities (one event each; heights and direction tangents at every         *)
(* surface, for the marginal-type family (Hy = 0, pupil eps_j) and the          *)
(* chief-type family (field eps_j, pupil 0)):                                  *)
(*   height   r_j = |sd Y_j - sn_j y_p|,          w_j = sn_j                    *)
(*   tangent  r_j = |sd M_j - sn_j u_p N_j|,      w_j = sn_j |N_j|              *)
(*            (tangent M/N against the paraxial slope, multiplied through by N) *)
(*   focus    axial crossing behind the image surface, -Y N / M, against the    *)
(*            paraxial -y_p / u_p:  r_j = |y_p M_j - u_p Y_j N_j|, w_j = |M_j u_p|*)
(*   stopx    the zero-pupil ray stays in the meridional plane: |X_j| <= F       *)
(* with the scale factor s_j = sn_j / sd:  pupil and height fields s_j = eps_j  *)
(* (sd = 1); angular fields s_j = tan(eps_j F) / tan(F) (the paraxial chief ray *)
(* is launched with slope tan F), the tangents being certificates validated     *)
(* by Launch!TanOK.  y_p, u_p are the library's marginal_ray() / chief_ray()    *)
(* values - recorded data whose correctness is C04's business.                  *)
(*                                                                            *)
(* Orientation: the chief-type family is also evaluated against -y_p; if only   *)
(* that orientation converges the verdict is the single clause                  *)
(* "chief_orientation" (paraxial and real field sign conventions disagree).     *)
EXTENDS Launch
NJ == 9
FLOORBITS == 40

LimAbove(r, F, j) == DLt(F, r[j])
LimDecayAt(r, w, F, j) == DLe(DShift(DMul(DSub(r[j + 1], F), w[j]), 4), DMul(DInt(7), DMul(r[j], w[j + 1])))
LimDecay(r, w, F) == \A j \in 1..(NJ - 1) : LimAbove(r, F, j) => LimDecayAt(r, w, F, j)
LimEnd(r, w, s, F) == LimAbove(r, F, 1) =>
                        DLe(DMul(DMul(DSub(r[NJ], F), w[1]), DSq(s[1])), DTwo(DMul(DMul(r[1], w[NJ]), DSq(s[NJ]))))
LimRun(r, F) == \E j \in 1..(NJ - 3) : \A i \in j..(j + 3) : LimAbove(r, F, i)
SeqFin(q) == \A j \in 1..Len(q) : IsFin(q[j])
LimWellFormed(r, w, s, F) == /\ Len(r) = NJ /\ Len(w) = NJ /\ Len(s) = NJ
                             /\ SeqFin(r) /\ SeqFin(w) /\ SeqFin(s) /\ IsFin(F) /\ DSign(F) >= 0
                             /\ \A j \in 1..NJ : DSign(r[j]) >= 0 /\ DSign(w[j]) = 1 /\ DSign(s[j]) = 1
\* the predicate: failing clause names
Limit(r, w, s, F) ==
  IF ~LimWellFormed(r, w, s, F) THEN {"not_finite"}
  ELSE Fails(LimDecay(r, w, F), "decay") \cup Fails(LimEnd(r, w, s, F), "end")
LimNotes(r, w, s, F) == IF LimWellFormed(r, w, s, F) /\ ~LimRun(r, F) THEN {"~below_floor"} ELSE {}

--------------------------------------------------------------------------
(* the scale-factor record of one family of one lens                          *)
(*   fam "marginal" | "chief";  mode "linear" (sn = eps, sd = 1) | "angle"      *)
(*   eps[j] the requested coordinates;  angle: F (degrees), th[j], rr[j]        *)
(*   (eps_j F in degrees / radians), sn[j] = tan, rF, sd = tan F                *)
Geometric(eps) == /\ Len(eps) = NJ /\ SeqFin(eps) /\ DSign(eps[1]) = 1 /\ DLe(eps[1], DShift(DOne, -3))
                  /\ \A j \in 2..NJ : eps[j] = DShift(eps[1], -(j - 1))
ScaleOK(c) ==
  /\ Geometric(c.eps) /\ Len(c.sn) = NJ
  /\ IF c.mode = "linear" THEN c.sn = c.eps /\ c.sd = DOne
     ELSE /\ c.mode = "angle" /\ Len(c.th) = NJ /\ Len(c.rr) = NJ /\ IsFin(c.F) /\ DSign(c.F) = 1
          /\ \A j \in 1..NJ : AngleOK(c.th[j], c.eps[j], c.F) /\ RadOK(c.rr[j], c.th[j]) /\ TanOK(c.sn[j], c.rr[j])
          /\ RadOK(c.rF, c.F) /\ TanOK(c.sd, c.rF)

\* explicit tuples: each entry is evaluated once (a function constructor would be re-evaluated on
\* every application)
Tup9(f(_)) == <<f(1), f(2), f(3), f(4), f(5), f(6), f(7), f(8), f(9)>>
QResidual(c, e) ==
  CASE e.kind = "height" -> Tup9(LAMBDA j : DAbs(DSub(DMul(c.sd, e.Y[j]), DMul(c.sn[j], e.yp))))
    [] e.kind = "tangent" -> Tup9(LAMBDA j : DAbs(DSub(DMul(c.sd, e.M[j]), DMul(c.sn[j], DMul(e.up, e.N[j])))))
    [] e.kind = "focus" -> Tup9(LAMBDA j : DAbs(DSub(DMul(e.yp, e.M[j]), DMul(e.up, DMul(e.Y[j], e.N[j])))))
QWeight(c, e) ==
  CASE e.kind = "height" -> c.sn
    [] e.kind = "tangent" -> Tup9(LAMBDA j : DMul(c.sn[j], DAbs(e.N[j])))
    [] e.kind = "focus" -> Tup9(LAMBDA j : DAbs(DMul(e.M[j], e.up)))
QFloor(c, e) ==
  CASE e.kind \in {"height", "tangent"} -> DShift(DMul(c.sd, DAbs(e.S)), -FLOORBITS)
    [] e.kind = "focus" -> DShift(DMul(DAbs(e.S), DAbs(e.up)), -FLOORBITS)
Flip(e) == [e EXCEPT !.yp = DNeg(e.yp), !.up = DNeg(e.up)]
QLen(e) == CASE e.kind = "height" -> Len(e.Y) = NJ
             [] e.kind = "tangent" -> Len(e.M) = NJ /\ Len(e.N) = NJ
             [] e.kind = "focus" -> Len(e.Y) = NJ /\ Len(e.M) = NJ /\ Len(e.N) = NJ
\* verdict for one quantity event e under the scale record c
JudgeQuantity(c, e) ==
  IF e.kind = "stopx" THEN
     Fails(Len(e.X) = NJ /\ \A j \in 1..Len(e.X) : Small(e.X[j], e.S, FLOORBITS), "x_zero")
  ELSE IF ~QLen(e) THEN {"not_finite"}
  ELSE LET F == QFloor(c, e)
           r == QResidual(c, e)
           w == QWeight(c, e)
           f1 == Limit(r, w, c.sn, F)
       IN IF f1 = {} THEN LimNotes(r, w, c.sn, F)
          ELSE IF "not_finite" \in f1 THEN f1
          ELSE IF c.fam = "chief" /\ e.kind # "focus"
               THEN LET r2 == QResidual(c, Flip(e)) IN
                    IF Limit(r2, w, c.sn, F) = {} THEN {"chief_orientation"} ELSE f1
               ELSE f1
=============================================================================
