---------------------------- MODULE Polarization ----------------------------
(* C17: Fresnel coefficients conserve energy; polarization elements obey     *)
(* their algebra; the polarization ray trace preserves intensity and keeps   *)
(* the field transverse.                                                     *)
(*                                                                           *)
(* The laws are textbook optics (Born & Wolf 1.5.2; Hecht 4.6; Chipman,      *)
(* Polarized Light and Optical Systems, ch. 5/9), stated cross-multiplied:   *)
(* no division, no square root, no transcendental function.  Cosines and     *)
(* sines enter as certificates that are validated polynomially               *)
(* (Snell: n1^2 (1 - ci^2) = n2^2 (1 - ct^2);  c^2 + s^2 = 1).                *)
(*                                                                           *)
(* The module is written against an arithmetic interface and instantiated    *)
(* twice: exact rationals (MC_Polarization: the model itself is checked on a *)
(* Pythagorean grid) and Dyadic float64 values with explicit tolerances      *)
(* (Trace_Polarization: the implementation's own numbers are judged).        *)
(*   Near(a, b, scale, bits):  |a - b| <= 2^-bits * |scale|  (exact equality *)
(*   in the rational back-end).                                              *)
(* Complex numbers are pairs <<re, im>>; vectors and matrices are tuples     *)
(* (matrices are tuples of rows).                                            *)
EXTENDS Integers, Sequences
CONSTANTS Add(_, _), Sub(_, _), Mul(_, _), Zero, One, Abs(_), Leq(_, _), Near(_, _, _, _)

CERTBITS == 44     \* certificates: c^2+s^2 = 1, Snell relation, orthonormal bases
FRESBITS == 34     \* Fresnel relations (the implementation's root n^2 - sin^2 loses
                   \* bits near the critical angle; generators keep ct >= 0.02)
ALGBITS  == 44     \* element algebra on entries of magnitude <= 1
INTBITS  == 40     \* intensities ("stays 1 within 2^-40")

Neg(a) == Sub(Zero, a)
Sq(a) == Mul(a, a)
Two == Add(One, One)
Four == Add(Two, Two)
Lt(a, b) == Leq(a, b) /\ ~Leq(b, a)
IsZero(a) == Leq(Abs(a), Zero)
IsOne(a) == IsZero(Sub(a, One))

--------------------------------------------------------------------------
(* complex numbers, vectors, matrices                                       *)
CZero == <<Zero, Zero>>
COne == <<One, Zero>>
CI == <<Zero, One>>
CR(x) == <<x, Zero>>
CAdd(a, b) == <<Add(a[1], b[1]), Add(a[2], b[2])>>
CSub(a, b) == <<Sub(a[1], b[1]), Sub(a[2], b[2])>>
CNeg(a) == <<Neg(a[1]), Neg(a[2])>>
CMul(a, b) == <<Sub(Mul(a[1], b[1]), Mul(a[2], b[2])), Add(Mul(a[1], b[2]), Mul(a[2], b[1]))>>
CConj(a) == <<a[1], Neg(a[2])>>
CScale(r, a) == <<Mul(r, a[1]), Mul(r, a[2])>>
CAbs2(a) == Add(Sq(a[1]), Sq(a[2]))
CNear(a, b, scale, bits) == Near(a[1], b[1], scale, bits) /\ Near(a[2], b[2], scale, bits)
CIsZero(a) == IsZero(a[1]) /\ IsZero(a[2])
RECURSIVE CSum(_)
CSum(s) == IF s = <<>> THEN CZero ELSE CAdd(s[1], CSum(Tail(s)))
RECURSIVE RSum(_)
RSum(s) == IF s = <<>> THEN Zero ELSE Add(s[1], RSum(Tail(s)))

MatMul(A, B) == [i \in 1..Len(A) |-> [j \in 1..Len(B[1]) |->
                   CSum([k \in 1..Len(B) |-> CMul(A[i][k], B[k][j])])]]
MatVec(A, v) == [i \in 1..Len(A) |-> CSum([k \in 1..Len(v) |-> CMul(A[i][k], v[k])])]
Dagger(A) == [i \in 1..Len(A[1]) |-> [j \in 1..Len(A) |-> CConj(A[j][i])]]
MNear(A, B, scale, bits) == \A i \in 1..Len(A) : \A j \in 1..Len(A[1]) :
                               CNear(A[i][j], B[i][j], scale, bits)
VNear(u, v, scale, bits) == \A i \in 1..Len(u) : CNear(u[i], v[i], scale, bits)
Id2 == <<<<COne, CZero>>, <<CZero, COne>>>>
Blk(M) == <<<<M[1][1], M[1][2]>>, <<M[2][1], M[2][2]>>>>        \* transverse 2x2 block
VAbs2(v) == RSum([k \in 1..Len(v) |-> CAbs2(v[k])])             \* |v|^2 of a complex vector
\* real 3-vectors
RDot(u, v) == Add(Add(Mul(u[1], v[1]), Mul(u[2], v[2])), Mul(u[3], v[3]))
RCross(u, v) == << Sub(Mul(u[2], v[3]), Mul(u[3], v[2])),
                   Sub(Mul(u[3], v[1]), Mul(u[1], v[3])),
                   Sub(Mul(u[1], v[2]), Mul(u[2], v[1])) >>
UnitCert(c, s) == Near(Add(Sq(c), Sq(s)), One, One, CERTBITS)

--------------------------------------------------------------------------
(* 1. Fresnel coefficients at a plane interface between real indices        *)
(*    f = [n1, n2, ci, ct, Mt, Mr]: ci = cos(incidence), ct = cos(refraction)*)
(*    certificates; Mt / Mr the 3x3 Jones matrices returned for transmission *)
(*    and reflection at the same (n1, n2, angle).                            *)
(*      r_s (n1 ci + n2 ct) = n1 ci - n2 ct     t_s (n1 ci + n2 ct) = 2 n1 ci *)
(*      r_p (n2 ci + n1 ct) = n2 ci - n1 ct     t_p (n2 ci + n1 ct) = 2 n1 ci *)
(*      R + T = 1 with T = (n2 ct)/(n1 ci) |t|^2:                            *)
(*              n1 ci |r|^2 + n2 ct |t|^2 = n1 ci                             *)
FA(f) == Mul(f.n1, f.ci)
FB(f) == Mul(f.n2, f.ct)
FC(f) == Mul(f.n2, f.ci)
FD(f) == Mul(f.n1, f.ct)
FresnelDomain(f) == /\ Leq(One, f.n1) /\ Leq(f.n1, Four) /\ Leq(One, f.n2) /\ Leq(f.n2, Four)
                    /\ Lt(Zero, f.ci) /\ Leq(f.ci, One) /\ Lt(Zero, f.ct) /\ Leq(f.ct, One)
SnellCert(f) == Near(Mul(Sq(f.n1), Sub(One, Sq(f.ci))), Mul(Sq(f.n2), Sub(One, Sq(f.ct))),
                     Add(Sq(f.n1), Sq(f.n2)), CERTBITS)
IsRs(f, r) == Near(Mul(r, Add(FA(f), FB(f))), Sub(FA(f), FB(f)), Add(FA(f), FB(f)), FRESBITS)
IsTs(f, t) == Near(Mul(t, Add(FA(f), FB(f))), Add(FA(f), FA(f)), Add(FA(f), FB(f)), FRESBITS)
IsRp(f, r) == Near(Mul(r, Add(FC(f), FD(f))), Sub(FC(f), FD(f)), Add(FC(f), FD(f)), FRESBITS)
IsTp(f, t) == Near(Mul(t, Add(FC(f), FD(f))), Add(FA(f), FA(f)), Add(FC(f), FD(f)), FRESBITS)
\* the sign of r_p depends on the choice of the reflected p axis (Fresnel / Verdet
\* conventions); energy, Brewster and the normal-incidence value do not
IsRpEither(f, r) == IsRp(f, r) \/ IsRp(f, Neg(r))
Energy(f, r, t) == Near(Add(Mul(FA(f), CAbs2(r)), Mul(FB(f), CAbs2(t))), FA(f),
                        Add(FA(f), FB(f)), FRESBITS)
AtBrewster(f) == Near(FC(f), FD(f), Add(FC(f), FD(f)), CERTBITS)        \* n1 ct = n2 ci
Brewster(f, r) == AtBrewster(f) => Near(r, Zero, One, FRESBITS)
AtNormal(f) == IsOne(f.ci) /\ IsOne(f.ct)
NormalValue(f, r) == Near(Mul(CAbs2(r), Sq(Add(f.n1, f.n2))), Sq(Sub(f.n1, f.n2)),
                          Sq(Add(f.n1, f.n2)), FRESBITS)
DiagonalReal(M) == /\ \A i \in 1..3 : \A j \in 1..3 : i # j => CIsZero(M[i][j])
                   /\ \A i \in 1..3 : IsZero(M[i][i][2])
JudgeFresnel(f) ==
  IF ~FresnelDomain(f) THEN {"domain"}
  ELSE IF ~SnellCert(f) THEN {"certificate"}
  ELSE LET ts == f.Mt[1][1]
           tp == f.Mt[2][2]
           rs == f.Mr[1][1]
           rp == f.Mr[2][2] IN
    (IF DiagonalReal(f.Mt) /\ DiagonalReal(f.Mr) THEN {} ELSE {"fresnel_shape"}) \cup
    (IF IsOne(f.Mt[3][3][1]) /\ IsOne(Abs(f.Mr[3][3][1])) THEN {} ELSE {"longitudinal"}) \cup
    (IF IsTs(f, ts[1]) THEN {} ELSE {"t_s"}) \cup
    (IF IsTp(f, tp[1]) THEN {} ELSE {"t_p"}) \cup
    (IF IsRs(f, rs[1]) THEN {} ELSE {"r_s"}) \cup
    (IF IsRpEither(f, rp[1]) THEN {} ELSE {"r_p"}) \cup
    (IF Energy(f, rs, ts) THEN {} ELSE {"energy_s"}) \cup
    (IF Energy(f, rp, tp) THEN {} ELSE {"energy_p"}) \cup
    (IF Brewster(f, rp[1]) THEN {} ELSE {"brewster"}) \cup
    (IF AtNormal(f) => (NormalValue(f, rs) /\ NormalValue(f, rp)) THEN {} ELSE {"normal_incidence"})

--------------------------------------------------------------------------
(* 2. Jones elements.  el = [kind, M, M0, cs, hd, tmax, tmin]               *)
(*    M   3x3 matrix of the element (at angle theta for the oriented ones)  *)
(*    M0  matrix of the same element at theta = 0                           *)
(*    cs  <<cos theta, sin theta>>, hd <<cos(d/2), sin(d/2)>> certificates  *)
(*    The 3x3 form carries the transverse 2x2 block and a 1 for the         *)
(*    longitudinal component (Chipman's P-matrix embedding).                *)
Padding(M) == /\ CNear(M[3][3], COne, One, ALGBITS)
              /\ \A k \in 1..2 : CIsZero(M[k][3]) /\ CIsZero(M[3][k])
\* the state each fixed polarizer is stated to pass (unnormalised, exact):
\* RCP = (1, -i)/sqrt 2, LCP = (1, +i)/sqrt 2 as in create_polarization
StateVec(kind) ==
  CASE kind = "H"    -> <<COne, CZero>>
    [] kind = "V"    -> <<CZero, COne>>
    [] kind = "L+45" -> <<COne, COne>>
    [] kind = "L-45" -> <<COne, CNeg(COne)>>
    [] kind = "RCP"  -> <<COne, CNeg(CI)>>
    [] kind = "LCP"  -> <<COne, CI>>
Orth(e) == <<CNeg(CConj(e[2])), CConj(e[1])>>            \* <e, Orth(e)> = 0
PolarizerKinds == {"H", "V", "L+45", "L-45", "RCP", "LCP"}
RetarderKinds == {"retarder", "quarter", "half"}
Idempotent(A) == MNear(MatMul(A, A), A, One, ALGBITS)
Passes(A, e) == VNear(MatVec(A, e), e, One, ALGBITS)
Blocks(A, e) == VNear(MatVec(A, e), <<CZero, CZero>>, One, ALGBITS)
Unitary(A) == MNear(MatMul(A, Dagger(A)), Id2, One, ALGBITS)
Rot(c, s) == <<<<CR(c), CR(Neg(s))>>, <<CR(s), CR(c)>>>>
Covariant(A, A0, c, s) == MNear(A, MatMul(Rot(c, s), MatMul(A0, Rot(c, Neg(s)))), One, ALGBITS)
\* a linear retarder at angle 0 is diag(e^{-i d/2}, e^{+i d/2}) (or the conjugate:
\* the phase sign convention is not part of the property, the difference |d| is)
RetarderAtZero(A0, cd, sd) ==
  /\ CIsZero(A0[1][2]) /\ CIsZero(A0[2][1])
  /\ \/ CNear(A0[1][1], <<cd, Neg(sd)>>, One, ALGBITS) /\ CNear(A0[2][2], <<cd, sd>>, One, ALGBITS)
     \/ CNear(A0[1][1], <<cd, sd>>, One, ALGBITS) /\ CNear(A0[2][2], <<cd, Neg(sd)>>, One, ALGBITS)
\* quarter wave: eigen-phase difference pi/2 (v = +-i u); half wave: pi (v = -u).
\* No certificate needed.
QuarterAtZero(A0) == \/ CNear(A0[2][2], CMul(CI, A0[1][1]), One, ALGBITS)
                     \/ CNear(A0[2][2], CNeg(CMul(CI, A0[1][1])), One, ALGBITS)
HalfAtZero(A0) == CNear(A0[2][2], CNeg(A0[1][1]), One, ALGBITS)
DiattenuatorAtZero(A0, tmax, tmin) ==
  MNear(A0, <<<<CR(tmax), CZero>>, <<CZero, CR(tmin)>>>>, One, ALGBITS)
JudgeElement(el) ==
  LET A == Blk(el.M) IN
  (IF Padding(el.M) THEN {} ELSE {"padding"}) \cup
  (IF el.kind \in PolarizerKinds THEN
     (IF Idempotent(A) THEN {} ELSE {"idempotent"}) \cup
     (IF Passes(A, StateVec(el.kind)) THEN {} ELSE {"passes_stated_state"}) \cup
     (IF Blocks(A, Orth(StateVec(el.kind))) THEN {} ELSE {"blocks_orthogonal_state"})
   ELSE LET A0 == Blk(el.M0) IN
     (IF UnitCert(el.cs[1], el.cs[2]) /\ Padding(el.M0) THEN {} ELSE {"certificate"}) \cup
     (IF Covariant(A, A0, el.cs[1], el.cs[2]) THEN {} ELSE {"rotation_covariance"}) \cup
     (IF el.kind \in RetarderKinds THEN
        (IF UnitCert(el.hd[1], el.hd[2]) THEN {} ELSE {"certificate"}) \cup
        (IF Unitary(A) /\ Unitary(A0) THEN {} ELSE {"unitary"}) \cup
        (IF RetarderAtZero(A0, el.hd[1], el.hd[2]) THEN {} ELSE {"retardance"}) \cup
        (IF el.kind = "quarter" /\ ~QuarterAtZero(A0) THEN {"retardance"} ELSE {}) \cup
        (IF el.kind = "half" /\ ~HalfAtZero(A0) THEN {"retardance"} ELSE {})
      ELSE \* "diattenuator"
        (IF DiattenuatorAtZero(A0, el.tmax, el.tmin) THEN {} ELSE {"axis_transmissions"})))

--------------------------------------------------------------------------
(* 3. Polarization ray trace.  t = [d0, d, sv, pv, st, P, i, coated]        *)
(*    d0 / d   launch / final direction (unit, real)                        *)
(*    sv, pv   the launch basis: sv the unit projection of the local x axis *)
(*             on the plane normal to d0, pv = d0 x sv  (certificates)       *)
(*    st       [Ex, Ey, px = <<cos, sin>>, py = <<cos, sin>>] input state    *)
(*    P        accumulated 3x3 polarization matrix (rays.p)                  *)
(*    i        reported intensity (rays.i)                                   *)
StateOK(st) == /\ Near(Add(Sq(st.Ex), Sq(st.Ey)), One, One, CERTBITS)
               /\ UnitCert(st.px[1], st.px[2]) /\ UnitCert(st.py[1], st.py[2])
Amp(st) == <<CScale(st.Ex, st.px), CScale(st.Ey, st.py)>>        \* (Ex e^{i px}, Ey e^{i py})
BasisOK(t) ==
  LET w == <<Sub(One, Sq(t.d0[1])), Neg(Mul(t.d0[1], t.d0[2])), Neg(Mul(t.d0[1], t.d0[3]))>>
      sw == RCross(t.sv, w)
      dp == RCross(t.d0, t.sv) IN
  /\ Near(RDot(t.d0, t.d0), One, One, CERTBITS)
  /\ Near(RDot(t.sv, t.sv), One, One, CERTBITS) /\ Near(RDot(t.pv, t.pv), One, One, CERTBITS)
  /\ Near(RDot(t.sv, t.d0), Zero, One, CERTBITS) /\ Near(RDot(t.pv, t.d0), Zero, One, CERTBITS)
  /\ \A k \in 1..3 : Near(sw[k], Zero, One, CERTBITS) /\ Near(dp[k], t.pv[k], One, CERTBITS)
  /\ Lt(Zero, RDot(t.sv, w))
E0(t) == LET a == Amp(t.st) IN
         [k \in 1..3 |-> CAdd(CScale(t.sv[k], a[1]), CScale(t.pv[k], a[2]))]
E1(t) == MatVec(t.P, E0(t))
FieldIntensity(t) == Near(t.i, VAbs2(E1(t)), One, INTBITS)
Preserved(t) == Near(t.i, One, One, INTBITS)
Transverse(t) == LET e == E1(t) IN
                 CNear(CSum([k \in 1..3 |-> CScale(t.d[k], e[k])]), CZero, One, INTBITS)
JudgeTrace(t) ==
  IF ~(BasisOK(t) /\ StateOK(t.st)) THEN {"certificate"}
  ELSE (IF FieldIntensity(t) THEN {} ELSE {"intensity_from_field"}) \cup
       (IF ~t.coated /\ ~Preserved(t) THEN {"intensity_preserved"} ELSE {}) \cup
       (IF Transverse(t) THEN {} ELSE {"transverse"})

(* unpolarized light: u = [iu, ia, ib, sa, sb]; sa, sb orthonormal states   *)
Orthonormal(sa, sb) ==
  LET a == Amp(sa)
      b == Amp(sb) IN
  /\ StateOK(sa) /\ StateOK(sb)
  /\ CNear(CAdd(CMul(CConj(a[1]), b[1]), CMul(CConj(a[2]), b[2])), CZero, One, CERTBITS)
MeanLaw(u) == Near(Add(u.iu, u.iu), Add(u.ia, u.ib), Add(Add(u.iu, u.iu), Add(u.ia, u.ib)), INTBITS)
JudgeUnpolarized(u) ==
  IF ~Orthonormal(u.sa, u.sb) THEN {"certificate"}
  ELSE IF MeanLaw(u) THEN {} ELSE {"unpolarized_mean"}
(* one Fresnel-coated plane refracting surface, collimated beam in the y-z     *)
(* plane: v = [n1, n2, d0, d1, ih, iv, iu]; d0 / d1 the directions before /   *)
(* behind the surface (unit, no x component, so that the H state is s- and    *)
(* the V state p-polarized), ih / iv / iu the intensities reported for H, V   *)
(* and unpolarized input.  The cosines of incidence and refraction are the    *)
(* z components of the recorded directions (validated by Snell's relation),   *)
(* and the reported intensity is the squared field:                           *)
(*      ih (n1 ci + n2 ct)^2 = (2 n1 ci)^2     iv (n2 ci + n1 ct)^2 = (2 n1 ci)^2 *)
(* This binds the angle of incidence used inside the trace to the geometry.   *)
SurfaceAsFresnel(v) == [n1 |-> v.n1, n2 |-> v.n2, ci |-> v.d0[3], ct |-> v.d1[3]]
SurfaceCert(v) == LET f == SurfaceAsFresnel(v) IN
  /\ IsZero(v.d0[1]) /\ IsZero(v.d1[1])
  /\ Near(RDot(v.d0, v.d0), One, One, CERTBITS) /\ Near(RDot(v.d1, v.d1), One, One, CERTBITS)
  /\ FresnelDomain(f) /\ SnellCert(f)
JudgeSurface(v) ==
  IF ~SurfaceCert(v) THEN {"certificate"}
  ELSE LET f == SurfaceAsFresnel(v)
           ab == Add(FA(f), FB(f))
           cd == Add(FC(f), FD(f))
           aa == Sq(Add(FA(f), FA(f))) IN
    (IF Near(Mul(v.ih, Sq(ab)), aa, Add(Sq(ab), aa), FRESBITS) THEN {} ELSE {"surface_t_s"}) \cup
    (IF Near(Mul(v.iv, Sq(cd)), aa, Add(Sq(cd), aa), FRESBITS) THEN {} ELSE {"surface_t_p"}) \cup
    (IF MeanLaw([iu |-> v.iu, ia |-> v.ih, ib |-> v.iv]) THEN {} ELSE {"unpolarized_mean"})
(* a polarizer used as the coating of a surface of a lens without any other  *)
(* loss (BaseCoatingPolarized with the element as its .jones; PolarizedRays  *)
(* .update(jones) composes it with the local bases):                          *)
(*   w = [ipass, iblock, iunpol, itwice] - the intensities the trace reports  *)
(* for the element's stated state, for the orthogonal state, for unpolarized  *)
(* light, and for the stated state through two such elements in series.       *)
(* A projector onto its stated state passes it whole, blocks the orthogonal   *)
(* one, halves unpolarized light, and twice is once.                          *)
JudgeInLens(w) ==
  (IF Near(w.ipass, One, One, INTBITS) THEN {} ELSE {"element_passes_stated_state"}) \cup
  (IF Near(w.iblock, Zero, One, INTBITS) THEN {} ELSE {"element_blocks_orthogonal_state"}) \cup
  (IF Near(Add(w.iunpol, w.iunpol), One, One, INTBITS) THEN {} ELSE {"unpolarized_mean"}) \cup
  (IF Near(w.itwice, w.ipass, One, INTBITS) THEN {} ELSE {"element_idempotent_in_trace"})
\* the algebraic fact behind MeanLaw (checked in MC_Polarization): for every 2x2 J
\* and every e,  |J e|^2 + |J Orth(e)|^2 = |e|^2 * ||J||_F^2
BasisIndependent(J, e) ==
  Near(Add(VAbs2(MatVec(J, e)), VAbs2(MatVec(J, Orth(e)))),
       Mul(VAbs2(e), Add(Add(CAbs2(J[1][1]), CAbs2(J[1][2])), Add(CAbs2(J[2][1]), CAbs2(J[2][2])))),
       One, ALGBITS)
=============================================================================
