---------------------------- MODULE Trace_Reload ----------------------------
(* Trace validation for C19: one event per save/reload of a lens.  The event  *)
(* carries, for the lens before saving and for the reloaded lens driven with   *)
(* the same queries, the projected prescription, the per-surface records of    *)
(* the same rays (positions, directions, optical paths, intensities), the      *)
(* paraxial accessor values, and the canonical text of the dictionary forms.   *)
(* Reload must be the identity on all of them: comparisons are bit-exact       *)
(* (dyadic records are canonical, so TLA+ equality is numeric identity and     *)
(* NaN = NaN).                                                                  *)
EXTENDS Dyadic, Json, IOUtils, TLC
Trace == JsonDeserialize(IOEnv.TRACE_FILE)
VARIABLE l
Judge(e) ==
  IF e.exc # "" THEN {"raises"}
  ELSE (IF e.proj1 = e.proj0 THEN {} ELSE {"prescription"}) \cup
       (IF e.rays1 = e.rays0 THEN {} ELSE {"rays"}) \cup
       (IF e.parax1 = e.parax0 THEN {} ELSE {"paraxial"}) \cup
       (IF e.dict2 = e.dict1 THEN {} ELSE {"dict_roundtrip"}) \cup      \* to_dict(load(d)) = d
       (IF e.dict1 = e.dict0 THEN {} ELSE {"dict_of_reloaded"})          \* and equals the saved form
Init == l = 0
Next == /\ l < Len(Trace)
        /\ l' = l + 1
        /\ PrintT(<<"V", Trace[l + 1].id, Judge(Trace[l + 1])>>)
Spec == Init /\ [][Next]_l
Done == TLCGet("stats").diameter - 1 = Len(Trace) /\ PrintT(<<"DONE", Len(Trace)>>)
=============================================================================
