---------------------------- MODULE Trace_Session ----------------------------
(* Trace validation for C13.  Recorded sessions on real lenses: every event   *)
(* is one public call.  Tokens are SHA-256 digests of raw bytes interned to   *)
(* small integers by the recorder: p0/p1 the prescription (dictionary form +  *)
(* fields + wavelengths + aperture) before/after the call, a0/a1 the caller's *)
(* argument arrays before/after, res the returned values.  The machine is     *)
(* Session.tla's: memo maps (prescription, call) to the first result seen;    *)
(* a later identical call on the same prescription must return the same       *)
(* token (an exception counts as a result: its type is the token),            *)
(* token, whatever was called in between.  "subbatch" events compare the      *)
(* record of one ray traced alone and inside a larger batch.                  *)
EXTENDS Dyadic, Json, IOUtils, TLC, FiniteSets
Trace == JsonDeserialize(IOEnv.TRACE_FILE)
VARIABLES tpos, tmemo, tcur
vars == <<tpos, tmemo, tcur>>
Key(e) == <<e.p0, e.key>>
RECURSIVE AllClose(_, _, _)
AllClose(a, b, bits) == IF a = <<>> THEN b = <<>>
                        ELSE /\ b # <<>>
                             /\ (a[1] = b[1] \/ Small(DSub(a[1], b[1]), DAdd(DOne, DAbs(a[1])), bits))
                             /\ AllClose(Tail(a), Tail(b), bits)
Judge(e) ==
  IF e.op = "new" THEN {}
  ELSE IF e.op = "edit" THEN {}
  ELSE IF e.op = "subbatch" /\ e.exc # "" THEN {"raises"}
  ELSE IF e.op = "subbatch" THEN (IF AllClose(e.alone, e.inbatch, e.bits) THEN {} ELSE {"batch_independent"})
  ELSE (IF tcur # -1 /\ e.p0 # tcur THEN {"chain"} ELSE {}) \cup
       (IF Key(e) \in DOMAIN tmemo /\ tmemo[Key(e)] # e.res THEN {"repeatable"} ELSE {}) \cup
       (IF e.p1 # e.p0 THEN {"frame"} ELSE {}) \cup
       (IF e.a1 # e.a0 THEN {"args_unchanged"} ELSE {})
Init == tpos = 0 /\ tmemo = <<>> /\ tcur = -1
Next == /\ tpos < Len(Trace)
        /\ LET e == Trace[tpos + 1] IN
             /\ PrintT(<<"V", e.id, Judge(e)>>)
             /\ tcur' = IF e.op = "subbatch" THEN tcur ELSE IF e.op = "new" THEN -1 ELSE e.p1
             /\ tmemo' = IF e.op = "new" THEN <<>>
                         ELSE IF e.op = "query" /\ Key(e) \notin DOMAIN tmemo
                         THEN [x \in DOMAIN tmemo \cup {Key(e)} |-> IF x = Key(e) THEN e.res ELSE tmemo[x]]
                         ELSE tmemo
        /\ tpos' = tpos + 1
Spec == Init /\ [][Next]_vars
Done == TLCGet("stats").diameter - 1 = Len(Trace) /\ PrintT(<<"DONE", Len(Trace)>>)
=============================================================================
