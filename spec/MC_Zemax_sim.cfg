\* long random files (-simulate): up to 30 surfaces, 12 wavelengths, every keyword, noise lines
SPECIFICATION Spec
CONSTANTS
  U = 1024
  MinSurf = 1
  MaxSurf = 30
  Modes <- SeqOnly
  Apertures <- Ap6
  GcatLists <- Gcat5
  FieldTypes <- FtBoth
  FieldPairs <- FP6
  MaxFld = 6
  PadFld <- Pad02
  Waves <- W4
  MaxWl = 12
  PadWl <- Pad02
  PwavFirst <- PwBoth
  Types <- BothTypes
  TypeOpt <- TypeMaybe
  Curvs <- C5
  Thicks <- T4
  ObjThicks <- Obj2
  Conics <- K2
  ParmRows <- RowsFullOnly
  Glasses <- G3
  ImageFree = FALSE
  Noise <- Noise4
  MaxNoise = 6
  Catalogue <- MCCatalogue
  Export = TRUE
  ExportMod = 1
INVARIANT RejectsNSC
INVARIANT FinishTotal
INVARIANT GridExact
INVARIANT SurfaceCount
INVARIANT RadiusLaw
INVARIANT VertexLaw
INVARIANT ConicLaw
INVARIANT ParmLaw
INVARIANT StopLaw
INVARIANT MediumLaw
INVARIANT WaveLaw
INVARIANT FieldLaw
INVARIANT ApertureLaw
PROPERTY UnknownStutters
PROPERTY BlockFrame
PROPERTY SurfPushes
CHECK_DEADLOCK FALSE
