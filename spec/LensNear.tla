------------------------------ MODULE LensNear ------------------------------
(* Comparison of two projections of a lens (harness/project.py, dyadic form)   *)
(* up to float round-trip noise: numeric fields agree to 2^-40 of their         *)
(* magnitude (vertices: of the largest vertex magnitude `zs`), everything else  *)
(* is identical.  Shared by Trace_Optimizer (undo) and Trace_Tolerancing        *)
(* (end state, reset).                                                          *)
EXTENDS Dyadic
Sum2(a, b) == DAdd(DAbs(a), DAbs(b))
NearV(a, b, bits) == a = b \/ (IsFin(a) /\ IsFin(b) /\ Small(DSub(a, b), Sum2(a, b), bits))
NearZ(a, b, zs) == IF IsFin(a) /\ IsFin(b) THEN Small(DSub(a, b), zs, 40) ELSE a = b
NearSeq(a, b, bits) == Len(a) = Len(b) /\ \A i \in 1..Len(a) : NearV(a[i], b[i], bits)
NearSurf(a, b, zs) ==
  /\ a.kind = b.kind /\ a.stop = b.stop /\ a.refl = b.refl
  /\ NearZ(a.z, b.z, zs) /\ NearV(a.R, b.R, 40) /\ NearV(a.k, b.k, 40)
  /\ NearSeq(a.coef, b.coef, 40) /\ NearSeq(a.npre, b.npre, 40) /\ NearSeq(a.npost, b.npost, 40)
  /\ NearV(a.dx, b.dx, 40) /\ NearV(a.dy, b.dy, 40) /\ NearV(a.rx, b.rx, 40) /\ NearV(a.ry, b.ry, 40)
NearProj(p, q, zs) ==
  /\ Len(p.surf) = Len(q.surf) /\ p.wl = q.wl /\ p.pk = q.pk /\ p.sol = q.sol
  /\ \A j \in 1..Len(p.surf) : NearSurf(p.surf[j], q.surf[j], zs)
=============================================================================
