SPECIFICATION Spec
CONSTANT RefRule = "lens_index"
INVARIANT InvIndex
INVARIANT InvDone
INVARIANT InvLists
INVARIANT InvRef
CHECK_DEADLOCK FALSE
