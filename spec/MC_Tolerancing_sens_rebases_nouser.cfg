\* the same re-basing variant WITHOUT user steps: every property of the run itself still holds -
\* the loops reset before every compensation, so the run alone cannot see it (why the what-if
\* histories are part of the model and of the recorded traces)
SPECIFICATION Spec
CONSTANTS
  Values <- MCValues
  Nom <- MCNom
  Shape = "sens"
  KindSets <- RangeOnly
  RangeVals <- MCRange
  ScalarVal = 2
  NTrials = 2
  Streams <- NoStream
  WithComp = TRUE
  CompFns <- MCCompFns
  FailSets <- MCFailSets
  TrialReset = TRUE
  FinalReset = TRUE
  CompRebases = TRUE
  MaxUser = 0
  CompSkips = FALSE
INVARIANT TypeOK
INVARIANT RowsTrue
INVARIANT RowsCompensated
INVARIANT NominalReproduced
INVARIANT Reproducible
INVARIANT EndStateNominal
PROPERTY ResetRestores
CHECK_DEADLOCK FALSE
