------------------------------ MODULE MC_Launch ------------------------------
(* Design-level model checking of Launch (C03).  Three configurations:        *)
(*  MC_Launch.cfg       the decision table as a two-action machine over all 24 *)
(*                      cells: total, deterministic, equal to the list of      *)
(*                      rejected combinations in the property text             *)
(*  MC_Launch_dist.cfg  documented point counts against constructive counts    *)
(*                      for n = 1..MaxN; vignetting shrinks on a rational grid  *)
(*  MC_Launch_law.cfg   hand-built launch records are accepted by the launch    *)
(*                      relations and each single-field corruption is rejected  *)
(*                      with the expected clause (vacuity guard of Part B)      *)
EXTENDS Launch, LaunchWitnesses, TLC
CONSTANT MaxN
VARIABLES cell, pc, n, wk
vars == <<cell, pc, n, wk>>
NoCell == [ap |-> "EPD", ft |-> "angle", inf |-> TRUE, tel |-> FALSE]

---------------------------------------------------------------------------
\* 1. decision table
InitTable == cell \in Cells /\ pc = "called" /\ n = 0 /\ wk = 0
LaunchAct == pc = "called" /\ LaunchEnabled(cell) /\ pc' = "launched" /\ UNCHANGED <<cell, n, wk>>
RaiseAct == pc = "called" /\ ErrorEnabled(cell) /\ pc' = "error" /\ UNCHANGED <<cell, n, wk>>
SpecTable == InitTable /\ [][LaunchAct \/ RaiseAct]_vars
Total == pc = "called" => (ENABLED LaunchAct) \/ (ENABLED RaiseAct)
Deterministic == (pc = "called" /\ ~Unspecified(cell)) => ~((ENABLED LaunchAct) /\ (ENABLED RaiseAct))
Terminal == pc # "called" => ~(ENABLED LaunchAct) /\ ~(ENABLED RaiseAct)
OutcomeAllowed == /\ pc = "launched" => Decision(cell) # "Reject"
                  /\ pc = "error" => Decision(cell) # "Accept"
\* the property's own list: "height fields or telecentricity with an infinite object, EPD or image
\* F-number with telecentric object space" (and angular fields with telecentric object space)
StatedRejects == {c \in Cells : c.inf /\ (c.ft = "object_height" \/ c.tel)} \cup
                 {c \in Cells : c.tel /\ c.ap \in {"EPD", "imageFNO"}} \cup
                 {c \in Cells : c.tel /\ c.ft = "angle"}
AsStated == (Decision(cell) = "Reject") <=> (cell \in StatedRejects)
TableCounts == /\ Cardinality(Cells) = 24
               /\ Cardinality({c \in Cells : Decision(c) = "Accept"}) = 9
               /\ Cardinality({c \in Cells : Decision(c) = "Reject"}) = 14
               /\ {c \in Cells : Decision(c) = "Unspecified"} =
                     {[ap |-> "objectNA", ft |-> "angle", inf |-> TRUE, tel |-> FALSE]}
               /\ {c \in Cells : Decision(c) = "Accept" /\ c.tel} =
                     {[ap |-> "objectNA", ft |-> "object_height", inf |-> FALSE, tel |-> TRUE]}
\* the recorded-call judge agrees with the machine
CallJudge == /\ pc = "launched" => JudgeCall([cell |-> cell, outcome |-> "rays"]) = {}
             /\ pc = "error" => JudgeCall([cell |-> cell, outcome |-> "ValueError"]) = {}
             /\ Decision(cell) = "Reject" => JudgeCall([cell |-> cell, outcome |-> "rays"]) = {"not_rejected"}
             /\ Decision(cell) = "Accept" => JudgeCall([cell |-> cell, outcome |-> "ValueError"]) = {"raises"}
             /\ JudgeCall([cell |-> cell, outcome |-> "TypeError"]) # {}

---------------------------------------------------------------------------
\* 2. samplings
InitDist == cell = NoCell /\ pc = "dist" /\ n \in 1..MaxN /\ wk = 0
SpecDist == InitDist /\ [][FALSE]_vars
HexFormula == pc = "dist" => HexCount(n) = HexByRings(n) /\ CountOK("hexapolar", n, HexByRings(n))
                             /\ ~CountOK("hexapolar", n, HexByRings(n) + 1)
UniformFormula ==
  (pc = "dist" /\ n >= 2) =>
     LET c == UniformClosed(n)
         o == UniformOpen(n)
         m == n - 1
         \* an independent count: one quadrant by columns (largest j with i^2 + j^2 <= m^2, same parity)
         col(i) == Cardinality({j \in 0..m : (j - m) % 2 = 0 /\ i * i + j * j <= m * m})
         axis == IF m % 2 = 0 THEN 1 ELSE 0
         quad == LET S == {i \in 1..m : (i - m) % 2 = 0} IN
                 Cardinality({ij \in S \X S : ij[1] * ij[1] + ij[2] * ij[2] <= m * m})
         onax == IF m % 2 = 0 THEN Cardinality({i \in 1..m : i % 2 = 0 /\ i <= m}) ELSE 0
     IN /\ c = 4 * quad + 4 * onax + axis
        /\ o <= c /\ (c - o) % 4 = 0 /\ c <= n * n
        /\ CountOK("uniform", n, c) /\ CountOK("uniform", n, o) /\ ~CountOK("uniform", n, c + 1)
        /\ (o > 0 => ~CountOK("uniform", n, o - 1))
KnownCounts == /\ HexCount(6) = 127 /\ HexCount(1) = 7
               /\ UniformClosed(3) = 5 /\ UniformClosed(2) = 0 /\ UniformClosed(11) = 81 /\ UniformOpen(11) = 69
               /\ CountOK("cross", 7, 14) /\ ~CountOK("cross", 7, 7) /\ CountOK("ring", 9, 9) /\ CountOK("line_x", 5, 5)
               /\ CountOK("random", 40, 40) /\ CountOK("gaussian_quadrature", 4, 12)
               /\ CountOK("gaussian_quadrature_symmetric", 4, 4) /\ ~CountOK("gaussian_quadrature", 7, 21)
               /\ ~CountOK("uniform", 1, 1) /\ ~CountOK("spiral", 3, 3)
\* vignetting on a rational grid (quarters): p (1 - v)^k shrinks for v in [0, 1], k = 1, 2, 3;
\* a negative factor (growth) and a factor above 1 (sign flip) are rejected
Q(a, sh) == DShift(DInt(a), -sh)
VigGrid == \A p \in -4..4 : \A v \in 0..4 :
             /\ ShrinkCoord(Q(p, 2), Q(p * (4 - v), 4))
             /\ ShrinkCoord(Q(p, 2), Q(p * (4 - v) * (4 - v), 6))
             /\ ShrinkCoord(Q(p, 2), Q(p * (4 - v) * (4 - v) * (4 - v), 8))
             /\ (p # 0 => ~ShrinkCoord(Q(p, 2), Q(p * 5, 4)) /\ ~ShrinkCoord(Q(p, 2), Q(-p, 4)))
VigJudge == /\ JudgeVig([x0 |-> <<Q(3, 2), Q(-1, 1)>>, y0 |-> <<DZero, Q(1, 2)>>,
                         x1 |-> <<Q(3, 3), Q(-1, 2)>>, y1 |-> <<DZero, Q(1, 2)>>]) = {}
            /\ JudgeVig([x0 |-> <<Q(3, 2)>>, y0 |-> <<DZero>>, x1 |-> <<Q(7, 3)>>, y1 |-> <<DZero>>]) = {"vignetting_shrinks"}
            /\ JudgeVig([x0 |-> <<Q(3, 2)>>, y0 |-> <<DZero>>, x1 |-> <<>>, y1 |-> <<>>]) = {"vignetting_count"}
DiskJudge == /\ JudgeDist([name |-> "ring", n |-> 2, cnt |-> 2, pts |-> TRUE, x |-> <<DOne, DInt(-1)>>, y |-> <<DZero, DZero>>]) = {}
             /\ JudgeDist([name |-> "ring", n |-> 2, cnt |-> 2, pts |-> TRUE, x |-> <<DOne, Q(3, 2)>>, y |-> <<Q(1, 20), Q(3, 2)>>])
                  = {"inside_unit_pupil"}
             /\ JudgeDist([name |-> "ring", n |-> 3, cnt |-> 2, pts |-> FALSE, x |-> <<>>, y |-> <<>>]) = {"count"}

---------------------------------------------------------------------------
\* 3. the launch relations on hand-built records
NC == Len(Corruptions)
InitLaw == cell = NoCell /\ pc = "law" /\ n = 0 /\ wk \in 1..(Len(Witnesses) + NC)
SpecLaw == InitLaw /\ [][FALSE]_vars
Corrupted(c) == LET w == Witnesses[c[1]] IN
                IF c[3] = 0 THEN [w EXCEPT ![c[2]] = c[4]]
                ELSE [w EXCEPT ![c[2]] = [@ EXCEPT ![c[3]] = c[4]]]
WitnessAccepted == (pc = "law" /\ wk <= Len(Witnesses)) => Judge(Witnesses[wk]) = {}
CorruptionRejected == (pc = "law" /\ wk > Len(Witnesses)) =>
                         LET c == Corruptions[wk - Len(Witnesses)] IN c[5] \in Judge(Corrupted(c))
=============================================================================
