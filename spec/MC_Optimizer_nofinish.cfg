\* negative variant: the library returns scipy's result without re-installing it.
\* TLC must report LensAtReturned violated (the driver requires it).
SPECIFICATION Spec
CONSTANTS
  Points <- MCPoints
  FSet <- MCFSet
  InB <- AllIn
  Pick <- MCPick
  Modes <- BothModes
  Finish = FALSE
  UndoUpdates = TRUE
  MaxEvals = 3
  MaxStack = 2
  Depth = 12
CONSTRAINT LevelBound
INVARIANT LensAtReturned
INVARIANT DeviationShape
CHECK_DEADLOCK FALSE
