---------------------------- MODULE MC_Optimizer ----------------------------
(* Model-checking instances of Optimizer: 3 candidate points, every merit     *)
(* function with values in 0..2 (27 functions: all orderings and ties), both  *)
(* worker modes, bounded (point 3 lies outside the bounds) and unbounded.     *)
EXTENDS Optimizer
MCPoints == {1, 2, 3}
MCFSet == [MCPoints -> 0..2]
AllIn == {1, 2, 3}
TwoIn == {1, 2}
MCPick == [p \in MCPoints |-> 10 - 2 * p]      \* e.g. R2 = -2 R1 + 10
BothModes == {"inproc", "multi"}
InprocOnly == {"inproc"}
CONSTANT Depth
LevelBound == TLCGet("level") <= Depth
=============================================================================
