\* negative variant: undo() re-installs the variables but does not update the optics.
\* TLC must report UndoRestores violated (the driver requires it).
SPECIFICATION Spec
CONSTANTS
  Points <- MCPoints
  FSet <- MCFSet
  InB <- AllIn
  Pick <- MCPick
  Modes <- BothModes
  Finish = TRUE
  UndoUpdates = FALSE
  MaxEvals = 3
  MaxStack = 2
  Depth = 12
CONSTRAINT LevelBound
INVARIANT TypeOK
INVARIANT LensAtReturned
INVARIANT MeritAtReturned
INVARIANT NotWorse
INVARIANT WithinBounds
INVARIANT StackIsPre
INVARIANT DeviationShape
PROPERTY UndoRestores
CHECK_DEADLOCK FALSE
