\* negative variant: no reset before each trial.  TLC must report RowsTrue violated
\* (a swept perturbation sees the previous one still applied).
SPECIFICATION Spec
CONSTANTS
  Values <- MCValues
  Nom <- MCNom
  Shape = "sens"
  KindSets <- RangeOnly
  RangeVals <- MCRange
  ScalarVal = 2
  NTrials = 2
  Streams <- NoStream
  WithComp = FALSE
  CompFns <- OneCompFn
  FailSets <- MCFailSets
  TrialReset = FALSE
  FinalReset = TRUE
  CompRebases = FALSE
  MaxUser = 0
  CompSkips = FALSE
INVARIANT TypeOK
INVARIANT RowsTrue
CHECK_DEADLOCK FALSE
