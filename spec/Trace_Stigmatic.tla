-------------------------- MODULE Trace_Stigmatic --------------------------
(* Trace validation for C06: the prescription read back from each built     *)
(* closed-form system, its recorded rays, and the reported wavefront error  *)
(* and Strehl ratio are judged by spec/Stigmatic.tla.  Events are           *)
(* self-contained; verdicts are total.                                      *)
EXTENDS Stigmatic, Json, IOUtils, TLC
Trace == JsonDeserialize(IOEnv.TRACE_FILE)
VARIABLES tpos
vars == <<tpos>>
Init == tpos = 0
Next == /\ tpos < Len(Trace)
        /\ LET e == Trace[tpos + 1] IN PrintT(<<"V", e.id, Judge(e)>>)
        /\ tpos' = tpos + 1
Spec == Init /\ [][Next]_vars
Done == TLCGet("stats").diameter - 1 = Len(Trace) /\ PrintT(<<"DONE", Len(Trace)>>)
=============================================================================
