----------------------------- MODULE Trace_Lens -----------------------------
(* Trace validation for C01 (and the edit part of C07/C19): recorded         *)
(* executions of the real Optic, one event per public call written at its    *)
(* return, are consumed one by one; each step applies the Lens action of     *)
(* that call to the previous projected state `cur`, in exact dyadic          *)
(* arithmetic on the implementation's own floats, and names every clause     *)
(* the logged post-state fails.  Verdicts are total: the machine always      *)
(* resynchronises on the logged state so the rest of the trace is judged.    *)
EXTENDS Dyadic, Json, IOUtils, TLC, FiniteSets
Trace == JsonDeserialize(IOEnv.TRACE_FILE)
VARIABLES l,      \* events consumed
          cur,    \* projected prescription after the previous call
          lastT   \* thickness argument of the last add_surface
vars == <<l, cur, lastT>>

EmptyLens == [surf |-> <<>>, wl |-> <<>>, pk |-> <<>>, sol |-> <<>>]
NS(p) == Len(p.surf)
\* z is compared separately; everything else must be identical
NoZ(s) == [s EXCEPT !.z = DZero]
NoStop(s) == [s EXCEPT !.stop = FALSE]
SumAbs(a, b, c) == DAdd(DAdd(DAbs(a), DAbs(b)), DAbs(c))
Thick(p, k) == DSub(p.surf[k+1].z, p.surf[k].z)
FinZ(p, k) == IsFin(p.surf[k].z)
\* largest finite |vertex| of a prescription: float rounding in set_thickness (which
\* shifts every later vertex by a computed delta) is relative to these magnitudes
RECURSIVE ZMaxFrom(_, _)
ZMaxFrom(p, j) == IF j > NS(p) THEN DZero
                  ELSE LET r == ZMaxFrom(p, j + 1) IN
                       IF IsFin(p.surf[j].z) THEN DMax(DAbs(p.surf[j].z), r) ELSE r
ZScale(c, p) == DAdd(ZMaxFrom(c, 1), ZMaxFrom(p, 1))
\* |t_new - t_old| small relative to the vertex magnitudes involved (float sums)
ThickKept(old, new, j) ==
  IF ~FinZ(old, j) \/ ~FinZ(old, j+1) THEN new.surf[j].z = old.surf[j].z
  ELSE Small(DSub(Thick(new, j), Thick(old, j)), ZScale(old, new), 46)

--------------------------------------------------------------------------
(* structural clauses, evaluated on every post-state                        *)
Structural(p) ==
  (IF NS(p) >= 2 /\ p.surf[2].z # DZero THEN {"first_zero"} ELSE {}) \cup
  (IF \E j \in 2..NS(p) : p.surf[j].npre # p.surf[j-1].npost THEN {"medium_chain"} ELSE {}) \cup
  (IF Cardinality({j \in 1..NS(p) : p.surf[j].stop}) > 1 THEN {"one_stop"} ELSE {}) \cup
  (IF p.wl # <<>> /\ Cardinality({j \in 1..Len(p.wl) : p.wl[j].primary}) # 1 THEN {"one_primary"} ELSE {})

--------------------------------------------------------------------------
(* per-call clauses: `c` is cur (before), `e` the event, `p` = e.post        *)
AddSurface(c, e) ==
  LET p == e.post
      a == e.args
      i == NS(c) + 1 IN
  IF NS(p) # i THEN {"count"} ELSE
  LET s == p.surf[i] IN
  (IF i = 1 THEN (IF s.z = DNeg(a.t) THEN {} ELSE {"vertex"})
   ELSE IF i = 2 THEN (IF s.z = DZero THEN {} ELSE {"vertex"})
   ELSE (IF Agree(s.z, DAdd(c.surf[i-1].z, lastT), 51) THEN {} ELSE {"vertex"})) \cup
  (IF s.R = a.R /\ s.k = a.k /\ s.coef = a.coef /\ s.dx = a.dx /\ s.dy = a.dy
      /\ s.rx = a.rx /\ s.ry = a.ry /\ s.refl = a.refl THEN {} ELSE {"readback"}) \cup
  (IF i >= 2 /\ s.npre # c.surf[i-1].npost THEN {"medium_chain"} ELSE {}) \cup
  (IF (a.refl /\ s.npost = s.npre) \/ (~a.refl /\ s.npost = a.npost) THEN {} ELSE {"medium_given"}) \cup
  (IF s.stop = (a.stop /\ i > 1) THEN {} ELSE {"stop_flag"}) \cup
  (IF \A j \in 1..(i-1) : IF s.stop THEN NoStop(p.surf[j]) = NoStop(c.surf[j]) /\ ~p.surf[j].stop
                                      ELSE p.surf[j] = c.surf[j]
   THEN {} ELSE {"frame"}) \cup
  (IF p.wl = c.wl THEN {} ELSE {"frame_wl"})

FrameExcept(c, p, k, s) ==        \* surface k becomes s, everything else identical
  /\ NS(p) = NS(c) /\ p.wl = c.wl
  /\ \A j \in 1..NS(c) : p.surf[j] = (IF j = k THEN s ELSE c.surf[j])
SetField(c, e, s) == IF FrameExcept(c, e.post, e.args.k, s) THEN {}
                     ELSE IF e.post.surf[e.args.k] = s THEN {"frame"} ELSE {"readback"}
SetRadius(c, e) ==
  LET k == e.args.k
      old == c.surf[k]
      s == [old EXCEPT !.R = e.args.v,
                       !.kind = IF @ = "Plane" THEN "StandardGeometry" ELSE @] IN
  SetField(c, e, s)
SetConic(c, e) == SetField(c, e, [c.surf[e.args.k] EXCEPT !.k = e.args.v])
SetCoeff(c, e) == SetField(c, e, [c.surf[e.args.k] EXCEPT !.coef[e.args.idx] = e.args.v])
SetTilt(c, e) == SetField(c, e, IF e.args.axis = "x" THEN [c.surf[e.args.k] EXCEPT !.rx = e.args.v]
                                 ELSE [c.surf[e.args.k] EXCEPT !.ry = e.args.v])
SetDecentre(c, e) == SetField(c, e, IF e.args.axis = "x" THEN [c.surf[e.args.k] EXCEPT !.dx = e.args.v]
                                     ELSE [c.surf[e.args.k] EXCEPT !.dy = e.args.v])
SetIndex(c, e) ==
  LET p == e.post
      k == e.args.k
      n3 == <<e.args.v, e.args.v, e.args.v>> IN
  (IF p.surf[k].npost = n3 /\ p.surf[k+1].npre = n3 /\ (k = 1 => p.surf[1].npre = n3)
   THEN {} ELSE {"readback"}) \cup
  (IF /\ NS(p) = NS(c) /\ p.wl = c.wl
      /\ \A j \in 1..NS(c) :
           /\ [p.surf[j] EXCEPT !.npre = <<>>, !.npost = <<>>] = [c.surf[j] EXCEPT !.npre = <<>>, !.npost = <<>>]
           /\ (j # k => p.surf[j].npost = c.surf[j].npost)
           /\ (j # k + 1 /\ ~(j = 1 /\ k = 1) => p.surf[j].npre = c.surf[j].npre)
   THEN {} ELSE {"frame"})
SetThickness(c, e) ==
  LET p == e.post
      k == e.args.k
      v == e.args.v IN
  IF NS(p) # NS(c) THEN {"frame"} ELSE
  (IF Small(DSub(Thick(p, k), v), DAdd(ZScale(c, p), DAbs(v)), 46) THEN {} ELSE {"readback"}) \cup
  (IF \A j \in 1..(NS(c)-1) : j # k => ThickKept(c, p, j) THEN {} ELSE {"rigid"}) \cup
  (IF p.wl = c.wl /\ \A j \in 1..NS(c) : NoZ(p.surf[j]) = NoZ(c.surf[j]) THEN {} ELSE {"frame"})

\* Variable.update(x): the value set is inverse_scale(x); Variable.value reads x back
VarTarget(e) ==        \* <<num, den>>: field * den must equal num
  LET x == e.args.x
      t == e.args.type IN
  IF ~e.args.scaled THEN <<x, DOne>>
  ELSE CASE t = "radius" -> <<DMul(DAdd(x, DOne), DInt(100)), DOne>>
         [] t = "thickness" -> <<DMul(DAdd(x, DOne), DInt(10)), DOne>>
         [] t = "index" -> <<DAdd(x, DHalf(DInt(3))), DOne>>
         [] t = "asphere_coeff" -> <<x, DInt(e.args.pow10)>>
         [] OTHER -> <<x, DOne>>
VarField(p, e) ==
  LET k == e.args.k
      t == e.args.type IN
  CASE t = "radius" -> p.surf[k].R
    [] t = "conic" -> p.surf[k].k
    [] t = "thickness" -> Thick(p, k)
    [] t = "index" -> p.surf[k].npost[2]
    [] t = "tilt" -> IF e.args.axis = "x" THEN p.surf[k].rx ELSE p.surf[k].ry
    [] t = "decenter" -> IF e.args.axis = "x" THEN p.surf[k].dx ELSE p.surf[k].dy
    [] OTHER -> p.surf[k].coef[e.args.idx]
VarUpdate(c, e) ==
  LET p == e.post
      k == e.args.k
      t == e.args.type
      tg == VarTarget(e)
      fld == VarField(p, e)
      scale == IF t = "thickness" THEN DAdd(ZScale(c, p), DAbs(tg[1])) ELSE DAbs(tg[1]) IN
  IF NS(p) # NS(c) THEN {"frame"} ELSE
  (IF Small(DSub(DMul(fld, tg[2]), tg[1]), DAdd(scale, DAbs(DMul(fld, tg[2]))), 46) THEN {} ELSE {"var_sets"}) \cup
  (IF Small(DSub(e.out, e.args.x), DAdd(DAdd(DAbs(e.args.x), DAbs(e.out)),
            IF t = "thickness" THEN DAdd(DOne, DShift(ZScale(c, p), -3)) ELSE
            IF t = "index" THEN DOne ELSE IF t = "radius" /\ e.args.scaled THEN DOne ELSE DZero), 44)
   THEN {} ELSE {"var_reads"}) \cup
  \* frame: only the addressed quantity changed
  (IF /\ p.wl = c.wl
      /\ \A j \in 1..NS(c) :
          IF t = "thickness" THEN NoZ(p.surf[j]) = NoZ(c.surf[j]) /\ (j < NS(c) /\ j # k => ThickKept(c, p, j))
          ELSE IF t = "index" THEN
             /\ [p.surf[j] EXCEPT !.npre = <<>>, !.npost = <<>>] = [c.surf[j] EXCEPT !.npre = <<>>, !.npost = <<>>]
             /\ (j # k => p.surf[j].npost = c.surf[j].npost)
             /\ (j # k + 1 /\ ~(j = 1 /\ k = 1) => p.surf[j].npre = c.surf[j].npre)
          ELSE IF j # k THEN p.surf[j] = c.surf[j]
          ELSE CASE t = "radius" -> [p.surf[j] EXCEPT !.R = DZero, !.kind = ""] = [c.surf[j] EXCEPT !.R = DZero, !.kind = ""]
                 [] t = "conic" -> [p.surf[j] EXCEPT !.k = DZero] = [c.surf[j] EXCEPT !.k = DZero]
                 [] t = "tilt" -> [p.surf[j] EXCEPT !.rx = DZero, !.ry = DZero] = [c.surf[j] EXCEPT !.rx = DZero, !.ry = DZero]
                                   /\ (e.args.axis = "x" => p.surf[j].ry = c.surf[j].ry)
                                   /\ (e.args.axis = "y" => p.surf[j].rx = c.surf[j].rx)
                 [] t = "decenter" -> [p.surf[j] EXCEPT !.dx = DZero, !.dy = DZero] = [c.surf[j] EXCEPT !.dx = DZero, !.dy = DZero]
                                   /\ (e.args.axis = "x" => p.surf[j].dy = c.surf[j].dy)
                                   /\ (e.args.axis = "y" => p.surf[j].dx = c.surf[j].dx)
                 [] OTHER -> /\ [p.surf[j] EXCEPT !.coef = <<>>] = [c.surf[j] EXCEPT !.coef = <<>>]
                             /\ Len(p.surf[j].coef) = Len(c.surf[j].coef)
                             /\ \A q \in 1..Len(c.surf[j].coef) : q # e.args.idx => p.surf[j].coef[q] = c.surf[j].coef[q]
   THEN {} ELSE {"frame"})

AddWavelength(c, e) ==
  LET p == e.post
      n == Len(c.wl) IN
  IF Len(p.wl) # n + 1 THEN {"count"} ELSE
  (IF Close(DMul(p.wl[n+1].v, DInt(e.args.den)), DMul(e.args.v, DInt(e.args.num)), 50) THEN {} ELSE {"readback"}) \cup
  (IF p.wl[n+1].primary = (e.args.p \/ n = 0) THEN {} ELSE {"primary_flag"}) \cup
  (IF \A j \in 1..n : p.wl[j].v = c.wl[j].v /\ p.wl[j].primary = (c.wl[j].primary /\ ~e.args.p)
   THEN {} ELSE {"frame_wl"}) \cup
  (IF p.surf = c.surf THEN {} ELSE {"frame"})

\* after update(): every pickup holds, every solve holds
AttrOf(p, k, attr) == CASE attr = "radius" -> p.surf[k].R
                        [] attr = "conic" -> p.surf[k].k
                        [] OTHER -> Thick(p, k)
PickupHolds(c, p, q) ==
  LET tv == AttrOf(p, q.tgt, q.attr)
      sv == AttrOf(p, q.src, q.attr)
      want == DAdd(DMul(q.scale, sv), q.off)
      slack == IF q.attr = "thickness"
               THEN DAdd(DAbs(want), DMul(DAdd(DOne, DAbs(q.scale)), ZScale(c, p)))
               ELSE DAdd(DAbs(want), DAbs(tv)) IN
  IF IsFin(want) /\ IsFin(tv) THEN Small(DSub(tv, want), slack, 44) ELSE tv = want
RECURSIVE MaxAbs(_)
MaxAbs(s) == IF s = <<>> THEN DZero ELSE DMax(DAbs(s[1]), MaxAbs(Tail(s)))
SolveHolds(e, q) == /\ Len(e.ya) >= q.k /\ IsFin(e.ya[q.k])
                    /\ Small(DSub(e.ya[q.k], q.h), DAdd(DAbs(q.h), MaxAbs(e.ya)), 30)
Holds(c, e) ==
  LET p == e.post IN
  (IF \A j \in 1..Len(p.pk) : PickupHolds(c, p, p.pk[j]) THEN {} ELSE {"pickups_hold"}) \cup
  (IF \A j \in 1..Len(p.sol) : SolveHolds(e, p.sol[j]) THEN {} ELSE {"solves_hold"})
\* what update()/pickups/solves may change: vertices, radii, conics - nothing else
SoftFrame(c, p) ==
  IF /\ NS(p) = NS(c) /\ p.wl = c.wl
     /\ \A j \in 1..NS(c) : [p.surf[j] EXCEPT !.z = DZero, !.R = DZero, !.k = DZero, !.kind = ""]
                            = [c.surf[j] EXCEPT !.z = DZero, !.R = DZero, !.k = DZero, !.kind = ""]
  THEN {} ELSE {"frame"}
PickupAdd(c, e) ==
  LET p == e.post IN
  (IF Len(p.pk) = Len(c.pk) + 1 /\ SubSeq(p.pk, 1, Len(c.pk)) = c.pk THEN {} ELSE {"registered"}) \cup
  (IF Len(p.pk) > 0 /\ PickupHolds(c, p, p.pk[Len(p.pk)]) THEN {} ELSE {"pickups_hold"}) \cup SoftFrame(c, p)
SolveAdd(c, e) ==
  LET p == e.post IN
  (IF Len(p.sol) = Len(c.sol) + 1 THEN {} ELSE {"registered"}) \cup
  (IF Len(p.sol) > 0 /\ SolveHolds(e, p.sol[Len(p.sol)]) THEN {} ELSE {"solves_hold"}) \cup SoftFrame(c, p)
Update(c, e) == Holds(c, e) \cup SoftFrame(c, e.post)
ImageSolve(c, e) ==
  LET p == e.post
      n == NS(p) IN
  (IF Len(e.ya) = n /\ IsFin(e.ya[n]) /\ Small(e.ya[n], MaxAbs(e.ya), 30) THEN {} ELSE {"image_at_focus"}) \cup
  (IF /\ NS(p) = NS(c) /\ p.wl = c.wl
      /\ \A j \in 1..NS(c) : IF j < n THEN p.surf[j] = c.surf[j] ELSE NoZ(p.surf[j]) = NoZ(c.surf[j])
   THEN {} ELSE {"frame"})
\* scale_system(s): radii and thicknesses times s, nothing else (planes/conics only)
ScaleSystem(c, e) ==
  LET p == e.post
      s == e.args.v IN
  IF NS(p) # NS(c) THEN {"frame"} ELSE
  (IF \A j \in 1..NS(c) : IF IsFin(c.surf[j].R) THEN Close(p.surf[j].R, DMul(s, c.surf[j].R), 50)
                                               ELSE p.surf[j].R = c.surf[j].R
   THEN {} ELSE {"scale_radii"}) \cup
  (IF \A j \in 1..(NS(c)-1) :
        IF FinZ(c, j) THEN Small(DSub(Thick(p, j), DMul(s, Thick(c, j))),
                                 DMul(DAdd(DOne, DAbs(s)), ZScale(c, p)), 44)
        ELSE p.surf[j].z = c.surf[j].z
   THEN {} ELSE {"scale_thicknesses"}) \cup
  (IF p.wl = c.wl /\ \A j \in 1..NS(c) : [p.surf[j] EXCEPT !.z = DZero, !.R = DZero, !.kind = ""]
                                         = [c.surf[j] EXCEPT !.z = DZero, !.R = DZero, !.kind = ""]
   THEN {} ELSE {"frame"})
\* to_dict/from_dict, save/load: identical projection
SaveLoad(c, e) == IF e.post = c THEN {} ELSE {"reload_differs"}

Judge(c, e) ==
  IF e.op = "new" THEN {}
  ELSE IF e.exc # "" THEN {"raises"}
  ELSE Structural(e.post) \cup
       CASE e.op = "add_surface" -> AddSurface(c, e)
         [] e.op = "set_radius" -> SetRadius(c, e)
         [] e.op = "set_conic" -> SetConic(c, e)
         [] e.op = "set_thickness" -> SetThickness(c, e)
         [] e.op = "set_index" -> SetIndex(c, e)
         [] e.op = "set_asphere_coeff" -> SetCoeff(c, e)
         [] e.op = "var_update" -> VarUpdate(c, e)
         [] e.op = "add_wavelength" -> AddWavelength(c, e)
         [] e.op = "pickup_add" -> PickupAdd(c, e)
         [] e.op = "solve_add" -> SolveAdd(c, e)
         [] e.op = "update" -> Update(c, e)
         [] e.op = "image_solve" -> ImageSolve(c, e)
         [] e.op = "scale_system" -> ScaleSystem(c, e)
         [] e.op = "save_load" -> SaveLoad(c, e)
         [] OTHER -> {"unknown_op"}

Init == l = 0 /\ cur = EmptyLens /\ lastT = DZero
Next == /\ l < Len(Trace)
        /\ LET e == Trace[l + 1] IN
             /\ PrintT(<<"V", e.id, Judge(cur, e)>>)
             /\ cur' = IF e.exc = "" THEN e.post ELSE cur       \* resynchronise on the implementation
             /\ lastT' = IF e.op = "add_surface" /\ e.exc = "" THEN e.args.t
                         ELSE IF e.op = "new" THEN DZero ELSE lastT
        /\ l' = l + 1
Spec == Init /\ [][Next]_vars
Done == TLCGet("stats").diameter - 1 = Len(Trace) /\ PrintT(<<"DONE", Len(Trace)>>)
=============================================================================
