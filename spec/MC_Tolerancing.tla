--------------------------- MODULE MC_Tolerancing ---------------------------
(* Model-checking instances of Tolerancing: 2 perturbations x 3 sample values, *)
(* every combination of sampler kinds, every random stream of the needed       *)
(* length, with / without compensator, failure injection, both loop shapes.    *)
EXTENDS Tolerancing
MCValues == {0, 1, 2}
MCNom == [p1 |-> 1, p2 |-> 1, c |-> 0]
MCRange == <<0, 1, 2>>
AllKinds == [p1 : {"scalar", "range", "dist"}, p2 : {"scalar", "range", "dist"}]
RangeOnly == {[p1 |-> "range", p2 |-> "range"]}
PS == [p1 : MCValues, p2 : MCValues]
LS == [p1 : MCValues, p2 : MCValues, c : MCValues]
\* two deterministic compensations: none moves, one depends on the perturbed state
MCCompFns == {[q \in PS |-> 0], [q \in PS |-> (q.p1 + 2 * q.p2) % 3]}
OneCompFn == {[q \in PS |-> 0]}
\* failure injection: never; whenever p1 = 2; whenever p2 = 0 and the compensator sits at 0
MCFailSets == {{}, {l \in LS : l.p1 = 2}, {l \in LS : l.p2 = 0 /\ l.c = 0}}
Streams4 == [1..4 -> MCValues]
Streams6 == [1..6 -> MCValues]
NoStream == {<<>>}
=============================================================================
