SPECIFICATION Spec
CONSTANTS
  Values <- MCValues
  Nom <- MCNom
  Shape = "sens"
  KindSets <- RangeOnly
  RangeVals <- MCRange
  ScalarVal = 2
  NTrials = 2
  Streams <- NoStream
  WithComp = FALSE
  CompFns <- OneCompFn
  FailSets <- MCFailSets
  TrialReset = TRUE
  FinalReset = TRUE
  CompRebases = FALSE
  MaxUser = 0
  CompSkips = FALSE
INVARIANT TypeOK
INVARIANT RowsTrue
INVARIANT NominalReproduced
INVARIANT Reproducible
INVARIANT EndStateNominal
INVARIANT HandlesNominal
PROPERTY ResetRestores
CHECK_DEADLOCK FALSE
