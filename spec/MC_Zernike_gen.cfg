SPECIFICATION GenSpec
CHECK_DEADLOCK FALSE
