---------------------------- MODULE MC_Analyses ----------------------------
(* Design-level model of C12.                                                *)
(* (1) The sampling contract of spec/Analyses.tla as an index machine: for   *)
(*     every case (analysis class, lens wavelength list, primary, wavelength *)
(*     argument, field argument) the constructor performs one trace request  *)
(*     per (field, wavelength) cell of the lists IN USE, in row-major order; *)
(*     TLC checks the indexing invariants and that the reference wavelength  *)
(*     named by the contract is a member of the list in use (and the lens's  *)
(*     primary whenever that is a member).  With RefRule = "lens_index" (the *)
(*     lens's primary INDEX applied to the list in use) InvRef is violated:  *)
(*     the documented negative.  Each completed case is printed and replayed *)
(*     into the implementation by harness/drivers/c12.py.                    *)
(* (2) Witness tables for every law of part 2: accepted as they are,         *)
(*     rejected (with the expected clause) after a single perturbation.      *)
EXTENDS Analyses, TLC
CONSTANT RefRule

Kinds == {"SpotDiagram", "EncircledEnergy", "RayFan", "Distortion", "GridDistortion", "FieldCurvature",
          "RmsSpotSizeVsField", "PupilAberration"}
Tokens == {1, 2, 3, 9}                      \* wavelengths 1..3 may belong to the lens, 9 never does
NoList == <<>>
Lists1 == {<<a>> : a \in Tokens}
Lists2 == {<<a, b>> : a \in Tokens, b \in Tokens} \ {<<a, a>> : a \in Tokens}
WlArgs(kind) ==
  IF WlDefault(kind) = "primary"
  THEN {[mode |-> "primary", list |-> NoList]} \cup {[mode |-> "list", list |-> l] : l \in Lists1}
  ELSE {[mode |-> "all", list |-> NoList]} \cup {[mode |-> "list", list |-> l] : l \in Lists1 \cup Lists2}
FArgs(kind) ==
  IF HasFieldsArg(kind)
  THEN {[mode |-> "all", list |-> NoList, n |-> 0], [mode |-> "list", list |-> <<"g1">>, n |-> 0],
        [mode |-> "list", list |-> <<"g2", "f1">>, n |-> 0]}
  ELSE IF kind = "RmsSpotSizeVsField" THEN {[mode |-> "linspace", list |-> NoList, n |-> k] : k \in 2..3}
  ELSE {[mode |-> "internal", list |-> NoList, n |-> 0]}
Cases == UNION {{[kind |-> kd, nw |-> n, prim |-> p, nf |-> f, wlarg |-> wa, farg |-> fa] :
                   p \in 1..n, f \in 1..2, wa \in WlArgs(kd), fa \in FArgs(kd)} : kd \in Kinds, n \in 1..3}

LensWl(c) == [i \in 1..c.nw |-> i]
LensFields(c) == [i \in 1..c.nf |-> IF i = 1 THEN "f1" ELSE "f2"]
WL(c) == WlInUse(LensWl(c), c.prim, c.wlarg)
FL(c) == CASE c.farg.mode = "linspace" -> [k \in 1..c.farg.n |-> <<"lin", k>>]
           [] c.farg.mode = "internal" -> <<"internal">>        \* field sampling is part of the law
           [] OTHER -> FieldsInUse(LensFields(c), c.farg)
Ref(c) == IF RefRule = "list" THEN RefAdm(WL(c), LensWl(c)[c.prim]) ELSE RefLensIndex(WL(c), c.prim)

VARIABLES case, plan, done
vars == <<case, plan, done>>
Init == case \in Cases /\ plan = <<>> /\ done = FALSE
NCells(c) == Len(FL(c)) * Len(WL(c))
Step == /\ Len(plan) < NCells(case)
        /\ LET ij == CellOf(Len(plan) + 1, Len(WL(case)))
           IN plan' = Append(plan, [f |-> FL(case)[ij[1]], w |-> WL(case)[ij[2]]])
        /\ UNCHANGED <<case, done>>
Finish == /\ Len(plan) = NCells(case) /\ ~done
          /\ done' = TRUE
          /\ PrintT("CASE " \o ToString(<<case, Len(WL(case)), Len(FL(case)), [r \in 1..3 |-> r \in Ref(case)]>>))
          /\ UNCHANGED <<case, plan>>
Next == Step \/ Finish
Spec == Init /\ [][Next]_vars

\* element k of the flat plan is cell CellOf(k): data[i][j] <-> (fields[i], wavelengths[j])
InvIndex == \A k \in 1..Len(plan) :
              LET ij == CellOf(k, Len(WL(case))) IN
              /\ ij[1] \in 1..Len(FL(case)) /\ ij[2] \in 1..Len(WL(case))
              /\ CellIndex(ij[1], ij[2], Len(WL(case))) = k
              /\ plan[k] = [f |-> FL(case)[ij[1]], w |-> WL(case)[ij[2]]]
\* on completion every cell of the lists in use has been traced exactly once, nothing else
InvDone == done => /\ Len(plan) = Len(FL(case)) * Len(WL(case))
                   /\ \A i \in 1..Len(FL(case)) : \A j \in 1..Len(WL(case)) :
                        plan[CellIndex(i, j, Len(WL(case)))] = [f |-> FL(case)[i], w |-> WL(case)[j]]
\* the lists in use are never empty and are the caller's when given
InvLists == /\ Len(WL(case)) >= 1 /\ Len(FL(case)) >= 1
            /\ case.wlarg.mode = "list" => WL(case) = case.wlarg.list
            /\ case.wlarg.mode = "primary" => WL(case) = <<case.prim>>
            /\ case.wlarg.mode = "all" => WL(case) = LensWl(case)
\* the reference of centroids / fans exists, is a member of the list in use, and is the lens's
\* primary wavelength whenever that is a member
InvRef == UsesReference(case.kind) => RefContractOK(Ref(case), WL(case), LensWl(case)[case.prim])
InvCounts == /\ PupilCount("hexapolar", 1) = 7 /\ PupilCount("hexapolar", 6) = 127
             /\ PupilCount("uniform", 3) = 5 /\ PupilCount("uniform", 4) = 4 /\ PupilCount("uniform", 5) = 13
             /\ PupilCount("cross", 5) = 10 /\ PupilCount("ring", 6) = 6
             /\ OddPoints(256) = 257 /\ OddPoints(5) = 5

-----------------------------------------------------------------------------
(* witness tables *)
D(n) == DInt(n)
Q(n, k) == DShift(DInt(n), -k)              \* n / 2^k
H0 == <<D(0), D(0)>>
Arg(mode, l) == [mode |-> mode, list |-> l, n |-> 0]
\* four rays at (+-3, +-4): centroid (0,0), rms = geometric radius = 5; second wavelength: the
\* same spot doubled and moved by (1, 0): radii about the FIRST (primary) centroid
X1 == <<D(3), D(-3), D(3), D(-3)>>
Y1 == <<D(4), D(4), D(-4), D(-4)>>
X2 == <<D(7), D(-5), D(7), D(-5)>>
Y2 == <<D(8), D(8), D(-8), D(-8)>>
I1 == <<D(1), D(1), D(1), D(1)>>
Cell(w, x, y) == [h |-> H0, w |-> w, ax |-> x, ay |-> y, ai |-> I1, rx |-> x, ry |-> y, ri |-> I1, indep |-> TRUE]
WSpot == [kind |-> "spot", lenswl |-> <<D(1), D(2)>>, prim |-> 1, wlarg |-> Arg("all", <<>>),
          lensfields |-> <<H0>>, farg |-> Arg("all", <<>>), fi |-> 1, nf |-> 1, hfield |-> H0,
          cells |-> <<Cell(D(1), X1, Y1), Cell(D(2), X2, Y2)>>, dist |-> "ring", npar |-> 4, hascen |-> TRUE,
          cen |-> <<D(0), D(0)>>,
          rms |-> <<D(5), D(5)>>, geo |-> <<D(5), D(5)>>]
\* second cell with rational radii: (+-6, +-8) -> r = 10
X3 == <<D(6), D(-6), D(6), D(-6)>>
WSpot2 == [WSpot EXCEPT !.cells = <<Cell(D(1), X1, Y1), Cell(D(2), X3, Y2)>>, !.rms = <<D(5), D(10)>>,
                        !.geo = <<D(5), D(10)>>]
\* explicit list <<9, 1>> on the same lens (primary = wavelength 1, second in the list)
WSpot3 == [WSpot2 EXCEPT !.wlarg = Arg("list", <<D(2), D(1)>>),
                         !.cells = <<Cell(D(2), X2, Y2), Cell(D(1), X1, Y1)>>,
                         !.rms = <<D(5), D(5)>>, !.geo = <<D(5), D(5)>>]
WitnessSpot ==
  /\ JudgeSpot(WSpot2) = {}
  /\ JudgeSpot([WSpot2 EXCEPT !.rms[2] = DAdd(D(10), Q(1, 18))]) = {"rms"}
  /\ JudgeSpot([WSpot2 EXCEPT !.geo[1] = DSub(D(5), Q(1, 18))]) = {"geo"}
  /\ JudgeSpot([WSpot2 EXCEPT !.geo[1] = DAdd(D(5), Q(1, 18))]) = {"geo"}
  /\ JudgeSpot([WSpot2 EXCEPT !.cen[1] = Q(1, 20)]) = {"centroid"}
  /\ JudgeSpot([WSpot2 EXCEPT !.cells[2].ax[3] = DAdd(D(6), Q(1, 30))]) = {"data_rays"}
  /\ JudgeSpot([WSpot2 EXCEPT !.npar = 5]) = {"pupil_count"}
  /\ JudgeSpot([WSpot2 EXCEPT !.cells[2].w = D(3)]) = {"labels"}
  \* reference: with the list <<2, 1>> the primary (1) is second; a centroid taken from the first
  \* element (centroid of X2 = 1) is the wrong reference
  /\ "reference" \in JudgeSpot([WSpot3 EXCEPT !.cen = <<D(1), D(0)>>])
  /\ "reference" \notin JudgeSpot(WSpot3) /\ "centroid" \notin JudgeSpot(WSpot3)

\* encircled energy: rays at radius 5 with energies 1, 1, 1, 1/2
WEE == [kind |-> "ee", x |-> X1, y |-> Y1, i |-> <<D(1), D(1), D(1), Q(1, 1)>>,
        r |-> <<D(0), D(4), D(6)>>, ee |-> <<D(0), D(0), Q(7, 1)>>]
WitnessEE ==
  /\ JudgeEE(WEE) = {}
  /\ JudgeEE([WEE EXCEPT !.ee = <<D(0), D(1), Q(7, 1)>>]) = {"ee_value"}
  /\ JudgeEE([WEE EXCEPT !.ee = <<D(0), Q(7, 1), D(3)>>]) = {"ee_monotone", "ee_total", "ee_value"}
  /\ JudgeEE([WEE EXCEPT !.ee = <<D(0), D(0), D(4)>>]) = {"ee_total", "ee_value"}

\* fan: records 10 + k at the primary, 20 + 2k at the other wavelength, reference = 12 (k = 2, the middle)
FanCell(w, base, step) ==
  LET rec == [k \in 1..3 |-> D(base + step * k)] IN
  [h |-> H0, w |-> w, rx |-> rec, ry |-> rec, rix |-> <<D(1), D(1), D(1)>>, riy |-> <<D(1), D(1), D(1)>>,
   vx |-> [k \in 1..3 |-> D(base + step * k - 12)], vy |-> [k \in 1..3 |-> D(base + step * k - 12)],
   ix |-> <<D(1), D(1), D(1)>>, iy |-> <<D(1), D(1), D(1)>>]
WFan == [kind |-> "fan", lenswl |-> <<D(1), D(2)>>, prim |-> 1, wlarg |-> Arg("all", <<>>), lensfields |-> <<H0>>,
         farg |-> Arg("all", <<>>), fi |-> 1, nf |-> 1, hfield |-> H0, npts |-> 2,
         px |-> <<D(-1), D(0), D(1)>>, py |-> <<D(-1), D(0), D(1)>>,
         cells |-> <<FanCell(D(1), 10, 1), FanCell(D(2), 20, 2)>>]
WitnessFan ==
  /\ JudgeFan(WFan) = {}
  /\ JudgeFan([WFan EXCEPT !.cells[2].vx[3] = DAdd(D(14), Q(1, 30))]) = {"fan_value"}
  /\ JudgeFan([WFan EXCEPT !.px = <<D(-1), Q(1, 3), D(1)>>]) = {"fan_pupil"}
  \* values referred to the other wavelength's chief ray (24): wrong reference
  /\ JudgeFan([WFan EXCEPT !.cells = <<[FanCell(D(1), 10, 1) EXCEPT !.vx = [k \in 1..3 |-> D(10 + k - 24)],
                                                                    !.vy = [k \in 1..3 |-> D(10 + k - 24)]],
                                       [FanCell(D(2), 20, 2) EXCEPT !.vx = [k \in 1..3 |-> D(20 + 2 * k - 24)],
                                                                    !.vy = [k \in 1..3 |-> D(20 + 2 * k - 24)]]>>])
       = {"reference"}

\* distortion, f-theta: fields h = (2^-34, 1/2 + 2^-35, 1), y_k = 10 h_k (1 + d_k), d = (0, 1/64, 1/16)
WH == <<Q(1, 34), DAdd(Q(1, 1), Q(1, 35)), D(1)>>
WDist == [kind |-> "dist", dtype |-> "f-theta", ftype |-> "angle", npts |-> 3, maxf |-> D(0), theta |-> D(0),
          h |-> WH, t |-> <<D(0), D(0), D(0)>>,
          yr |-> <<DMul(D(10), WH[1]), DMul(DMul(D(10), WH[2]), DAdd(D(1), Q(1, 6))), DMul(D(10), DAdd(D(1), Q(1, 4)))>>,
          d |-> <<D(0), Q(100, 6), Q(100, 4)>>,
          lenswl |-> <<D(1)>>, prim |-> 1, wlarg |-> Arg("all", <<>>), nw |-> 1, wi |-> 1, w |-> D(1)]
WitnessDist ==
  /\ JudgeDist(WDist) = {}
  /\ JudgeDist([WDist EXCEPT !.d[3] = DAdd(Q(100, 4), Q(1, 24))]) = {"dist_value"}
  /\ {"dist_fields"} \subseteq JudgeDist([WDist EXCEPT !.h[2] = Q(1, 1)])
  /\ JudgeDist([WDist EXCEPT !.nw = 2]) = {"shape"}
\* certificates: tan(1/2) and radians(30) as float64 (from libm), accepted; one more ulp-scale step rejected
T05 == [k |-> "fin", s |-> 1, e |-> -52, m |-> <<9125, 14310, 6778, 559>>]        \* float64 tan(0.5)
R30 == [k |-> "fin", s |-> 1, e |-> -53, m |-> <<13157, 8373, 5411, 1072>>]      \* float64 radians(30)
WitnessCert ==
  /\ TanCertOK(T05, Q(1, 1))
  /\ ~TanCertOK(DMul(T05, DAdd(D(1), Q(1, 36))), Q(1, 1))
  /\ TanCertOK(D(0), D(0))
  /\ RadCertOK(R30, D(30)) /\ ~RadCertOK(DMul(R30, DAdd(D(1), Q(1, 40))), D(30))
  /\ CurvCertOK(Q(1, 3), D(8)) /\ ~CurvCertOK(Q(1, 3), D(9)) /\ CurvCertOK(D(0), Inf(1))

\* Coddington, on axis: one refracting sphere R = 8, n = 1 -> 3/2, image surface 20 behind the vertex.
\* Object at infinity: V' = (1/2)/8/(3/2) = 1/24 -> both foci 4 behind the image surface.
\* Object 24 in front: V' = (1/16 - 1/24)/(3/2) = 1/72 -> both foci 52 behind it.
WSurf == << [flat |-> TRUE, zv |-> D(0), R |-> Inf(1), c |-> D(0), n1 |-> D(1), n2 |-> D(1), sph |-> TRUE],
            [flat |-> FALSE, zv |-> D(0), R |-> D(8), c |-> Q(1, 3), n1 |-> D(1), n2 |-> Q(3, 1), sph |-> TRUE],
            [flat |-> TRUE, zv |-> D(20), R |-> Inf(1), c |-> D(0), n1 |-> Q(3, 1), n2 |-> Q(3, 1), sph |-> TRUE] >>
Z3(z) == <<D(0), D(0), D(z)>>
\* parabasal pairs crossing 10 (resp. 25) behind z = 20: rays through (a, z) = (-+1/1024, 20) with slopes
\* +-(1/1024)/10: directions proportional to (+-1, 10240) -> not unit, the pair law is homogeneous in them
Pair(zf) == << <<Q(-1, 10), D(20), D(1), D(zf * 1024)>>, <<Q(1, 10), D(20), D(-1), D(zf * 1024)>> >>
WFC(inf) == [kind |-> "fc", npts |-> 2, k |-> 0, h |-> D(0), objinf |-> inf, surf |-> WSurf,
             P |-> <<Z3(-24), Z3(0), Z3(20)>>, Dr |-> <<Z3(1), Z3(1), Z3(1)>>,
             tp |-> Pair(IF inf THEN 4 ELSE 52), sp |-> Pair(IF inf THEN 4 ELSE 52),
             tv |-> D(IF inf THEN 4 ELSE 52), sv |-> D(IF inf THEN 4 ELSE 52),
             lenswl |-> <<D(1)>>, prim |-> 1, wlarg |-> Arg("all", <<>>), nw |-> 1, wi |-> 1, w |-> D(1)]
WitnessFC ==
  /\ JudgeFC(WFC(TRUE)) = {}
  /\ JudgeFC(WFC(FALSE)) = {}
  /\ JudgeFC([WFC(TRUE) EXCEPT !.tv = DAdd(D(4), Q(1, 10))]) = {"fc_parabasal_t", "coddington_t"}
  /\ JudgeFC([WFC(FALSE) EXCEPT !.sv = D(51)]) = {"fc_parabasal_s", "coddington_s"}
  /\ JudgeFC([WFC(TRUE) EXCEPT !.surf[2].n2 = Q(25, 4)]) = {"coddington_t", "coddington_s"}
  /\ JudgeFC([WFC(TRUE) EXCEPT !.surf[2].c = Q(1, 2)]) = {"fc_cert"}
  /\ JudgeFC([WFC(TRUE) EXCEPT !.surf[2].sph = FALSE]) = {"~coddington_not_spherical"}

\* pupil aberration: d = 4, parax = P d, real rays 1% inside -> 100 (P d - 0.99 P d)/d = P
WPup == [kind |-> "pupil", lenswl |-> <<D(1)>>, prim |-> 1, wlarg |-> Arg("all", <<>>), lensfields |-> <<H0>>,
         farg |-> Arg("all", <<>>), fi |-> 1, nf |-> 1, hfield |-> H0, npts |-> 3,
         px |-> <<D(-1), D(0), D(1)>>, py |-> <<D(-1), D(0), D(1)>>, d |-> D(4), parax |-> <<D(-4), D(0), D(4)>>,
         cells |-> << [h |-> H0, w |-> D(1), rx |-> <<Q(-15, 2), D(0), Q(15, 2)>>, ry |-> <<Q(-15, 2), D(0), Q(15, 2)>>,
                       ix |-> <<D(1), D(1), D(0)>>, iy |-> <<D(1), D(1), D(1)>>,
                       ex |-> <<Q(-25, 2), D(0), NaN>>, ey |-> <<Q(-25, 2), D(0), Q(25, 2)>>] >>]
WitnessPupil ==
  /\ JudgePupil(WPup) = {}
  /\ JudgePupil([WPup EXCEPT !.cells[1].ey[3] = D(6)]) = {"pupil_value"}
  /\ JudgePupil([WPup EXCEPT !.cells[1].ex[3] = Q(25, 2)]) = {"pupil_value"}      \* dark ray must be reported as NaN
  /\ {"pupil_parax"} \subseteq JudgePupil([WPup EXCEPT !.parax[3] = D(5)])

\* grid distortion, f-theta, 2 x 2 grid at +-1/sqrt(2) (float64), xs = -ys (launch convention of angle fields),
\* real points 1% outside the paraxial ones -> max distortion 1 %
EXTV == [k |-> "fin", s |-> 1, e |-> -53, m |-> <<15309, 6652, 2534, 1448>>]        \* float64(sqrt(2)/2)
WGrid ==
  LET ext == <<DNeg(EXTV), EXTV>>
      eps == Q(1, 33)
      ys == eps                                       \* unit magnification per unit field: parax = ext
      xs == DNeg(eps)
      f == DAdd(D(1), Q(1, 7))                        \* real = parax * (1 + 1/128)
      px == <<EXTV, DNeg(EXTV), EXTV, DNeg(EXTV)>>    \* -ext[j], row-major
      py == <<DNeg(EXTV), DNeg(EXTV), EXTV, EXTV>>
      rx == [k \in 1..4 |-> DMul(px[k], f)]
      ry == [k \in 1..4 |-> DMul(py[k], f)]
  IN [kind |-> "grid", dtype |-> "f-theta", ftype |-> "angle", n |-> 2, maxf |-> D(0), theta |-> D(0), ext |-> ext,
      t |-> <<D(0), D(0)>>, t0 |-> D(0), heps |-> eps, xs |-> xs, ys |-> ys, rx |-> rx, ry |-> ry, xr |-> rx, yr |-> ry,
      xp |-> px, yp |-> py, md |-> Q(100, 7),
      lenswl |-> <<D(1)>>, prim |-> 1, wlarg |-> Arg("primary", <<>>), nw |-> 1, wi |-> 1, w |-> D(1)]
WitnessGrid ==
  /\ JudgeGrid(WGrid) = {}
  /\ JudgeGrid([WGrid EXCEPT !.md = DAdd(Q(100, 7), Q(1, 12))]) = {"grid_max"}
  /\ JudgeGrid([WGrid EXCEPT !.xp = WGrid.yp]) = {"grid_parax_x"}
  /\ JudgeGrid([WGrid EXCEPT !.md = NaN]) = {"grid_max"}

WOp == [kind |-> "oprms", all |-> TRUE, prim |-> 1, val |-> DZero,
        cells |-> <<[rx |-> X1, ry |-> Y1], [rx |-> X3, ry |-> Y2]>>]
WitnessOp ==
  \* (4*25 + 4*100)/8 = 62.5 is not a square of a dyadic; use one cell: rms 5
  /\ JudgeOpRms([WOp EXCEPT !.all = FALSE, !.cells = <<[rx |-> X1, ry |-> Y1]>>, !.val = D(5)]) = {}
  /\ JudgeOpRms([WOp EXCEPT !.all = FALSE, !.cells = <<[rx |-> X1, ry |-> Y1]>>, !.val = DAdd(D(5), Q(1, 18))]) = {"operand_rms"}
  /\ JudgeOp([val |-> Q(3, 2), rec |-> Q(3, 2)]) = {} /\ JudgeOp([val |-> Q(3, 2), rec |-> DAdd(Q(3, 2), Q(1, 40))]) = {"operand"}

Witnesses == /\ WitnessSpot /\ WitnessEE /\ WitnessFan /\ WitnessDist /\ WitnessCert /\ WitnessFC
             /\ WitnessPupil /\ WitnessGrid /\ WitnessOp /\ InvCounts
ASSUME Witnesses
=============================================================================
