-------------------------- MODULE MC_LensStructure --------------------------
(* Apalache wrapper: an arbitrary state satisfying IndInv as initial state     *)
(* (Gen(2): sets of at most two integers - IndInv allows at most one element). *)
EXTENDS LensStructure, Apalache
IndInit == /\ n = Gen(1) /\ w = Gen(1) /\ stops = Gen(2) /\ prim = Gen(2)
           /\ IndInv
\* negative control: an append that does not clear the other flags - Apalache must find the
\* counterexample to induction (the harness treats "no error" here as a machinery failure)
NextBad == \E st \in BOOLEAN : /\ n' = n + 1 /\ stops' = (IF st THEN stops \cup {n + 1} ELSE stops)
                               /\ UNCHANGED <<w, prim>>
\* ... and an add_wavelength that does not make the first wavelength primary
NextBad2 == \E p \in BOOLEAN : /\ w' = w + 1 /\ prim' = (IF p THEN {w + 1} ELSE prim)
                               /\ UNCHANGED <<n, stops>>
=============================================================================
