------------------------------ MODULE Analyses ------------------------------
(* C12: geometric analyses are faithful functions of the traced rays.        *)
(*                                                                            *)
(* Part 1 - the SAMPLING CONTRACT of each analysis class: which wavelengths   *)
(*   and fields are in use (the lens's own, the primary, or an explicit list  *)
(*   given by the caller), which element of `.data` belongs to which (field,  *)
(*   wavelength), how many pupil samples a distribution has, and which        *)
(*   wavelength is the reference of centroids and fans: the primary           *)
(*   wavelength OF THE LIST IN USE.  Stated over arbitrary values, so that    *)
(*   MC_Analyses instantiates it with small tokens and Trace_Analyses with    *)
(*   the float64 wavelengths / field coordinates of real lenses.              *)
(* Part 2 - every reported number as a polynomial (in)equality over the       *)
(*   recorded rays, in exact dyadic arithmetic, cross-multiplied: no square   *)
(*   root, no division.  tan / radians / 1/R enter as certificates that are   *)
(*   validated polynomially (Taylor polynomials with integer coefficients,    *)
(*   theta*180 = pi*deg, c*R = 1).                                            *)
EXTENDS Vec, FiniteSets

(***************************************************************************)
(* Part 1: sampling contract                                               *)
(***************************************************************************)
\* an argument is [mode |-> "all" | "primary" | "list" | "linspace", list |-> <<...>>, n |-> Nat]
WlInUse(lenswl, prim, arg) ==
  CASE arg.mode = "all"     -> lenswl                    \* documented default: every wavelength of the lens
    [] arg.mode = "primary" -> <<lenswl[prim]>>          \* EncircledEnergy, GridDistortion
    [] arg.mode = "list"    -> arg.list                  \* the caller's list, in the caller's order
\* reference wavelength of centroids / ray fans: the primary wavelength of the list in use.
\* If the lens's primary wavelength is a member of the list, it is the reference; a list
\* that does not contain it has no distinguished member and any member is admissible -
\* but it must be a member: the analysis is defined for every non-empty list.
RefAdm(wl, primval) ==
  LET hit == {r \in 1..Len(wl) : wl[r] = primval}
  IN  IF hit # {} THEN hit ELSE 1..Len(wl)
\* what an implementation does that applies the LENS's primary index to the list in use
\* (documented negative of MC_Analyses; it is what the code under test does)
RefLensIndex(wl, prim) == {prim}
RefContractOK(S, wl, primval) ==
  /\ S # {}
  /\ \A r \in S : r \in 1..Len(wl)
  /\ (\E r \in 1..Len(wl) : wl[r] = primval) => \A r \in S : wl[r] = primval
FieldsInUse(lensfields, arg) ==
  CASE arg.mode = "all"  -> lensfields
    [] arg.mode = "list" -> arg.list
\* .data is ordered field (dim 0), wavelength (dim 1): position of cell (i, j) in the
\* sequence of traces the constructor performs
NumFields(lensfields, arg) == IF arg.mode = "linspace" THEN arg.n ELSE Len(FieldsInUse(lensfields, arg))
\* per-wavelength analyses (Distortion, FieldCurvature; GridDistortion has one wavelength):
\* data[wi] belongs to the wi-th wavelength in use, and there are as many as wavelengths in use
WlCellOK(e) == LET wl == WlInUse(e.lenswl, e.prim, e.wlarg)
               IN e.nw = Len(wl) /\ e.wi \in 1..Len(wl) /\ e.w = wl[e.wi]
CellIndex(i, j, nw) == (i - 1) * nw + j
CellOf(k, nw) == <<((k - 1) \div nw) + 1, ((k - 1) % nw) + 1>>
\* number of pupil samples of a named distribution with argument n
PupilCount(dist, n) ==
  CASE dist = "hexapolar" -> 1 + 3 * n * (n + 1)                     \* n rings of 6, 12, ... points + centre
    [] dist \in {"line_x", "line_y", "positive_line_x", "positive_line_y", "random", "ring"} -> n
    [] dist = "cross" -> 2 * n
    [] dist = "uniform" -> Cardinality({ab \in (0..n-1) \X (0..n-1) :
                                        (2*ab[1] - (n-1))^2 + (2*ab[2] - (n-1))^2 <= (n-1)^2})
OddPoints(n) == IF n % 2 = 0 THEN n + 1 ELSE n     \* fans: "force to be odd so a point lies at P = 0"
\* which parameters an analysis class has (documented signatures)
HasFieldsArg(kind) == kind \in {"SpotDiagram", "EncircledEnergy", "RayFan", "PupilAberration"}
WlDefault(kind) == IF kind \in {"EncircledEnergy", "GridDistortion"} THEN "primary" ELSE "all"
UsesReference(kind) == kind \in {"SpotDiagram", "EncircledEnergy", "RayFan", "RmsSpotSizeVsField"}

(***************************************************************************)
(* Part 2: laws                                                            *)
(***************************************************************************)
RECURSIVE SumTo(_, _)
SumTo(s, n) == IF n = 0 THEN DZero ELSE DAdd(SumTo(s, n - 1), s[n])
Sum(s) == SumTo(s, Len(s))
AbsSeq(s) == [k \in 1..Len(s) |-> DAbs(s[k])]
SumAbs(s) == Sum(AbsSeq(s))
AllFin(s) == \A k \in 1..Len(s) : IsFin(s[k])
SameSeq(a, b, bits) == a = b \/ (Len(a) = Len(b) /\ \A k \in 1..Len(a) : a[k] = b[k] \/ Agree(a[k], b[k], bits))
LenD(s) == DInt(Len(s))
D100 == DInt(100)
PI == [k |-> "fin", s |-> 1, e |-> -48, m |-> <<1443, 10786, 1014, 201>>]     \* the float64 nearest to pi

-----------------------------------------------------------------------------
(* spot: centroid * N = sum x;   rms^2 * N = sum r^2;   geometric radius = max r *)
\* reference sums of one wavelength's rays: [sx, sy, n, scale]
RefOf(x, y) == [sx |-> Sum(x), sy |-> Sum(y), n |-> LenD(x),
                scale |-> DAdd(SumAbs(x), SumAbs(y))]
CentroidOK(c, x) == /\ IsFin(c) /\ AllFin(x)
                    /\ Small(DSub(DMul(c, LenD(x)), Sum(x)), SumAbs(x), 44)
\* Nr^2 r_k^2 about the reference centroid (Sx/Nr, Sy/Nr), exact
R2N(x, y, ref) == DAdd(DSq(DSub(DMul(ref.n, x), ref.sx)), DSq(DSub(DMul(ref.n, y), ref.sy)))
R2Seq(x, y, ref) == [k \in 1..Len(x) |-> R2N(x[k], y[k], ref)]
\* float64 noise of centred coordinates: delta = 2^-50 (sum |coords| of the spot and of the
\* reference); a radius r carries an error 2 r delta + delta^2 <= 2^-30 r^2 + 2^31 delta^2
Delta2(x, y, ref) == DSq(DShift(DAdd(DAdd(SumAbs(x), SumAbs(y)), ref.scale), -50))
Force(s) == SubSeq(s, 1, Len(s))          \* evaluate a sequence once (TLC keeps function constructors lazy)
\* everything the radius clauses need about one spot, computed once:
\* r2[k] = Nr^2 r_k^2, their sum, and the noise floor Nr^2 2^31 delta^2 of one squared radius
SpotCell(x, y, ref) ==
  LET r2 == Force(R2Seq(x, y, ref))
  IN [r2 |-> r2, sum |-> Sum(r2), n |-> LenD(x), d2n |-> DMul(DSq(ref.n), DShift(Delta2(x, y, ref), 31))]
RadTol(a, b, d2n, cnt) == DAdd(DShift(DAdd(DAbs(a), DAbs(b)), -30), DMul(cnt, d2n))
RmsOK(rms, ref, sc) ==
  /\ IsFin(rms) /\ DSign(rms) >= 0
  /\ LET lhs == DMul(DMul(DSq(rms), sc.n), DSq(ref.n))
     IN DLe(DAbs(DSub(lhs, sc.sum)), RadTol(lhs, sc.sum, sc.d2n, sc.n))
GeoOK(g, ref, sc) ==
  /\ IsFin(g) /\ DSign(g) >= 0
  /\ LET lhs == DMul(DSq(g), DSq(ref.n))
     IN /\ \A k \in 1..Len(sc.r2) : DLe(sc.r2[k], DAdd(lhs, RadTol(lhs, sc.r2[k], sc.d2n, DOne)))      \* no ray exceeds it
        /\ \E k \in 1..Len(sc.r2) : DLe(DAbs(DSub(lhs, sc.r2[k])), RadTol(lhs, sc.r2[k], sc.d2n, DOne)) \* and it is attained
RaysFin(c) == AllFin(c.rx) /\ AllFin(c.ry)
CellDataOK(c) == SameSeq(c.ax, c.rx, 46) /\ SameSeq(c.ay, c.ry, 46) /\ SameSeq(c.ai, c.ri, 46)

\* the field label h = <<Hx, Hy>> of the fi-th element of .data
FieldLabelOK(h, lensfields, arg, fi) ==
  IF arg.mode = "linspace"        \* RmsSpotSizeVsField: (0, k/(n-1)), k = 0 .. n-1
  THEN h[1] = DZero /\ Small(DSub(DMul(DInt(arg.n - 1), h[2]), DInt(fi - 1)), DInt(arg.n - 1), 48)
  ELSE fi <= Len(FieldsInUse(lensfields, arg)) /\ h = FieldsInUse(lensfields, arg)[fi]
FieldsOK(e) == /\ e.nf = NumFields(e.lensfields, e.farg)
               /\ FieldLabelOK(e.hfield, e.lensfields, e.farg, e.fi)
\* e: lenswl, prim, wlarg, lensfields, farg, fi (field index), nf, hfield, cells[j] = [h, w, ax, ay, ai, rx, ry, ri, indep],
\*    dist, npar (distribution argument), hascen, cen = <<cx, cy>>, rms[j], geo[j]
JudgeSpot(e) ==
  LET wl == WlInUse(e.lenswl, e.prim, e.wlarg)
      primval == e.lenswl[e.prim]
      adm == RefAdm(wl, primval)
      nw == Len(wl)
      shape == Len(e.cells) = nw
      labels == shape /\ \A j \in 1..nw : e.cells[j].w = wl[j] /\ e.cells[j].h = e.hfield
      count == \A j \in 1..Len(e.cells) : Len(e.cells[j].ax) = PupilCount(e.dist, e.npar)
                                          /\ Len(e.cells[j].ay) = Len(e.cells[j].ax)
                                          /\ Len(e.cells[j].ai) = Len(e.cells[j].ax)
      fin == \A j \in 1..Len(e.cells) : RaysFin(e.cells[j])
      cenof(r) == CentroidOK(e.cen[1], e.cells[r].rx) /\ CentroidOK(e.cen[2], e.cells[r].ry)
      good == {r \in adm : r <= Len(e.cells) /\ cenof(r)}
      other == {r \in 1..Len(e.cells) : cenof(r)}
      \* the radii are judged about the reference the contract names (the one the centroid
      \* matched, if any)
      r0 == IF good # {} THEN CHOOSE r \in good : TRUE
            ELSE IF other # {} THEN CHOOSE r \in other : TRUE
            ELSE CHOOSE r \in adm : TRUE
      ref == RefOf(e.cells[r0].rx, e.cells[r0].ry)
      sc == Force([j \in 1..nw |-> SpotCell(e.cells[j].rx, e.cells[j].ry, ref)])
  IN
  (IF shape /\ FieldsOK(e) THEN {} ELSE {"shape"}) \cup
  (IF ~shape \/ labels THEN {} ELSE {"labels"}) \cup
  (IF count THEN {} ELSE {"pupil_count"}) \cup
  (IF \A j \in 1..Len(e.cells) : ~e.cells[j].indep \/ CellDataOK(e.cells[j]) THEN {} ELSE {"data_rays"}) \cup
  (IF ~e.hascen \/ ~shape THEN {}
   ELSE IF ~fin THEN {"~nonfinite_rays"}
   ELSE (IF good # {} THEN {} ELSE IF other # {} THEN {"reference"} ELSE {"centroid"}) \cup
        (IF Len(e.rms) = nw /\ \A j \in 1..nw : RmsOK(e.rms[j], ref, sc[j])
         THEN {} ELSE {"rms"}) \cup
        (IF Len(e.geo) = nw /\ \A j \in 1..nw : GeoOK(e.geo[j], ref, sc[j])
         THEN {} ELSE {"geo"}))

-----------------------------------------------------------------------------
(* RMS spot size operand over all wavelengths: rms^2 * sum_j N_j = sum_j sum_k r^2 about  *)
(* the primary wavelength's centroid; single wavelength: about its own centroid           *)
JudgeOpRms(e) ==
  LET r0 == IF e.all THEN e.prim ELSE 1
      ref == RefOf(e.cells[r0].rx, e.cells[r0].ry)
      fin == \A j \in 1..Len(e.cells) : RaysFin(e.cells[j])
      sc == Force([j \in 1..Len(e.cells) |-> SpotCell(e.cells[j].rx, e.cells[j].ry, ref)])
      tot == Sum([j \in 1..Len(e.cells) |-> sc[j].sum])
      cnt == Sum([j \in 1..Len(e.cells) |-> sc[j].n])
      lhs == DMul(DMul(DSq(e.val), cnt), DSq(ref.n))
      tol == Sum([j \in 1..Len(e.cells) |-> RadTol(DZero, DZero, sc[j].d2n, sc[j].n)])
  IN IF ~fin THEN {"~nonfinite_rays"}
     ELSE IF IsFin(e.val) /\ DSign(e.val) >= 0
             /\ DLe(DAbs(DSub(lhs, tot)), DAdd(tol, DShift(DAdd(lhs, tot), -30)))
          THEN {} ELSE {"operand_rms"}
\* ray operands: the value is the indexed record of a fresh trace
JudgeOp(e) == IF Agree(e.val, e.rec, 46) THEN {} ELSE {"operand"}

-----------------------------------------------------------------------------
(* encircled energy: EE(r) = sum of the intensities of the rays within r of the centroid: *)
(* non-decreasing in r, sandwiched between the strict and the loose count, and equal to   *)
(* the total transmitted energy at the last radius                                        *)
\* e: x, y, i (the spot), r[], ee[]
JudgeEE(e) ==
  LET n == Len(e.r)
      ref == RefOf(e.x, e.y)
      r2 == Force(R2Seq(e.x, e.y, ref))
      tot == Sum(e.i)
      d2 == DMul(DSq(ref.n), DShift(Delta2(e.x, e.y, ref), 31))
      lim(m) == DMul(DSq(e.r[m]), DSq(ref.n))
      lower(m) == Sum([k \in 1..Len(e.x) |->
                       IF DLt(DAdd(DMul(r2[k], DAdd(DOne, DShift(DOne, -30))), d2), lim(m)) THEN e.i[k] ELSE DZero])
      upper(m) == Sum([k \in 1..Len(e.x) |->
                       IF DLe(r2[k], DAdd(DMul(lim(m), DAdd(DOne, DShift(DOne, -30))), d2)) THEN e.i[k] ELSE DZero])
      slack == DShift(tot, -40)
  IN IF ~(AllFin(e.x) /\ AllFin(e.y) /\ AllFin(e.i)) THEN {"~nonfinite_rays"}
     ELSE IF ~(\A k \in 1..Len(e.i) : DSign(e.i[k]) >= 0) THEN {"ee_negative_intensity"}
     ELSE
     (IF n >= 2 /\ Len(e.ee) = n /\ AllFin(e.r) /\ AllFin(e.ee) /\ e.r[1] = DZero
         /\ \A m \in 1..(n - 1) : DLt(e.r[m], e.r[m + 1]) THEN {} ELSE {"ee_radii"}) \cup
     (IF \A m \in 1..(Len(e.ee) - 1) : DLe(e.ee[m], DAdd(e.ee[m + 1], slack)) THEN {} ELSE {"ee_monotone"}) \cup
     (IF Len(e.ee) >= 1 /\ Small(DSub(e.ee[Len(e.ee)], tot), tot, 40) THEN {} ELSE {"ee_total"}) \cup
     (IF Len(e.ee) = n /\ AllFin(e.r) /\ AllFin(e.ee)
         /\ \A m \in 1..n : DLe(DSub(lower(m), slack), e.ee[m]) /\ DLe(e.ee[m], DAdd(upper(m), slack))
      THEN {} ELSE {"ee_value"})

-----------------------------------------------------------------------------
(* ray fans: value = record - reference record (the chief ray, P = 0, of the reference   *)
(* wavelength at the same field)                                                         *)
\* equally spaced samples: (n-1) v_k = (n-1) lo + k (hi - lo)   (k = 0 .. n-1)
Linspace(v, lo, hi) ==
  LET n == Len(v) IN
  /\ n >= 2 /\ AllFin(v)
  /\ \A k \in 1..n :
       Small(DSub(DMul(DInt(n - 1), v[k]), DAdd(DMul(DInt(n - 1), lo), DMul(DInt(k - 1), DSub(hi, lo)))),
             DMul(DInt(n - 1), DAdd(DAbs(lo), DAbs(hi))), 48)
DiffOK(v, a, b) == IF IsFin(a) /\ IsFin(b) THEN IsFin(v) /\ Small(DSub(v, DSub(a, b)), DAdd(DAbs(a), DAbs(b)), 50)
                   ELSE ~IsFin(v)
FanOK(c, ref, mid) ==
  /\ Len(c.vx) = Len(c.rx) /\ Len(c.vy) = Len(c.ry)
  /\ \A k \in 1..Len(c.vx) : DiffOK(c.vx[k], c.rx[k], ref.rx[mid])
  /\ \A k \in 1..Len(c.vy) : DiffOK(c.vy[k], c.ry[k], ref.ry[mid])
\* e: lenswl, prim, wlarg, hfield, npts (argument), px, py, cells[j] = [h, w, vx, vy, ix, iy, rx, ry, rix, riy]
JudgeFan(e) ==
  LET wl == WlInUse(e.lenswl, e.prim, e.wlarg)
      adm == RefAdm(wl, e.lenswl[e.prim])
      nw == Len(wl)
      n == OddPoints(e.npts)
      mid == (n \div 2) + 1
      shape == Len(e.cells) = nw /\ \A j \in 1..Len(e.cells) : Len(e.cells[j].vx) = n /\ Len(e.cells[j].vy) = n
      labels == shape /\ \A j \in 1..nw : e.cells[j].w = wl[j] /\ e.cells[j].h = e.hfield
      okfor(r) == \A j \in 1..nw : FanOK(e.cells[j], e.cells[r], mid)
      good == {r \in adm : okfor(r)}
      other == {r \in 1..nw : okfor(r)}
  IN
  (IF shape /\ FieldsOK(e) THEN {} ELSE {"shape"}) \cup
  (IF ~shape \/ labels THEN {} ELSE {"labels"}) \cup
  (IF Len(e.px) = n /\ Len(e.py) = n /\ Linspace(e.px, DInt(-1), DOne) /\ Linspace(e.py, DInt(-1), DOne)
      /\ e.px[mid] = DZero /\ e.py[mid] = DZero THEN {} ELSE {"fan_pupil"}) \cup
  (IF ~shape THEN {}
   ELSE (IF good # {} THEN {} ELSE IF other # {} THEN {"reference"} ELSE {"fan_value"}) \cup
        (IF \A j \in 1..nw : SameSeq(e.cells[j].ix, e.cells[j].rix, 46) /\ SameSeq(e.cells[j].iy, e.cells[j].riy, 46)
         THEN {} ELSE {"fan_intensity"}))

-----------------------------------------------------------------------------
(* certificates                                                              *)
\* tan: t cos(a) = sin(a) with the Taylor polynomials of degree 19, multiplied through by 19!
\* (integer coefficients); for |a| <= 1 the truncation error is below 1/20! ~ 4e-19
\* coefficients 19!/(2k+1)! and 19!/(2k)! with alternating signs, k = 0..9 (constants, evaluated once)
RECURSIVE FacRatio(_, _)
FacRatio(m, top) == IF m >= top THEN DOne ELSE DMul(DInt(m + 1), FacRatio(m + 1, top))     \* top! / m!
SinCoef == << FacRatio(1, 19), DNeg(FacRatio(3, 19)), FacRatio(5, 19), DNeg(FacRatio(7, 19)), FacRatio(9, 19),
              DNeg(FacRatio(11, 19)), FacRatio(13, 19), DNeg(FacRatio(15, 19)), FacRatio(17, 19), DNeg(FacRatio(19, 19)) >>
CosCoef == << FacRatio(0, 19), DNeg(FacRatio(2, 19)), FacRatio(4, 19), DNeg(FacRatio(6, 19)), FacRatio(8, 19),
              DNeg(FacRatio(10, 19)), FacRatio(12, 19), DNeg(FacRatio(14, 19)), FacRatio(16, 19), DNeg(FacRatio(18, 19)) >>
RECURSIVE Horner(_, _, _)
Horner(c, u, k) == IF k = Len(c) THEN c[k] ELSE DTrunc(DAdd(c[k], TMul(u, Horner(c, u, k + 1))))
SinP(a) == TMul(a, Horner(SinCoef, DTrunc(DSq(a)), 1))       \* 19! (a - a^3/3! + ... - a^19/19!)
CosP(a) == Horner(CosCoef, DTrunc(DSq(a)), 1)                \* 19! (1 - a^2/2! + ... - a^18/18!)
TanCertOK(t, a) == /\ IsFin(t) /\ IsFin(a)
                   /\ DLe(DAbs(a), DOne) =>
                        LET l == TMul(t, CosP(a))
                            r == SinP(a)
                        IN Small(DSub(l, r), DAdd(DAbs(l), DAbs(r)), 44)
\* theta = radians(deg):  180 theta = pi deg
RadCertOK(theta, deg) == Small(DSub(DMul(DInt(180), theta), DMul(PI, deg)), DMul(PI, deg), 50)
\* c = 1/R (c = 0 for a plane)
CurvCertOK(c, R) == IF IsFin(R) THEN Small(DSub(DMul(c, R), DOne), DOne, 50) ELSE c = DZero

-----------------------------------------------------------------------------
(* distortion = 100 (y_real - y_parax) / y_parax, y_real the chief-ray height on the      *)
(* image surface, y_parax the paraxial image height: the small-field limit y_0 scaled by  *)
(* tan(theta_k)/tan(theta_0) ("f-tan") or theta_k/theta_0 ("f-theta"); for object-height  *)
(* fields the paraxial image height is proportional to the object height (tan of the      *)
(* object-space chief-ray angle is).  Cross-multiplied:                                    *)
(*      D_k y_0 T_k = 100 (y_k T_0 - y_0 T_k)                                            *)
\* e: dtype, ftype, maxf, theta, h[], t[] (tan certificates), yr[] (independent chief rays), d[] (data)
ParaxScale(e) ==        \* the sequence T_k the paraxial height is proportional to
  IF e.ftype = "angle" /\ e.dtype = "f-tan" THEN e.t
  ELSE e.h              \* f-theta: theta_k = H_k theta_max;  object_height & f-tan: h_k = H_k h_max
DistValOK(D, yk, y0, Tk, T0) ==
  LET lhs == DMul(DMul(D, y0), Tk)
      a == DMul(yk, T0)
      b == DMul(y0, Tk)
  IN IsFin(D) /\ DLe(DAbs(DSub(lhs, DMul(D100, DSub(a, b)))),
                     DAdd(DShift(DAbs(lhs), -36), DShift(DMul(D100, DAdd(DAbs(a), DAbs(b))), -44)))
JudgeDist(e) ==
  LET n == Len(e.h)
      T == ParaxScale(e)
      certs == /\ RadCertOK(e.theta, e.maxf)
               /\ Len(e.t) = n
               /\ \A k \in 1..n : TanCertOK(e.t[k], DMul(e.h[k], e.theta))
  IN
  IF e.ftype # "angle" /\ e.dtype = "f-theta" THEN {"~ftheta_object_height_not_decided"}
  ELSE IF ~(AllFin(e.yr) /\ n >= 2 /\ e.yr[1] # DZero) THEN {"~nonfinite_rays"}
  ELSE
  (IF n = e.npts /\ Len(e.d) = n /\ Len(e.yr) = n /\ WlCellOK(e) THEN {} ELSE {"shape"}) \cup
  \* documented samples: equally spaced normalised fields from (almost) 0 to 1
  (IF Linspace(e.h, e.h[1], DOne) /\ DSign(e.h[1]) > 0 /\ DLe(e.h[1], DShift(DOne, -30)) THEN {} ELSE {"dist_fields"}) \cup
  (IF certs THEN {} ELSE {"dist_cert"}) \cup
  (IF Len(e.d) = n /\ Len(e.yr) = n /\ \A k \in 1..n : DistValOK(e.d[k], e.yr[k], e.yr[1], T[k], T[1])
   THEN {} ELSE {"dist_value"})

-----------------------------------------------------------------------------
(* grid distortion: real chief-ray points of an n x n grid of fields and their paraxial  *)
(* images (x_s T_j / T_0, y_s T_i / T_0) with (x_s, y_s) the images of the small fields   *)
(* (eps, 0) and (0, eps); max distortion = max 100 |real - parax| / |parax|               *)
\* e: dtype, ftype, maxf, theta, n, ext[], t[], t0, heps, xs, ys, rx[], ry[] (independent, row-major:
\*    row i <-> Hy = ext[i], column j <-> Hx = ext[j]), xr[], yr[], xp[], yp[], md
JudgeGrid(e) ==
  LET n == e.n
      T == IF e.ftype = "angle" /\ e.dtype = "f-tan" THEN e.t ELSE e.ext
      T0 == IF e.ftype = "angle" /\ e.dtype = "f-tan" THEN e.t0 ELSE e.heps
      idx(i, j) == (i - 1) * n + j
      certs == /\ RadCertOK(e.theta, e.maxf) /\ Len(e.t) = n
               /\ TanCertOK(e.t0, DMul(e.heps, e.theta))
               /\ \A k \in 1..n : TanCertOK(e.t[k], DMul(e.ext[k], e.theta))
      \* paraxial point of cell (i, j), multiplied by T0:  (xs T_j, ys T_i)
      px(i, j) == DMul(e.xs, T[j])
      py(i, j) == DMul(e.ys, T[i])
      pOK(v, q) == IsFin(v) /\ Small(DSub(DMul(v, T0), q), DAdd(DAbs(DMul(v, T0)), DAbs(q)), 40)
      \* T0^2 |parax|^2 and T0^2 |real - parax|^2
      rp2(i, j) == DAdd(DSq(px(i, j)), DSq(py(i, j)))
      dl2(i, j) == DAdd(DSq(DSub(DMul(e.rx[idx(i, j)], T0), px(i, j))), DSq(DSub(DMul(e.ry[idx(i, j)], T0), py(i, j))))
      cells == {ij \in (1..n) \X (1..n) : rp2(ij[1], ij[2]) # DZero}
      l(ij) == DMul(DSq(e.md), rp2(ij[1], ij[2]))
      r(ij) == DMul(DInt(10000), dl2(ij[1], ij[2]))
      \* float noise of a difference of image coordinates: 2^-46 of the coordinates
      tol(ij) == DAdd(DShift(DAdd(l(ij), r(ij)), -24),
                      DMul(DInt(10000), DShift(DMul(DSq(T0), DAdd(DSq(e.rx[idx(ij[1], ij[2])]), DSq(e.ry[idx(ij[1], ij[2])]))), -66)))
  IN
  IF e.ftype # "angle" /\ e.dtype = "f-theta" THEN {"~ftheta_object_height_not_decided"}
  ELSE IF ~(AllFin(e.rx) /\ AllFin(e.ry) /\ IsFin(e.xs) /\ IsFin(e.ys) /\ e.ys # DZero /\ e.xs # DZero) THEN {"~nonfinite_rays"}
  ELSE
  (IF Len(e.xr) = n * n /\ Len(e.yr) = n * n /\ Len(e.xp) = n * n /\ Len(e.yp) = n * n /\ Len(e.ext) = n
      /\ WlCellOK(e) THEN {} ELSE {"shape"}) \cup
  \* documented samples: square grid inscribed in the unit field circle
  (IF Len(e.ext) = n /\ Linspace(e.ext, e.ext[1], DNeg(e.ext[1])) /\ DSign(e.ext[1]) < 0
      /\ Small(DSub(DTwo(DSq(e.ext[1])), DOne), DOne, 48) THEN {} ELSE {"grid_fields"}) \cup
  (IF certs THEN {} ELSE {"dist_cert"}) \cup
  (IF SameSeq(e.xr, e.rx, 46) /\ SameSeq(e.yr, e.ry, 46) THEN {} ELSE {"grid_real"}) \cup
  (IF Len(e.yp) = n * n /\ \A i \in 1..n : \A j \in 1..n : pOK(e.yp[idx(i, j)], py(i, j)) THEN {} ELSE {"grid_parax_y"}) \cup
  (IF Len(e.xp) = n * n /\ \A i \in 1..n : \A j \in 1..n : pOK(e.xp[idx(i, j)], px(i, j)) THEN {} ELSE {"grid_parax_x"}) \cup
  (IF IsFin(e.md) /\ DSign(e.md) >= 0
      /\ (\A ij \in cells : DLe(r(ij), DAdd(l(ij), tol(ij))))
      /\ \E uv \in cells : DLe(DAbs(DSub(l(uv), r(uv))), tol(uv))
   THEN {} ELSE {"grid_max"})

-----------------------------------------------------------------------------
(* pupil aberration = 100 (y_parax - y_real) / d at the stop, d the paraxial stop radius  *)
(* (on axis, primary wavelength), y_parax = P d (paraxial optics is linear in the pupil   *)
(* coordinate); not-a-number exactly where the real ray carries no intensity at the stop  *)
\* e: npts, px[], py[], d, parax[], cells[j] = [h, w, ex, ey, rx, ry, ix, iy]
PupValOK(E, par, real, int, d) ==
  IF int = DZero \/ ~IsFin(real) THEN ~IsFin(E)
  ELSE IsFin(E) /\ LET lhs == DMul(E, d)
                       rhs == DMul(D100, DSub(par, real))
                   IN DLe(DAbs(DSub(lhs, rhs)),
                          DAdd(DShift(DAbs(lhs), -40), DShift(DMul(D100, DAdd(DAbs(par), DAbs(real))), -46)))
JudgePupil(e) ==
  LET wl == WlInUse(e.lenswl, e.prim, e.wlarg)
      nw == Len(wl)
      n == OddPoints(e.npts)
      shape == Len(e.cells) = nw /\ \A j \in 1..Len(e.cells) : Len(e.cells[j].ex) = n /\ Len(e.cells[j].ey) = n
      labels == shape /\ \A j \in 1..nw : e.cells[j].w = wl[j] /\ e.cells[j].h = e.hfield
  IN
  IF ~(IsFin(e.d) /\ e.d # DZero /\ AllFin(e.parax)) THEN {"~paraxial_stop_height_not_finite"}
  ELSE
  (IF shape /\ FieldsOK(e) THEN {} ELSE {"shape"}) \cup
  (IF ~shape \/ labels THEN {} ELSE {"labels"}) \cup
  (IF Len(e.px) = n /\ Len(e.py) = n /\ Linspace(e.px, DInt(-1), DOne) /\ Linspace(e.py, DInt(-1), DOne)
   THEN {} ELSE {"fan_pupil"}) \cup
  (IF Len(e.parax) = n /\ Len(e.py) = n /\ \A k \in 1..n : Small(DSub(e.parax[k], DMul(e.py[k], e.d)), e.d, 40)
   THEN {} ELSE {"pupil_parax"}) \cup
  (IF shape /\ Len(e.parax) = n
      /\ \A j \in 1..nw : \A k \in 1..n :
           /\ PupValOK(e.cells[j].ex[k], e.parax[k], e.cells[j].rx[k], e.cells[j].ix[k], e.d)
           /\ PupValOK(e.cells[j].ey[k], e.parax[k], e.cells[j].ry[k], e.cells[j].iy[k], e.d)
   THEN {} ELSE {"pupil_value"})

-----------------------------------------------------------------------------
(* field curvature.                                                          *)
(* (a) parabasal pair: the reported offset v is the z-distance from ray 1's image-surface *)
(*     point to the point where rays 1 and 2 cross in the meridional (y-z) resp. sagittal *)
(*     (x-z) projection:   v (M1 N2 - N1 M2) = N1 ((z1 - z2) M2 - (y1 - y2) N2)          *)
(* (b) Coddington's equations along the chief ray, with V = 1/t the vergence of the       *)
(*     pencil measured along the ray from the surface point (positive forwards):          *)
(*        n' cos^2 I' V_t' = n cos^2 I V_t + Phi,     n' V_s' = n V_s + Phi,              *)
(*        Phi = c (n' cos I' - n cos I),   transfer over the distance D:  V <- V/(1 - D V) *)
(*     V is carried as a fraction p/q; cos I = d . nhat with nhat = c (C - p) for a sphere *)
(*     of centre C (|C - p| = |R| on the surface) and nhat = z for a plane: no root.      *)
(*     Mirrors need no special case (d' . nhat changes sign).  The recorded direction at  *)
(*     the image surface is the one behind it, so the image surface takes part too.       *)
PairOK(v, a1, z1, A1, N1, a2, z2, A2, N2) ==
  LET den == DSub(DMul(A1, N2), DMul(N1, A2))
      t1 == DMul(z1, A2)
      t2 == DMul(z2, A2)
      t3 == DMul(a1, N2)
      t4 == DMul(a2, N2)
      num == DMul(N1, DSub(DSub(t1, t2), DSub(t3, t4)))
      noise == DShift(DAdd(DMul(DAbs(N1), DAdd(DAdd(DAbs(t1), DAbs(t2)), DAdd(DAbs(t3), DAbs(t4)))),
                           DMul(DAbs(v), DAdd(DAbs(DMul(A1, N2)), DAbs(DMul(N1, A2))))), -46)
  IN IF ~(IsFin(den) /\ IsFin(num)) \/ den = DZero THEN ~IsFin(v)
     ELSE IsFin(v) /\ DLe(DAbs(DSub(DMul(v, den), num)), noise)
\* s: surface [flat, zv, R, c, n1, n2, sph];  P[k], Dr[k] chief-ray point / direction recorded at
\* surface k-1 (k = 1 is the object surface)
CosAt(s, p, d) == IF s.flat THEN d[3]
                  ELSE DMul(s.c, Dot(d, V3Sub(<<DZero, DZero, DAdd(s.zv, s.R)>>, p)))
RECURSIVE Codd(_, _, _, _)
\* state st = [pt, qt, ps, qs] arriving at surface k (2..Len(P)); returns the state behind the last surface
Codd(e, k, st, last) ==
  LET s == e.surf[k]
      ci == CosAt(s, e.P[k], e.Dr[k - 1])
      co == CosAt(s, e.P[k], e.Dr[k])
      phi == DMul(s.c, DSub(DMul(s.n2, co), DMul(s.n1, ci)))
      pt == DTrunc(DAdd(TMul(TMul(s.n1, DSq(ci)), st.pt), TMul(phi, st.qt)))
      qt == TMul(TMul(s.n2, DSq(co)), st.qt)
      ps == DTrunc(DAdd(TMul(s.n1, st.ps), TMul(phi, st.qs)))
      qs == TMul(s.n2, st.qs)
  IN IF k = last THEN [pt |-> pt, qt |-> qt, ps |-> ps, qs |-> qs]
     ELSE LET dd == Dot(V3Sub(e.P[k + 1], e.P[k]), e.Dr[k])
          IN Codd(e, k + 1, [pt |-> pt, qt |-> DTrunc(DSub(qt, TMul(dd, pt))),
                              ps |-> ps, qs |-> DTrunc(DSub(qs, TMul(dd, ps)))], last)
CoddApplicable(e) == \A k \in 2..Len(e.surf) : e.surf[k].sph
CoddValid(e) ==
  /\ \A k \in 1..Len(e.P) : VFin(e.P[k]) /\ VFin(e.Dr[k])
  /\ \A k \in 2..Len(e.surf) : LET s == e.surf[k] IN
       /\ CosAt(s, e.P[k], e.Dr[k - 1]) # DZero /\ CosAt(s, e.P[k], e.Dr[k]) # DZero
       /\ IsFin(s.n1) /\ IsFin(s.n2)
CoddInit(e) ==
  IF e.objinf THEN [pt |-> DZero, qt |-> DOne, ps |-> DZero, qs |-> DOne]
  ELSE LET d0 == Dot(V3Sub(e.P[2], e.P[1]), e.Dr[1])       \* distance object point -> first surface
       IN [pt |-> DInt(-1), qt |-> d0, ps |-> DInt(-1), qs |-> d0]
\* reported offset v against the vergence p/q behind the image surface:  v p = q N  within
\* 2^-20 of (|v| + last distance) - the parabasal pair has a finite separation and its
\* intersection is computed from nearly parallel rays (measured agreement ~1e-8)
FocusOK(v, p, q, Nl, dlast) ==
  IsFin(v) /\ DLe(DAbs(DSub(DMul(v, p), DMul(q, Nl))),
                  DShift(DAdd(DAbs(DMul(q, Nl)), DAbs(DMul(dlast, p))), -20))
JudgeFC(e) ==
  LET last == Len(e.P)
      t == e.tp
      s == e.sp
      pair == (IF PairOK(e.tv, t[1][1], t[1][2], t[1][3], t[1][4], t[2][1], t[2][2], t[2][3], t[2][4]) THEN {} ELSE {"fc_parabasal_t"}) \cup
              (IF PairOK(e.sv, s[1][1], s[1][2], s[1][3], s[1][4], s[2][1], s[2][2], s[2][3], s[2][4]) THEN {} ELSE {"fc_parabasal_s"})
      hk == (IF Small(DSub(DMul(DInt(e.npts - 1), e.h), DInt(e.k)), DInt(e.npts - 1), 48) THEN {} ELSE {"fc_fields"})
  IN pair \cup hk \cup (IF WlCellOK(e) THEN {} ELSE {"shape"}) \cup
  (IF ~CoddApplicable(e) THEN {"~coddington_not_spherical"}
   ELSE IF ~(\A k \in 2..Len(e.surf) : CurvCertOK(e.surf[k].c, e.surf[k].R)) THEN {"fc_cert"}
   ELSE IF ~CoddValid(e) \/ ~IsFin(e.tv) \/ ~IsFin(e.sv) THEN {"~nonfinite_rays"}
   ELSE LET st == Codd(e, 2, CoddInit(e), last)
            Nl == e.Dr[last][3]
            dlast == Dot(V3Sub(e.P[last], e.P[last - 1]), e.Dr[last - 1])
            \* focus further away than 2^16 last distances: afocal pencil, nothing finite is claimed
            far(p, q) == DLe(DShift(DAbs(DMul(dlast, p)), 16), DAbs(q))
        IN (IF far(st.pt, st.qt) THEN {"~afocal"} ELSE IF FocusOK(e.tv, st.pt, st.qt, Nl, dlast) THEN {} ELSE {"coddington_t"}) \cup
           (IF far(st.ps, st.qs) THEN {"~afocal"} ELSE IF FocusOK(e.sv, st.ps, st.qs, Nl, dlast) THEN {} ELSE {"coddington_s"}))

-----------------------------------------------------------------------------
Judge(e) ==
  CASE e.kind = "spot"  -> JudgeSpot(e)
    [] e.kind = "ee"    -> JudgeEE(e)
    [] e.kind = "fan"   -> JudgeFan(e)
    [] e.kind = "dist"  -> JudgeDist(e)
    [] e.kind = "grid"  -> JudgeGrid(e)
    [] e.kind = "pupil" -> JudgePupil(e)
    [] e.kind = "fc"    -> JudgeFC(e)
    [] e.kind = "op"    -> JudgeOp(e)
    [] e.kind = "oprms" -> JudgeOpRms(e)
    [] OTHER -> {"unknown_kind"}
=============================================================================
