SPECIFICATION Spec
CONSTANT Variant = "tie"
INVARIANT Post
CHECK_DEADLOCK FALSE
