--------------------------- MODULE MC_Diffraction ---------------------------
(* TLC checks the law module Diffraction itself, on small exact models:        *)
(*  g4  every 2 x 2 pupil with entries in {0, 1, i, -1, -i, 2, -2i, 1/2} in a  *)
(*      4 x 4 grid, w = -i (exact in dyadic numbers): Parseval, psf <= 100,    *)
(*      Strehl <= 1 with equality exactly for a phase-free pupil, a phase-only *)
(*      change keeps the total energy and cannot raise the centre, the peak of *)
(*      the phase-free pupil sits at index G/2, the position of the pupil in   *)
(*      the padded grid is immaterial, and the Fourier transform of the PSF is *)
(*      the autocorrelation of the pupil (Wiener-Khinchin) - all as exact      *)
(*      equalities that follow from the definition S(a, b);                    *)
(*  g8  4 x 4 pupils (3 masks x 64 quadratic phase patterns) in an 8 x 8 grid  *)
(*      with the nearest-float witness of exp(-2 pi i / 8): the same           *)
(*      consequences within 2^-40;                                             *)
(*  wit events built from the definition are accepted by JudgePsf, and each    *)
(*      single perturbation (a pixel by 2^-20, the Strehl ratio, the           *)
(*      normalisation, a conjugated / non-primitive-first / non-unit root of   *)
(*      unity, a missing fftshift, a negative pixel, a wrong modulus) is       *)
(*      rejected with the clause that must fire; certificate checks: Pi        *)
(*      (exp(i Pi) = -1), arccos(0.6) accepted and a perturbed value rejected, *)
(*      cut-off witnesses for infinite and finite conjugates.                  *)
EXTENDS Diffraction, TLC
CONSTANT Tier          \* "quick": 256 of the 4096 g4 pupils, 6 of the 192 g8 pupils
VARIABLES job, ok

I1 == <<DZero, DOne>>
CNeg(z) == <<DNeg(z[1]), DNeg(z[2])>>
W4 == <<DZero, DNeg(DOne)>>
W8 == <<[k |-> "fin", s |-> 1, e |-> -53, m |-> <<15309, 6652, 2534, 1448>>],
        [k |-> "fin", s |-> -1, e |-> -51, m |-> <<3827, 9855, 633, 362>>]>>
Ent == <<C0, C1, I1, CNeg(C1), CNeg(I1), <<DInt(2), DZero>>, <<DZero, DInt(-2)>>, <<DShift(DOne, -1), DZero>>>>
Mod == <<DZero, DOne, DOne, DOne, DOne, DInt(2), DInt(2), DShift(DOne, -1)>>
\* unit direction of an entry (index into Ent): 0 none, 1: 1, 2: i, 3: -1, 4: -i
Dir == <<0, 1, 2, 3, 4, 1, 4, 1>>

\* --- helpers over a pupil given as a matrix of complex pairs -------------------
\* |S(a, b)|^2 for every pixel, as rows (built as explicit tuples: TLC re-evaluates the body of a
\* function constructor at every application)
RECURSIVE MkRow(_, _, _, _, _)
MkRow(P, tab, G, a, b) == IF b = 0 THEN <<>> ELSE Append(MkRow(P, tab, G, a, b - 1), Spec2(P, tab, G, a - 1, b - 1))
RECURSIVE MkImg(_, _, _, _)
MkImg(P, tab, G, a) == IF a = 0 THEN <<>> ELSE Append(MkImg(P, tab, G, a - 1), MkRow(P, tab, G, a, G))
Img2(P, w, G) == MkImg(P, PowTab(w, G), G, G)
RECURSIVE SeqMin(_, _)
SeqMin(s, n) == IF n = 1 THEN s[1] ELSE LET r == SeqMin(s, n - 1) IN IF FLe(s[n], r) THEN s[n] ELSE r
RECURSIVE SeqMax(_, _)
SeqMax(s, n) == IF n = 1 THEN s[1] ELSE LET r == SeqMax(s, n - 1) IN IF FLe(r, s[n]) THEN s[n] ELSE r
Flatten(img) == [i \in 1..(Len(img) * Len(img)) |-> img[((i - 1) \div Len(img)) + 1][((i - 1) % Len(img)) + 1]]
AsC(M) == [j \in 1..Len(M) |-> [k \in 1..Len(M[j]) |-> <<M[j][k], DZero>>]]
EqTol(a, b, scale, bits) == IF bits = 0 THEN DEq(a, b) ELSE FSmall1(FSub(a, b), scale, bits)
\* FT of the image at row-frequency k:  sum_ab img[a][b] w^((a - G/2) k)
RECURSIVE FTRows(_, _, _, _, _)
FTRows(img, tab, G, k, a) ==
  IF a = 0 THEN C0 ELSE
  LET t == tab[((Freq(a - 1, G) * k) % G) + 1]
      r == FTrunc(ImgRowSum(img[a], G))
  IN  CAdd(FTRows(img, tab, G, k, a - 1), <<FMul(r, t[1]), FMul(r, t[2])>>)

Consequences(P, M, w, G, bits) ==
  LET N == Len(P)
      img == Img2(P, w, G)
      img0 == Img2(AsC(M), w, G)
      E == SumAbs2(P)
      M1 == SumReal(M)
      Nrm == FMul(M1, M1)
      c == G \div 2 + 1
      tot == ImgSum(img, G)
      tot0 == ImgSum(img0, G)
      G2E == FMul(DInt(G * G), E)
      tab == PowTab(w, G)
      \* the pupil moved by one row and one column inside the grid
      Pshift == [j \in 1..(N + 1) |-> [k \in 1..(N + 1) |-> IF j = 1 \/ k = 1 THEN C0 ELSE P[j - 1][k - 1]]]
      imgs == Img2(Pshift, w, G)
  IN
  [parseval |-> EqTol(tot, G2E, G2E, bits),
   le100 |-> \A a \in 1..G : \A b \in 1..G : FLe(img[a][b], FAdd(Nrm, DShift(Nrm, -40))),
   strehl |-> FLe(img[c][c], FAdd(Nrm, DShift(Nrm, -40))),
   centre |-> EqTol(img[c][c], CAbs2(CSumP(P, N)), Nrm, bits),
   energy |-> EqTol(tot, tot0, G2E, bits),
   lower |-> FLe(img[c][c], FAdd(img0[c][c], DShift(Nrm, -40))),
   peak0 |-> /\ EqTol(img0[c][c], Nrm, Nrm, bits)
             /\ \A a \in 1..G : \A b \in 1..G : FLe(img0[a][b], FAdd(img0[c][c], DShift(Nrm, -40))),
   pad |-> \A a \in 1..G : \A b \in 1..G : EqTol(imgs[a][b], img[a][b], Nrm, bits),
   wk |-> \A k \in 0..(IF 2 * N <= G THEN N - 1 ELSE 0) :
            EqTol(CAbs2(FTRows(img, tab, G, k, G)),
                  FMul(DInt(G * G), FMul(DInt(G * G), FTrunc(CAbs2(ACTan(P, k, N - k))))),
                  FMul(G2E, G2E), bits)]

\* --- model g4 -------------------------------------------------------------------
P4(ix) == <<<<Ent[ix[1]], Ent[ix[2]]>>, <<Ent[ix[3]], Ent[ix[4]]>>>>
M4(ix) == <<<<Mod[ix[1]], Mod[ix[2]]>>, <<Mod[ix[3]], Mod[ix[4]]>>>>
SamePhase(ix) == \A i \in 1..4 : \A j \in 1..4 : (Dir[ix[i]] # 0 /\ Dir[ix[j]] # 0) => Dir[ix[i]] = Dir[ix[j]]
CheckG4(ix) ==
  LET P == P4(ix)
      M == M4(ix)
      r == Consequences(P, M, W4, 4, 0)
      M1 == SumReal(M)
      flat == DEq(CAbs2(CSumP(P, 2)), FMul(M1, M1))
  IN  [r EXCEPT !.strehl = r.strehl /\ ModOK(P, M, 2) /\ (flat <=> SamePhase(ix))]

\* --- model g8 -------------------------------------------------------------------
Mask8 == <<  <<<<1, 1, 1, 1>>, <<1, 1, 1, 1>>, <<1, 1, 1, 1>>, <<1, 1, 1, 1>>>>,
             <<<<0, 1, 1, 0>>, <<1, 1, 1, 1>>, <<1, 1, 1, 1>>, <<0, 1, 1, 0>>>>,
             <<<<1, 1, 1, 1>>, <<1, 0, 0, 1>>, <<1, 0, 0, 1>>, <<1, 1, 1, 1>>>> >>
Unit4 == <<C1, I1, CNeg(C1), CNeg(I1)>>
P8(mk, al, be, ga) == [j \in 1..4 |-> [k \in 1..4 |->
                         IF Mask8[mk][j][k] = 0 THEN C0 ELSE Unit4[((al * j + be * k + ga * j * k) % 4) + 1]]]
M8(mk) == [j \in 1..4 |-> [k \in 1..4 |-> DInt(Mask8[mk][j][k])]]
CheckG8(mk, al, be, ga) == Consequences(P8(mk, al, be, ga), M8(mk), W8, 8, 40)

\* --- witnesses ------------------------------------------------------------------
\* an event from the definition: n non-zero unit entries, n a power of two, so psf = 100 |S|^2 / n^2 is dyadic
Event(P, M, w, N, G, lgn) ==
  LET i2 == Img2(P, w, G)
      img == [a \in 1..G |-> [b \in 1..G |-> DShift(FMul(Hundred, i2[a][b]), -2 * lgn)]]
      flatimg == Flatten(img)
      c == G \div 2
  IN  [kind |-> "psf", N |-> N, G |-> G, w |-> w, P |-> P, M |-> M, rows |-> G, cols |-> G, img |-> img,
       sum |-> ImgSum(img, G), min |-> SeqMin(flatimg, G * G), max |-> SeqMax(flatimg, G * G),
       pix |-> <<<<c, c, img[c + 1][c + 1]>>, <<1, 2, img[2][3]>>, <<c + 1, c - 1, img[c + 2][c]>>>>,
       all |-> TRUE, centre |-> img[c + 1][c + 1], strehl |-> DShift(i2[c + 1][c + 1], -2 * lgn),
       norm |-> DInt((2 ^ lgn) * (2 ^ lgn))]
Up(v) == FAdd(v, DShift(v, -20))                         \* v (1 + 2^-20)
WP4 == <<<<C1, I1>>, <<CNeg(I1), C1>>>>                    \* aberrated 2 x 2 pupil
WM4 == <<<<DOne, DOne>>, <<DOne, DOne>>>>
WP8 == LET u == Unit4 IN                                  \* an unstructured 4 x 4 pupil of unit entries
       <<<<u[2], u[2], u[3], u[4]>>, <<u[1], u[1], u[4], u[3]>>, <<u[2], u[2], u[4], u[4]>>, <<u[4], u[2], u[2], u[2]>>>>
Wit4 == Event(WP4, WM4, W4, 2, 4, 2)
Wit8 == Event(WP8, M8(1), W8, 4, 8, 4)
Flat8 == Event(AsC(M8(1)), M8(1), W8, 4, 8, 4)
Perturb(ev, G) ==
  LET c == G \div 2
      w3 == CMulT(ev.w, CMulT(ev.w, ev.w))
  IN
  << <<[ev EXCEPT !.pix[2][3] = Up(@), !.img[2][3] = Up(@)], "pixel">>,
     <<[ev EXCEPT !.strehl = Up(@)], "strehl_is_centre">>,
     <<[ev EXCEPT !.strehl = Up(@), !.centre = Up(@), !.pix[1][3] = Up(@), !.img[c + 1][c + 1] = Up(@)], "strehl">>,
     <<[ev EXCEPT !.w = CConj(@)], "cert:root">>,
     <<[ev EXCEPT !.w = w3], "cert:root">>,
     <<[ev EXCEPT !.w = <<Up(@[1]), Up(@[2])>>], "cert:root">>,
     <<[ev EXCEPT !.norm = Up(@)], "norm">>,
     <<[ev EXCEPT !.img = [a \in 1..G |-> [b \in 1..G |-> Up(ev.img[a][b])]],
                  !.pix = [i \in 1..Len(ev.pix) |-> <<ev.pix[i][1], ev.pix[i][2], Up(ev.pix[i][3])>>],
                  !.centre = Up(@), !.strehl = Up(@)], "parseval">>,
     \* image without the fftshift
     <<[ev EXCEPT !.img = [a \in 1..G |-> [b \in 1..G |-> ev.img[((a - 1 + c) % G) + 1][((b - 1 + c) % G) + 1]]],
                  !.pix = <<<<1, 2, ev.img[((1 + c) % G) + 1][((2 + c) % G) + 1]>>, <<0, 0, ev.img[c + 1][c + 1]>>,
                           <<c, c - 1, ev.img[1][G]>>>>,
                  !.centre = ev.img[1][1]], "pixel">>,
     <<[ev EXCEPT !.min = DNeg(DOne)], "nonneg">>,
     <<[ev EXCEPT !.img[G][1] = FAdd(@, DShift(DOne, -12))], "pixel_all">>,
     <<[ev EXCEPT !.M[1][2] = Up(@)], "cert:modulus">>,
     <<[ev EXCEPT !.rows = G - 1], "shape">>,
     <<[ev EXCEPT !.strehl = FAdd(DOne, DShift(DOne, -20))], "strehl_le_1">> >>
CheckWit(i) ==
  LET ev == IF i = 1 THEN Wit4 ELSE Wit8
      G == ev.G
      pt == Perturb(ev, G)
      acos == [th |-> [k |-> "fin", s |-> 1, e |-> -49, m |-> <<7093, 344, 11367, 118>>], h |-> 3,
               c |-> [k |-> "fin", s |-> 1, e |-> -53, m |-> <<12481, 13434, 4216, 2034>>],
               s |-> [k |-> "fin", s |-> 1, e |-> -56, m |-> <<10783, 13252, 13940, 1894>>]]
      r06 == [k |-> "fin", s |-> 1, e |-> -53, m |-> <<13107, 3276, 13107, 1228>>]
      s08 == [k |-> "fin", s |-> 1, e |-> -52, m |-> <<3277, 13107, 3276, 819>>]
      pic == [th |-> Pi, h |-> 4, c |-> [k |-> "fin", s |-> 1, e |-> -49, m |-> <<13771, 13309, 8855, 125>>],
              s |-> [k |-> "fin", s |-> 1, e |-> -54, m |-> <<4869, 14547, 1473, 799>>]]
      qinf == [lam |-> DShift(DOne, -1), F |-> DInt(4), finite |-> FALSE, nu |-> DShift(DOne, -3)]
      qfin == [lam |-> DShift(DOne, -1), F |-> DInt(4), finite |-> TRUE, nu |-> DShift(DOne, -4)]
  IN
  [accept |-> JudgePsf(ev) \subseteq {"~flat"} /\ "~flat" \notin JudgePsf(ev)
              /\ JudgePsf(Flat8) = {"~flat"},
   reject |-> \A j \in 1..Len(pt) : pt[j][2] \in JudgePsf(pt[j][1]),
   pi |-> AngleOK(pic) /\ CNear(Phasor(pic), <<DNeg(DOne), DZero>>, 44),
   arccos |-> /\ ArccosOK(r06, s08, acos)
              /\ ~ArccosOK(r06, s08, [acos EXCEPT !.th = FAdd(@, DShift(@, -30))])
              /\ ~ArccosOK(r06, s08, [acos EXCEPT !.c = FAdd(@, DShift(@, -30))])
              /\ ~ArccosOK(s08, r06, acos),
   cut |-> /\ IsCut(DInt(500), DOne, qinf, 40) /\ ~IsCut(DInt(505), DOne, qinf, 40)
           /\ IsCut(DInt(250), DOne, qfin, 40) /\ ~IsCut(DInt(500), DOne, qfin, 40)
           /\ IsCut(DInt(125), DShift(DOne, -1), qfin, 40),
   masks |-> /\ Mask("psf", {"shape", "~flat"}) = 2 ^ 4 + 2 ^ 16
             /\ Mask("psf", {"no such clause"}) = 2 ^ 30
             /\ \A kind \in {"psf", "fftmtf", "geomtf"} : Len(ClausesOf(kind)) <= 30]

\* --- the state machine: one step per job so that TLC's workers share the work -------
AllTrue == [parseval |-> TRUE, le100 |-> TRUE, strehl |-> TRUE, centre |-> TRUE, energy |-> TRUE, lower |-> TRUE,
            peak0 |-> TRUE, pad |-> TRUE, wk |-> TRUE,
            accept |-> TRUE, reject |-> TRUE, pi |-> TRUE, arccos |-> TRUE, cut |-> TRUE, masks |-> TRUE]
Jobs == {<<"g4", ix>> : ix \in [1..4 -> (IF Tier = "quick" THEN {1, 2, 3, 6} ELSE 1..8)]} \cup
        (IF Tier = "quick"
         THEN {<<"g8", <<mk, al, be, ga>>>> : mk \in 1..3, al \in {1}, be \in {2}, ga \in {0, 1}}
         ELSE {<<"g8", <<mk, al, be, ga>>>> : mk \in 1..3, al \in 0..3, be \in 0..3, ga \in 0..3}) \cup
        {<<"wit", <<i>>>> : i \in 1..2}
Run(j) == IF j[1] = "g4" THEN CheckG4(j[2])
          ELSE IF j[1] = "g8" THEN CheckG8(j[2][1], j[2][2], j[2][3], j[2][4])
          ELSE CheckWit(j[2][1])
Merge(r) == [f \in DOMAIN AllTrue |-> IF f \in DOMAIN r THEN r[f] ELSE TRUE]
Init == job \in Jobs /\ ok = <<>>
Next == ok = <<>> /\ ok' = Merge(Run(job)) /\ UNCHANGED job
Spec == Init /\ [][Next]_<<job, ok>>
Holds(f) == ok # <<>> => ok[f]
Parseval == Holds("parseval")
PsfLe100 == Holds("le100")
StrehlLe1 == Holds("strehl")
CentreIsSumP == Holds("centre")
EnergyPhaseFree == Holds("energy")
PhaseLowersCentre == Holds("lower")
PeakAtCentre == Holds("peak0")
PadImmaterial == Holds("pad")
WienerKhinchin == Holds("wk")
WitnessAccepted == Holds("accept")
PerturbedRejected == Holds("reject")
PiOK == Holds("pi")
ArccosCert == Holds("arccos")
CutOff == Holds("cut")
MasksOK == Holds("masks")
=============================================================================
