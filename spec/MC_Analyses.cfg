SPECIFICATION Spec
CONSTANT RefRule = "list"
INVARIANT InvIndex
INVARIANT InvDone
INVARIANT InvLists
INVARIANT InvRef
CHECK_DEADLOCK FALSE
