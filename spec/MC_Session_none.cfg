SPECIFICATION Spec
CONSTANTS
  Presc <- MCPresc
  Calls <- MCCalls
  Lib <- MCLib
  Hazard = "none"
  Depth = 6
CONSTRAINT LevelBound
INVARIANT Clean
INVARIANT Functional
CHECK_DEADLOCK FALSE
