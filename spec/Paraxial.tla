------------------------------ MODULE Paraxial ------------------------------
(* Paraxial (first-order) optics of an axially symmetric lens, stated from    *)
(* the textbook and not from the code (C04).                                   *)
(*                                                                            *)
(* The module is written against an arithmetic interface and instantiated      *)
(* twice: with exact small rationals (MC_Paraxial: exhaustive grid, Div is     *)
(* exact, Near is equality) and with exact dyadic numbers (Trace_Paraxial:     *)
(* the implementation's own float64 results, no division, Near is a relative   *)
(* tolerance).                                                                 *)
(*                                                                            *)
(* Part 1 (uses Div): matrix optics.  Refraction and transfer matrices on      *)
(*   (y, n u), mirrors as n' = -n, the system matrix, and from it every        *)
(*   accessor and the marginal / chief rays.  This is the ABCD oracle whose    *)
(*   values TLC computes on the grid and the harness replays into the code.    *)
(* Part 2 (no Div): the same optics as *relations* between a lens, rays given  *)
(*   as per-surface arrays, and accessor values; every relation is cross-      *)
(*   multiplied.  This judges the arrays and numbers the implementation        *)
(*   returns.  MC_Paraxial checks that Part 1 satisfies Part 2 on the grid, so *)
(*   the law text that judges the code is itself model-checked.                *)
(*                                                                            *)
(* A lens L:                                                                  *)
(*   K      index of the image surface.  The image surface is a surface like  *)
(*          any other (the library builds it as one): if the medium behind it  *)
(*          differs from the medium in front of it, it refracts, and "image     *)
(*          space" is the medium behind it.  Usually it is a plane inside one   *)
(*          medium and changes nothing.                                        *)
(*   R[k]   k = 1..K: [pl |-> plane?, v |-> radius (ignored if plane),           *)
(*           a2 |-> coefficient of r^2 of an additive aspheric sag term]       *)
(*          vertex curvature = 1/v + 2 a2                                      *)
(*   na[k+1] |index| of the space behind surface k, k = 0..K (0: object space)   *)
(*   mir[k] surface k is a mirror (the index changes sign behind it)           *)
(*   z[k]   vertex position of surface k, k = 1..K                             *)
(*   s      index of the aperture stop                                         *)
(*   obj    [inf, z]  object at infinity / axial position of the object        *)
(*   ap     [t, v, tn]  aperture type "EPD" | "imageFNO" | "objectNA", value,  *)
(*          tn = tan(arcsin(NA / n0)) (certificate, validated polynomially)    *)
(*   fld    [t, v]  "angle": v = tan(max field angle) (certificate);           *)
(*          "object_height": v = max object height                             *)
(* A ray r = [y, u]: sequences indexed 0..K (At(r.y, k)); y_k is the height at *)
(* surface k, u_k the slope dy/dz behind surface k; index 0 is the launch      *)
(* record.                                                                     *)
EXTENDS Integers, Sequences
CONSTANTS Add(_, _), Sub(_, _), Mul(_, _), Div(_, _), Neg(_), Abs(_), I(_),
          Num(_),            \* a finite, defined number
          Near(_, _, _),     \* Near(a, b, t): a = b, up to rounding relative to |t[1]| + ... + |t[n]|
          Tiny(_, _),        \* Tiny(a, t): a is zero (numerically: negligible against |t[1]| + ...)
          Pos(_)             \* a > 0
Zero == I(0)
One == I(1)
Two == I(2)
At(s, k) == s[k + 1]
Sq(a) == Mul(a, a)

\* signed index of space k: the sign flips behind every mirror
RECURSIVE Parity(_, _)
Parity(L, k) == IF k = 0 THEN 1 ELSE (IF L.mir[k] THEN -1 ELSE 1) * Parity(L, k - 1)
N(L, k) == IF Parity(L, k) = 1 THEN L.na[k + 1] ELSE Neg(L.na[k + 1])
T(L, k) == Sub(L.z[k + 1], L.z[k])            \* vertex separation behind surface k

---------------------------------------------------------------------------
(* Part 1: matrix optics (exact back-end only)                                *)
Curv(L, k) == LET S == L.R[k] IN Add(IF S.pl THEN Zero ELSE Div(One, S.v), Mul(Two, S.a2))
Phi(L, k) == Mul(Sub(N(L, k), N(L, k - 1)), Curv(L, k))          \* surface power
MMul(X, Y) == <<Add(Mul(X[1], Y[1]), Mul(X[2], Y[3])), Add(Mul(X[1], Y[2]), Mul(X[2], Y[4])),
                Add(Mul(X[3], Y[1]), Mul(X[4], Y[3])), Add(Mul(X[3], Y[2]), Mul(X[4], Y[4]))>>
Id2 == <<One, Zero, Zero, One>>
Det(X) == Sub(Mul(X[1], X[4]), Mul(X[2], X[3]))
\* on (y, n u)
RefM(L, k) == <<One, Zero, Neg(Phi(L, k)), One>>
TrM(L, k) == <<One, Div(T(L, k), N(L, k)), Zero, One>>
RECURSIVE Sys(_, _, _)    \* from just in front of surface a to just in front of surface b
Sys(L, a, b) == IF a >= b THEN Id2 ELSE MMul(Sys(L, a + 1, b), MMul(TrM(L, a), RefM(L, a)))
\* on (y, u)
RefU(L, k) == <<One, Zero, Neg(Div(Phi(L, k), N(L, k))), Div(N(L, k - 1), N(L, k))>>
TrU(L, k) == <<One, T(L, k), Zero, One>>
RECURSIVE SysU(_, _, _)
SysU(L, a, b) == IF a >= b THEN Id2 ELSE MMul(SysU(L, a + 1, b), MMul(TrU(L, a), RefU(L, a)))

\* ray trace: y at surface k, slope uin arriving -> <<y_k, u_k>> for k..K
RECURSIVE Tr(_, _, _, _)
Tr(L, k, y, uin) ==
  LET uo == Div(Sub(Mul(N(L, k - 1), uin), Mul(y, Phi(L, k))), N(L, k))
  IN IF k = L.K THEN << <<y, uo>> >>
     ELSE << <<y, uo>> >> \o Tr(L, k + 1, Add(y, Mul(T(L, k), uo)), uo)
RayOf(L, y0, y1, u0) ==
  LET s == Tr(L, 1, y1, u0)
  IN [y |-> <<y0>> \o [i \in 1..L.K |-> s[i][1]], u |-> <<u0>> \o [i \in 1..L.K |-> s[i][2]]]

Model(L) ==
  LET K == L.K
      M == MMul(RefM(L, K), Sys(L, 1, K))        \* in front of surface 1 .. behind surface K
      n0 == N(L, 0)
      nK == N(L, K)
      z1 == L.z[1]
      zo == L.obj.z
      f2 == Neg(Div(nK, M[3]))
      F2 == Neg(Div(Mul(M[1], nK), M[3]))
      f1 == Div(n0, M[3])
      F1 == Add(z1, Div(Mul(M[4], n0), M[3]))
      Mf == Sys(L, 1, L.s)                       \* front group: surface 1 .. stop plane
      Mr == MMul(RefM(L, K), Sys(L, L.s, K))     \* stop .. behind surface K
      EPL == Add(z1, Div(Mul(n0, Mf[2]), Mf[1]))
      XPL == Neg(Div(Mul(Mr[2], nK), Mr[4]))
      EPD == CASE L.ap.t = "EPD" -> L.ap.v
               [] L.ap.t = "imageFNO" -> Div(Abs(f2), L.ap.v)
               [] L.ap.t = "objectNA" -> Mul(Two, Mul(Sub(EPL, zo), L.ap.tn))
      FNO == IF L.ap.t = "imageFNO" THEN L.ap.v ELSE Div(Abs(f2), EPD)
      mu0 == IF L.obj.inf THEN Zero ELSE Div(EPD, Mul(Two, Sub(EPL, zo)))
      my1 == IF L.obj.inf THEN Div(EPD, Two) ELSE Mul(Sub(z1, zo), mu0)
      my0 == IF L.obj.inf THEN my1 ELSE Zero
      ma == RayOf(L, my0, my1, mu0)
      cu0 == IF L.fld.t = "angle" THEN L.fld.v ELSE Div(L.fld.v, Sub(EPL, zo))
      cy1 == Neg(Mul(Sub(EPL, z1), cu0))
      ch == RayOf(L, cy1, cy1, cu0)
      pu == Div(One, I(10))
      py1 == Neg(Mul(Sub(EPL, z1), pu))
  IN [M |-> M,
      acc |-> [f1 |-> f1, f2 |-> f2, F1 |-> F1, F2 |-> F2,
               P1 |-> Sub(F1, f1), P2 |-> Sub(F2, f2),
               N1 |-> Add(F1, f2), N2 |-> Add(F2, f1),       \* = P + f1 + f2
               EPL |-> EPL, EPD |-> EPD, XPL |-> XPL,
               XPD |-> Mul(Two, Add(At(ma.y, K), Mul(At(ma.u, K), XPL))),
               FNO |-> FNO,
               mag |-> Div(Mul(n0, mu0), Mul(nK, At(ma.u, K))),
               inv |-> Mul(n0, Sub(Mul(cy1, mu0), Mul(my1, cu0)))],
      ma |-> ma, ch |-> ch,
      A |-> RayOf(L, One, One, Zero),                         \* parallel in object space
      B |-> RayOf(L, M[4], M[4], Neg(Div(M[3], n0))),         \* parallel in image space, y_K = 1
      P |-> RayOf(L, py1, py1, pu),                           \* through the centre of the entrance pupil
      Lc |-> RayOf(L, Add(my0, Mul(Two, cy1)), Add(my1, Mul(Two, cy1)), Add(mu0, Mul(Two, cu0)))]

---------------------------------------------------------------------------
(* Part 2: relations (both back-ends).  Failing clauses are returned as a set  *)
(* of <<name, k>> (k = surface index, 0 if the clause is not per surface);     *)
(* names starting with "skip_" mark degenerate inputs on which a clause makes   *)
(* no claim.                                                                  *)
RayFinite(L, r) == /\ Len(r.y) = L.K + 1 /\ Len(r.u) = L.K + 1
                   /\ \A i \in 1..(L.K + 1) : Num(r.y[i]) /\ Num(r.u[i])
\* n' u' - n u = -y (n' - n) (1/R + 2 a2), multiplied by R for a curved surface
RefrOK(L, r, k) ==
  LET y == At(r.y, k)
      S == L.R[k]
      a == Mul(N(L, k), At(r.u, k))
      b == Mul(N(L, k - 1), At(r.u, k - 1))
      c == Mul(y, Sub(N(L, k), N(L, k - 1)))
  IN IF S.pl THEN LET rhs == Neg(Mul(c, Mul(Two, S.a2)))
                  IN Near(Sub(a, b), rhs, <<a, b, rhs>>)
     ELSE LET ra == Mul(S.v, a)
              rb == Mul(S.v, b)
              rhs == Neg(Mul(c, Add(One, Mul(Two, Mul(S.a2, S.v)))))
          IN Near(Sub(ra, rb), rhs, <<ra, rb, rhs>>)
\* y_{k+1} = y_k + t_k u_k
TransOK(L, r, k) == LET y1 == At(r.y, k)
                        y2 == At(r.y, k + 1)
                        d == Mul(T(L, k), At(r.u, k))
                    IN Near(y2, Add(y1, d), <<y1, y2, d>>)
RayLaws(L, r, nm) ==
  IF ~RayFinite(L, r) THEN {<<nm[1], 0>>}
  ELSE {<<nm[2], k>> : k \in {j \in 1..(L.K - 1) : ~TransOK(L, r, j)}}
       \cup {<<nm[3], k>> : k \in {j \in 1..L.K : ~RefrOK(L, r, j)}}
Fails(ok, name) == IF ok THEN {} ELSE {<<name, 0>>}
Near2(a, b) == Near(a, b, <<a, b>>)
Exactly(a, b) == Near(a, b, <<>>)           \* no rounding allowed

\* the two products of the Lagrange invariant n (ybar u - y ubar) behind surface k
LagT(L, ma, ch, k) == <<Mul(N(L, k), Mul(At(ch.y, k), At(ma.u, k))), Mul(N(L, k), Mul(At(ma.y, k), At(ch.u, k)))>>

Judge(L, X) ==
  LET K == L.K
      a == X.acc
      n0 == N(L, 0)
      nK == N(L, K)
      z1 == L.z[1]
      zo == L.obj.z
      rA == X.A
      rB == X.B
      rP == X.P
      ma == X.ma
      ch == X.ch
      lawA == RayLaws(L, rA, <<"auxA_finite", "auxA_transfer", "auxA_refract">>)
      lawB == RayLaws(L, rB, <<"auxB_finite", "auxB_transfer", "auxB_refract">>)
      okA == RayFinite(L, rA) /\ Exactly(At(rA.u, 0), Zero) /\ ~Tiny(At(rA.y, 1), <<One>>)
      okB == RayFinite(L, rB) /\ Exactly(At(rB.u, K - 1), Zero) /\ ~Tiny(At(rB.y, K), <<One>>)
      uAK == At(rA.u, K)
      yA1 == At(rA.y, 1)
      yAK == At(rA.y, K)
      vB0 == At(rB.u, 0)
      yB1 == At(rB.y, 1)
      yBK == At(rB.y, K)
      afocal == ~okA \/ ~okB \/ Tiny(uAK, rA.u) \/ Tiny(vB0, rB.u)
      \* stop centre imaged to infinity (object / image side)
      epInf == okA /\ Tiny(At(rA.y, L.s), rA.y)
      xpInf == okB /\ Tiny(At(rB.y, L.s), rB.y)
      \* inputs on which the marginal / chief ray is not defined (no entrance pupil diameter or position)
      margUndef == (L.ap.t = "imageFNO" /\ afocal) \/ (epInf /\ (~L.obj.inf \/ L.ap.t = "objectNA"))
      chiefUndef == epInf
      lawM == IF margUndef THEN {<<"skip_marginal_undefined", 0>>}
              ELSE RayLaws(L, ma, <<"marginal_finite", "marginal_transfer", "marginal_refract">>)
      lawC == IF chiefUndef THEN {<<"skip_chief_undefined", 0>>}
              ELSE RayLaws(L, ch, <<"chief_finite", "chief_transfer", "chief_refract">>)
      okM == ~margUndef /\ RayFinite(L, ma)
      okC == ~chiefUndef /\ RayFinite(L, ch)
      cardinal ==
        IF afocal THEN {<<"skip_afocal", 0>>}
        ELSE LET f2u == Mul(a.f2, uAK)
                 P2u == Mul(a.P2, uAK)
                 P1v == Mul(Sub(a.P1, z1), vB0)
                 w == Mul(uAK, vB0)
                 N1w == Mul(Sub(a.N1, z1), w)
                 N2w == Mul(a.N2, w)
                 p1 == Mul(yB1, uAK)
                 p2 == Mul(yA1, vB0)
                 q1 == Mul(yAK, vB0)
                 q2 == Mul(yBK, uAK)
             IN Fails(Near2(f2u, Neg(yA1)), "f2")
                \cup Fails(Near2(Sq(f2u), Sq(yA1)), "f2_abs")
                \cup Fails(Near2(Mul(a.F2, uAK), Neg(yAK)), "F2")
                \cup Fails(Near(P2u, Sub(yA1, yAK), <<P2u, yA1, yAK>>), "P2")
                \cup Fails(Near2(Mul(a.f1, vB0), Neg(yBK)), "f1")
                \cup Fails(Near2(Mul(Sub(a.F1, z1), vB0), Neg(yB1)), "F1")
                \cup Fails(Near(P1v, Sub(yBK, yB1), <<P1v, yBK, yB1>>), "P1")
                \cup Fails(Near(N1w, Neg(Add(p1, p2)), <<N1w, p1, p2>>), "N1")
                \cup Fails(Near(N2w, Neg(Add(q1, q2)), <<N2w, q1, q2>>), "N2")
      \* entrance / exit pupil: a ray through the centre of the stop crosses the axis at EPL in
      \* object space and at XPL (measured from the image surface) in image space.  The chief ray
      \* is such a ray when it is finite and obeys the surface relations (whatever its scale);
      \* otherwise the auxiliary ray rP launched towards the reported EPL is used.
      chiefUsable == okC /\ lawC = {} /\ ~Tiny(At(ch.u, 0), ch.u)
      rQ == IF chiefUsable THEN ch ELSE rP
      lawP == IF epInf \/ chiefUsable THEN {} ELSE RayLaws(L, rP, <<"auxP_finite", "auxP_transfer", "auxP_refract">>)
      okP == ~epInf /\ RayFinite(L, rQ) /\ ~Tiny(At(rQ.u, 0), rQ.u)
      pupil ==
        (IF epInf THEN {<<"skip_EPL_infinite", 0>>}
         ELSE IF ~okP THEN {<<"EPL", 0>>}
         ELSE Fails(/\ Near2(Mul(Sub(a.EPL, z1), At(rQ.u, 0)), Neg(At(rQ.y, 1)))
                    /\ Near(At(rQ.y, L.s), Zero, rQ.y), "EPL"))
        \cup
        (IF xpInf THEN {<<"skip_XPL_infinite", 0>>}
         ELSE IF epInf \/ ~okP \/ lawP # {} THEN {<<"skip_XPL_no_ray", 0>>}
         ELSE Fails(/\ Near2(At(rQ.y, K), Neg(Mul(At(rQ.u, K), a.XPL)))
                    /\ Near(At(rQ.y, L.s), Zero, rQ.y), "XPL"))
      epd ==
        CASE L.ap.t = "EPD" -> Fails(Exactly(a.EPD, L.ap.v), "EPD")
          [] L.ap.t = "imageFNO" ->
               (IF afocal THEN {<<"skip_EPD_afocal", 0>>}
                ELSE Fails(Pos(a.EPD) /\ Near2(Sq(Mul(Mul(a.EPD, L.ap.v), uAK)), Sq(yA1)), "EPD"))
          [] L.ap.t = "objectNA" ->
               Fails(Pos(L.ap.tn) /\ Near2(Mul(Sq(L.ap.tn), Sub(Sq(n0), Sq(L.ap.v))), Sq(L.ap.v)), "NA_certificate")
               \cup (IF epInf THEN {<<"skip_EPD_EPL_infinite", 0>>}
                     ELSE Fails(Near2(a.EPD, Mul(Two, Mul(Sub(a.EPL, zo), L.ap.tn))), "EPD"))
      fno ==
        IF L.ap.t = "imageFNO" THEN Fails(Exactly(a.FNO, L.ap.v), "FNO")
        ELSE IF afocal \/ (L.ap.t = "objectNA" /\ epInf) THEN {<<"skip_FNO_afocal", 0>>}
        ELSE Fails(Pos(Mul(a.FNO, a.EPD)) /\ Near2(Sq(Mul(Mul(a.FNO, a.EPD), uAK)), Sq(yA1)), "FNO")
      marginal ==
        IF ~okM THEN {}
        ELSE (IF L.obj.inf
              THEN Fails(Exactly(At(ma.u, 0), Zero) /\ Near2(Mul(Two, At(ma.y, 1)), a.EPD)
                         /\ Exactly(At(ma.y, 0), At(ma.y, 1)), "marginal_launch")
              ELSE IF epInf THEN {<<"skip_marginal_EPL_infinite", 0>>}
              ELSE LET d == Mul(At(ma.u, 0), Sub(a.EPL, z1))
                       t0u == Mul(Sub(z1, zo), At(ma.u, 0))
                   IN Fails(/\ Exactly(At(ma.y, 0), Zero)
                            /\ Near2(At(ma.y, 1), t0u)
                            /\ Near(Mul(Two, Add(At(ma.y, 1), d)), a.EPD, <<At(ma.y, 1), d, a.EPD>>),
                            "marginal_launch"))
             \cup (LET e == Mul(At(ma.u, K), a.XPL)
                   IN IF xpInf THEN {<<"skip_XPD_XPL_infinite", 0>>}
                      ELSE Fails(Near(a.XPD, Mul(Two, Add(At(ma.y, K), e)), <<a.XPD, At(ma.y, K), e>>), "XPD"))
             \cup (IF Tiny(At(ma.u, K), ma.u) THEN {<<"skip_magnification_collimated", 0>>}
                   ELSE Fails(Near2(Mul(a.mag, Mul(nK, At(ma.u, K))), Mul(n0, At(ma.u, 0))), "magnification"))
      chief ==
        IF ~okC THEN {}
        ELSE Fails(Near(At(ch.y, L.s), Zero, ch.y), "chief_stop")
             \cup Fails(Exactly(At(ch.y, 0), At(ch.y, 1)), "chief_launch")
             \cup (IF L.fld.t = "angle" THEN Fails(Near2(At(ch.u, 0), L.fld.v), "chief_field")
                   ELSE LET d == Mul(Sub(z1, zo), At(ch.u, 0))
                        IN Fails(Near(Sub(At(ch.y, 1), d), Neg(L.fld.v), <<At(ch.y, 1), d, L.fld.v>>), "chief_field"))
      lagrange ==
        IF ~okM \/ ~okC THEN {}
        ELSE LET t1 == LagT(L, ma, ch, 1)
                 h1 == Sub(t1[1], t1[2])
             IN {<<"lagrange", k>> : k \in {j \in 2..K : LET tj == LagT(L, ma, ch, j)
                                                        IN ~Near(Sub(tj[1], tj[2]), h1, tj \o t1)}}
                \cup (LET p == Mul(n0, Mul(At(ch.y, 1), At(ma.u, 0)))
                          q == Mul(n0, Mul(At(ma.y, 1), At(ch.u, 0)))
                      IN Fails(Near(a.inv, Sub(p, q), <<p, q>>), "invariant"))
      linear ==       \* X.Lc is the ray launched with (marginal + 2 chief) at surface 1.  Rounding errors
                      \* are carried along a ray, so the scale is the size of the rays, not of the local values
        IF ~okM \/ ~okC \/ ~RayFinite(L, X.Lc) THEN {}
        ELSE {<<"linearity", k>> : k \in {j \in 0..K :
                ~(/\ (j = 0 \/ Near(At(X.Lc.y, j), Add(At(ma.y, j), Mul(Two, At(ch.y, j))), ma.y \o ch.y \o ch.y))
                  /\ Near(At(X.Lc.u, j), Add(At(ma.u, j), Mul(Two, At(ch.u, j))), ma.u \o ch.u \o ch.u))}}
  IN lawA \cup lawB \cup lawM \cup lawC \cup lawP \cup cardinal \cup pupil \cup epd \cup fno
     \cup marginal \cup chief \cup lagrange \cup linear
Skips == {"skip_afocal", "skip_EPL_infinite", "skip_XPL_infinite", "skip_XPL_no_ray", "skip_EPD_afocal",
          "skip_EPD_EPL_infinite", "skip_FNO_afocal", "skip_marginal_EPL_infinite", "skip_XPD_XPL_infinite",
          "skip_magnification_collimated", "skip_marginal_undefined", "skip_chief_undefined"}
Verdict(L, X) == {c \in Judge(L, X) : c[1] \notin Skips}
=============================================================================
